//! D7 (C02): a `sourceFile` header without a value makes the mapper forget the file of the current class, while the cache
//! writer kept the previous one -- mapper and cache answered `remap_frame` with different source files.
use proguard::{ProguardCache, ProguardMapper, ProguardMapping, StackFrame};
fn main() {
    let text = b"a.b.Orig -> x.A:\n# sourceFile: First.java\n# sourceFile\n    1:3:void run():10:12 -> a\n";
    let mapping = ProguardMapping::new(text);
    for r in mapping.iter() {
        println!("{:?}", r);
    }
    let mapper = ProguardMapper::new(mapping.clone());
    let mut buf = Vec::new();
    ProguardCache::write(&mapping, &mut buf).unwrap();
    let cache = ProguardCache::parse(&buf).unwrap();
    let frame = StackFrame::with_file("x.A", "a", 2, "SourceFile");
    let m: Vec<_> = mapper.remap_frame(&frame).collect();
    let c: Vec<_> = cache.remap_frame(&frame).collect();
    println!("mapper: {:?}\ncache : {:?}", m, c);
    assert_eq!(m, c, "mapper and cache disagree on the source file");
    println!("ok");
}
