//! D2 (C13): mapper line arithmetic `original_startline + frame.line - startline` overflows for a huge
//! original start line (line numbers around 2^64 are in C13's input domain).
use proguard::{ProguardMapper, ProguardMapping, StackFrame};
fn main() {
    let mapping = b"a.B -> a:\n    1:5:void m():18446744073709551615:7 -> m\n";
    let mapper = ProguardMapper::new(ProguardMapping::new(mapping));
    let frames: Vec<_> = mapper.remap_frame(&StackFrame::new("a", "m", 3)).collect();
    println!("{:?}", frames);
}
