//! D5 (C06): the JSON sourceFile header value is scanned up to the next `"` without stopping at the line end.
use proguard::{ProguardMapping, ProguardRecord};
fn main() {
    let a: &[u8] = b"# {\"id\":\"sourceFile\",\"fileName\":\"Foo.kt";
    let b: &[u8] = b"x.A -> a:\n    void foo(\"}int) -> f";
    let mut ab = a.to_vec(); ab.push(b'\n'); ab.extend_from_slice(b);
    let ra: Vec<_> = ProguardMapping::new(a).iter().collect();
    let rb: Vec<_> = ProguardMapping::new(b).iter().collect();
    let rab: Vec<_> = ProguardMapping::new(&ab).iter().collect();
    println!("records(A)      = {:?}\nrecords(B)      = {:?}\nrecords(A\\nB) = {:?}", ra, rb, rab);
    for r in &rab {
        if let Ok(ProguardRecord::Header { value: Some(v), .. }) = r {
            assert!(!v.contains('\n'), "header value contains a line terminator: {:?}", v);
        }
    }
    // compare modulo the line terminator that an error item carries along with its offending line
    let norm = |v: &Vec<Result<ProguardRecord, proguard::ParseError>>| -> Vec<String> {
        v.iter().map(|r| match r {
            Ok(rec) => format!("{:?}", rec),
            Err(e) => format!("Err({:?})", String::from_utf8_lossy(e.line()).trim_end_matches(|c| c == '\r' || c == '\n')),
        }).collect()
    };
    let mut expect = norm(&ra); expect.extend(norm(&rb));
    assert_eq!(norm(&rab), expect, "records(A + newline + B) != records(A) ++ records(B)");
    println!("ok");
}
