//! D1 (C03/C02/C09): `members_by_params_offset = members.len()` in ProguardCache::write.
//! Class `a` has an inline group (2 member records, 1 by-params record); class `b`'s by-params range then
//! starts at 1 but is written as 2, so a parameter-based query of class `b` through the cache returns nothing while the
//! mapper answers.
use proguard::{ProguardCache, ProguardMapper, ProguardMapping, StackFrame};
fn main() {
    let text = b"x.A -> a:\n    1:1:void inl():10:10 -> m\n    1:1:void outer():20 -> m\nx.B -> b:\n    void foo(int) -> f\n";
    let mapping = ProguardMapping::new(text);
    let mut buf = Vec::new();
    ProguardCache::write(&mapping, &mut buf).unwrap();
    let cache = ProguardCache::parse(&buf).unwrap();
    let mapper = ProguardMapper::new_with_param_mapping(ProguardMapping::new(text), true);
    let frame = StackFrame::with_parameters("b", "f", "int");
    let a: Vec<_> = mapper.remap_frame(&frame).collect();
    let b: Vec<_> = cache.remap_frame(&frame).collect();
    println!("mapper: {:?}\ncache:  {:?}", a, b);
    assert_eq!(a, b, "cache and mapper disagree on a parameter-based query");
}
