//! D8 (C06): input that ends in line terminators after an error line -- or consists of nothing but line terminators -- yields a
//! phantom error item for an empty line, so the records of A + newline + B are NOT the records of A followed by the records of B
//! (a malformed line that ends in CRLF at the end of the file turns into TWO errors, in the middle of the file into one).
use proguard::ProguardMapping;
fn n(text: &[u8]) -> usize {
    let items: Vec<_> = ProguardMapping::new(text).iter().collect();
    println!("{:?} -> {} item(s): {:?}", String::from_utf8_lossy(text), items.len(), items);
    items.len()
}
fn main() {
    // A = "junk\r", B = "" : records(A + "\n" + B) must be records(A) ++ records(B)
    let a = n(b"junk\r");
    let b = n(b"");
    let x = n(b"junk\r\n");
    // A = "\n" (a blank line), B = a class line
    let a2 = n(b"\n");
    let b2 = n(b"x.Y -> a:");
    let x2 = n(b"\n\nx.Y -> a:");
    assert_eq!(x, a + b, "a CRLF-terminated malformed last line yields an extra item");
    assert_eq!(x2, a2 + b2, "a blank line yields an item of its own only when nothing follows it");
    println!("ok");
}
