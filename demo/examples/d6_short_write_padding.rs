//! D6 (C15): padding is emitted by watto::Writer::align_to with a single unchecked `write`; a sink that accepts
//! fewer bytes than offered (allowed by the io::Write contract) makes ProguardCache::write return Ok with a file whose
//! sections are mis-aligned / truncated.
use proguard::{ProguardCache, ProguardMapping};
use std::io::{self, Write};
struct OneByte(Vec<u8>);
impl Write for OneByte {
    fn write(&mut self, buf: &[u8]) -> io::Result<usize> {
        if buf.is_empty() { return Ok(0); }
        self.0.push(buf[0]);
        Ok(1)
    }
    fn flush(&mut self) -> io::Result<()> { Ok(()) }
}
fn main() {
    // one class (28 bytes => 4 bytes of padding needed after the class section), one member (36 bytes => 4 bytes padding)
    let text = b"x.A -> a:\n    void foo(int) -> f\n";
    let mapping = ProguardMapping::new(text);
    let mut canonical = Vec::new();
    ProguardCache::write(&mapping, &mut canonical).unwrap();
    let mut sink = OneByte(Vec::new());
    let r = ProguardCache::write(&mapping, &mut sink);
    println!("result with 1-byte sink: {:?}; len {} vs canonical {}", r.is_ok(), sink.0.len(), canonical.len());
    assert!(r.is_ok());
    assert_eq!(sink.0, canonical, "write reported success but the accepted bytes are not the canonical serialisation");
}
