//! D3 (C12/C13): cache reader line arithmetic on a record with endline == 0 but an original range.
//! `100:4294967296:` is truncated to (startline 100, endline 0) by the writer's `as u32`; the reader then
//! evaluates 10 + 1 - 100.
use proguard::{ProguardCache, ProguardMapping, StackFrame};
fn main() {
    let mapping = b"a.B -> a:\n    100:4294967296:void m():10:20 -> m\n";
    let mapping = ProguardMapping::new(mapping);
    let mut buf = Vec::new();
    ProguardCache::write(&mapping, &mut buf).unwrap();
    let cache = ProguardCache::parse(&buf).unwrap();
    let frames: Vec<_> = cache.remap_frame(&StackFrame::new("a", "m", 1)).collect();
    println!("{:?}", frames);
}
