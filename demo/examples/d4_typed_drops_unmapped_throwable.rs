//! D4 (C08): remap_stacktrace_typed drops a throwable whose class the mapping does not know.
use proguard::{ProguardCache, ProguardMapper, ProguardMapping, StackFrame, StackTrace, Throwable};
fn main() {
    let text = b"x.A -> a:\n    void foo(int) -> f\n";
    let trace = StackTrace::with_cause(
        Some(Throwable::with_message("java.lang.IllegalStateException", "boom")),
        vec![StackFrame::new("a", "f", 1)],
        StackTrace::new(Some(Throwable::new("java.io.IOException")), vec![]),
    );
    let mapper = ProguardMapper::new(ProguardMapping::new(text));
    let out = mapper.remap_stacktrace_typed(&trace);
    println!("mapper: exception = {:?}, cause exception = {:?}", out.exception(), out.cause().and_then(|c| c.exception().cloned()));
    let mut buf = Vec::new();
    ProguardCache::write(&ProguardMapping::new(text), &mut buf).unwrap();
    let cache = ProguardCache::parse(&buf).unwrap();
    let out2 = cache.remap_stacktrace_typed(&trace);
    println!("cache:  exception = {:?}", out2.exception());
    assert!(out.exception().is_some(), "mapper dropped the unmapped throwable");
    assert!(out2.exception().is_some(), "cache dropped the unmapped throwable");
    assert!(out.cause().unwrap().exception().is_some(), "mapper dropped the unmapped cause throwable");
}
