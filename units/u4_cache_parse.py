"""U4: ProguardCache::parse (src/cache/raw.rs) against the frozen v1 layout / error-kind table (C11, C12, C10).

watto's Pod casts and align_to sit behind R2 shims with an address-aware assumed model (contracts/watto_model.rs).
"""
from vf.unit import Unit
from .common import HEADER, FOOTER, contract, extract_struct, widen


def build():
    u = Unit("u4_cache_parse")
    u.raw(HEADER, "header")
    cm = u.source("src/cache/mod.rs")
    raw = u.source("src/cache/raw.rs")
    k = cm.item("enum", "CacheErrorKind")
    from vf.unit import strip_attrs_and_docs
    strip_attrs_and_docs(k)
    u.emit(k, prefix="#[derive(Clone, Copy)]\n")
    # CacheError: `source: Option<Box<dyn Error + Send + Sync>>` is irrelevant to parse (always None); the field is kept abstract
    u.raw("""#[verifier::external_body]
pub struct ErrSource(Option<Box<dyn std::error::Error + Send + Sync + 'static>>);
""", "glue")
    ce = cm.item("struct", "CacheError")
    strip_attrs_and_docs(ce)
    widen(ce)
    ce.replace("Option<Box<dyn std::error::Error + Send + Sync + 'static>>", "Option<ErrSource>", "R4",
               why="trait-object field type wrapped in an opaque struct (parse only ever stores None)")
    u.emit(ce)
    u.raw("""impl vstd::std_specs::convert::FromSpecImpl<CacheErrorKind> for CacheError {
    open spec fn obeys_from_spec() -> bool { true }
    open spec fn from_spec(kind: CacheErrorKind) -> Self { CacheError { kind, source: None } }
}
""", "glue")
    fr = cm.impl_fn(r"impl From<CacheErrorKind> for CacheError", "from")
    fr.props_all = ["C11"]
    fr.contracted = True
    u.raw(cm.impl_header(r"impl From<CacheErrorKind> for CacheError") + "{\n", "glue")
    u.emit(fr)
    u.raw("}\n", "glue")
    # CacheError::kind: the observation point of the property (what the caller sees of the error)
    kd = cm.impl_fn(r"impl CacheError", "kind")
    kd.ret("ret")
    kd.props_all = ["C11"]
    kd.props_safety = ["C12"]
    kd.contracted = True
    kd.contract("    ensures /*@L:kind_accessor_returns_the_stored_kind:C11*/ ret == self.kind,")
    u.raw(cm.impl_header(r"impl CacheError") + "{\n", "glue")
    u.emit(kd)
    u.raw("}\n", "glue")

    u.raw("pub mod raw {\nuse super::*;\n", "glue")
    for cname in ("PRGCACHE_MAGIC_BYTES", "PRGCACHE_MAGIC", "PRGCACHE_MAGIC_FLIPPED"):
        c = raw.item("const", cname)
        widen(c)
        if not c.orig.startswith("pub"):
            c.replace_span(0, 0, "pub ", "R4", "visibility widening")
        u.raw("#[verifier::external_body] // R4: value pinned by the Kani const-assert harness K2\n", "glue")
        u.emit(c)
    c = raw.item("const", "PRGCACHE_VERSION")
    u.emit(c)
    extract_struct(u, raw, "Header")
    extract_struct(u, raw, "Class")
    extract_struct(u, raw, "Member")
    extract_struct(u, raw, "ProguardCache")
    u.raw("} // mod raw\nuse raw::{ProguardCache, Header, Class, Member, PRGCACHE_MAGIC, PRGCACHE_MAGIC_FLIPPED, PRGCACHE_VERSION};\n", "glue")
    u.raw(contract("watto_model.rs"), "watto_model")

    IMPL = r"impl<'data> ProguardCache<'data>"
    u.raw("impl<'data> ProguardCache<'data> {\n", "glue")
    p = raw.impl_fn(IMPL, "parse")
    p.ret("ret")
    p.props_all = ["C11", "C10", "C12"]
    p.props_safety = ["C12", "C13"]
    p.replace("Header::ref_from_prefix(", "shim_header_ref_from_prefix(", "R2", why="Pod cast behind a shim with the assumed address-aware contract")
    p.replace("Class::slice_from_prefix(", "shim_class_slice_from_prefix(", "R2")
    p.replace("Member::slice_from_prefix(", "shim_member_slice_from_prefix(", "R2", occ=1)
    p.replace("Member::slice_from_prefix(", "shim_member_slice_from_prefix(", "R2", occ=2)
    nq = p.question_let_to_match()
    p.contract("""    ensures
        /*@L:error_kind_is_the_frozen_v1_verdict:C11,C10*/ match ret { Ok(_) => parse_verdict(addr(buf), buf@.len() as nat, h_of(buf)) is None,
                                                                      Err(e) => parse_verdict(addr(buf), buf@.len() as nat, h_of(buf)) == Some(e.kind) },
        /*@L:too_short_or_misaligned_is_error:C11,C12*/ (buf@.len() < 24 || addr(buf) % 4 != 0) ==> ret is Err,
        /*@L:header_verdicts:C11,C10*/ (buf@.len() >= 24 && addr(buf) % 4 == 0 && header_verdict(h_of(buf)) is Some) ==> ret is Err && ret->Err_0.kind == header_verdict(h_of(buf))->0,
        /*@L:accepted_iff_long_enough:C11,C10*/ (buf@.len() >= 24 && addr(buf) % 4 == 0) ==> (ret is Ok <==> accepted(addr(buf), buf@.len() as nat, h_of(buf))),
        /*@L:short_strings_error_kind:C11*/ (buf@.len() >= 24 && addr(buf) % 4 == 0 && header_verdict(h_of(buf)) is None && off_strings(addr(buf), h_of(buf)) <= buf@.len() && buf@.len() < implied_len(addr(buf), h_of(buf)))
                ==> ret is Err && ret->Err_0.kind == (CacheErrorKind::UnexpectedStringBytes { expected: h_of(buf).string_bytes as usize, found: (buf@.len() - off_strings(addr(buf), h_of(buf))) as usize }),
        /*@L:header_is_first_24_bytes:C11,C10*/ ret is Ok ==> *ret->Ok_0.header == h_of(buf),
        /*@L:classes_are_declared_subslice:C11,C10,C12*/ ret is Ok ==> ({ let a = addr(buf); let h = h_of(buf); let c = ret->Ok_0;
                c.classes@ == classes_of(buf@.subrange(off_classes(a) as int, off_classes(a) + 28 * h.num_classes)) && c.classes@.len() == h.num_classes }),
        /*@L:members_are_declared_subslice:C11,C10,C12*/ ret is Ok ==> ({ let a = addr(buf); let h = h_of(buf); let c = ret->Ok_0;
                c.members@ == members_of(buf@.subrange(off_members(a, h) as int, off_members(a, h) + 36 * h.num_members)) && c.members@.len() == h.num_members }),
        /*@L:by_params_are_declared_subslice:C11,C10,C12*/ ret is Ok ==> ({ let a = addr(buf); let h = h_of(buf); let c = ret->Ok_0;
                c.members_by_params@ == members_of(buf@.subrange(off_by_params(a, h) as int, off_by_params(a, h) + 36 * h.num_members_by_params)) && c.members_by_params@.len() == h.num_members_by_params }),
        /*@L:strings_are_the_rest:C11,C10,C12*/ ret is Ok ==> ({ let a = addr(buf); let h = h_of(buf); let c = ret->Ok_0;
                c.string_bytes@ == buf@.subrange(off_strings(a, h) as int, buf@.len() as int) && c.string_bytes@.len() >= h.string_bytes }),""")
    p.body_start("let ghost a = addr(buf); let ghost h = h_of(buf); let ghost len = buf@.len() as int;\n")
    p.after_stmt("let (_, rest) = watto::align_to(", """        let ghost r1 = rest@;
        proof { assert(r1 =~= buf@.subrange(off_classes(a) as int, len)); assert(addr(rest) == a + off_classes(a)); }
""", occ=1)
    p.after_stmt("let (classes, rest) =", """        proof {
            let oc = off_classes(a) as int;
            assert(r1.subrange(0, 28 * h.num_classes) =~= buf@.subrange(oc, oc + 28 * h.num_classes));
            assert(rest@ =~= buf@.subrange(oc + 28 * h.num_classes, len));
        }
""")
    p.after_stmt("let (_, rest) = watto::align_to(", """        let ghost r2 = rest@;
        proof { assert(r2 =~= buf@.subrange(off_members(a, h) as int, len)); assert(addr(rest) == a + off_members(a, h)); }
""", occ=2)
    p.after_stmt("let (members, rest) =", """        proof {
            let om = off_members(a, h) as int;
            assert(r2.subrange(0, 36 * h.num_members) =~= buf@.subrange(om, om + 36 * h.num_members));
            assert(rest@ =~= buf@.subrange(om + 36 * h.num_members, len));
        }
""")
    p.after_stmt("let (_, rest) = watto::align_to(", """        let ghost r3 = rest@;
        proof { assert(r3 =~= buf@.subrange(off_by_params(a, h) as int, len)); assert(addr(rest) == a + off_by_params(a, h)); }
""", occ=3)
    p.after_stmt("let (members_by_params, rest) =", """        proof {
            let ob = off_by_params(a, h) as int;
            assert(r3.subrange(0, 36 * h.num_members_by_params) =~= buf@.subrange(ob, ob + 36 * h.num_members_by_params));
            assert(rest@ =~= buf@.subrange(ob + 36 * h.num_members_by_params, len));
        }
""")
    p.after_stmt("let (_, string_bytes) =", """        proof { assert(string_bytes@ =~= buf@.subrange(off_strings(a, h) as int, len)); }
""")
    u.emit(p)
    u.raw("}\n", "glue")
    u.raw(FOOTER, "footer")
    return u
