"""U18: the value types of stack traces store and return exactly the named parts.

Functions under contract (real text, src/stacktrace.rs): `StackFrame::{new, with_file, with_parameters, class, method, file, line,
parameters}`, `Throwable::{new, with_message, class, message}`, `StackTrace::{new, with_cause, exception, frames}`.
Every one is a one-liner; the contracts are there because a swapped pair of `&str` fields, a wrong default (`line: 0`, `file: None`)
or an accessor returning the neighbouring field still type-checks and would silently change what every query is asked or what it is
seen to answer. `StackTrace::{with_cause, exception, frames}` are covered too. `StackTrace::cause` through a shim for `Option::as_deref`. Not under contract:
`full_method` (format!), the three `try_parse` (from_utf8 + the parsers of unit u15).
"""
from vf.unit import Unit
from .common import HEADER, FOOTER, extract_struct


def build():
    u = Unit("u18_values")
    u.raw(HEADER, "header")
    st = u.source("src/stacktrace.rs")
    extract_struct(u, st, "StackFrame")
    extract_struct(u, st, "Throwable")
    extract_struct(u, st, "StackTrace")

    def simple(impl, name, post, props):
        g = st.impl_fn(impl, name)
        g.ret("ret")
        g.contracted = True
        g.props_all = props
        g.props_safety = ["C13"]
        g.contract("    ensures /*@L:%s_%s:%s*/ %s," % (impl.split()[-1].split("<")[0].lower(), name, ",".join(props), post))
        u.emit(g)
    SF = "impl<'s> StackFrame<'s>"
    u.raw(st.impl_header(SF) + "{\n", "glue")
    simple(SF, "new", "ret.class == class && ret.method == method && ret.line == line && ret.file is None && ret.parameters is None", ["C01", "C08", "C17"])
    simple(SF, "with_file", "ret.class == class && ret.method == method && ret.line == line && ret.file == Some(file) && ret.parameters is None", ["C01", "C08", "C17"])
    simple(SF, "with_parameters", "ret.class == class && ret.method == method && ret.line == 0 && ret.file is None && ret.parameters == Some(arguments)", ["C03"])
    for acc in ("class", "method", "file", "line", "parameters"):
        simple(SF, acc, "ret == self.%s" % acc, ["C01", "C03", "C08", "C17"])
    u.raw("}\n", "glue")
    TH = "impl<'s> Throwable<'s>"
    u.raw(st.impl_header(TH) + "{\n", "glue")
    simple(TH, "new", "ret.class == class && ret.message is None", ["C04", "C08", "C17"])
    simple(TH, "with_message", "ret.class == class && ret.message == Some(message)", ["C04", "C08", "C17"])
    for acc in ("class", "message"):
        simple(TH, acc, "ret == self.%s" % acc, ["C04", "C08", "C17"])
    u.raw("}\n", "glue")
    STI = "impl<'s> StackTrace<'s>"
    u.raw("""#[verifier::external_body]
fn shim_as_deref<'a, T>(o: &'a Option<Box<T>>) -> (r: Option<&'a T>)
    ensures match r { Some(x) => *o is Some && *x == *(*o)->0, None => *o is None }
{ o.as_deref() }
""", "shim")
    u.raw(st.impl_header(STI) + "{\n", "glue")
    simple(STI, "new", "ret.exception == exception && ret.frames == frames && ret.cause is None", ["C08", "C17"])
    simple(STI, "with_cause", "ret.exception == exception && ret.frames == frames && ret.cause is Some && *ret.cause->0 == cause", ["C08", "C17"])
    simple(STI, "exception", "match ret { Some(e) => self.exception == Some(*e), None => self.exception is None }", ["C08", "C17"])
    simple(STI, "frames", "ret@ == self.frames@", ["C08", "C17"])
    # `self.cause.as_deref()`: Option<Box<T>> -> Option<&T> has no vstd specification: behind a shim (R2) whose contract is the std documentation
    g = st.impl_fn(STI, "cause")
    g.ret("ret")
    g.contracted = True
    g.props_all = ["C08", "C17"]
    g.props_safety = ["C13"]
    g.replace_all_re(r"self\.cause\.as_deref\(\)", "shim_as_deref(&self.cause)", "R2", why="Option::as_deref behind a shim (documented contract: the value behind the box, or None)", min_count=1)
    g.contract("    ensures /*@L:stacktrace_cause_is_the_stored_cause:C08,C17*/ match ret { Some(c) => self.cause is Some && *c == *self.cause->0, None => self.cause is None },")
    u.emit(g)
    u.raw("}\n", "glue")
    u.raw(FOOTER, "footer")
    return u
