"""U10: typed stack-trace remapping keeps every element (C08), both copies (mapper.rs and cache/mod.rs).

`remap_stacktrace_typed` is verified as a whole (recursion included). The `frames` fold goes behind a generic shim for
`slice::iter().fold(init, f)` (the chain of accumulators, each step through the closure's own contract); the closure body is an R5
region (`frames-fold-step`, Peekable<RemappedFrameIter> + Vec::extend behind shims) that the closure calls in place (R11), and
`lemma_fold_chain` turns the chain into `ret.frames == remapped_frames(self, trace.frames)`: every frame replaced by all its remapped
frames, or kept unchanged when there is none, in order. `remap_class` / `remap_frame` are abstract here (their own contracts: u1/u2).
"""
from vf.unit import Unit, AnchorLost
from .common import HEADER, FOOTER, contract, extract_struct

CLONE_THROWABLE = """impl<'s> Clone for Throwable<'s> {
    #[verifier::external_body] // stands for the compiler-generated #[derive(Clone)] (assumed: field-wise copy)
    fn clone(&self) -> (r: Self) ensures r == *self { unimplemented!() }
}
"""

MODEL = """
pub open spec fn depth(t: StackTrace) -> nat
    decreases t
{
    match t.cause { Some(c) => 1 + depth(*c), None => 0 }
}
// C08: "every throwable is either remapped or kept unchanged"
pub open spec fn throwable_ok(o: Option<&str>, before: Throwable, after: Throwable) -> bool {
    after.message == before.message && (match o { Some(c) => after.class == c, None => after.class == before.class })
}
// the frames `remap_frame(f)` would yield (its contract is proved in u1/u2; abstract here)
pub uninterp spec fn pending_frames<'x, M>(m: M, f: StackFrame<'x>) -> Seq<StackFrame<'x>>;
pub struct PeekFrames<'a> { pub pending: Ghost<Seq<StackFrame<'a>>> }
#[verifier::external_body]
fn shim_peek_is_some<'a>(p: &mut PeekFrames<'a>) -> (r: bool)
    ensures r == (old(p).pending@.len() > 0), final(p).pending@ == old(p).pending@,
{ unimplemented!() }
#[verifier::external_body]
fn shim_extend_frames<'a>(v: &mut Vec<StackFrame<'a>>, p: PeekFrames<'a>)
    ensures final(v)@ == old(v)@ + p.pending@,
{ unimplemented!() }
// C08: what typed remapping makes of the frames: every frame is replaced by all its remapped frames, or kept unchanged when there is none
pub open spec fn remapped_frames<'x, M>(m: M, fs: Seq<StackFrame<'x>>, n: int) -> Seq<StackFrame<'x>>
    decreases n
{
    if n <= 0 { Seq::empty() }
    else { remapped_frames(m, fs, n - 1) + (if pending_frames(m, fs[n - 1]).len() == 0 { seq![fs[n - 1]] } else { pending_frames(m, fs[n - 1]) }) }
}
pub open spec fn frames_kept<'x, M>(m: M, input: Seq<StackFrame<'x>>, output: Seq<StackFrame<'x>>) -> bool { output == remapped_frames(m, input, input.len() as int) }
pub proof fn lemma_fold_chain<'x, M>(m: M, fs: Seq<StackFrame<'x>>, accs: Seq<Vec<StackFrame<'x>>>, n: int)
    requires 0 <= n <= fs.len(), accs.len() == fs.len() + 1, accs[0]@ == Seq::<StackFrame<'x>>::empty(),
        forall|i: int| 0 <= i < fs.len() ==> #[trigger] accs[i + 1]@ == accs[i]@ + (if pending_frames(m, fs[i]).len() == 0 { seq![fs[i]] } else { pending_frames(m, fs[i]) }),
    ensures accs[n]@ == remapped_frames(m, fs, n),
    decreases n
{
    if n > 0 { lemma_fold_chain(m, fs, accs, n - 1); assert(accs[(n - 1) + 1]@ == accs[n - 1]@ + (if pending_frames(m, fs[n - 1]).len() == 0 { seq![fs[n - 1]] } else { pending_frames(m, fs[n - 1]) })); }
}
// `slice.iter().fold(init, f)`: the chain of accumulators (ASSUMED: std restated; the closure carries its own contract)
#[verifier::external_body]
fn shim_slice_iter_fold<T, B, F: FnMut(B, &T) -> B>(s: &Vec<T>, init: B, f: F) -> (r: B)
    requires forall|b: B, x: &T| #[trigger] f.requires((b, x)),
    ensures exists|accs: Seq<B>| accs.len() == s@.len() + 1 && accs[0] == init && r == accs[s@.len() as int]
        && (forall|i: int| 0 <= i < s@.len() ==> f.ensures((#[trigger] accs[i], &s@[i]), accs[i + 1])),
{ s.iter().fold(init, f) }

"""


def build(which="mapper"):
    u = Unit("u10_typed_trace." + which)
    u.raw(HEADER, "header")
    u.raw(contract("std_specs.rs"), "std_specs")
    st = u.source("src/stacktrace.rs")
    extract_struct(u, st, "StackFrame")
    extract_struct(u, st, "Throwable")
    extract_struct(u, st, "StackTrace")
    u.raw(CLONE_THROWABLE, "glue")
    # the constructors of the value types (contracts proved on the same text in unit u18): code under contract here may call them
    for _impl, _fns in (("impl<'s> Throwable<'s>", (("new", "ret.class == class && ret.message is None"), ("with_message", "ret.class == class && ret.message == Some(message)"))),
                        ("impl<'s> StackFrame<'s>", (("new", "ret.class == class && ret.method == method && ret.line == line && ret.file is None && ret.parameters is None"),))):
        u.raw(st.impl_header(_impl) + "{\n", "glue")
        for _nm, _post in _fns:
            _g = st.impl_fn(_impl, _nm)
            _g.ret("ret")
            _g.contracted = True
            _g.props_all = ["C08"]
            _g.contract("    ensures %s," % _post)
            u.emit(_g)
        u.raw("}\n", "glue")
    from .common import CLONE_STACKFRAME
    u.raw(CLONE_STACKFRAME, "glue")
    u.raw(MODEL, "model")
    if which == "mapper":
        src = u.source("src/mapper.rs")
        IMPL = r"impl<'s> ProguardMapper<'s>"
        ty = "ProguardMapper"
        from .common import extract_struct_priv
        u.raw("use std::collections::HashMap;\n", "glue")
        for nm in ("MemberMapping", "ClassMembers", "ClassMapping", "ProguardMapper"):
            extract_struct_priv(u, src, nm)
        ty_it = src.item("type", "MemberIter")
        u.emit(ty_it)
        extract_struct_priv(u, src, "RemappedFrameIter")
        u.raw("pub uninterp spec fn iter_pending<'x>(it: RemappedFrameIter<'x>) -> Seq<StackFrame<'x>>;\n", "glue")
    else:
        src = u.source("src/cache/mod.rs")
        IMPL = r"impl<'data> ProguardCache<'data>"
        ty = "ProguardCache"
        u.raw("pub struct ProguardCache<'data> { pub opaque: &'data str }\n", "glue")
        u.raw("pub struct RemappedFrameIter<'r, 'data> { pub opaque: &'r &'data str }\npub uninterp spec fn iter_pending<'r, 'x>(it: RemappedFrameIter<'r, 'x>) -> Seq<StackFrame<'x>>;\n", "glue")
    itty = "RemappedFrameIter<'a>" if which == "mapper" else "RemappedFrameIter<'r, 'a>"
    gen = "<'a>" if which == "mapper" else "<'r, 'a>"
    u.raw("""#[verifier::external_body]
fn shim_peekable%s(it: %s) -> (r: PeekFrames<'a>)
    ensures r.pending@ == iter_pending(it),
{ unimplemented!() /* it.peekable() */ }
#[verifier::external_body]
fn shim_extend_iter%s(v: &mut Vec<StackFrame<'a>>, it: %s)
    ensures final(v)@ == old(v)@ + iter_pending(it),
{ unimplemented!() /* v.extend(it) */ }
""" % (gen, itty, gen, itty), "glue")
    u.raw("pub uninterp spec fn spec_remap_class<'x>(m: %s, class: Seq<char>) -> Option<&'x str>;\n" % ty, "glue")
    u.raw("""// C08 for the WHOLE trace: the result relates to the input level by level down the cause chain -- exception present iff it was, remapped or kept;
// frames exactly remapped_frames; a cause iff there was one, related in the same way
pub open spec fn typed_rel<'x>(m: %s, t: StackTrace<'x>, r: StackTrace<'x>) -> bool
    decreases t
{
    &&& (r.exception is Some) == (t.exception is Some)
    &&& (t.exception is Some ==> throwable_ok(spec_remap_class(m, t.exception->0.class@), t.exception->0, r.exception->0))
    &&& frames_kept(m, t.frames@, r.frames@)
    &&& match t.cause { Some(tc) => r.cause is Some && typed_rel(m, *tc, *r.cause->0), None => r.cause is None }
}
""" % ty, "model (whole-trace relation)")
    u.raw(src.impl_header(IMPL) + "{\n", "glue")

    rc = src.impl_fn(IMPL, "remap_class")
    rc.ret("ret")
    rc.contract("    ensures ret == spec_remap_class(*self, class@),")
    rc.drop_body("remap_class is proved in unit u1/u2; here only its signature is used, with an abstract result")
    u.raw("#[verifier::external_body]\n", "glue")
    u.emit(rc)

    rt = src.impl_fn(IMPL, "remap_throwable")
    rt.ret("ret")
    rt.props_all = ["C08"]
    rt.props_safety = ["C13" if which == "mapper" else "C12"]
    rt.closure("|class|", params="|class: &'a str|", ret="r: Throwable<'a>",
               spec="ensures r.class == class && r.message == throwable.message")
    rt.contract("""    ensures
        /*@L:throwable_remap:C08*/ match ret {
            Some(t) => spec_remap_class(*self, throwable.class@) is Some && throwable_ok(spec_remap_class(*self, throwable.class@), *throwable, t),
            None => spec_remap_class(*self, throwable.class@) is None,
        },""")
    u.emit(rt)

    # the fold over frames: assumed shim (R2), body = the replaced expression
    rfm = src.impl_fn(IMPL, "remap_frame")
    rfm.ret("ret")
    rfm.contract("    ensures iter_pending(ret) == pending_frames(*self, *frame),")
    rfm.drop_body("remap_frame and the iterator it returns are proved in unit u1/u2; here: signature only, frames it will yield are abstract")
    u.raw("    #[verifier::external_body]\n", "glue")
    u.emit(rfm)
    f = src.impl_fn(IMPL, "remap_stacktrace_typed")
    f.ret("ret")
    f.props_all = ["C08"]
    f.props_safety = ["C13" if which == "mapper" else "C12"]
    import re
    from vf.rustlex import match_close as _mc
    mfold = re.search(r"(trace\s*\.frames)\s*\.iter\(\)\s*\.fold\(", f.orig)
    mclo = re.search(r"\|mut (\w+), (\w+)\|\s*\{", f.orig)
    if not (mfold and mclo) or mclo.start() < mfold.end():
        raise AnchorLost("remap_stacktrace_typed: `trace.frames.iter().fold(INIT, |mut frames, f| { .. })` not found")
    _toks = f._toks()
    _i = next(ix for ix, t in enumerate(_toks) if t[1] == mclo.end() - 1)
    _c = _toks[_mc(f.orig, _toks, _i)][1]
    acc, fr = mclo.group(1), mclo.group(2)
    f.replace_span(mfold.start(), mfold.end(), "shim_slice_iter_fold(&%s, " % re.sub(r"\s+", "", mfold.group(1)), "R2",
                   "slice::iter().fold(init, f) behind a shim: the chain of accumulators, each step through the closure's own contract (assumed: std restated)")
    # R11: the closure body is replaced by a call of the region function generated from that very text below; R3: closure contract = the region's contract
    f.replace_span(mclo.start(), _c + 1, """|%(acc)s: Vec<StackFrame<'a>>, %(fr)s: &StackFrame<'a>| -> (r: Vec<StackFrame<'a>>)
                    ensures r@ == %(acc)s@ + (if pending_frames(*self, *%(fr)s).len() == 0 { seq![*%(fr)s] } else { pending_frames(*self, *%(fr)s) })
                    { let ghost f0_ = %(acc)s@; let r_ = self.region_frames_fold_step(%(acc)s, %(fr)s); proof { assert(f0_.push(*%(fr)s) =~= f0_ + seq![*%(fr)s]); } r_ }""" % dict(acc=acc, fr=fr), "R11",
                   "closure body => call of the region function that is verified from this very text (same contract)")
    mlet = re.search(r"let\s+(\w+)\s*=\s*trace\s*\.frames", f.orig)
    if not mlet:
        raise AnchorLost("remap_stacktrace_typed: `let frames = trace.frames..` not found")
    se = f.stmt_extent(mlet.start())[1]
    f.insert_at(se, """
        proof {
            let accs = choose|accs: Seq<Vec<StackFrame<'a>>>| accs.len() == trace.frames@.len() + 1 && accs[0]@ == Seq::<StackFrame<'a>>::empty() && %(v)s == accs[trace.frames@.len() as int]
                && (forall|i: int| 0 <= i < trace.frames@.len() ==> #[trigger] accs[i + 1]@ == accs[i]@ + (if pending_frames(*self, trace.frames@[i]).len() == 0 { seq![trace.frames@[i]] } else { pending_frames(*self, trace.frames@[i]) }));
            lemma_fold_chain(*self, trace.frames@, accs, trace.frames@.len() as int);
        }""" % dict(v=mlet.group(1)))
    if re.search(r"\.and_then\(\s*\|t\|\s*self\.remap_throwable\(t\)\s*\)", f.orig):
        # shape of the pinned snapshot (finding D4): the closure returns remap_throwable's Option unchanged
        f.closure("|t|", params="|t: &Throwable<'a>|", ret="r: Option<Throwable<'a>>",
                  spec="ensures match r { Some(x) => spec_remap_class(*self, t.class@) is Some && throwable_ok(spec_remap_class(*self, t.class@), *t, x), None => spec_remap_class(*self, t.class@) is None }")
    else:
        f.closure("|t|", params="|t: &Throwable<'a>|", ret="r: Throwable<'a>",
                  spec="ensures throwable_ok(spec_remap_class(*self, t.class@), *t, r)")
        f.closure("||", params="||", ret="r: Throwable<'a>", spec="ensures r == *t")
    f.closure("|c|", params="|c: &Box<StackTrace<'a>>|", ret="r: Box<StackTrace<'a>>",
              spec="requires depth(**c) < depth(*trace) ensures depth(*r) == depth(**c), typed_rel(*self, **c, *r)")
    f.contract("""    ensures
        /*@L:result_is_the_typed_remap_of_every_level_of_the_cause_chain:C08*/ typed_rel(*self, *trace, ret),
        /*@L:exception_kept:C08*/ (ret.exception is Some) == (trace.exception is Some),
        /*@L:exception_remapped_or_same:C08*/ trace.exception is Some ==> throwable_ok(spec_remap_class(*self, trace.exception->0.class@), trace.exception->0, ret.exception->0),
        /*@L:frames_kept:C08*/ frames_kept(*self, trace.frames@, ret.frames@),
        /*@L:cause_depth_kept:C08*/ depth(ret) == depth(*trace),
    decreases depth(*trace),""")
    u.emit(f)
    # ---------------- the body of the frames fold closure as an R5 region ----------------
    # `|mut frames, f| { let mut peek_frames = self.remap_frame(f).peekable(); if peek_frames.peek().is_some() { frames.extend(peek_frames); } else { frames.push(f.clone()); } frames }`
    import re
    from vf.unit import Fragment
    fsrc = src.impl_fn(IMPL, "remap_stacktrace_typed")
    mcl = re.search(r"\|mut frames, f\|\s*\{", fsrc.orig)
    if not mcl:
        raise AnchorLost("remap_stacktrace_typed: fold closure `|mut frames, f| {` not found")
    toks = fsrc._toks()
    from vf.rustlex import match_close
    i = next(ix for ix, t in enumerate(toks) if t[1] == mcl.end() - 1)
    c = toks[match_close(fsrc.orig, toks, i)][1]
    inner = fsrc.orig[mcl.end():c]
    a0 = mcl.end() + (len(inner) - len(inner.lstrip()))
    b0 = mcl.end() + len(inner.rstrip())
    rg = Fragment(u, fsrc.file, src.src, fsrc.start + a0, fsrc.start + b0, "region", "frames-fold-step")
    rg.qualname = "%s[frames-fold-step]" % fsrc.qualname
    rg.contracted = True
    rg.props_all = ["C08"]
    rg.props_safety = ["C13" if which == "mapper" else "C12"]
    rg.replace_all_re(r"(self\.remap_frame\(\w+\))\.peekable\(\)", r"shim_peekable(\1)", "R2",
                      why="RemappedFrameIter (verified in u1/u2) wrapped in Peekable: behind a shim that exposes the pending frames as a ghost sequence", min_count=0)
    rg.replace_all_re(r"peek_frames\.peek\(\)\.is_some\(\)", "shim_peek_is_some(&mut peek_frames)", "R2", why="Peekable::peek().is_some() == the iterator has a pending item", min_count=0)
    rg.replace_all_re(r"peek_frames\.peek\(\)\.is_none\(\)", "!shim_peek_is_some(&mut peek_frames)", "R2", why="Peekable::peek().is_none() == the iterator has no pending item", min_count=0)
    rg.replace_all_re(r"frames\.extend\(peek_frames\);", "shim_extend_frames(&mut frames, peek_frames);", "R2", why="Vec::extend(iterator) appends the pending items in order", min_count=0)
    rg.replace_all_re(r"frames\.extend\((self\.remap_frame\(\w+\))\);", r"shim_extend_iter(&mut frames, \1);", "R2", why="Vec::extend(iterator) appends the pending items in order", min_count=0)
    u.emit(rg, prefix="""    fn region_frames_fold_step<'a>(&'a self, frames: Vec<StackFrame<'a>>, f: &StackFrame<'a>) -> (ret: Vec<StackFrame<'a>>)
        ensures
            /*@L:every_frame_contributes_its_remapped_frames_or_itself:C08*/ ret@.len() >= frames@.len() + 1 && ret@.subrange(0, frames@.len() as int) == frames@,
            /*@L:unresolved_frame_is_kept_unchanged:C08*/ pending_frames(*self, *f).len() == 0 ==> ret@ == frames@.push(*f),
            /*@L:resolved_frame_is_replaced_by_all_its_remapped_frames:C08*/ pending_frames(*self, *f).len() > 0 ==> ret@ == frames@ + pending_frames(*self, *f),
    {
        let mut frames = frames;
""", suffix="\n    }\n")
    u.raw("}\n", "glue")
    u.raw(FOOTER, "footer")
    return u
