"""U10: typed stack-trace remapping keeps every element (C08), both copies (mapper.rs and cache/mod.rs).

`remap_stacktrace_typed` is verified as a whole (recursion included); the `frames` fold -- a closure over
Peekable<RemappedFrameIter> + Vec::extend -- is outside Verus' reach and sits behind an R2 shim whose body is exactly that
expression and whose contract (`every input frame contributes >= 1 output frame`) is ASSUMED.  `remap_class` is abstract
here (its own contract is proved in u1/u2).
"""
from vf.unit import Unit
from .common import HEADER, FOOTER, contract, extract_struct

CLONE_THROWABLE = """impl<'s> Clone for Throwable<'s> {
    #[verifier::external_body] // stands for the compiler-generated #[derive(Clone)] (assumed: field-wise copy)
    fn clone(&self) -> (r: Self) ensures r == *self { unimplemented!() }
}
"""

MODEL = """
pub open spec fn depth(t: StackTrace) -> nat
    decreases t
{
    match t.cause { Some(c) => 1 + depth(*c), None => 0 }
}
// C08: "every throwable is either remapped or kept unchanged"
pub open spec fn throwable_ok(o: Option<&str>, before: Throwable, after: Throwable) -> bool {
    after.message == before.message && (match o { Some(c) => after.class == c, None => after.class == before.class })
}
// what the (assumed) fold over the frames guarantees: nothing is dropped
pub uninterp spec fn frames_kept(input: Seq<StackFrame>, output: Seq<StackFrame>) -> bool;

"""


def build(which="mapper"):
    u = Unit("u10_typed_trace." + which)
    u.raw(HEADER, "header")
    u.raw(contract("std_specs.rs"), "std_specs")
    st = u.source("src/stacktrace.rs")
    extract_struct(u, st, "StackFrame")
    extract_struct(u, st, "Throwable")
    extract_struct(u, st, "StackTrace")
    u.raw(CLONE_THROWABLE, "glue")
    u.raw(MODEL, "model")
    if which == "mapper":
        src = u.source("src/mapper.rs")
        IMPL = r"impl<'s> ProguardMapper<'s>"
        ty = "ProguardMapper"
        u.raw("pub struct ProguardMapper<'s> { pub opaque: &'s str }\n", "glue")
        selfref = "&'s self"
    else:
        src = u.source("src/cache/mod.rs")
        IMPL = r"impl<'data> ProguardCache<'data>"
        ty = "ProguardCache"
        u.raw("pub struct ProguardCache<'data> { pub opaque: &'data str }\n", "glue")
    u.raw("pub uninterp spec fn spec_remap_class<'x>(m: %s, class: Seq<char>) -> Option<&'x str>;\n" % ty, "glue")
    u.raw(src.impl_header(IMPL) + "{\n", "glue")

    rc = src.impl_fn(IMPL, "remap_class")
    rc.ret("ret")
    rc.contract("    ensures ret == spec_remap_class(*self, class@),")
    rc.drop_body("remap_class is proved in unit u1/u2; here only its signature is used, with an abstract result")
    u.raw("#[verifier::external_body]\n", "glue")
    u.emit(rc)

    rt = src.impl_fn(IMPL, "remap_throwable")
    rt.ret("ret")
    rt.props_all = ["C08"]
    rt.props_safety = ["C13" if which == "mapper" else "C12"]
    rt.closure("|class|", params="|class: &'a str|", ret="r: Throwable<'a>",
               spec="ensures r.class == class && r.message == throwable.message")
    rt.contract("""    ensures
        /*@L:throwable_remap:C08*/ match ret {
            Some(t) => spec_remap_class(*self, throwable.class@) is Some && throwable_ok(spec_remap_class(*self, throwable.class@), *throwable, t),
            None => spec_remap_class(*self, throwable.class@) is None,
        },""")
    u.emit(rt)

    # the fold over frames: assumed shim (R2), body = the replaced expression
    u.raw("""    #[verifier::external_body]
    fn shim_fold_frames<'a>(&'a self, trace: &StackTrace<'a>) -> (frames: Vec<StackFrame<'a>>)
        ensures frames_kept(trace.frames@, frames@),
    { unimplemented!() /* body in /repo: trace.frames.iter().fold(Vec::with_capacity(..), |mut frames, f| { .. }) */ }
""", "glue")

    f = src.impl_fn(IMPL, "remap_stacktrace_typed")
    f.ret("ret")
    f.props_all = ["C08"]
    f.props_safety = ["C13" if which == "mapper" else "C12"]
    f.replace_call("trace .frames .iter() .fold", "self.shim_fold_frames(trace)", "R2",
                   why="fold closure over Peekable<RemappedFrameIter> + Vec::extend is outside Verus' reach; assumed contract frames_kept")
    import re
    if re.search(r"\.and_then\(\s*\|t\|\s*self\.remap_throwable\(t\)\s*\)", f.orig):
        # shape of the pinned snapshot (finding D4): the closure returns remap_throwable's Option unchanged
        f.closure("|t|", params="|t: &Throwable<'a>|", ret="r: Option<Throwable<'a>>",
                  spec="ensures match r { Some(x) => spec_remap_class(*self, t.class@) is Some && throwable_ok(spec_remap_class(*self, t.class@), *t, x), None => spec_remap_class(*self, t.class@) is None }")
    else:
        f.closure("|t|", params="|t: &Throwable<'a>|", ret="r: Throwable<'a>",
                  spec="ensures throwable_ok(spec_remap_class(*self, t.class@), *t, r)")
        f.closure("||", params="||", ret="r: Throwable<'a>", spec="ensures r == *t")
    f.closure("|c|", params="|c: &Box<StackTrace<'a>>|", ret="r: Box<StackTrace<'a>>",
              spec="requires depth(**c) < depth(*trace) ensures depth(*r) == depth(**c)")
    f.contract("""    ensures
        /*@L:exception_kept:C08*/ (ret.exception is Some) == (trace.exception is Some),
        /*@L:exception_remapped_or_same:C08*/ trace.exception is Some ==> throwable_ok(spec_remap_class(*self, trace.exception->0.class@), trace.exception->0, ret.exception->0),
        /*@L:frames_kept:C08*/ frames_kept(trace.frames@, ret.frames@),
        /*@L:cause_depth_kept:C08*/ depth(ret) == depth(*trace),
    decreases depth(*trace),""")
    u.emit(f)
    u.raw("}\n", "glue")
    u.raw(FOOTER, "footer")
    return u
