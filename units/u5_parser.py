"""U5: the mapping-line parser (src/mapping.rs) under contract: totality, progress, line-boundary discipline (C06, C13) and the
class / header / member grammar (C05)."""
import re
from vf.unit import Unit, AnchorLost, strip_attrs_and_docs
from .common import label_helper_lemmas, HEADER, FOOTER, contract, extract_struct, extract_struct_priv

# spec text of a byte-predicate closure body: exec helper calls become their spec functions, byte literals stay
SPEC_MAP = [(r"is_newline\((\w+)\)", r"spec_is_newline(*\1)"), (r"shim_byte_is_numeric\(\*(\w+)\)", r"spec_byte_is_numeric(*\1)"),
            (r"\(\*(\w+) as char\)\.is_numeric\(\)", r"spec_byte_is_numeric(*\1)"), (r"\(\*(\w+) as char\)\.is_whitespace\(\)", r"spec_byte_is_whitespace(*\1)")]


def wrap_scans(f, kind_by_var):
    """R12: in every `let (VAR, bytes) = parse_until_no_newline(bytes, CLOSURE)` the closure argument is wrapped in the identity
    function `as_kind(CLOSURE, Ghost(K))`, K = the byte class the grammar prescribes for VAR. Returns the wrapped variable names."""
    from vf.rustlex import match_close
    done = []
    toks = f._toks()
    for m in re.finditer(r"let\s+\((\w+),\s*\w+\)\s*=\s*(parse_until_no_newline|parse_until)\(\s*\w+\s*,\s*(?=\|)", f.orig):
        var = m.group(1)
        if var not in kind_by_var:
            if m.group(2) == "parse_until":
                continue
            raise AnchorLost("%s: scan into a component `%s` the grammar does not know" % (f.name, var))
        # the `(` of the call
        po = f.orig.index("(", f.orig.index(m.group(2), m.start()))
        i = next(ix for ix, t in enumerate(toks) if t[1] == po)
        c = toks[match_close(f.orig, toks, i)][1]
        # a line-bounded scan is wrapped as `as_kind`, a plain scan must itself stop at line ends: `as_exact`
        f.insert_at(m.end(), "as_kind(" if m.group(2) == "parse_until_no_newline" else "as_exact(", prio=10 ** 9)
        f.insert_at(c, ", Ghost(%d))" % kind_by_var[var])
        f.rewrites.append({"rule": "R12", "site": "%s:%d" % (f.file, f.line_of_rel(m.end())), "before": f.orig[m.end():c], "after": "as_kind(.., Ghost(%d))" % kind_by_var[var],
                           "why": "closure argument wrapped in an identity function that carries the obligation `this closure is byte class %d`" % kind_by_var[var]})
        done.append(var)
    return done


def char_class_shims(f):
    """`(*c as char).is_whitespace()` => `shim_byte_is_whitespace(*c)` (R2; table validated natively like is_numeric); any number of occurrences"""
    f.replace_all_re(r"\(\*(\w+) as char\)\.is_whitespace\(\)", r"shim_byte_is_whitespace(*\1)", "R2",
                     why="char::is_whitespace on a byte cast to char behind a shim (Latin-1 table validated natively)", min_count=0)

PRIMS = """
// ---- contracts of the scanning primitives: positive, relational facts about the (closure) predicate ----
pub open spec fn callable<P: Fn(&u8) -> bool>(p: P) -> bool { forall|b: &u8| #[trigger] p.requires((b,)) }
// k is the first position where p answers true (or the length if it never does)
#[verifier::opaque]
pub open spec fn first_hit<P: Fn(&u8) -> bool>(b: Seq<u8>, p: P, k: int) -> bool {
    0 <= k <= b.len() && (forall|j: int| 0 <= j < k ==> p.ensures((&#[trigger] b[j],), false)) && (k < b.len() ==> p.ensures((&b[k],), true))
}
// the bytes before the cut of a line-bounded scan: no line end, no hit
#[verifier::opaque]
pub open spec fn scan_facts<P: Fn(&u8) -> bool>(b: Seq<u8>, p: P, k: int) -> bool {
    forall|j: int| 0 <= j < k ==> !spec_is_newline(#[trigger] b[j]) && p.ensures((&b[j],), false)
}
// the bytes before the cut of a number scan are digits
#[verifier::opaque]
pub open spec fn digit_run(b: Seq<u8>, k: int) -> bool { forall|j: int| 0 <= j < k ==> spec_byte_is_numeric(#[trigger] b[j]) }
// the raw (position-level) contracts of the primitives, hidden from the callers that only need the grammar-level facts
#[verifier::opaque]
pub open spec fn prefix_raw(bytes: Seq<u8>, prefix: Seq<u8>, ret: Result<&[u8], ParseError>) -> bool {
    match ret {
        Ok(rest) => prefix.len() <= bytes.len() && bytes.subrange(0, prefix.len() as int) == prefix && rest@ == bytes.subrange(prefix.len() as int, bytes.len() as int),
        Err(e) => !(prefix.len() <= bytes.len() && bytes.subrange(0, prefix.len() as int) == prefix) && e.line@ == bytes,
    }
}
#[verifier::opaque]
pub open spec fn scan_raw<P: Fn(&u8) -> bool>(bytes: Seq<u8>, predicate: P, ret: Result<(&str, &[u8]), ParseError>) -> bool {
    let k = cut_of(ret); 0 <= k <= bytes.len()
        && scan_facts(bytes, predicate, k)
        && match ret {
            Ok((s, rest)) => valid_utf8(bytes.subrange(0, k)) && str_bytes(s) == bytes.subrange(0, k) && rest@ == bytes.subrange(k, bytes.len() as int)
                && (k < bytes.len() ==> !spec_is_newline(bytes[k]) && predicate.ensures((&bytes[k],), true)),
            Err(e) => (!valid_utf8(bytes.subrange(0, k)) || (k < bytes.len() && spec_is_newline(bytes[k]))) && e.line@ == bytes.subrange(0, k)
                // an error, too, is raised at the stop position: end of input, a line terminator or a hit
                && (k == bytes.len() || spec_is_newline(bytes[k]) || predicate.ensures((&bytes[k],), true)),
        }
}
#[verifier::opaque]
pub open spec fn num_raw(bytes: Seq<u8>, ret: Result<(usize, &[u8]), ParseError>) -> bool {
    let k = match ret { Ok((_, rest)) => bytes.len() - rest@.len(), Err(e) => e.line@.len() as int };
    0 <= k <= bytes.len()
        && digit_run(bytes, k) && (k < bytes.len() ==> !spec_byte_is_numeric(bytes[k]))
        && match ret {
            Ok((v, rest)) => rest@ == bytes.subrange(k, bytes.len() as int) && valid_utf8(bytes.subrange(0, k)) && spec_parse_usize(bytes.subrange(0, k)) == Some(v),
            Err(e) => e.line@ == bytes.subrange(0, k) && (!valid_utf8(bytes.subrange(0, k)) || spec_parse_usize(bytes.subrange(0, k)) is None),
        }
}
// the stop predicate `p` of a scan is the byte class `kind` of the grammar (line ends always stop a scan)
pub open spec fn kind_of<P: Fn(&u8) -> bool>(p: P, kind: int) -> bool {
    forall|c: u8| (spec_is_newline(c) ==> #[trigger] in_set(kind, c)) && (p.ensures((&c,), true) ==> in_set(kind, c))
        && (p.ensures((&c,), false) && !spec_is_newline(c) ==> !in_set(kind, c))
}
// the stop predicate `p` of a plain `parse_until` is exactly the byte class `kind`
pub open spec fn kind_exact<P: Fn(&u8) -> bool>(p: P, kind: int) -> bool {
    forall|c: u8| (p.ensures((&c,), true) ==> #[trigger] in_set(kind, c)) && (p.ensures((&c,), false) ==> !in_set(kind, c))
}
fn as_exact<P: Fn(&u8) -> bool>(p: P, Ghost(kind): Ghost<int>) -> (r: P)
    requires /*@L:stop_predicate_is_the_byte_class_of_this_grammar_position:C05,C06*/ kind_exact(p, kind),
    ensures r == p, kind_exact(r, kind),
{ p }
// R12: identity function wrapped around the closure argument of a scan: it carries the proof obligation "this closure is byte class
// `kind`" to the call site (where the closure's body is known) and makes the term `kind_of(p, kind)` available to the callee's contract
fn as_kind<P: Fn(&u8) -> bool>(p: P, Ghost(kind): Ghost<int>) -> (r: P)
    requires /*@L:stop_predicate_is_the_byte_class_of_this_grammar_position:C05,C06*/ kind_of(p, kind),
    ensures r == p, kind_of(r, kind),
{ p }
// the split position is recoverable from the result: length of the yielded string (Ok) / of the offending slice (Err)
pub open spec fn cut_of(ret: Result<(&str, &[u8]), ParseError>) -> int {
    match ret { Ok((s, _)) => str_bytes(s).len() as int, Err(e) => e.line@.len() as int }
}
// summary used by the record parsers: `after` is a suffix of `before` and the consumed bytes contain no line terminator
#[verifier::opaque]
pub open spec fn consumed_clean(before: Seq<u8>, after: Seq<u8>) -> bool {
    after.len() <= before.len() && after == before.subrange(before.len() - after.len(), before.len() as int)
    && (forall|j: int| 0 <= j < before.len() - after.len() ==> !spec_is_newline(#[trigger] before[j]))
}
pub proof fn lemma_consumed_intro(before: Seq<u8>, after: Seq<u8>, n: int)
    requires 0 <= n <= before.len(), after == before.subrange(n, before.len() as int), forall|j: int| 0 <= j < n ==> !spec_is_newline(#[trigger] before[j]),
    ensures consumed_clean(before, after),
{ reveal(consumed_clean); }
pub proof fn lemma_consumed_refl(b: Seq<u8>)
    ensures consumed_clean(b, b),
{ reveal(consumed_clean); assert(b.subrange(0, b.len() as int) =~= b); }
pub proof fn lemma_consumed_trans(a: Seq<u8>, b: Seq<u8>, c: Seq<u8>)
    requires consumed_clean(a, b), consumed_clean(b, c),
    ensures consumed_clean(a, c),
{
    reveal(consumed_clean);
    let n1 = a.len() - b.len(); let n2 = b.len() - c.len();
    assert(c =~= a.subrange(n1 + n2, a.len() as int));
    assert forall|j: int| 0 <= j < n1 + n2 implies !spec_is_newline(#[trigger] a[j]) by { if j >= n1 { assert(a[j] == b[j - n1]); } }
}
pub proof fn lemma_consumed_taken(b0: Seq<u8>, cur: Seq<u8>)
    requires consumed_clean(b0, cur), cur.len() < b0.len(),
    ensures taken_within_first_line(b0, skip_nl(cur)),
{
    reveal(consumed_clean);
    let k = b0.len() - cur.len();
    assert forall|j: int| 0 <= j < k implies !spec_is_newline(#[trigger] b0.subrange(0, k)[j]) by { assert(b0.subrange(0, k)[j] == b0[j]); }
    assert(no_nl(b0.subrange(0, k)));
}
#[verifier::opaque]
pub open spec fn split_ok(b: Seq<u8>, k: int, ret: Result<(&str, &[u8]), ParseError>) -> bool {
    match ret {
        Ok((s, rest)) => valid_utf8(b.subrange(0, k)) && str_bytes(s) == b.subrange(0, k) && rest@ == b.subrange(k, b.len() as int),
        Err(e) => !valid_utf8(b.subrange(0, k)) && e.line@ == b.subrange(0, k),
    }
}
"""


ITEM_SPEC = r"""
// ======== C06: the complete reference parser of one item, as a function of the bytes ========
// the content of a record (strings as bytes: the record itself borrows from the input, its content is what a caller can observe)
pub struct ALm { pub start: usize, pub end: usize, pub ostart: Option<usize>, pub oend: Option<usize> }
pub enum ARec {
    Header { key: Seq<u8>, value: Option<Seq<u8>> },
    Class { original: Seq<u8>, obfuscated: Seq<u8> },
    Field { ty: Seq<u8>, original: Seq<u8>, obfuscated: Seq<u8> },
    Method { ty: Seq<u8>, original: Seq<u8>, obfuscated: Seq<u8>, arguments: Seq<u8>, original_class: Option<Seq<u8>>, lm: Option<ALm> },
}
// an error item: the offending line, and which kind of error it is (true: ParseErrorKind::ParseError(_), false: ParseErrorKind::Utf8Error(_)); the wording of the
// message is not part of any property and is not pinned
pub enum AItem { Good(ARec), Bad(Seq<u8>, bool) }
pub open spec fn abs_kind(k: ParseErrorKind) -> bool { k is ParseError }
pub open spec fn abs_lm(l: Option<LineMapping>) -> Option<ALm> {
    match l { Some(l) => Some(ALm { start: l.startline, end: l.endline, ostart: l.original_startline, oend: l.original_endline }), None => None }
}
pub open spec fn abs_rec(r: ProguardRecord) -> ARec {
    match r {
        ProguardRecord::Header { key, value } => ARec::Header { key: str_bytes(key), value: opt_bytes(value) },
        ProguardRecord::Class { original, obfuscated } => ARec::Class { original: str_bytes(original), obfuscated: str_bytes(obfuscated) },
        ProguardRecord::Field { ty, original, obfuscated } => ARec::Field { ty: str_bytes(ty), original: str_bytes(original), obfuscated: str_bytes(obfuscated) },
        ProguardRecord::Method { ty, original, obfuscated, arguments, original_class, line_mapping } =>
            ARec::Method { ty: str_bytes(ty), original: str_bytes(original), obfuscated: str_bytes(obfuscated), arguments: str_bytes(arguments),
                           original_class: opt_bytes(original_class), lm: abs_lm(line_mapping) },
    }
}
pub open spec fn abs_item(r: Result<ProguardRecord, ParseError>) -> AItem {
    match r { Ok(rec) => AItem::Good(abs_rec(rec)), Err(e) => AItem::Bad(e.line@, abs_kind(e.kind)) }
}
// the record a member line denotes (Field without an argument list, Method with one; the name is split at its last dot; a line mapping exists
// iff both obfuscated numbers are present and positive)
pub open spec fn member_arec(ms: MemberSpec) -> ARec {
    match ms.args {
        None => ARec::Field { ty: ms.ty, original: ms.orig, obfuscated: ms.obf },
        Some(args) => {
            let (orig, oc) = match spec_last_dot(ms.orig) { Some(d) => (ms.orig.subrange(d + 1, ms.orig.len() as int), Some(ms.orig.subrange(0, d))), None => (ms.orig, None) };
            let lm = if ms.start is Some && ms.end is Some && ms.start->0 > 0 && ms.end->0 > 0 { Some(ALm { start: ms.start->0, end: ms.end->0, ostart: ms.ostart, oend: ms.oend }) } else { None };
            ARec::Method { ty: ms.ty, original: orig, obfuscated: ms.obf, arguments: args, original_class: oc, lm: lm }
        },
    }
}
// one line (b: the input after its leading line terminators): `#` -> header, four spaces -> member, otherwise class
pub open spec fn line_spec(b: Seq<u8>) -> Option<(ARec, Seq<u8>)> {
    if has_prefix(b, lit_hash()) {
        match header_spec(b) { Some(h) => Some((ARec::Header { key: h.key, value: h.value }, h.rest)), None => None }
    } else if has_prefix(b, lit_4sp()) {
        match member_spec(b) { Some(ms) => Some((member_arec(ms), skip_nl(ms.rest))), None => None }
    } else {
        match class_spec(b) { Some(cs) => Some((ARec::Class { original: cs.0, obfuscated: cs.1 }, skip_nl(cs.2))), None => None }
    }
}
// the input starts where a line starts: it is empty or its first byte is not a line terminator
pub open spec fn at_line_start(b: Seq<u8>) -> bool { b.len() == 0 || !spec_is_newline(b[0]) }
// one item: the record of the first line, or an error that carries the first line with its one terminator byte
pub open spec fn parse_spec(bytes: Seq<u8>) -> (AItem, Seq<u8>) {
    let b = skip_nl(bytes);
    match line_spec(b) {
        Some((rec, rest)) => (AItem::Good(rec), rest),
        None => (AItem::Bad(b.subrange(0, line_end(b)), true), b.subrange(line_end(b), b.len() as int)),
    }
}
pub proof fn lemma_member_record_is_the_reference_record(rec: ProguardRecord, ms: MemberSpec)
    requires member_record_ok(rec, ms),
    ensures abs_rec(rec) == member_arec(ms),
{
    match rec {
        ProguardRecord::Method { ty, original, obfuscated, arguments, original_class, line_mapping } => {
            assert(abs_lm(line_mapping) == (if ms.start is Some && ms.end is Some && ms.start->0 > 0 && ms.end->0 > 0 { Some(ALm { start: ms.start->0, end: ms.end->0, ostart: ms.ostart, oend: ms.oend }) } else { None }));
        },
        _ => {},
    }
}
"""

LOCALITY = r"""
// ======== C06: what a line denotes does not depend on what follows its end ========
// l: the rest of the current line (no terminator inside); t: what follows it -- nothing, or something that starts with a terminator
pub open spec fn cont(t: Seq<u8>) -> bool { t.len() == 0 || spec_is_newline(t[0]) }
pub open spec fn kind_has_nl(kind: int) -> bool { 0 <= kind <= 6 }

pub proof fn lemma_no_nl_skip(r: Seq<u8>)
    requires no_nl(r),
    ensures skip_nl(r) == r,
{ if r.len() > 0 { assert(!spec_is_newline(r[0])); } }

pub proof fn lemma_loc_find(l: Seq<u8>, t: Seq<u8>, kind: int)
    requires no_nl(l), cont(t), kind_has_nl(kind),
    ensures find_first(l + t, kind) == find_first(l, kind), 0 <= find_first(l, kind) <= l.len(),
{
    let k = find_first(l, kind);
    lemma_find_first_props(l, kind);
    let x = l + t;
    assert forall|j: int| 0 <= j < k implies !in_set(kind, #[trigger] x[j]) by { assert(x[j] == l[j]); }
    if k < l.len() { assert(x[k] == l[k]); } else if t.len() > 0 { assert(x[k] == t[0]); assert(in_set(kind, t[0])); }
    lemma_find_first(x, kind, k);
}
pub proof fn lemma_loc_strip(l: Seq<u8>, t: Seq<u8>, p: Seq<u8>)
    requires no_nl(l), cont(t), no_nl(p),
    ensures strip(l + t, p) == (match strip(l, p) { Some(r) => Some(r + t), None => None }),
        strip(l, p) is Some ==> no_nl(strip(l, p)->0) && (strip(l, p)->0).len() == l.len() - p.len(),
{
    reveal(strip);
    let x = l + t;
    if p.len() <= l.len() {
        assert(x.subrange(0, p.len() as int) =~= l.subrange(0, p.len() as int));
        if has_prefix(l, p) {
            assert(x.subrange(p.len() as int, x.len() as int) =~= l.subrange(p.len() as int, l.len() as int) + t);
            lemma_sub_no_nl(l, p.len() as int, l.len() as int);
        }
    } else {
        if has_prefix(x, p) {
            // position l.len() of the prefix would be t[0], a terminator, but p has none
            assert(x.subrange(0, p.len() as int)[l.len() as int] == t[0]);
            assert(!spec_is_newline(p[l.len() as int]));
            assert(false);
        }
    }
}
pub proof fn lemma_loc_num(l: Seq<u8>, t: Seq<u8>)
    requires no_nl(l), cont(t),
    ensures sp_num(l + t) == (match sp_num(l) { Some((v, r)) => Some((v, r + t)), None => None }),
        sp_num(l) is Some ==> no_nl((sp_num(l)->0).1) && (sp_num(l)->0).1.len() <= l.len(),
{
    reveal(sp_num);
    lemma_loc_find(l, t, 6);
    let d = find_first(l, 6); let x = l + t;
    assert(x.subrange(0, d) =~= l.subrange(0, d));
    assert(x.subrange(d, x.len() as int) =~= l.subrange(d, l.len() as int) + t);
    lemma_sub_no_nl(l, d, l.len() as int);
}
pub proof fn lemma_loc_until(l: Seq<u8>, t: Seq<u8>, kind: int)
    requires no_nl(l), cont(t), kind_has_nl(kind),
    ensures sp_until(l + t, kind) == (match sp_until(l, kind) { Some((w, r)) => Some((w, r + t)), None => None }),
        sp_until(l, kind) is Some ==> no_nl((sp_until(l, kind)->0).1) && (sp_until(l, kind)->0).1.len() <= l.len(),
{
    reveal(sp_until);
    lemma_loc_find(l, t, kind);
    let d = find_first(l, kind); let x = l + t;
    assert(x.subrange(0, d) =~= l.subrange(0, d));
    assert(x.subrange(d, x.len() as int) =~= l.subrange(d, l.len() as int) + t);
    lemma_sub_no_nl(l, d, l.len() as int);
}
// a word must not end at a line end: when the line ends right after the word, the word is accepted at the end of the input but not before a terminator --
// in that one case the two readings differ here, and agree again one step later (every word of the grammar is followed by a mandatory literal)
pub proof fn lemma_loc_word(l: Seq<u8>, t: Seq<u8>, kind: int)
    requires no_nl(l), cont(t), kind_has_nl(kind),
    ensures
        match sp_word(l, kind) {
            None => sp_word(l + t, kind) is None,
            Some((w, r)) => no_nl(r) && r.len() <= l.len() && (if r.len() == 0 && t.len() > 0 { sp_word(l + t, kind) is None } else { sp_word(l + t, kind) == Some((w, r + t)) }),
        },
{
    reveal(sp_word);
    lemma_loc_find(l, t, kind);
    let d = find_first(l, kind); let x = l + t;
    assert(x.subrange(0, d) =~= l.subrange(0, d));
    assert(x.subrange(d, x.len() as int) =~= l.subrange(d, l.len() as int) + t);
    lemma_sub_no_nl(l, d, l.len() as int);
    if d < l.len() { assert(x[d] == l[d]); assert(!spec_is_newline(l[d])); } else if t.len() > 0 { assert(x[d] == t[0]); }
}
pub proof fn lemma_strip_empty(p: Seq<u8>)
    requires p.len() > 0,
    ensures strip(Seq::<u8>::empty(), p) is None,
{ reveal(strip); }

// ---- class line ----
pub proof fn lemma_loc_class(l: Seq<u8>, t: Seq<u8>)
    requires no_nl(l), cont(t),
    ensures class_spec(l + t) == (match class_spec(l) { Some(cs) => Some((cs.0, cs.1, cs.2 + t)), None => None }),
        class_spec(l) is Some ==> no_nl((class_spec(l)->0).2) && (class_spec(l)->0).2.len() < l.len(),
{
    assert(no_nl(lit_arrow()) && no_nl(lit_colon()));
    lemma_loc_word(l, t, 3);
    match sp_word(l, 3) {
        None => {},
        Some((o, b1)) => {
            if b1.len() == 0 && t.len() > 0 { assert(b1 =~= Seq::<u8>::empty()); lemma_strip_empty(lit_arrow()); } else {
                lemma_loc_strip(b1, t, lit_arrow());
                match strip(b1, lit_arrow()) {
                    None => {},
                    Some(b2) => {
                        lemma_loc_word(b2, t, 2);
                        match sp_word(b2, 2) {
                            None => {},
                            Some((ob, b3)) => {
                                if b3.len() == 0 && t.len() > 0 { assert(b3 =~= Seq::<u8>::empty()); lemma_strip_empty(lit_colon()); } else {
                                    lemma_loc_strip(b3, t, lit_colon());
                                }
                            },
                        }
                    },
                }
            }
        },
    }
}

// ---- header line ----
pub proof fn lemma_loc_header(l: Seq<u8>, t: Seq<u8>)
    requires no_nl(l), cont(t),
    ensures header_spec(l + t) == (match header_spec(l) { Some(h) => Some(HeaderSpec { key: h.key, value: h.value, rest: skip_nl(h.rest + t) }), None => None }),
        header_spec(l) is Some ==> no_nl((header_spec(l)->0).rest) && (header_spec(l)->0).rest.len() < l.len(),
{
    lemma_sfp_no_nl();
    assert(no_nl(lit_hash()) && no_nl(lit_colon()) && no_nl(lit_qb()) && no_nl(lit_sfp()));
    lemma_loc_strip(l, t, lit_hash());
    match strip(l, lit_hash()) {
        None => {},
        Some(body) => {
            lemma_loc_strip(body, t, lit_sfp());
            match strip(body, lit_sfp()) {
                Some(v0) => {
                    lemma_loc_word(v0, t, 1);
                    match sp_word(v0, 1) {
                        None => {},
                        Some((v, v1)) => {
                            if v1.len() == 0 && t.len() > 0 { assert(v1 =~= Seq::<u8>::empty()); lemma_strip_empty(lit_qb()); } else {
                                lemma_loc_strip(v1, t, lit_qb());
                                match strip(v1, lit_qb()) { None => {}, Some(v2) => { lemma_no_nl_skip(v2); } }
                            }
                        },
                    }
                },
                None => {
                    lemma_loc_until(body, t, 2);
                    match sp_until(body, 2) {
                        None => {},
                        Some((k, k1)) => {
                            lemma_loc_strip(k1, t, lit_colon());
                            match strip(k1, lit_colon()) {
                                Some(a) => {
                                    lemma_loc_until(a, t, 0);
                                    match sp_until(a, 0) { None => {}, Some((v, k2)) => { lemma_no_nl_skip(k2); } }
                                },
                                None => { lemma_no_nl_skip(k1); },
                            }
                        },
                    }
                },
            }
        },
    }
}

// ---- member line: one lemma per grammar position, from the end of the line backwards ----
pub open spec fn ms_rel(x_lt: Option<MemberSpec>, x_l: Option<MemberSpec>, t: Seq<u8>, n: nat) -> bool {
    match x_l { None => x_lt is None, Some(m) => no_nl(m.rest) && m.rest.len() <= n && x_lt == Some(MemberSpec { rest: m.rest + t, ..m }) }
}
pub proof fn lemma_loc_ms9(a: MemberSpec, l: Seq<u8>, t: Seq<u8>)
    requires no_nl(l), cont(t),
    ensures ms_rel(ms9(a, strip(l + t, lit_arrow())), ms9(a, strip(l, lit_arrow())), t, l.len()),
{
    reveal(ms9); reveal(ms10);
    assert(no_nl(lit_arrow()));
    lemma_loc_strip(l, t, lit_arrow());
    match strip(l, lit_arrow()) { None => {}, Some(b10) => { lemma_loc_until(b10, t, 0); } }
}
pub proof fn lemma_loc_optnum(gate: bool, l: Seq<u8>, t: Seq<u8>)
    requires no_nl(l), cont(t),
    ensures st_optnum(gate, l + t) == (match st_optnum(gate, l) { Some((v, r)) => Some((v, r + t)), None => None }),
        st_optnum(gate, l) is Some ==> no_nl((st_optnum(gate, l)->0).1) && (st_optnum(gate, l)->0).1.len() <= l.len(),
{
    assert(no_nl(lit_colon()));
    lemma_loc_strip(l, t, lit_colon());
    match strip(l, lit_colon()) { None => {}, Some(c1) => { lemma_loc_num(c1, t); } }
}
pub proof fn lemma_loc_ms8(a: MemberSpec, gate: bool, l: Seq<u8>, t: Seq<u8>)
    requires no_nl(l), cont(t),
    ensures ms_rel(ms8(a, st_optnum(gate, l + t)), ms8(a, st_optnum(gate, l)), t, l.len()),
{
    reveal(ms8);
    lemma_loc_optnum(gate, l, t);
    match st_optnum(gate, l) { None => {}, Some((oend, b9)) => { lemma_loc_ms9(MemberSpec { oend: oend, ..a }, b9, t); } }
}
pub proof fn lemma_loc_ms7(a: MemberSpec, gate: bool, l: Seq<u8>, t: Seq<u8>)
    requires no_nl(l), cont(t),
    ensures ms_rel(ms7(a, st_optnum(gate, l + t)), ms7(a, st_optnum(gate, l)), t, l.len()),
{
    reveal(ms7);
    lemma_loc_optnum(gate, l, t);
    match st_optnum(gate, l) { None => {}, Some((ostart, b8)) => { lemma_loc_ms8(MemberSpec { ostart: ostart, ..a }, ostart is Some, b8, t); } }
}
pub proof fn lemma_loc_ms6(a: MemberSpec, l: Seq<u8>, t: Seq<u8>)
    requires no_nl(l), cont(t),
    ensures ms_rel(ms6(a, st_args(l + t)), ms6(a, st_args(l)), t, l.len()),
{
    reveal(ms6);
    assert(no_nl(lit_lp()) && no_nl(lit_rp()));
    lemma_loc_strip(l, t, lit_lp());
    match strip(l, lit_lp()) {
        None => { lemma_loc_ms7(MemberSpec { args: None, ..a }, false, l, t); },
        Some(c1) => {
            lemma_loc_word(c1, t, 5);
            match sp_word(c1, 5) {
                None => {},
                Some((ar, c2)) => {
                    if c2.len() == 0 && t.len() > 0 { assert(c2 =~= Seq::<u8>::empty()); lemma_strip_empty(lit_rp()); } else {
                        lemma_loc_strip(c2, t, lit_rp());
                        match strip(c2, lit_rp()) { None => {}, Some(c3) => { lemma_loc_ms7(MemberSpec { args: Some(ar), ..a }, true, c3, t); } }
                    }
                },
            }
        },
    }
}
// a name that runs to the end of the line cannot be followed by ` -> `: the line is rejected, at the end of the input as well as before a terminator
pub proof fn lemma_ms5_empty_rest(a: MemberSpec, orig: Seq<u8>)
    ensures ms5(a, Some((orig, Seq::<u8>::empty()))) is None,
{
    reveal(ms5); reveal(ms6); reveal(ms7); reveal(ms8); reveal(ms9);
    let e = Seq::<u8>::empty();
    lemma_strip_empty(lit_lp()); lemma_strip_empty(lit_arrow());
    assert(st_args(e) == Some((None::<Seq<u8>>, e)));
    assert(st_optnum(false, e) == Some((None::<usize>, e)));
}
pub proof fn lemma_loc_ms5(a: MemberSpec, l: Seq<u8>, t: Seq<u8>)
    requires no_nl(l), cont(t),
    ensures ms_rel(ms5(a, sp_word(l + t, 4)), ms5(a, sp_word(l, 4)), t, l.len()),
{
    reveal(ms5);
    lemma_loc_word(l, t, 4);
    match sp_word(l, 4) {
        None => {},
        Some((orig, b6)) => {
            if b6.len() == 0 && t.len() > 0 { assert(b6 =~= Seq::<u8>::empty()); lemma_ms5_empty_rest(a, orig); } else { lemma_loc_ms6(MemberSpec { orig: orig, ..a }, b6, t); }
        },
    }
}
pub proof fn lemma_loc_ms3(a: MemberSpec, l: Seq<u8>, t: Seq<u8>)
    requires no_nl(l), cont(t),
    ensures ms_rel(ms3(a, sp_word(l + t, 3)), ms3(a, sp_word(l, 3)), t, l.len()),
{
    reveal(ms3); reveal(ms4);
    assert(no_nl(lit_sp()));
    lemma_loc_word(l, t, 3);
    match sp_word(l, 3) {
        None => {},
        Some((ty, b4)) => {
            if b4.len() == 0 && t.len() > 0 { assert(b4 =~= Seq::<u8>::empty()); lemma_strip_empty(lit_sp()); } else {
                lemma_loc_strip(b4, t, lit_sp());
                match strip(b4, lit_sp()) { None => {}, Some(b5) => { lemma_loc_ms5(MemberSpec { ty: ty, ..a }, b5, t); } }
            }
        },
    }
}
pub proof fn lemma_loc_member(l: Seq<u8>, t: Seq<u8>)
    requires no_nl(l), cont(t),
    ensures ms_rel(member_spec(l + t), member_spec(l), t, if l.len() >= 4 { (l.len() - 4) as nat } else { 0 }),
{
    reveal(ms1); reveal(ms2);
    assert(no_nl(lit_4sp()) && no_nl(lit_colon()));
    lemma_loc_strip(l, t, lit_4sp());
    match strip(l, lit_4sp()) {
        None => {},
        Some(b1) => {
            lemma_loc_num(b1, t);
            let s = st_start(b1);
            let a = MemberSpec { start: s.0, ..ms_init() };
            match s.0 {
                None => { lemma_loc_ms3(MemberSpec { end: None, ..a }, b1, t); },
                Some(_) => {
                    lemma_loc_strip(s.1, t, lit_colon());
                    match strip(s.1, lit_colon()) { None => {}, Some(c1) => {
                        lemma_loc_num(c1, t);
                        match sp_num(c1) { None => {}, Some((e, c2)) => {
                            lemma_loc_strip(c2, t, lit_colon());
                            match strip(c2, lit_colon()) { None => {}, Some(c3) => { lemma_loc_ms3(MemberSpec { end: Some(e), ..a }, c3, t); } }
                        } }
                    } }
                },
            }
        },
    }
}

// ---- one line, whichever kind it is ----
pub proof fn lemma_loc_line(l: Seq<u8>, t: Seq<u8>)
    requires no_nl(l), cont(t), l.len() > 0,
    ensures
        line_spec(l + t) == (match line_spec(l) { Some((rec, r)) => Some((rec, skip_nl(r + t))), None => None }),
        line_spec(l) is Some ==> no_nl((line_spec(l)->0).1) && (line_spec(l)->0).1.len() < l.len(),
{
    assert(no_nl(lit_hash()) && no_nl(lit_4sp()));
    lemma_loc_strip(l, t, lit_hash());
    lemma_loc_strip(l, t, lit_4sp());
    assert(has_prefix(l + t, lit_hash()) == has_prefix(l, lit_hash()) && has_prefix(l + t, lit_4sp()) == has_prefix(l, lit_4sp())) by { reveal(strip); }
    if has_prefix(l, lit_hash()) {
        lemma_loc_header(l, t);
    } else if has_prefix(l, lit_4sp()) {
        lemma_loc_member(l, t);
        match member_spec(l) { Some(ms) => { lemma_no_nl_skip(ms.rest); }, None => {} }
    } else {
        lemma_loc_class(l, t);
        match class_spec(l) { Some(cs) => { lemma_no_nl_skip(cs.2); }, None => {} }
    }
}

// ---- the item stream of a byte string, by the reference parser (the iterator's `remaining()` of unit u7, with r_of / rest_of spelled out) ----
pub open spec fn items(b: Seq<u8>) -> Seq<AItem>
    decreases b.len()
{
    let b1 = skip_nl(b);
    if b1.len() == 0 || !(b1.len() <= b.len()) || !(parse_spec(b1).1.len() < b1.len()) { Seq::empty() } else { seq![parse_spec(b1).0] + items(parse_spec(b1).1) }
}
pub proof fn lemma_skip_nl_facts(b: Seq<u8>)
    ensures skip_nl(b).len() <= b.len(), skip_nl(skip_nl(b)) == skip_nl(b), skip_nl(b).len() > 0 ==> !spec_is_newline(skip_nl(b)[0]),
    decreases b.len()
{ if b.len() > 0 && spec_is_newline(b[0]) { lemma_skip_nl_facts(b.subrange(1, b.len() as int)); } }
pub proof fn lemma_skip_nl_append(a: Seq<u8>, y: Seq<u8>)
    ensures skip_nl(a + y) == (if skip_nl(a).len() > 0 { skip_nl(a) + y } else { skip_nl(y) }),
    decreases a.len()
{
    if a.len() == 0 { assert(a + y =~= y); }
    else if spec_is_newline(a[0]) {
        let a1 = a.subrange(1, a.len() as int);
        assert((a + y).subrange(1, (a + y).len() as int) =~= a1 + y);
        assert((a + y)[0] == a[0]);
        lemma_skip_nl_append(a1, y);
    } else { assert((a + y)[0] == a[0]); }
}
// a non-empty input that does not start with a terminator is its first line followed by nothing or by a terminator
pub open spec fn first_line(b: Seq<u8>) -> Seq<u8> { b.subrange(0, find_first(b, 0)) }
pub open spec fn after_first_line(b: Seq<u8>) -> Seq<u8> { b.subrange(find_first(b, 0), b.len() as int) }
pub proof fn lemma_first_line(b: Seq<u8>)
    requires b.len() > 0, !spec_is_newline(b[0]),
    ensures b == first_line(b) + after_first_line(b), no_nl(first_line(b)), first_line(b).len() > 0, cont(after_first_line(b)),
{
    lemma_find_first_props(b, 0);
    let p = find_first(b, 0);
    assert(p >= 1) by { if p == 0 { assert(in_set(0, b[0])); } }
    assert(b =~= b.subrange(0, p) + b.subrange(p, b.len() as int));
    assert forall|j: int| 0 <= j < p implies !spec_is_newline(#[trigger] b.subrange(0, p)[j]) by { assert(!in_set(0, b[j])); }
    if p < b.len() { assert(in_set(0, b[p])); assert(b.subrange(p, b.len() as int)[0] == b[p]); }
}
// every item consumes at least one byte
pub proof fn lemma_reference_parser_makes_progress(b1: Seq<u8>)
    requires b1.len() > 0, !spec_is_newline(b1[0]),
    ensures /*@L:reference_parser_consumes_at_least_one_byte:C06*/ parse_spec(b1).1.len() < b1.len(),
{
    lemma_first_line(b1);
    let l = first_line(b1); let t = after_first_line(b1);
    lemma_loc_line(l, t);
    assert(skip_nl(b1) == b1);
    match line_spec(l) {
        Some((rec, r)) => { lemma_skip_nl_facts(r + t); },
        None => { lemma_line_end_bounds(b1); },
    }
}
pub proof fn lemma_items_skip(b: Seq<u8>)
    ensures items(skip_nl(b)) == items(b),
{ lemma_skip_nl_facts(b); lemma_skip_nl_facts(skip_nl(b)); }

// two item streams agree up to the payload of a LAST error item: an unterminated malformed last line carries no terminator byte, the same line followed by
// more input carries its one terminator byte (`ParseError::line` includes it -- the documented, tested behaviour)
pub open spec fn sim(x: AItem, y: AItem) -> bool {
    x == y || match (x, y) {
        (AItem::Bad(p, kp), AItem::Bad(q, kq)) => kp == kq && no_nl(p) && q.len() == p.len() + 1 && q.subrange(0, p.len() as int) == p && spec_is_newline(q[p.len() as int]),
        _ => false,
    }
}
// ix is ia followed by ib, where only the last item of ia may differ, and only as `sim` allows
pub open spec fn glued(ia: Seq<AItem>, ib: Seq<AItem>, ix: Seq<AItem>) -> bool
    decreases ia.len()
{
    if ia.len() == 0 { ix == ib }
    else if ia.len() == 1 { ix.len() >= 1 && sim(ia[0], ix[0]) && ix.subrange(1, ix.len() as int) == ib }
    else { ix.len() >= 1 && ia[0] == ix[0] && glued(ia.subrange(1, ia.len() as int), ib, ix.subrange(1, ix.len() as int)) }
}
pub proof fn lemma_glued_cons(g: AItem, ia: Seq<AItem>, ib: Seq<AItem>, ix: Seq<AItem>)
    requires glued(ia, ib, ix),
    ensures glued(seq![g] + ia, ib, seq![g] + ix),
{
    let a2 = seq![g] + ia; let x2 = seq![g] + ix;
    assert(a2.subrange(1, a2.len() as int) =~= ia);
    assert(x2.subrange(1, x2.len() as int) =~= ix);
    if ia.len() == 0 { assert(a2.len() == 1); assert(sim(a2[0], x2[0])); }
}

// THE RECORDS OF  A + terminator + B  ARE THE RECORDS OF  A  FOLLOWED BY THE RECORDS OF  B
pub proof fn lemma_items_of_concatenation(a: Seq<u8>, nl: u8, b: Seq<u8>)
    requires spec_is_newline(nl),
    ensures /*@L:records_of_a_newline_b_are_the_records_of_a_followed_by_the_records_of_b:C06*/ glued(items(a), items(b), items(a + seq![nl] + b)),
    decreases a.len()
{
    let x = a + seq![nl] + b;
    let nb = seq![nl] + b;
    assert(x =~= a + nb);
    let a1 = skip_nl(a);
    lemma_skip_nl_facts(a);
    lemma_skip_nl_append(a, nb);
    if a1.len() == 0 {
        // nothing but terminators: they vanish in front of B
        assert(nb.subrange(1, nb.len() as int) =~= b);
        assert(skip_nl(nb) == skip_nl(b));
        assert(skip_nl(x) == skip_nl(b));
        lemma_skip_nl_facts(x); lemma_skip_nl_facts(b);
        assert(items(x) == items(b));
        assert(items(a) =~= Seq::<AItem>::empty());
    } else {
        let x1 = skip_nl(x);
        assert(x1 == a1 + nb);
        lemma_first_line(a1);
        let l = first_line(a1); let ta = after_first_line(a1);
        let tx = ta + nb;
        assert(x1 =~= l + tx);
        assert(cont(tx)) by { if ta.len() > 0 { assert(tx[0] == ta[0]); } else { assert(tx[0] == nl); } }
        lemma_loc_line(l, ta);
        lemma_loc_line(l, tx);
        lemma_skip_nl_facts(x);
        assert(skip_nl(a1) == a1 && skip_nl(x1) == x1);
        assert(!spec_is_newline(x1[0])) by { assert(x1[0] == a1[0]); }
        lemma_reference_parser_makes_progress(a1);
        lemma_reference_parser_makes_progress(x1);
        assert(items(a) == seq![parse_spec(a1).0] + items(parse_spec(a1).1));
        assert(items(x) == seq![parse_spec(x1).0] + items(parse_spec(x1).1));
        let n = l.len() as int;
        match line_spec(l) {
            Some((rec, r)) => {
                // the same record; what remains is  r + ta  on one side and  r + ta + nl + B  on the other
                let a2 = r + ta;
                assert(r + tx =~= a2 + seq![nl] + b);
                assert(a2.len() < a.len());
                lemma_items_of_concatenation(a2, nl, b);
                lemma_items_skip(a2);
                lemma_items_skip(a2 + seq![nl] + b);
                lemma_glued_cons(AItem::Good(rec), items(a2), items(b), items(a2 + seq![nl] + b));
            },
            None => {
                lemma_line_end(a1, l.len() as int);
                lemma_line_end(x1, l.len() as int);
                if ta.len() > 0 {
                    // the malformed line has its terminator inside A: same payload, and the rest of A goes on
                    let a2 = ta.subrange(1, ta.len() as int);
                    assert(line_end(a1) == n + 1 && line_end(x1) == n + 1);
                    assert(a1.subrange(0, n + 1) =~= x1.subrange(0, n + 1));
                    assert(a1.subrange(n + 1, a1.len() as int) =~= a2);
                    assert(x1.subrange(n + 1, x1.len() as int) =~= a2 + seq![nl] + b);
                    lemma_items_of_concatenation(a2, nl, b);
                    lemma_glued_cons(parse_spec(a1).0, items(a2), items(b), items(a2 + seq![nl] + b));
                } else {
                    // the malformed line is A's unterminated last line: its error item gains the terminator byte, nothing else changes
                    assert(a1 =~= l);
                    assert(line_end(a1) == l.len() && line_end(x1) == n + 1);
                    assert(a1.subrange(0, l.len() as int) =~= l);
                    assert(a1.subrange(l.len() as int, a1.len() as int) =~= Seq::<u8>::empty());
                    assert(x1.subrange(n + 1, x1.len() as int) =~= b);
                    let q = x1.subrange(0, n + 1);
                    assert(q.subrange(0, l.len() as int) =~= l);
                    assert(q[l.len() as int] == nl);
                    assert(items(Seq::<u8>::empty()) =~= Seq::<AItem>::empty());
                    assert(items(a) =~= seq![AItem::Bad(l, true)]);
                    assert(sim(AItem::Bad(l, true), AItem::Bad(q, true)));
                    assert(items(x).subrange(1, items(x).len() as int) =~= items(b));
                }
            },
        }
    }
}

// ---- consequences for the records themselves (what the mapper and the cache writer consume: the Ok items) ----
pub open spec fn goods(s: Seq<AItem>) -> Seq<ARec>
    decreases s.len()
{
    if s.len() == 0 { Seq::empty() } else {
        let rest = goods(s.subrange(1, s.len() as int));
        match s[0] { AItem::Good(r) => seq![r] + rest, AItem::Bad(_, _) => rest }
    }
}
pub proof fn lemma_goods_glued(ia: Seq<AItem>, ib: Seq<AItem>, ix: Seq<AItem>)
    requires glued(ia, ib, ix),
    ensures goods(ix) == goods(ia) + goods(ib),
    decreases ia.len()
{
    if ia.len() == 0 {
        assert(goods(ia) =~= Seq::<ARec>::empty());
        assert(goods(ia) + goods(ib) =~= goods(ib));
    } else if ia.len() == 1 {
        assert(goods(ia.subrange(1, 1)) =~= Seq::<ARec>::empty());
        match ia[0] { AItem::Good(r) => { assert(ix[0] == ia[0]); assert(goods(ia) =~= seq![r]); }, AItem::Bad(_, _) => { assert(ix[0] is Bad); assert(goods(ia) =~= Seq::<ARec>::empty()); assert(goods(ia) + goods(ib) =~= goods(ib)); } }
    } else {
        lemma_goods_glued(ia.subrange(1, ia.len() as int), ib, ix.subrange(1, ix.len() as int));
        match ia[0] {
            AItem::Good(r) => { assert(goods(ix) =~= seq![r] + (goods(ia.subrange(1, ia.len() as int)) + goods(ib))); },
            AItem::Bad(_, _) => {},
        }
    }
}
pub proof fn lemma_good_records_of_concatenation(a: Seq<u8>, nl: u8, b: Seq<u8>)
    requires spec_is_newline(nl),
    ensures /*@L:ok_records_of_a_newline_b_are_the_ok_records_of_a_followed_by_those_of_b:C06,C01*/ goods(items(a + seq![nl] + b)) == goods(items(a)) + goods(items(b)),
{
    lemma_items_of_concatenation(a, nl, b);
    lemma_goods_glued(items(a), items(b), items(a + seq![nl] + b));
}
// C01, "the answer does not depend on line-ending style, blank or unparseable lines": a stretch J of input between two line ends that yields no record
// (blank lines, malformed lines, any mixture) leaves the records of the file unchanged, and so does the choice of terminator (CR, LF or CRLF)
pub proof fn lemma_lines_without_records_do_not_matter(a: Seq<u8>, n1: u8, j: Seq<u8>, n2: u8, b: Seq<u8>)
    requires spec_is_newline(n1), spec_is_newline(n2), goods(items(j)) == Seq::<ARec>::empty(),
    ensures /*@L:input_that_yields_no_record_between_two_line_ends_changes_no_record:C01,C06*/
        goods(items(a + seq![n1] + j + seq![n2] + b)) == goods(items(a)) + goods(items(b)),
{
    let aj = a + seq![n1] + j;
    lemma_good_records_of_concatenation(aj, n2, b);
    lemma_good_records_of_concatenation(a, n1, j);
    assert(goods(items(a)) + Seq::<ARec>::empty() =~= goods(items(a)));
}
pub proof fn lemma_line_ending_style_does_not_matter(a: Seq<u8>, b: Seq<u8>)
    ensures /*@L:cr_lf_and_crlf_give_the_same_records:C01,C06*/
        goods(items(a + seq![13u8] + b)) == goods(items(a + seq![10u8] + b)),
        goods(items(a + seq![13u8, 10u8] + b)) == goods(items(a + seq![10u8] + b)),
{
    lemma_good_records_of_concatenation(a, 13u8, b);
    lemma_good_records_of_concatenation(a, 10u8, b);
    let lb = seq![10u8] + b;
    lemma_good_records_of_concatenation(a, 13u8, lb);
    assert(a + seq![13u8] + lb =~= a + seq![13u8, 10u8] + b);
    // a leading terminator of B vanishes
    assert(lb.subrange(1, lb.len() as int) =~= b);
    assert(skip_nl(lb) == skip_nl(b));
    lemma_items_skip(lb); lemma_items_skip(b);
}

// the definitions are not vacuous on the smallest input: a lone terminator yields no item
pub proof fn lemma_items_instance()
    ensures items(seq![10u8]) == Seq::<AItem>::empty(), items(Seq::<u8>::empty()) == Seq::<AItem>::empty(),
{
    let b = seq![10u8];
    assert(b.len() == 1 && b[0] == 10u8);
    assert(b.subrange(1, b.len() as int) =~= Seq::<u8>::empty());
    assert(skip_nl(Seq::<u8>::empty()) =~= Seq::<u8>::empty());
    assert(skip_nl(b) == skip_nl(b.subrange(1, b.len() as int)));
    assert(items(b) =~= Seq::<AItem>::empty());
    assert(items(Seq::<u8>::empty()) =~= Seq::<AItem>::empty());
}
"""


MEMBER_ACCEPT = r"""
// ======== C05: every member line printed from the documented grammar is accepted, with exactly the printed parts ========
// the decimal rendering of a number (what a printer of mapping files writes): ASCII digits, at least one, and `str::parse` reads the number back
pub uninterp spec fn dec(n: usize) -> Seq<u8>;
#[verifier::external_body]
pub proof fn axiom_dec(n: usize)
    ensures dec(n).len() > 0, forall|j: int| 0 <= j < dec(n).len() ==> 48u8 <= #[trigger] dec(n)[j] <= 57u8, valid_utf8(dec(n)), spec_parse_usize(dec(n)) == Some(n),
{}
// `"".parse::<usize>()` is an error (std: IntErrorKind::Empty)
#[verifier::external_body]
pub proof fn axiom_parse_empty()
    ensures spec_parse_usize(Seq::<u8>::empty()) is None,
{}
pub struct MemberParts { pub se: Option<(usize, usize)>, pub ty: Seq<u8>, pub name: Seq<u8>, pub args: Option<Seq<u8>>, pub ostart: Option<usize>, pub oend: Option<usize>, pub obf: Seq<u8> }
pub open spec fn avoids(x: Seq<u8>, kind: int) -> bool { forall|j: int| 0 <= j < x.len() ==> !in_set(kind, #[trigger] x[j]) }
// the documented shape of the parts: a type without space that does not start with a digit, a name without space or `(`, arguments without `)`,
// original lines only after an argument list, an original end only after an original start; all of them UTF-8 and free of line terminators
pub open spec fn parts_ok(p: MemberParts) -> bool {
    &&& valid_utf8(p.ty) && avoids(p.ty, 3) && p.ty.len() > 0 && !spec_byte_is_numeric(p.ty[0])
    &&& valid_utf8(p.name) && avoids(p.name, 4)
    &&& (p.args is Some ==> valid_utf8(p.args->0) && avoids(p.args->0, 5))
    &&& (p.ostart is Some ==> p.args is Some) && (p.oend is Some ==> p.ostart is Some)
    &&& valid_utf8(p.obf) && avoids(p.obf, 0)
}
// the printed line, from its end:  [` -> ` OBF tail]  [`:` OEND]  [`:` OSTART]  [`(` ARGS `)`]  NAME  ` `  TYPE  [START `:` END `:`]  four spaces
pub open spec fn s_arrow(p: MemberParts, tail: Seq<u8>) -> Seq<u8> { lit_arrow() + (p.obf + tail) }
pub open spec fn s_oend(p: MemberParts, tail: Seq<u8>) -> Seq<u8> { match p.oend { Some(oe) => lit_colon() + (dec(oe) + s_arrow(p, tail)), None => s_arrow(p, tail) } }
pub open spec fn s_ostart(p: MemberParts, tail: Seq<u8>) -> Seq<u8> { match p.ostart { Some(os) => lit_colon() + (dec(os) + s_oend(p, tail)), None => s_arrow(p, tail) } }
pub open spec fn s_args(p: MemberParts, tail: Seq<u8>) -> Seq<u8> { match p.args { Some(a) => lit_lp() + (a + (lit_rp() + s_ostart(p, tail))), None => s_arrow(p, tail) } }
pub open spec fn s_ty(p: MemberParts, tail: Seq<u8>) -> Seq<u8> { p.ty + (lit_sp() + (p.name + s_args(p, tail))) }
pub open spec fn s_se(p: MemberParts, tail: Seq<u8>) -> Seq<u8> { match p.se { Some((s, e)) => dec(s) + (lit_colon() + (dec(e) + (lit_colon() + s_ty(p, tail)))), None => s_ty(p, tail) } }
pub open spec fn member_text(p: MemberParts, tail: Seq<u8>) -> Seq<u8> { lit_4sp() + s_se(p, tail) }

pub proof fn lemma_pre_strip(lit: Seq<u8>, rest: Seq<u8>)
    ensures strip(lit + rest, lit) == Some(rest),
{
    reveal(strip);
    let x = lit + rest;
    assert(x.subrange(0, lit.len() as int) =~= lit);
    assert(x.subrange(lit.len() as int, x.len() as int) =~= rest);
}
pub proof fn lemma_pre_find(x: Seq<u8>, rest: Seq<u8>, kind: int)
    requires avoids(x, kind), rest.len() == 0 || in_set(kind, rest[0]),
    ensures find_first(x + rest, kind) == x.len(), (x + rest).subrange(0, x.len() as int) == x, (x + rest).subrange(x.len() as int, (x + rest).len() as int) == rest,
{
    let b = x + rest;
    assert forall|j: int| 0 <= j < x.len() implies !in_set(kind, #[trigger] b[j]) by { assert(b[j] == x[j]); }
    if rest.len() > 0 { assert(b[x.len() as int] == rest[0]); }
    lemma_find_first(b, kind, x.len() as int);
    assert(b.subrange(0, x.len() as int) =~= x);
    assert(b.subrange(x.len() as int, b.len() as int) =~= rest);
}
pub proof fn lemma_pre_word(x: Seq<u8>, rest: Seq<u8>, kind: int)
    requires valid_utf8(x), avoids(x, kind), rest.len() > 0, in_set(kind, rest[0]), !spec_is_newline(rest[0]),
    ensures sp_word(x + rest, kind) == Some((x, rest)),
{
    reveal(sp_word);
    lemma_pre_find(x, rest, kind);
    assert((x + rest)[x.len() as int] == rest[0]);
}
pub proof fn lemma_pre_until(x: Seq<u8>, rest: Seq<u8>, kind: int)
    requires valid_utf8(x), avoids(x, kind), rest.len() == 0 || in_set(kind, rest[0]),
    ensures sp_until(x + rest, kind) == Some((x, rest)),
{
    reveal(sp_until);
    lemma_pre_find(x, rest, kind);
}
pub proof fn lemma_pre_num(n: usize, rest: Seq<u8>)
    requires rest.len() == 0 || !spec_byte_is_numeric(rest[0]),
    ensures sp_num(dec(n) + rest) == Some((n, rest)),
{
    reveal(sp_num);
    axiom_dec(n);
    assert(avoids(dec(n), 6)) by { assert forall|j: int| 0 <= j < dec(n).len() implies !in_set(6, #[trigger] dec(n)[j]) by { assert(48u8 <= dec(n)[j] <= 57u8); } }
    lemma_pre_find(dec(n), rest, 6);
}
pub proof fn lemma_no_num(b: Seq<u8>)
    requires b.len() > 0, !spec_byte_is_numeric(b[0]),
    ensures sp_num(b) is None,
{
    reveal(sp_num);
    axiom_parse_empty();
    assert(find_first(b, 6) == 0);
    assert(b.subrange(0, 0) =~= Seq::<u8>::empty());
}
// the first byte of each tail of the line (what ends the part printed before it)
pub proof fn lemma_heads(p: MemberParts, tail: Seq<u8>)
    ensures
        s_arrow(p, tail).len() > 0 && s_arrow(p, tail)[0] == 32u8,
        s_oend(p, tail).len() > 0 && (s_oend(p, tail)[0] == 32u8 || s_oend(p, tail)[0] == 58u8),
        s_ostart(p, tail).len() > 0 && (s_ostart(p, tail)[0] == 32u8 || s_ostart(p, tail)[0] == 58u8),
        s_args(p, tail).len() > 0 && (s_args(p, tail)[0] == 32u8 || s_args(p, tail)[0] == 40u8),
{
    assert(lit_arrow()[0] == 32u8 && lit_colon()[0] == 58u8 && lit_lp()[0] == 40u8);
    assert(s_arrow(p, tail)[0] == lit_arrow()[0]);
    match p.oend { Some(oe) => { assert(s_oend(p, tail)[0] == lit_colon()[0]); }, None => {} }
    match p.ostart { Some(os) => { assert(s_ostart(p, tail)[0] == lit_colon()[0]); }, None => {} }
    match p.args { Some(a) => { assert(s_args(p, tail)[0] == lit_lp()[0]); }, None => {} }
}

// from ` -> OBF tail` to the end
pub proof fn lemma_acc_ms9(a: MemberSpec, p: MemberParts, tail: Seq<u8>)
    requires parts_ok(p), cont(tail),
    ensures ms9(a, strip(s_arrow(p, tail), lit_arrow())) == Some(MemberSpec { obf: p.obf, rest: tail, ..a }),
{
    reveal(ms9); reveal(ms10);
    lemma_pre_strip(lit_arrow(), p.obf + tail);
    lemma_pre_until(p.obf, tail, 0);
}
// an optional `:` NUMBER in front of a tail that starts with ` ` or `:`
pub proof fn lemma_acc_optnum_none(gate: bool, t: Seq<u8>)
    requires t.len() > 0, t[0] == 32u8,
    ensures st_optnum(gate, t) == Some((None::<usize>, t)),
{
    reveal(strip);
    assert(!has_prefix(t, lit_colon())) by { if has_prefix(t, lit_colon()) { assert(t.subrange(0, 1)[0] == t[0]); assert(lit_colon()[0] == 58u8); } }
}
pub proof fn lemma_acc_optnum_some(n: usize, t: Seq<u8>)
    requires t.len() > 0, t[0] == 32u8 || t[0] == 58u8,
    ensures st_optnum(true, lit_colon() + (dec(n) + t)) == Some((Some(n), t)),
{
    lemma_pre_strip(lit_colon(), dec(n) + t);
    lemma_pre_num(n, t);
}
pub proof fn lemma_acc_ms7(a: MemberSpec, p: MemberParts, tail: Seq<u8>)
    requires parts_ok(p), cont(tail),
    ensures ms7(a, st_optnum(p.args is Some, s_ostart(p, tail))) == Some(MemberSpec { ostart: p.ostart, oend: p.oend, obf: p.obf, rest: tail, ..a }),
{
    reveal(ms7); reveal(ms8);
    lemma_heads(p, tail);
    match p.ostart {
        Some(os) => {
            lemma_acc_optnum_some(os, s_oend(p, tail));
            let a1 = MemberSpec { ostart: Some(os), ..a };
            match p.oend {
                Some(oe) => { lemma_acc_optnum_some(oe, s_arrow(p, tail)); lemma_acc_ms9(MemberSpec { oend: Some(oe), ..a1 }, p, tail); },
                None => { lemma_acc_optnum_none(true, s_arrow(p, tail)); lemma_acc_ms9(MemberSpec { oend: None, ..a1 }, p, tail); },
            }
        },
        None => {
            lemma_acc_optnum_none(p.args is Some, s_arrow(p, tail));
            let a1 = MemberSpec { ostart: None, ..a };
            lemma_acc_optnum_none(false, s_arrow(p, tail));
            lemma_acc_ms9(MemberSpec { oend: None, ..a1 }, p, tail);
        },
    }
}
pub proof fn lemma_acc_ms5(a: MemberSpec, p: MemberParts, tail: Seq<u8>)
    requires parts_ok(p), cont(tail),
    ensures ms5(a, sp_word(p.name + s_args(p, tail), 4)) == Some(MemberSpec { orig: p.name, args: p.args, ostart: p.ostart, oend: p.oend, obf: p.obf, rest: tail, ..a }),
{
    reveal(ms5); reveal(ms6);
    lemma_heads(p, tail);
    lemma_pre_word(p.name, s_args(p, tail), 4);
    let a1 = MemberSpec { orig: p.name, ..a };
    match p.args {
        Some(ar) => {
            lemma_pre_strip(lit_lp(), ar + (lit_rp() + s_ostart(p, tail)));
            assert((lit_rp() + s_ostart(p, tail))[0] == 41u8) by { assert(lit_rp()[0] == 41u8); }
            lemma_pre_word(ar, lit_rp() + s_ostart(p, tail), 5);
            lemma_pre_strip(lit_rp(), s_ostart(p, tail));
            assert(st_args(s_args(p, tail)) == Some((Some(ar), s_ostart(p, tail))));
            lemma_acc_ms7(MemberSpec { args: Some(ar), ..a1 }, p, tail);
        },
        None => {
            // no `(`: the name is followed by ` -> `
            assert(strip(s_arrow(p, tail), lit_lp()) is None) by {
                reveal(strip);
                if has_prefix(s_arrow(p, tail), lit_lp()) { assert(s_arrow(p, tail).subrange(0, 1)[0] == s_arrow(p, tail)[0]); assert(lit_lp()[0] == 40u8); }
            }
            assert(st_args(s_args(p, tail)) == Some((None::<Seq<u8>>, s_arrow(p, tail))));
            lemma_acc_ms7(MemberSpec { args: None, ..a1 }, p, tail);
        },
    }
}
pub proof fn lemma_acc_ms3(a: MemberSpec, p: MemberParts, tail: Seq<u8>)
    requires parts_ok(p), cont(tail),
    ensures ms3(a, sp_word(s_ty(p, tail), 3)) == Some(MemberSpec { ty: p.ty, orig: p.name, args: p.args, ostart: p.ostart, oend: p.oend, obf: p.obf, rest: tail, ..a }),
{
    reveal(ms3); reveal(ms4);
    let after = lit_sp() + (p.name + s_args(p, tail));
    assert(after[0] == 32u8) by { assert(lit_sp()[0] == 32u8); }
    lemma_pre_word(p.ty, after, 3);
    lemma_pre_strip(lit_sp(), p.name + s_args(p, tail));
    lemma_acc_ms5(MemberSpec { ty: p.ty, ..a }, p, tail);
}
// EVERY MEMBER LINE OF THE DOCUMENTED SHAPE IS ACCEPTED AND YIELDS EXACTLY ITS PARTS (whatever follows the line: nothing, or a line terminator and more input)
pub proof fn lemma_every_well_formed_member_line_is_accepted(p: MemberParts, tail: Seq<u8>)
    requires parts_ok(p), cont(tail),
    ensures /*@L:every_well_formed_member_line_is_accepted_with_exactly_its_parts:C05*/
        member_spec(member_text(p, tail)) == Some(MemberSpec {
            start: match p.se { Some(se) => Some(se.0), None => None }, end: match p.se { Some(se) => Some(se.1), None => None },
            ty: p.ty, orig: p.name, args: p.args, ostart: p.ostart, oend: p.oend, obf: p.obf, rest: tail }),
{
    reveal(ms1); reveal(ms2);
    lemma_pre_strip(lit_4sp(), s_se(p, tail));
    match p.se {
        Some((s, e)) => {
            let r1 = lit_colon() + (dec(e) + (lit_colon() + s_ty(p, tail)));
            assert(r1[0] == 58u8) by { assert(lit_colon()[0] == 58u8); }
            lemma_pre_num(s, r1);
            lemma_pre_strip(lit_colon(), dec(e) + (lit_colon() + s_ty(p, tail)));
            let r2 = lit_colon() + s_ty(p, tail);
            assert(r2[0] == 58u8) by { assert(lit_colon()[0] == 58u8); }
            lemma_pre_num(e, r2);
            lemma_pre_strip(lit_colon(), s_ty(p, tail));
            assert(st_start(s_se(p, tail)) == (Some(s), r1));
            assert(st_end(Some(s), r1) == Some((Some(e), s_ty(p, tail))));
            lemma_acc_ms3(MemberSpec { start: Some(s), end: Some(e), ..ms_init() }, p, tail);
        },
        None => {
            assert(s_ty(p, tail)[0] == p.ty[0]);
            lemma_no_num(s_ty(p, tail));
            lemma_acc_ms3(MemberSpec { start: None, end: None, ..ms_init() }, p, tail);
        },
    }
}
// ... and the record is the one the parts denote (with C05's rule for the line mapping and the split at the last dot): through member_arec and
// `item_and_rest_are_exactly_those_of_the_reference_parser`, the real parser returns it for the line alone or inside a file
pub proof fn lemma_well_formed_member_line_denotes_its_record(p: MemberParts, tail: Seq<u8>)
    requires parts_ok(p), cont(tail),
    ensures /*@L:well_formed_member_line_parses_to_the_record_of_its_parts:C05*/ ({
        let ms = MemberSpec { start: match p.se { Some(se) => Some(se.0), None => None }, end: match p.se { Some(se) => Some(se.1), None => None },
                              ty: p.ty, orig: p.name, args: p.args, ostart: p.ostart, oend: p.oend, obf: p.obf, rest: tail };
        line_spec(member_text(p, tail)) == Some((member_arec(ms), skip_nl(tail)))
    }),
{
    lemma_every_well_formed_member_line_is_accepted(p, tail);
    let b = member_text(p, tail);
    lemma_pre_strip(lit_4sp(), s_se(p, tail));
    assert(has_prefix(b, lit_4sp())) by { reveal(strip); }
    assert(!has_prefix(b, lit_hash())) by { if has_prefix(b, lit_hash()) { assert(b.subrange(0, 1)[0] == b[0]); assert(b[0] == lit_4sp()[0]); assert(lit_hash()[0] == 35u8); } }
}
"""


def build():
    u = Unit("u5_parser")
    # the dispatcher's exact postcondition needs more than the default budget to be REFUTED on some wrong variants (three-space dispatch: `rlimit exceeded` at 30
    # and 60, a failed postcondition within 10 s at 150); the unchanged tree uses a few percent of it
    u.rlimit = 150
    u.raw(HEADER.replace("use std::cmp::Ordering;", "use std::cmp::Ordering;\nuse vstd::string::StringSliceAdditionalSpecFns;"), "header")
    u.raw("use std::str;\n", "glue")
    mp = u.source("src/mapping.rs")
    u.raw("""#[verifier::external_type_specification]
#[verifier::external_body]
pub struct ExUtf8Error(std::str::Utf8Error);
""", "glue")
    pe = extract_struct_priv(u, mp, "ParseError", derive="#[derive(Copy, Clone)]")
    extract_struct(u, mp, "ParseErrorKind", kind="enum", derive="#[derive(Copy, Clone)]")
    extract_struct(u, mp, "LineMapping", derive="#[derive(Copy, Clone)]")
    extract_struct(u, mp, "ProguardRecord", kind="enum")
    u.raw(contract("parser_model.rs"), "parser_model")
    u.raw(PRIMS, "prims")
    # ParseError accessors (C05: "reported as errors carrying the offending line"): each returns its own field
    PEI = r"impl ParseError<'_>"
    u.raw(mp.impl_header(PEI) + "{\n", "glue")
    for acc in ("line", "kind"):
        g = mp.impl_fn(PEI, acc)
        g.ret("ret")
        g.contracted = True
        g.props_all = ["C05"]
        g.props_safety = ["C13"]
        g.contract("    ensures /*@L:parse_error_%s_accessor_returns_its_field:C05*/ ret == self.%s," % (acc, acc))
        u.emit(g)
    u.raw("}\n", "glue")

    P13 = ["C13"]
    # ---------------- is_newline ----------------
    f = mp.fn("is_newline")
    f.ret("r")
    f.props_all = ["C06", "C05"]; f.props_safety = P13
    f.contract("    ensures /*@L:is_newline_is_cr_or_lf:C06,C05*/ r == spec_is_newline(*byte),")
    u.emit(f)

    # ---------------- consume_leading_newlines ----------------
    f = mp.fn("consume_leading_newlines")
    f.ret("ret")
    f.props_all = ["C06", "C05"]; f.props_safety = P13
    f.replace_all_re(r"(\w+)\.iter\(\)\.position\(", r"shim_slice_position(\1, ", "R2", why="slice.iter().position(p) behind a shim", min_count=1)
    f.closure("|c|", params="|c: &u8|", ret="r: bool", spec="ensures r == ({specbody})", spec_map=SPEC_MAP)
    f.contract("    ensures /*@L:skips_exactly_the_leading_terminators:C06,C05*/ ret@ == skip_nl(bytes@),")
    f.wrap_arm("Some(pos) =>", "proof { lemma_skip_nl(bytes@, pos as int); }")
    f.wrap_arm("None =>", "proof { lemma_skip_nl(bytes@, bytes@.len() as int); assert(bytes@.subrange(bytes@.len() as int, bytes@.len() as int) =~= Seq::<u8>::empty()); }")
    u.emit(f)

    # ---------------- split_line ----------------
    f = mp.fn("split_line")
    f.ret("ret")
    f.props_all = ["C06"]; f.props_safety = P13
    # the stop predicate may be the fn item `is_newline` (eta-expanded) or a closure (annotated from its body)
    f.replace_all_re(r"(\w+)\.iter\(\)\.position\(is_newline\)", r"shim_slice_position(\1, |b: &u8| -> (r: bool) ensures r == spec_is_newline(*b) { is_newline(b) })", "R2",
                     why="slice.iter().position(f) behind a shim; the fn item `is_newline` eta-expanded into a closure with its contract", min_count=0)
    f.replace_all_re(r"(\w+)\.iter\(\)\.position\((?=\|)", r"shim_slice_position(\1, ", "R2", why="slice.iter().position(p) behind a shim", min_count=0)
    char_class_shims(f)
    for occ in range(1, len(re.findall(r"\|c\|", f.orig)) + 1):
        f.closure("|c|", occ=occ, params="|c: &u8|", ret="r: bool", spec="ensures r == ({specbody})", spec_map=SPEC_MAP)
    f.contract("""    ensures
        /*@L:error_line_is_the_first_line_with_its_terminator:C06*/ ret.0@ == bytes@.subrange(0, line_end(bytes@)) && ret.1@ == bytes@.subrange(line_end(bytes@), bytes@.len() as int),
        0 <= line_end(bytes@) <= bytes@.len(), bytes@.len() > 0 ==> line_end(bytes@) >= 1,""")
    f.body_start("proof { vstd::slice::axiom_spec_len(bytes); }\n")
    f.wrap_arm("Some(pos) =>", "proof { lemma_line_end(bytes@, pos as int); }")
    f.wrap_arm("None =>", "proof { lemma_line_end(bytes@, bytes@.len() as int); }")
    u.emit(f)

    # ---------------- parse_prefix ----------------
    f = mp.fn("parse_prefix")
    f.ret("ret")
    f.props_all = ["C05", "C06"]; f.props_safety = P13
    f.replace_all_re(r"(\w+)\.strip_prefix\((\w+)\)", r"shim_strip_prefix(\1, \2)", "R2", why="<[u8]>::strip_prefix (unstable SlicePattern) behind a shim", min_count=1)
    f.contract("""    ensures /*@L:strips_exactly_the_prefix_or_errors:C05,C06*/ prefix_raw(bytes@, prefix@, ret),
        ret is Ok ==> ret->Ok_0@.len() + prefix@.len() == bytes@.len(),
        /*@L:prefix_step_is_the_reference_strip:C05*/ match ret { Ok(rest) => strip(bytes@, prefix@) == Some(rest@), Err(_) => strip(bytes@, prefix@) is None },
        /*@L:prefix_step_stays_within_the_line:C06*/ (ret is Ok && no_nl(prefix@)) ==> consumed_clean(bytes@, ret->Ok_0@),""")
    f.before_tail("""proof { reveal(prefix_raw); reveal(strip); if no_nl(prefix@) && prefix@.len() <= bytes@.len() && bytes@.subrange(0, prefix@.len() as int) == prefix@ {
        assert forall|j: int| 0 <= j < prefix@.len() implies !spec_is_newline(#[trigger] bytes@[j]) by { assert(bytes@[j] == bytes@.subrange(0, prefix@.len() as int)[j]); }
        lemma_consumed_intro(bytes@, bytes@.subrange(prefix@.len() as int, bytes@.len() as int), prefix@.len() as int); } }
    """)
    u.emit(f)

    # ---------------- parse_until ----------------
    f = mp.fn("parse_until")
    f.ret("ret")
    f.props_all = ["C05", "C06"]; f.props_safety = P13
    f.replace_all_re(r"(\w+)\.iter\(\)\.position\(", r"shim_slice_position(\1, ", "R2", min_count=1)
    f.replace_all_re(r"&\[\] as &\[u8\]", "shim_empty_u8()", "R2", why="`&[] as &[u8]` (array-to-slice cast in an expression) behind a shim", min_count=1)
    f.contract("""    requires callable(predicate),
    ensures /*@L:splits_at_the_first_hit:C05,C06*/ first_hit(bytes@, predicate, cut_of(ret)) && split_ok(bytes@, cut_of(ret), ret),
        /*@L:split_position_is_the_reference_scan:C05*/ forall|kind: int| #[trigger] kind_exact(predicate, kind) ==> find_first(bytes@, kind) == cut_of(ret)
            && match ret { Ok((s, rest)) => sp_until(bytes@, kind) == Some((str_bytes(s), rest@)), Err(_) => sp_until(bytes@, kind) is None },
        ret is Ok ==> ret->Ok_0.1@.len() <= bytes@.len(),
        /*@L:scan_to_the_line_end_stays_within_the_line:C06*/ ((kind_exact(predicate, 0) || kind_exact(predicate, 2)) && ret is Ok) ==> consumed_clean(bytes@, ret->Ok_0.1@) && str_no_nl(ret->Ok_0.0),""")
    f.after_stmt("let (slice, rest) = match", """    proof {
        let k = slice@.len() as int;
        assert(slice@ =~= bytes@.subrange(0, k));
        assert(rest@ =~= bytes@.subrange(k, bytes@.len() as int));
        assert(first_hit(bytes@, predicate, k)) by { reveal(first_hit); }
        reveal(split_ok); reveal(sp_until);
        assert forall|kind: int| #[trigger] kind_exact(predicate, kind) implies find_first(bytes@, kind) == k by {
            reveal(first_hit);
            assert forall|j: int| 0 <= j < k implies !in_set(kind, #[trigger] bytes@[j]) by { }
            lemma_find_first(bytes@, kind, k);
        }
        if kind_exact(predicate, 0) || kind_exact(predicate, 2) {
            reveal(first_hit); reveal(str_no_nl);
            assert forall|j: int| 0 <= j < k implies !spec_is_newline(#[trigger] bytes@[j]) by { if kind_exact(predicate, 0) { assert(!in_set(0, bytes@[j])); } else { assert(!in_set(2, bytes@[j])); } }
            lemma_consumed_intro(bytes@, rest@, k);
            assert forall|j: int| 0 <= j < k implies !spec_is_newline(#[trigger] slice@[j]) by { assert(slice@[j] == bytes@[j]); }
        }
    }
""")
    u.emit(f)

    # ---------------- parse_until_no_newline ----------------
    f = mp.fn("parse_until_no_newline")
    f.ret("ret")
    f.props_all = ["C05", "C06"]; f.props_safety = P13
    f.closure("|byte|", params="|byte: &u8|", ret="r: bool", spec="""
            ensures r ==> (spec_is_newline(*byte) || predicate.ensures((byte,), true)),
                    !r ==> (!spec_is_newline(*byte) && predicate.ensures((byte,), false)),
                    r && !spec_is_newline(*byte) ==> predicate.ensures((byte,), true),""")
    f.contract("""    requires callable(predicate),
    ensures /*@L:stops_at_hit_and_never_crosses_a_line_end:C05,C06*/ scan_raw(bytes@, predicate, ret),
        ret is Ok ==> ret->Ok_0.1@.len() <= bytes@.len(),
        /*@L:scan_is_the_reference_word_scan:C05*/ forall|kind: int| #[trigger] kind_of(predicate, kind) ==> match ret {
            Ok((s, rest)) => sp_word(bytes@, kind) == Some((str_bytes(s), rest@)),
            Err(_) => sp_word(bytes@, kind) is None,
        },
        /*@L:scan_step_stays_within_the_line:C06*/ ret is Ok ==> consumed_clean(bytes@, ret->Ok_0.1@) && str_no_nl(ret->Ok_0.0),""")
    f.body_start("let ghost b0 = bytes@;\n    proof { lemma_find_first_allk(b0); reveal(first_hit); reveal(scan_facts); reveal(scan_raw); reveal(split_ok); reveal(sp_word); }\n")
    # the hint goes in front of the `if` whose condition looks at the first remaining byte (`.. is_newline(&rest[0]) ..`), whatever else the condition says
    mnl = re.search(r"if\s+[^{};]*?is_newline\(&(\w+)\[\w+\]\)", f.orig)
    if not mnl:
        raise AnchorLost("parse_until_no_newline: the line-end test `if !rest.is_empty() && is_newline(&rest[0])` was not found")
    rv = mnl.group(1)
    f.insert_at(mnl.start(), """proof {
                let k = str_bytes(slice).len() as int;
                if k < b0.len() { assert(RV@[0] == b0[k]); }
                lemma_consumed_intro(b0, RV@, k);
                reveal(str_no_nl);
                assert forall|j: int| 0 <= j < k implies !spec_is_newline(#[trigger] str_bytes(slice)[j]) by { assert(str_bytes(slice)[j] == b0[j]); }
            }
            """.replace("RV", rv))
    u.emit(f)

    # ---------------- parse_usize ----------------
    f = mp.fn("parse_usize")
    f.ret("ret")
    f.props_all = ["C05", "C06"]; f.props_safety = P13
    f.replace_all_re(r"\(\*(\w+) as char\)\.is_numeric\(\)", r"shim_byte_is_numeric(*\1)", "R2", why="char::is_numeric behind a shim (table validated natively)", min_count=1)
    f.replace_all_re(r"(\w+)\.iter\(\)\.position\(", r"shim_slice_position(\1, ", "R2", min_count=1)
    f.replace_all_re(r"&\[\] as &\[u8\]", "shim_empty_u8()", "R2", min_count=1)
    f.replace_all_re(r"\b(\w+)\.parse\(\)", r"shim_parse_usize(\1)", "R2", why="str::parse::<usize> behind a shim with an abstract result", min_count=1)
    f.closure("|c|", params="|c: &u8|", ret="r: bool", spec="ensures r == ({specbody})", spec_map=[(r"\(\*(\w+) as char\)\.is_numeric\(\)", r"spec_byte_is_numeric(*\1)")])
    f.contract("""    ensures /*@L:number_is_the_maximal_digit_run:C05,C06*/ num_raw(bytes@, ret),
        ret is Ok ==> ret->Ok_0.1@.len() <= bytes@.len(),
        /*@L:number_step_is_the_reference_number_scan:C05*/ match ret { Ok((v, rest)) => sp_num(bytes@) == Some((v, rest@)), Err(_) => sp_num(bytes@) is None },
        /*@L:number_step_stays_within_the_line:C06*/ ret is Ok ==> consumed_clean(bytes@, ret->Ok_0.1@),""")
    f.after_stmt("let (slice, rest) = match", """    proof {
        let k = slice@.len() as int;
        assert(slice@ =~= bytes@.subrange(0, k));
        assert(rest@ =~= bytes@.subrange(k, bytes@.len() as int));
        lemma_consumed_intro(bytes@, rest@, k);
        reveal(digit_run); reveal(num_raw); reveal(sp_num);
        assert forall|j: int| 0 <= j < k implies !in_set(6, #[trigger] bytes@[j]) by { assert(slice@[j] == bytes@[j]); }
        if k < bytes@.len() { assert(rest@[0] == bytes@[k]); }
        lemma_find_first(bytes@, 6, k);
    }
""")
    u.emit(f)

    # ---------------- byte-string literals: contents are not modelled by Verus (only lengths); one axiom per literal,
    # generated from the same text that is written in the axiom, so the table cannot disagree with itself ----------------
    LITS = [('b" -> "', b" -> "), ('b":"', b":"), ('b"#"', b"#"), ('b"    "', b"    "), ('b" "', b" "), ('b"("', b"("), ('b")"', b")"),
            ('br#""}"#', b'"}'), ('br#" {"id":"sourceFile","fileName":""#', b' {"id":"sourceFile","fileName":"')]
    ax = ["#[verifier::external_body]\npub proof fn axiom_byte_literals()\n    ensures\n"]
    for txt, val in LITS:
        ax.append("        %s@ == seq![%s],\n" % (txt, ", ".join("%du8" % b for b in val)))
    ax.append("        str_bytes(\"sourceFile\") == seq![%s],\n" % ", ".join("%du8" % b for b in b"sourceFile"))
    ax.append("{}\n")
    # the short literals only (the 32-byte JSON prefix is needed by the header parser alone and is expensive to carry around)
    ax.append("#[verifier::external_body]\npub proof fn axiom_byte_literals_short()\n    ensures\n")
    for txt, val in LITS:
        if len(val) <= 4 and txt.startswith('b"'):
            ax.append("        %s@ == seq![%s],\n" % (txt, ", ".join("%du8" % b for b in val)))
    ax.append("{}\n")
    u.raw("".join(ax), "literal_axioms")
    c = mp.item("const", "SOURCE_FILE_PREFIX")
    c.insert_after("SOURCE_FILE_PREFIX: &", "'static ")   # elided 'static spelled out (Verus turns consts into items with explicit lifetimes)
    u.emit(c)

    GRAMMAR = """
pub open spec fn lit_arrow() -> Seq<u8> { seq![32u8, 45u8, 62u8, 32u8] }   // " -> "
pub open spec fn lit_colon() -> Seq<u8> { seq![58u8] }                     // ":"
// C05: class line  `originalclassname -> obfuscatedclassname:`
pub open spec fn class_line(bytes: Seq<u8>, o: Seq<u8>, b: Seq<u8>, tail: Seq<u8>) -> bool {
    bytes == o + lit_arrow() + b + lit_colon() + tail
    && (forall|j: int| 0 <= j < o.len() ==> o[j] != 32u8 && !spec_is_newline(#[trigger] o[j]))
    && (forall|j: int| 0 <= j < b.len() ==> b[j] != 58u8 && !spec_is_newline(#[trigger] b[j]))
}
pub proof fn lemma_after_arrow(r1: Seq<u8>, b: Seq<u8>, tail: Seq<u8>)
    requires r1 == lit_arrow() + b + lit_colon() + tail,
    ensures r1.len() >= 4, r1.subrange(0, 4) == lit_arrow(), r1.subrange(4, r1.len() as int) == b + lit_colon() + tail,
        (b + lit_colon() + tail)[b.len() as int] == 58u8,
        forall|j: int| 0 <= j < b.len() ==> #[trigger] (b + lit_colon() + tail)[j] == b[j],
        (b + lit_colon() + tail).subrange(0, b.len() as int) == b,
        (b + lit_colon() + tail).subrange(b.len() as int, (b + lit_colon() + tail).len() as int) == lit_colon() + tail,
        (lit_colon() + tail).subrange(0, 1) == lit_colon(),
{
    let r2 = b + lit_colon() + tail;
    assert(r1.subrange(0, 4) =~= lit_arrow());
    assert(r1.subrange(4, r1.len() as int) =~= r2);
    assert(r2.subrange(0, b.len() as int) =~= b);
    assert(r2.subrange(b.len() as int, r2.len() as int) =~= lit_colon() + tail);
    assert((lit_colon() + tail).subrange(0, 1) =~= lit_colon());
}
// what follows the class line's `:` (normally the line terminator and the rest of the file)
pub open spec fn class_tail(bytes: Seq<u8>, o: Seq<u8>, b: Seq<u8>) -> Seq<u8> { bytes.subrange((o.len() + 4 + b.len() + 1) as int, bytes.len() as int) }
// the reference parser of class lines: (original, obfuscated, what follows the `:`)
pub open spec fn class_spec(b: Seq<u8>) -> Option<(Seq<u8>, Seq<u8>, Seq<u8>)> {
    match sp_word(b, 3) { None => None, Some((o, b1)) =>
    match strip(b1, lit_arrow()) { None => None, Some(b2) =>
    match sp_word(b2, 2) { None => None, Some((ob, b3)) =>
    match strip(b3, lit_colon()) { None => None, Some(b4) => Some((o, ob, b4)) } } } }
}
// what the reference parser accepts has the documented shape: `o -> b:` with no space / line end in o and no `:` / line end in b
pub proof fn lemma_class_spec_sound(bytes: Seq<u8>)
    ensures match class_spec(bytes) {
        Some((o, b, tail)) => class_line(bytes, o, b, tail) && tail == class_tail(bytes, o, b),
        None => true,
    },
{
    reveal(strip); reveal(sp_word);
    match class_spec(bytes) {
        Some((o, b, tail)) => {
            let n = find_first(bytes, 3);
            lemma_find_first_props(bytes, 3);
            let b1 = bytes.subrange(n, bytes.len() as int);
            let b2 = b1.subrange(4, b1.len() as int);
            let m = find_first(b2, 2);
            lemma_find_first_props(b2, 2);
            let b3 = b2.subrange(m, b2.len() as int);
            assert(bytes =~= o + lit_arrow() + b + lit_colon() + tail);
            assert forall|j: int| 0 <= j < o.len() implies o[j] != 32u8 && !spec_is_newline(#[trigger] o[j]) by { assert(o[j] == bytes[j]); }
            assert forall|j: int| 0 <= j < b.len() implies b[j] != 58u8 && !spec_is_newline(#[trigger] b[j]) by { assert(b[j] == b2[j]); }
            assert(bytes.subrange((o.len() + 4 + b.len() + 1) as int, bytes.len() as int) =~= tail);
        },
        None => {},
    }
}
// every well-formed class line (any decomposition per the documented grammar) is accepted by the reference parser
pub proof fn lemma_class_line_accepted(bytes: Seq<u8>, o: Seq<u8>, b: Seq<u8>, tail: Seq<u8>)
    requires class_line(bytes, o, b, tail), valid_utf8(o), valid_utf8(b),
    ensures /*@L:every_well_formed_class_line_is_accepted:C05*/ class_spec(bytes) == Some((o, b, tail)),
{
    reveal(strip); reveal(sp_word);
    let n = o.len() as int;
    assert(bytes[n] == lit_arrow()[0]);
    assert forall|j: int| 0 <= j < n implies !in_set(3, #[trigger] bytes[j]) by { assert(bytes[j] == o[j]); }
    lemma_find_first(bytes, 3, n);
    assert(bytes.subrange(0, n) =~= o);
    let b1 = bytes.subrange(n, bytes.len() as int);
    assert(b1 =~= lit_arrow() + b + lit_colon() + tail);
    lemma_after_arrow(b1, b, tail);
    let b2 = b + lit_colon() + tail;
    assert(b1.subrange(4, b1.len() as int) == b2);
    let m = b.len() as int;
    assert forall|j: int| 0 <= j < m implies !in_set(2, #[trigger] b2[j]) by { assert(b2[j] == b[j]); }
    lemma_find_first(b2, 2, m);
    let b3 = lit_colon() + tail;
    assert(b3.subrange(1, b3.len() as int) =~= tail);
}
"""
    u.raw(GRAMMAR, "grammar")

    # ---------------- parse_proguard_class ----------------
    f = mp.fn("parse_proguard_class")
    f.ret("ret")
    f.props_all = ["C05", "C06"]; f.props_safety = P13
    char_class_shims(f)
    for occ in range(1, len(re.findall(r"\|c\|", f.orig)) + 1):
        f.closure("|c|", occ=occ, params="|c: &u8|", ret="r: bool", spec="ensures r == ({specbody})", spec_map=SPEC_MAP)
    f.contract("""    ensures
        /*@L:class_line_grammar:C05*/ match ret {
            Ok((ProguardRecord::Class { original, obfuscated }, rest)) =>
                class_line(bytes@, str_bytes(original), str_bytes(obfuscated), class_tail(bytes@, str_bytes(original), str_bytes(obfuscated)))
                && rest@ == skip_nl(class_tail(bytes@, str_bytes(original), str_bytes(obfuscated))),
            Ok((_, _)) => false,
            Err(_) => true,
        },
        /*@L:class_line_is_accepted_iff_the_reference_grammar_accepts_it:C05*/ match ret {
            Ok((ProguardRecord::Class { original, obfuscated }, rest)) => match class_spec(bytes@) {
                Some(cs) => cs.0 == str_bytes(original) && cs.1 == str_bytes(obfuscated) && rest@ == skip_nl(cs.2), None => false },
            Ok((_, _)) => false,
            Err(_) => class_spec(bytes@) is None,
        },
        /*@L:class_names_have_no_line_terminator:C06*/ match ret { Ok((ProguardRecord::Class { original, obfuscated }, _)) => str_no_nl(original) && str_no_nl(obfuscated), _ => true },
        /*@L:class_record_taken_within_first_line:C06*/ ret is Ok ==> taken_within_first_line(bytes@, ret->Ok_0.1@),""")
    wrap_scans(f, {"original": 3, "obfuscated": 2})
    f.body_start("let ghost b0 = bytes@;\n    proof { axiom_byte_literals_short(); assert(no_nl(b\" -> \"@) && no_nl(b\":\"@)); }\n")
    f.after_stmt("let (original, bytes) =", """    let ghost b1 = bytes@;
    proof { /*@L:original_class_name_is_the_reference_word:C05*/ assert(sp_word(b0, 3) == Some((str_bytes(original), b1))); }
""")
    f.after_stmt("let bytes = parse_prefix(bytes,", "    let ghost b2 = bytes@;\n", occ=1)
    f.after_stmt("let (obfuscated, bytes) =", """    let ghost b3 = bytes@;
    proof { /*@L:obfuscated_class_name_is_the_reference_word:C05*/ assert(sp_word(b2, 2) == Some((str_bytes(obfuscated), b3))); }
""")
    f.after_stmt("let bytes = parse_prefix(bytes,", "    let ghost b4 = bytes@;\n", occ=2)
    f.insert_before("Ok((record,", """proof {
        let o = str_bytes(original); let b = str_bytes(obfuscated);
        assert(class_spec(b0) == Some((o, b, b4)));
        /*@L:accepted_class_line_has_the_documented_shape:C05*/ lemma_class_spec_sound(b0);
        // line-boundary discipline (C06): every step consumed bytes that contain no line terminator
        lemma_consumed_refl(b0); lemma_consumed_trans(b0, b0, b1); lemma_consumed_trans(b0, b1, b2); lemma_consumed_trans(b0, b2, b3); lemma_consumed_trans(b0, b3, b4);
        lemma_consumed_taken(b0, b4);
    }
    """)
    u.emit(f)

    # ---------------- parse_proguard_header ----------------
    HSPEC = """
// byte classes used by the grammar
pub open spec fn in_set(kind: int, c: u8) -> bool {
    if kind == 0 { spec_is_newline(c) }                      // line end
    else if kind == 1 { spec_is_newline(c) || c == 34u8 }    // line end or `"`
    else if kind == 2 { c == 58u8 || spec_is_newline(c) }    // `:` or line end
    else if kind == 3 { spec_is_newline(c) || c == 32u8 }    // line end or space
    else if kind == 4 { spec_is_newline(c) || c == 32u8 || c == 40u8 }  // line end, space or `(`
    else if kind == 5 { spec_is_newline(c) || c == 41u8 }    // line end or `)`
    else { !spec_byte_is_numeric(c) }                        // not a digit
}
// index of the first byte of b in the class (b.len() if none): the reference scanner of the grammar specs
pub open spec fn find_first(b: Seq<u8>, kind: int) -> int
    decreases b.len()
{
    if b.len() == 0 || in_set(kind, b[0]) { 0 } else { 1 + find_first(b.subrange(1, b.len() as int), kind) }
}
pub proof fn lemma_find_first(b: Seq<u8>, kind: int, k: int)
    requires 0 <= k <= b.len(), forall|j: int| 0 <= j < k ==> !in_set(kind, #[trigger] b[j]), k < b.len() ==> in_set(kind, b[k]),
    ensures find_first(b, kind) == k,
    decreases b.len()
{
    if b.len() == 0 || in_set(kind, b[0]) { } else {
        let t = b.subrange(1, b.len() as int);
        assert forall|j: int| 0 <= j < k - 1 implies !in_set(kind, #[trigger] t[j]) by { assert(t[j] == b[j + 1]); }
        if k < b.len() { assert(t[k - 1] == b[k]); }
        lemma_find_first(t, kind, k - 1);
    }
}
// the defining properties of find_first
pub proof fn lemma_find_first_props(b: Seq<u8>, kind: int)
    ensures 0 <= find_first(b, kind) <= b.len(),
        forall|j: int| 0 <= j < find_first(b, kind) ==> !in_set(kind, #[trigger] b[j]),
        find_first(b, kind) < b.len() ==> in_set(kind, b[find_first(b, kind)]),
    decreases b.len()
{
    if b.len() == 0 || in_set(kind, b[0]) { } else {
        let t = b.subrange(1, b.len() as int);
        lemma_find_first_props(t, kind);
        assert forall|j: int| 0 <= j < find_first(b, kind) implies !in_set(kind, #[trigger] b[j]) by { if j > 0 { assert(b[j] == t[j - 1]); } }
    }
}
// lemma_find_first for every candidate position at once (used on error paths, where no proof code can be inserted)
pub proof fn lemma_find_first_all(b: Seq<u8>, kind: int)
    ensures forall|k: int| (0 <= k <= b.len() && (#[trigger] b.subrange(0, k)).len() == k
        && (forall|j: int| 0 <= j < k ==> !in_set(kind, #[trigger] b[j])) && (k < b.len() ==> in_set(kind, b[k]))) ==> find_first(b, kind) == k,
{
    assert forall|k: int| (0 <= k <= b.len() && (#[trigger] b.subrange(0, k)).len() == k
        && (forall|j: int| 0 <= j < k ==> !in_set(kind, #[trigger] b[j])) && (k < b.len() ==> in_set(kind, b[k]))) implies find_first(b, kind) == k by {
        lemma_find_first(b, kind, k);
    }
}
// ... and for every byte class at once
pub proof fn lemma_find_first_allk(b: Seq<u8>)
    ensures forall|kind: int, k: int| #![trigger find_first(b, kind), b.subrange(0, k)] (0 <= k <= b.len() && b.subrange(0, k).len() == k
        && (forall|j: int| 0 <= j < k ==> !in_set(kind, #[trigger] b[j])) && (k < b.len() ==> in_set(kind, b[k]))) ==> find_first(b, kind) == k,
{
    assert forall|kind: int, k: int| #![trigger find_first(b, kind), b.subrange(0, k)] (0 <= k <= b.len() && b.subrange(0, k).len() == k
        && (forall|j: int| 0 <= j < k ==> !in_set(kind, #[trigger] b[j])) && (k < b.len() ==> in_set(kind, b[k]))) implies find_first(b, kind) == k by {
        lemma_find_first(b, kind, k);
    }
}
pub open spec fn has_prefix(b: Seq<u8>, p: Seq<u8>) -> bool { p.len() <= b.len() && b.subrange(0, p.len() as int) == p }
pub open spec fn lit_sfp() -> Seq<u8> { br#" {"id":"sourceFile","fileName":""#@ }
pub open spec fn lit_sf_key() -> Seq<u8> { str_bytes("sourceFile") }

// C05: header line, as a reference parser written from the documented grammar:
//   `#` ` {"id":"sourceFile","fileName":"` VALUE `"}`     -> key "sourceFile", value VALUE (no quote, no line end inside)
//   `#` KEY [`:` VALUE]   up to the line end                  -> key = trim(KEY), value = trim(VALUE)
pub struct HeaderSpec { pub key: Seq<u8>, pub value: Option<Seq<u8>>, pub rest: Seq<u8> }
pub open spec fn lit_hash() -> Seq<u8> { seq![35u8] }
pub open spec fn lit_qb() -> Seq<u8> { seq![34u8, 125u8] }    // `"}`
pub open spec fn header_spec(b0: Seq<u8>) -> Option<HeaderSpec> {
    match strip(b0, lit_hash()) { None => None, Some(body) =>
        match strip(body, lit_sfp()) {
            Some(v0) => match sp_word(v0, 1) { None => None, Some((v, v1)) => match strip(v1, lit_qb()) { None => None, Some(v2) =>
                Some(HeaderSpec { key: lit_sf_key(), value: Some(v), rest: skip_nl(v2) }) } },
            None => match sp_until(body, 2) { None => None, Some((k, k1)) =>
                match strip(k1, lit_colon()) {
                    Some(a) => match sp_until(a, 0) { None => None, Some((v, k2)) => Some(HeaderSpec { key: spec_trim(k), value: Some(spec_trim(v)), rest: skip_nl(k2) }) },
                    None => Some(HeaderSpec { key: spec_trim(k), value: None, rest: skip_nl(k1) }),
                } },
        } }
}
pub open spec fn opt_bytes(o: Option<&str>) -> Option<Seq<u8>> { match o { Some(s) => Some(str_bytes(s)), None => None } }
// a no-newline prefix of length k (1 <= k) followed by skip_nl of the remainder: the witness form of taken_within_first_line
pub proof fn lemma_taken(b: Seq<u8>, k: int, rest: Seq<u8>)
    requires 1 <= k <= b.len(), no_nl(b.subrange(0, k)), rest == skip_nl(b.subrange(k, b.len() as int)),
    ensures taken_within_first_line(b, rest),
{}
// ---- reference grammar of member lines (C05) ----
//   `    ` [START `:` END `:`] TYPE ` ` NAME [ `(` ARGS `)` [ `:` OSTART [ `:` OEND ] ] ] ` -> ` OBFUSCATED  line-end
pub open spec fn lit_4sp() -> Seq<u8> { seq![32u8, 32u8, 32u8, 32u8] }
pub open spec fn lit_sp() -> Seq<u8> { seq![32u8] }
pub open spec fn lit_lp() -> Seq<u8> { seq![40u8] }
pub open spec fn lit_rp() -> Seq<u8> { seq![41u8] }
#[verifier::opaque]
pub open spec fn strip(b: Seq<u8>, p: Seq<u8>) -> Option<Seq<u8>> { if has_prefix(b, p) { Some(b.subrange(p.len() as int, b.len() as int)) } else { None } }
// a number: the maximal run of digit bytes, which must parse
#[verifier::opaque]
pub open spec fn sp_num(b: Seq<u8>) -> Option<(usize, Seq<u8>)> {
    let d = find_first(b, 6); let s = b.subrange(0, d);
    if valid_utf8(s) && spec_parse_usize(s) is Some { Some((spec_parse_usize(s)->0, b.subrange(d, b.len() as int))) } else { None }
}
// a word: everything up to the first byte of the class `kind` (3: space, 4: space or `(`, 5: `)`), which must not be a line end
#[verifier::opaque]
pub open spec fn sp_word(b: Seq<u8>, kind: int) -> Option<(Seq<u8>, Seq<u8>)> {
    let k = find_first(b, kind);
    if (k < b.len() && spec_is_newline(b[k])) || !valid_utf8(b.subrange(0, k)) { None } else { Some((b.subrange(0, k), b.subrange(k, b.len() as int))) }
}
pub open spec fn st_start(b: Seq<u8>) -> (Option<usize>, Seq<u8>) { match sp_num(b) { Some((v, r)) => (Some(v), r), None => (None, b) } }
pub open spec fn st_end(start: Option<usize>, b: Seq<u8>) -> Option<(Option<usize>, Seq<u8>)> {
    match start {
        None => Some((None, b)),
        Some(_) => match strip(b, lit_colon()) { None => None, Some(c1) => match sp_num(c1) { None => None, Some((e, c2)) =>
            match strip(c2, lit_colon()) { None => None, Some(c3) => Some((Some(e), c3)) } } },
    }
}
pub open spec fn st_args(b: Seq<u8>) -> Option<(Option<Seq<u8>>, Seq<u8>)> {
    match strip(b, lit_lp()) {
        None => Some((None, b)),
        Some(c1) => match sp_word(c1, 5) { None => None, Some((a, c2)) => match strip(c2, lit_rp()) { None => None, Some(c3) => Some((Some(a), c3)) } },
    }
}
pub open spec fn st_optnum(gate: bool, b: Seq<u8>) -> Option<(Option<usize>, Seq<u8>)> {
    if !gate { Some((None, b)) } else { match strip(b, lit_colon()) { None => Some((None, b)), Some(c1) => match sp_num(c1) { None => None, Some((v, c2)) => Some((Some(v), c2)) } } }
}
// everything up to the first byte of the class `kind` (no line-end rule: the plain `parse_until`)
#[verifier::opaque]
pub open spec fn sp_until(b: Seq<u8>, kind: int) -> Option<(Seq<u8>, Seq<u8>)> {
    let k = find_first(b, kind);
    if valid_utf8(b.subrange(0, k)) { Some((b.subrange(0, k), b.subrange(k, b.len() as int))) } else { None }
}
pub open spec fn sp_obf(b: Seq<u8>) -> Option<(Seq<u8>, Seq<u8>)> { sp_until(b, 0) }
pub struct MemberSpec { pub start: Option<usize>, pub end: Option<usize>, pub ty: Seq<u8>, pub orig: Seq<u8>, pub args: Option<Seq<u8>>,
                        pub ostart: Option<usize>, pub oend: Option<usize>, pub obf: Seq<u8>, pub rest: Seq<u8> }
// The reference parser is written as a chain of continuations ms1 .. ms10 (one per grammar position) so that the proof of the real
// parser can advance one position at a time: `member_spec(b0) == ms_k(parts so far, <spec of the next position>)`.
pub open spec fn ms_init() -> MemberSpec {
    MemberSpec { start: None, end: None, ty: Seq::empty(), orig: Seq::empty(), args: None, ostart: None, oend: None, obf: Seq::empty(), rest: Seq::empty() }
}
pub open spec fn member_spec(b0: Seq<u8>) -> Option<MemberSpec> { ms1(strip(b0, lit_4sp())) }
#[verifier::opaque]
pub open spec fn ms1(o: Option<Seq<u8>>) -> Option<MemberSpec> {
    match o { None => None, Some(b1) => { let s = st_start(b1); ms2(MemberSpec { start: s.0, ..ms_init() }, st_end(s.0, s.1)) } }
}
#[verifier::opaque]
pub open spec fn ms2(a: MemberSpec, o: Option<(Option<usize>, Seq<u8>)>) -> Option<MemberSpec> {
    match o { None => None, Some((end, b3)) => ms3(MemberSpec { end: end, ..a }, sp_word(b3, 3)) }
}
#[verifier::opaque]
pub open spec fn ms3(a: MemberSpec, o: Option<(Seq<u8>, Seq<u8>)>) -> Option<MemberSpec> {
    match o { None => None, Some((ty, b4)) => ms4(MemberSpec { ty: ty, ..a }, strip(b4, lit_sp())) }
}
#[verifier::opaque]
pub open spec fn ms4(a: MemberSpec, o: Option<Seq<u8>>) -> Option<MemberSpec> {
    match o { None => None, Some(b5) => ms5(a, sp_word(b5, 4)) }
}
#[verifier::opaque]
pub open spec fn ms5(a: MemberSpec, o: Option<(Seq<u8>, Seq<u8>)>) -> Option<MemberSpec> {
    match o { None => None, Some((orig, b6)) => ms6(MemberSpec { orig: orig, ..a }, st_args(b6)) }
}
#[verifier::opaque]
pub open spec fn ms6(a: MemberSpec, o: Option<(Option<Seq<u8>>, Seq<u8>)>) -> Option<MemberSpec> {
    match o { None => None, Some((args, b7)) => ms7(MemberSpec { args: args, ..a }, st_optnum(args is Some, b7)) }
}
#[verifier::opaque]
pub open spec fn ms7(a: MemberSpec, o: Option<(Option<usize>, Seq<u8>)>) -> Option<MemberSpec> {
    match o { None => None, Some((ostart, b8)) => ms8(MemberSpec { ostart: ostart, ..a }, st_optnum(ostart is Some, b8)) }
}
#[verifier::opaque]
pub open spec fn ms8(a: MemberSpec, o: Option<(Option<usize>, Seq<u8>)>) -> Option<MemberSpec> {
    match o { None => None, Some((oend, b9)) => ms9(MemberSpec { oend: oend, ..a }, strip(b9, lit_arrow())) }
}
#[verifier::opaque]
pub open spec fn ms9(a: MemberSpec, o: Option<Seq<u8>>) -> Option<MemberSpec> {
    match o { None => None, Some(b10) => ms10(a, sp_obf(b10)) }
}
#[verifier::opaque]
pub open spec fn ms10(a: MemberSpec, o: Option<(Seq<u8>, Seq<u8>)>) -> Option<MemberSpec> {
    match o { None => None, Some((obf, b11)) => Some(MemberSpec { obf: obf, rest: b11, ..a }) }
}
// a failed position fails the line
pub proof fn lemma_ms_none()
    ensures
        ms1(None) is None,
        forall|a: MemberSpec| (#[trigger] ms2(a, None)) is None, forall|a: MemberSpec| (#[trigger] ms3(a, None)) is None,
        forall|a: MemberSpec| (#[trigger] ms4(a, None)) is None, forall|a: MemberSpec| (#[trigger] ms5(a, None)) is None,
        forall|a: MemberSpec| (#[trigger] ms6(a, None)) is None, forall|a: MemberSpec| (#[trigger] ms7(a, None)) is None,
        forall|a: MemberSpec| (#[trigger] ms8(a, None)) is None, forall|a: MemberSpec| (#[trigger] ms9(a, None)) is None,
        forall|a: MemberSpec| (#[trigger] ms10(a, None)) is None,
{
    reveal(ms1); reveal(ms2); reveal(ms3); reveal(ms4); reveal(ms5); reveal(ms6); reveal(ms7); reveal(ms8); reveal(ms9); reveal(ms10);
}
// how the record is assembled from the parts of the line
pub open spec fn member_record_ok(rec: ProguardRecord, ms: MemberSpec) -> bool {
    match rec {
        ProguardRecord::Field { ty, original, obfuscated } => ms.args is None && str_bytes(ty) == ms.ty && str_bytes(original) == ms.orig && str_bytes(obfuscated) == ms.obf,
        ProguardRecord::Method { ty, original, obfuscated, arguments, original_class, line_mapping } =>
            ms.args is Some && str_bytes(arguments) == ms.args->0 && str_bytes(ty) == ms.ty && str_bytes(obfuscated) == ms.obf
            && (match spec_last_dot(ms.orig) {
                    Some(d) => original_class is Some && str_bytes(original_class->0) == ms.orig.subrange(0, d) && str_bytes(original) == ms.orig.subrange(d + 1, ms.orig.len() as int),
                    None => original_class is None && str_bytes(original) == ms.orig })
            && (line_mapping is Some) == (ms.start is Some && ms.end is Some && ms.start->0 > 0 && ms.end->0 > 0)
            && (line_mapping is Some ==> line_mapping->0.startline == ms.start->0 && line_mapping->0.endline == ms.end->0
                    && line_mapping->0.original_startline == ms.ostart && line_mapping->0.original_endline == ms.oend),
        _ => false,
    }
}
pub proof fn lemma_sfp_no_nl()
    ensures forall|j: int| 0 <= j < 32 ==> !spec_is_newline(#[trigger] lit_sfp()[j]), lit_sfp().len() == 32,
{ axiom_byte_literals(); }
"""
    u.raw(HSPEC, "header_spec")
    f = mp.fn("parse_proguard_header")
    f.ret("ret")
    f.props_all = ["C05", "C06"]; f.props_safety = P13
    char_class_shims(f)
    for occ in range(1, len(re.findall(r"\|c\|", f.orig)) + 1):
        f.closure("|c|", occ=occ, params="|c: &u8|", ret="r: bool", spec="ensures r == ({specbody})", spec_map=SPEC_MAP)
    f.replace_all_re(r"parse_until\(bytes, is_newline\)", "parse_until(bytes, as_exact(|b: &u8| -> (r: bool) ensures r == spec_is_newline(*b) { is_newline(b) }, Ghost(0)))", "R3",
                     why="fn item `is_newline` passed as predicate: eta-expanded into a closure carrying its contract, wrapped (R12) as byte class 0", min_count=0)
    f.replace_all_re(r"\.map\(\|\(v, bytes\)\| \(Some\(v\), bytes\)\)", ".map(|vb: (&str, &[u8])| -> (r: (Option<&str>, &[u8])) ensures r == (Some(vb.0), vb.1) { let (v, bytes) = vb; (Some(v), bytes) })", "R3",
                     why="closure with a tuple pattern parameter: pattern moved into a `let` inside the body, contract added", min_count=0)
    f.replace_all_re(r"key\.trim\(\)", "shim_trim(key)", "R2", why="str::trim behind a shim (result is a sub-slice)", min_count=0)
    f.replace_all_re(r"value\.map\(\|v\| v\.trim\(\)\)", "value.map(|v: &str| -> (r: &str) ensures str_bytes(r) == spec_trim(str_bytes(v)), exists|a: int, b: int| 0 <= a <= b <= str_bytes(v).len() && str_bytes(r) == #[trigger] str_bytes(v).subrange(a, b) { shim_trim(v) })", "R2", min_count=0)
    wrap_scans(f, {"value": 1, "key": 2})
    f.contract("""    ensures
        /*@L:header_line_is_accepted_iff_the_reference_grammar_accepts_it:C05*/ match ret {
            Ok((ProguardRecord::Header { key, value }, rest)) => header_spec(bytes@) == Some(HeaderSpec { key: str_bytes(key), value: opt_bytes(value), rest: rest@ }),
            Ok((_, _)) => false,
            Err(_) => header_spec(bytes@) is None,
        },
        /*@L:header_key_and_value_have_no_line_terminator:C06*/ match ret { Ok((ProguardRecord::Header { key, value }, _)) => str_no_nl(key) && opt_no_nl(value), _ => true },
        /*@L:header_record_taken_within_first_line:C06*/ ret is Ok ==> taken_within_first_line(bytes@, ret->Ok_0.1@),""")
    f.body_start("let ghost b0 = bytes@;\n    proof { axiom_byte_literals(); reveal_strlit(\"sourceFile\"); lemma_sfp_no_nl(); lemma_consumed_refl(b0);"
                 " assert(no_nl(b\"#\"@) && no_nl(b\":\"@) && no_nl(br#\"\"}\"#@) && no_nl(SOURCE_FILE_PREFIX@)); }\n")
    f.after_stmt("let bytes = parse_prefix(bytes, b\"#\")", "    let ghost body = bytes@;\n    proof { lemma_consumed_trans(b0, b0, body); }\n")
    f.insert_after("if let Ok(bytes) = parse_prefix(bytes, SOURCE_FILE_PREFIX) {", "\n        let ghost v0 = bytes@;\n        proof { lemma_consumed_trans(b0, body, v0); }")
    f.after_stmt("let (value, bytes) = parse_until", "        let ghost v1 = bytes@;\n        proof { assert(sp_word(v0, 1) == Some((str_bytes(value), v1))); lemma_consumed_trans(b0, v0, v1); }\n")
    f.after_stmt("let bytes = parse_prefix(bytes, br#", "        let ghost v2 = bytes@;\n        proof { lemma_consumed_trans(b0, v1, v2); }\n")
    f.insert_before("Ok((record, consume_leading_newlines(bytes)))", """proof {
            /*@L:source_file_header_is_the_json_form:C05*/ assert(header_spec(b0) == Some(HeaderSpec { key: lit_sf_key(), value: Some(str_bytes(value)), rest: skip_nl(v2) }));
            lemma_consumed_taken(b0, v2);
            reveal(str_no_nl); assert(no_nl(lit_sf_key()));
        }
        """, occ=1)
    f.after_stmt("let (key, bytes) = parse_until(", "        let ghost k1 = bytes@;\n        proof { assert(sp_until(body, 2) == Some((str_bytes(key), k1))); lemma_consumed_trans(b0, body, k1); }\n")
    f.after_stmt("let (value, bytes) = match parse_prefix(", """        let ghost k2 = bytes@;
        proof {
            /*@L:optional_value_after_the_colon:C05*/ assert(match strip(k1, lit_colon()) {
                Some(a) => value is Some && sp_until(a, 0) == Some((str_bytes(value->0), k2)),
                None => value is None && k2 == k1 });
            assert(consumed_clean(b0, k2)) by { match strip(k1, lit_colon()) { Some(a) => { lemma_consumed_trans(b0, k1, a); lemma_consumed_trans(b0, a, k2); }, None => {} } }
        }
""")
    f.insert_before("Ok((record, consume_leading_newlines(bytes)))", """proof {
            reveal(str_no_nl);
            let kb = str_bytes(key);
            let (tk, tv) = match record { ProguardRecord::Header { key, value } => (key, value), _ => (key, value) };
            /*@L:key_and_value_are_trimmed:C05*/ assert(header_spec(b0) == Some(HeaderSpec { key: str_bytes(tk), value: opt_bytes(tv), rest: skip_nl(k2) }));
            // trimmed strings are sub-slices of strings without line terminator
            let (ka, kz) = choose|a: int, b: int| 0 <= a <= b <= kb.len() && str_bytes(tk) == #[trigger] kb.subrange(a, b);
            lemma_sub_no_nl(kb, ka, kz);
            if value is Some {
                let vb = str_bytes(value->0);
                let (va, vz) = choose|a: int, b: int| 0 <= a <= b <= vb.len() && str_bytes(tv->0) == #[trigger] vb.subrange(a, b);
                lemma_sub_no_nl(vb, va, vz);
            }
            lemma_consumed_taken(b0, k2);
        }
        """, occ=2)
    u.emit(f)

    # ---------------- parse_proguard_field_or_method ----------------
    MSPEC = """
// `cur` is the suffix of b0 that is still to be parsed, and everything consumed so far contains no line terminator
pub open spec fn clean_prefix(b0: Seq<u8>, cur: Seq<u8>) -> bool {
    cur.len() <= b0.len() && cur == b0.subrange(b0.len() - cur.len(), b0.len() as int) && no_nl(b0.subrange(0, b0.len() - cur.len()))
}
pub proof fn lemma_clean_step(b0: Seq<u8>, cur: Seq<u8>, next: Seq<u8>, n: int)
    requires clean_prefix(b0, cur), 0 <= n <= cur.len(), next == cur.subrange(n, cur.len() as int),
        forall|j: int| 0 <= j < n ==> !spec_is_newline(#[trigger] cur[j]),
    ensures clean_prefix(b0, next),
{
    let o = b0.len() - cur.len();
    assert(next =~= b0.subrange(o + n, b0.len() as int));
    assert forall|j: int| 0 <= j < o + n implies !spec_is_newline(#[trigger] b0.subrange(0, o + n)[j]) by {
        if j < o { assert(b0.subrange(0, o)[j] == b0[j]); } else { assert(cur[j - o] == b0[j]); }
    }
}
pub proof fn lemma_clean_taken(b0: Seq<u8>, cur: Seq<u8>)
    requires clean_prefix(b0, cur), cur.len() < b0.len(),
    ensures taken_within_first_line(b0, skip_nl(cur)),
{ lemma_taken(b0, b0.len() - cur.len(), skip_nl(cur)); }
pub proof fn lemma_numeric_no_nl(b: Seq<u8>, k: int)
    requires 0 <= k <= b.len(), forall|j: int| 0 <= j < k ==> spec_byte_is_numeric(#[trigger] b[j]),
    ensures no_nl(b.subrange(0, k)),
{ assert forall|j: int| 0 <= j < k implies !spec_is_newline(#[trigger] b.subrange(0, k)[j]) by { assert(b.subrange(0, k)[j] == b[j]); } }
"""
    u.raw(MSPEC, "member_spec")
    f = mp.fn("parse_proguard_field_or_method")
    f.ret("ret")
    f.props_all = ["C05", "C06"]; f.props_safety = P13
    char_class_shims(f)
    for occ in range(1, len(re.findall(r"\|c\|", f.orig)) + 1):
        f.closure("|c|", occ=occ, params="|c: &u8|", ret="r: bool", spec="ensures r == ({specbody})", spec_map=SPEC_MAP)
    f.replace_all_re(r"parse_until\(bytes, is_newline\)", "parse_until(bytes, as_exact(|b: &u8| -> (r: bool) ensures r == spec_is_newline(*b) { is_newline(b) }, Ghost(0)))", "R3",
                     why="fn item `is_newline` passed as predicate: eta-expanded into a closure carrying its contract, wrapped (R12) as byte class 0", min_count=0)
    # R5 (trusted region): the three rsplitn statements
    f.replace_re(r"let mut split_class = original\.rsplitn\((\d+), '\.'\);\s*let original = split_class\.next\(\)\.ok_or\(ParseError \{\s*line: bytes,\s*kind: ParseErrorKind::ParseError\(\"line is not a valid proguard record\"\),\s*\}\)\?;\s*let original_class = split_class\.next\(\);",
                 """let ghost orig_full = str_bytes(original);
            proof { reveal(str_no_nl); }
            let (original, original_class) = shim_rsplit_class(original, \\1);
            proof {
                reveal(str_no_nl);
                match spec_last_dot(orig_full) {
                    Some(d) => { lemma_sub_no_nl(orig_full, 0, d); lemma_sub_no_nl(orig_full, d + 1, orig_full.len() as int); },
                    None => {},
                }
            }""", "R5",
                 why="str::rsplitn (Pattern API) is outside Verus' reach: the three statements are replaced by a shim with the assumed contract 'split at the last dot' (rsplitn(2, _) always yields a first item, so the ok_or error is unreachable)")
    f.contract("""    ensures
        /*@L:member_strings_have_no_line_terminator:C06*/ match ret {
            Ok((ProguardRecord::Field { ty, original, obfuscated }, _)) => str_no_nl(ty) && str_no_nl(original) && str_no_nl(obfuscated),
            Ok((ProguardRecord::Method { ty, original, obfuscated, arguments, original_class, line_mapping }, _)) =>
                str_no_nl(ty) && str_no_nl(original) && str_no_nl(obfuscated) && str_no_nl(arguments) && opt_no_nl(original_class),
            Ok((_, _)) => false,
            Err(_) => true,
        },
        /*@L:member_line_grammar:C05*/ match ret {
            Ok((rec, rest)) => match member_spec(bytes@) { Some(ms) => rest@ == skip_nl(ms.rest) && member_record_ok(rec, ms), None => false },
            Err(_) => member_spec(bytes@) is None,
        },
        /*@L:member_record_taken_within_first_line:C06*/ ret is Ok ==> taken_within_first_line(bytes@, ret->Ok_0.1@),""")
    f.body_start("let ghost b0 = bytes@;\n    proof { axiom_byte_literals_short(); lemma_ms_none(); lemma_consumed_refl(b0); assert(no_nl(b\"    \"@) && no_nl(b\":\"@) && no_nl(b\" \"@) && no_nl(b\"(\"@) && no_nl(b\")\"@) && no_nl(b\" -> \"@)); }\n")
    # every statement that rebinds `bytes` (at any nesting depth) is one parsing step: the consumed bytes contain no line terminator
    stmts = []
    for m in re.finditer(r"let\s+(?:\(\w+,\s*bytes\)|bytes)\s*=", f.orig):
        stmts.append(f.stmt_extent(m.start()))
    STEP = "proof { /*@L:consumed_bytes_stay_within_the_line:C06*/ lemma_consumed_refl(cur%d); lemma_consumed_trans(b0, cur%d, bytes@); }"
    KIND_OF = {"ty": 3, "original": 4, "arguments": 5}
    wrap_scans(f, KIND_OF)
    top = [k for k, (a, b) in enumerate(stmts) if not any(x[0] < a and b <= x[1] for x in stmts if x != (a, b))]
    for k, (a, b) in enumerate(stmts):
        inner = [x for x in stmts if a < x[0] < b]
        txt = f.orig[a:b]
        mw = re.match(r"let\s+\((\w+),\s*bytes\)\s*=\s*parse_until_no_newline\(", txt)
        mo = re.match(r"let\s+\((\w+),\s*bytes\)\s*=\s*parse_until\(", txt)
        f.insert_at(a, "let ghost cur%d = bytes@;\n    " % k)
        if mw:
            f.insert_at(b, "\n    proof { /*@L:component_is_the_reference_word:C05*/ assert(sp_word(cur%d, %d) == Some((str_bytes(%s), bytes@))); }" % (k, KIND_OF[mw.group(1)], mw.group(1)))
        elif mo:
            f.insert_at(b, "\n    proof { /*@L:obfuscated_name_runs_to_the_line_end:C05*/ assert(sp_obf(cur%d) == Some((str_bytes(%s), bytes@))); }" % (k, mo.group(1)))
        if inner:
            f.insert_at(b, "\n    proof { /*@L:consumed_bytes_stay_within_the_line:C06*/ assert(consumed_clean(b0, bytes@)); }")
        else:
            f.insert_at(b, "\n    " + STEP % (k, k))
    for m in re.finditer(r"Ok\(bytes\)\s*=>\s*\{", f.orig):
        encl = [k for k, (a, b) in enumerate(stmts) if a < m.start() < b]
        if not encl:
            continue
        k = max(encl, key=lambda k: stmts[k][0])
        f.insert_at(m.end(), "\n    " + STEP % (k, k))
    # the reference grammar, one position at a time: after each top-level statement, `member_spec(b0)` is the continuation of the
    # next position applied to the parts found so far (each step reveals exactly one continuation)
    def top_stmt(var):
        m = re.search(r"let\s+\(%s,\s*bytes\)\s*=" % var, f.orig)
        if not m:
            raise AnchorLost("parse_proguard_field_or_method: statement binding `%s` not found" % var)
        a, b = f.stmt_extent(m.start())
        k = [i for i, x in enumerate(stmts) if x == (a, b)]
        if not k or k[0] not in top:
            raise AnchorLost("parse_proguard_field_or_method: statement binding `%s` is not a top-level parsing step" % var)
        return k[0], b
    tops_prefix = [k for k in top if re.match(r"let\s+bytes\s*=\s*parse_prefix\(", f.orig[stmts[k][0]:stmts[k][1]])]
    if len(tops_prefix) != 3:
        raise AnchorLost("parse_proguard_field_or_method: expected three top-level parse_prefix steps, found %d" % len(tops_prefix))
    p0, p1, p2 = tops_prefix
    f.insert_at(stmts[p0][1], "\n    proof { /*@L:member_line_starts_with_four_spaces:C05*/ assert(member_spec(b0) == ms1(Some(bytes@))); }")
    k1, e1 = top_stmt("startline")
    f.insert_at(e1, """
    let ghost a1 = MemberSpec { start: startline, ..ms_init() };
    proof { /*@L:optional_start_line:C05*/ assert(st_start(cur%d) == (startline, bytes@));
            assert(member_spec(b0) == ms2(a1, st_end(startline, bytes@))) by { reveal(ms1); } }""" % k1)
    k2, e2 = top_stmt("endline")
    f.insert_at(e2, """
    let ghost a2 = MemberSpec { end: endline, ..a1 };
    proof { /*@L:end_line_follows_a_start_line:C05*/ assert(st_end(startline, cur%d) == Some((endline, bytes@)));
            assert(member_spec(b0) == ms3(a2, sp_word(bytes@, 3))) by { reveal(ms2); } }""" % k2)
    k3, e3 = top_stmt("ty")
    f.insert_at(e3, """
    let ghost a3 = MemberSpec { ty: str_bytes(ty), ..a2 };
    proof { assert(member_spec(b0) == ms4(a3, strip(bytes@, lit_sp()))) by { reveal(ms3); } }""")
    f.insert_at(stmts[p1][1], "\n    proof { /*@L:one_space_between_type_and_name:C05*/ assert(member_spec(b0) == ms5(a3, sp_word(bytes@, 4))) by { reveal(ms4); } }")
    k5, e5 = top_stmt("original")
    f.insert_at(e5, """
    let ghost a5 = MemberSpec { orig: str_bytes(original), ..a3 };
    proof { assert(member_spec(b0) == ms6(a5, st_args(bytes@))) by { reveal(ms5); } }""")
    k6, e6 = top_stmt("arguments")
    f.insert_at(e6, """
    let ghost a6 = MemberSpec { args: opt_bytes(arguments), ..a5 };
    proof { /*@L:optional_argument_list:C05*/ assert(st_args(cur%d) == Some((opt_bytes(arguments), bytes@)));
            assert(member_spec(b0) == ms7(a6, st_optnum(arguments is Some, bytes@))) by { reveal(ms6); } }""" % k6)
    k7, e7 = top_stmt("original_startline")
    f.insert_at(e7, """
    let ghost a7 = MemberSpec { ostart: original_startline, ..a6 };
    proof { /*@L:optional_original_start_line_only_after_arguments:C05*/ assert(st_optnum(arguments is Some, cur%d) == Some((original_startline, bytes@)));
            assert(member_spec(b0) == ms8(a7, st_optnum(original_startline is Some, bytes@))) by { reveal(ms7); } }""" % k7)
    k8, e8 = top_stmt("original_endline")
    f.insert_at(e8, """
    let ghost a8 = MemberSpec { oend: original_endline, ..a7 };
    proof { /*@L:optional_original_end_line_only_after_a_start_line:C05*/ assert(st_optnum(original_startline is Some, cur%d) == Some((original_endline, bytes@)));
            assert(member_spec(b0) == ms9(a8, strip(bytes@, lit_arrow()))) by { reveal(ms8); } }""" % k8)
    f.insert_at(stmts[p2][1], "\n    proof { /*@L:arrow_before_the_obfuscated_name:C05*/ assert(member_spec(b0) == ms10(a8, sp_obf(bytes@))) by { reveal(ms9); } }")
    k10, e10 = top_stmt("obfuscated")
    f.insert_at(e10, """
    proof { /*@L:line_is_the_reference_member_line:C05*/ assert(member_spec(b0) == Some(MemberSpec { obf: str_bytes(obfuscated), rest: bytes@, ..a8 })) by { reveal(ms10); } }""")
    f.insert_before("Ok((record, consume_leading_newlines(bytes)))", """proof {
        lemma_consumed_taken(b0, bytes@);
        // C05 sub-lemmas: how the record is assembled from the parsed components
        /*@L:method_iff_argument_list_present:C05*/ assert(match record { ProguardRecord::Method { .. } => arguments is Some, ProguardRecord::Field { .. } => arguments is None, _ => false });
        /*@L:line_mapping_present_iff_both_obfuscated_lines_positive:C05*/ assert(match record {
            ProguardRecord::Method { line_mapping, .. } => (line_mapping is Some) == (startline is Some && endline is Some && startline->0 > 0 && endline->0 > 0),
            _ => true });
        /*@L:line_mapping_carries_the_parsed_numbers:C05*/ assert(match record {
            ProguardRecord::Method { line_mapping: Some(lm), .. } => Some(lm.startline) == startline && Some(lm.endline) == endline
                && lm.original_startline == original_startline && lm.original_endline == original_endline,
            _ => true });
        /*@L:end_line_required_after_start_line:C05*/ assert(startline is Some ==> endline is Some);
        /*@L:original_lines_only_after_argument_list:C05*/ assert((original_startline is Some ==> arguments is Some) && (original_endline is Some ==> original_startline is Some));
        /*@L:record_strings_are_the_parsed_components:C05*/ assert(match record {
            ProguardRecord::Field { ty: t, original: o, obfuscated: ob } => t == ty && o == original && ob == obfuscated,
            ProguardRecord::Method { ty: t, obfuscated: ob, arguments: a, original: o, original_class: oc, .. } => t == ty && ob == obfuscated && Some(a) == arguments
                && ({ let s = str_bytes(original); match spec_last_dot(s) {
                        Some(d) => oc is Some && str_bytes(oc->0) == s.subrange(0, d) && str_bytes(o) == s.subrange(d + 1, s.len() as int),
                        None => oc is None && o == original } }),
            _ => false });
    }
    """)
    u.emit(f)

    # ---------------- parse_proguard_record ----------------
    u.raw(ITEM_SPEC, "reference parser of one item (dispatch over the three line grammars)")
    f = mp.fn("parse_proguard_record")
    f.ret("ret")
    f.props_all = ["C06", "C05", "C19"]; f.props_safety = P13
    f.replace_all_re(r"bytes\.starts_with\((b\"[^\"]*\")\)", r"shim_starts_with(bytes, \1)", "R2", why="<[u8]>::starts_with behind a shim (documented contract)", min_count=2)
    # The line-level clauses are stated for input that starts at a line start (no leading terminator): that is what the properties talk about
    # (C05: a line parsed alone or inside a file; C06: the iterator, which skips terminators before every item). Whether the function itself
    # skips leading terminators or leaves that to its callers is not pinned here; progress, the suffix rule and totality hold for every input.
    f.contract("""    ensures
        /*@L:progress_on_non_empty_input:C06,C19*/ bytes@.len() > 0 ==> ret.1@.len() < bytes@.len(),
        /*@L:ok_record_taken_within_first_line:C06*/ at_line_start(bytes@) && ret.0 is Ok ==> taken_within_first_line(bytes@, ret.1@),
        /*@L:error_consumes_exactly_one_line:C06,C05*/ at_line_start(bytes@) && ret.0 is Err ==> ({ let b = bytes@;
            ret.0->Err_0.line@ == b.subrange(0, line_end(b)) && ret.1@ == b.subrange(line_end(b), b.len() as int) }),
        /*@L:rest_is_a_suffix:C06*/ exists|k: int| 0 <= k <= bytes@.len() && ret.1@ == #[trigger] bytes@.subrange(k, bytes@.len() as int),
        /*@L:item_and_rest_are_exactly_those_of_the_reference_parser:C06,C05*/ at_line_start(bytes@) ==> abs_item(ret.0) == parse_spec(bytes@).0 && ret.1@ == parse_spec(bytes@).1,""")
    f.body_start("let ghost b_in = bytes@;\n    proof { lemma_skip_nl_suffix(b_in); }\n")
    # snapshot of the input after the leading terminators were skipped (if the function does that first, as the pinned code does)
    if re.search(r"let bytes = consume_leading_newlines\(bytes\)", f.orig):
        f.after_stmt("let bytes = consume_leading_newlines(bytes)", "    let ghost b1 = bytes@;\n")
    else:
        f.body_start("let ghost b1 = bytes@;\n")
    f.insert_before("match result {", """proof {
        axiom_byte_literals_short();
        if result is Ok && !has_prefix(b1, lit_hash()) && has_prefix(b1, lit_4sp()) { lemma_member_record_is_the_reference_record(result->Ok_0.0, member_spec(b1)->0); }
        // b1 (what the line parsers see) is a suffix of the input: the input itself, or the input without its leading terminators
        assert(b_in.subrange(0, b_in.len() as int) =~= b_in);
        let k0 = choose|k: int| 0 <= k <= b_in.len() && #[trigger] b_in.subrange(k, b_in.len() as int) == b1;
        if at_line_start(b_in) { assert(skip_nl(b_in) == b_in && b1 == b_in); }
        if result is Ok {
            let r = result->Ok_0.1@;
            let k = choose|k: int| 1 <= k <= b1.len() && no_nl(#[trigger] b1.subrange(0, k)) && r == skip_nl(b1.subrange(k, b1.len() as int));
            let t = b1.subrange(k, b1.len() as int);
            lemma_skip_nl_suffix(t);
            let k2 = choose|k2: int| 0 <= k2 <= t.len() && #[trigger] t.subrange(k2, t.len() as int) == skip_nl(t);
            assert(b_in.subrange(k0 + k + k2, b_in.len() as int) =~= r);
        } else {
            lemma_line_end_bounds(b1);
            assert(b_in.subrange(k0 + line_end(b1), b_in.len() as int) =~= b1.subrange(line_end(b1), b1.len() as int));
        }
    }
    """)
    u.emit(f)

    # ---------------- ProguardRecord::try_parse ----------------
    IMPLR = r"impl<'s> ProguardRecord<'s>"
    u.raw(mp.impl_header(IMPLR) + "{\n", "glue")
    f = mp.impl_fn(IMPLR, "try_parse")
    f.ret("ret")
    f.props_all = ["C05"]; f.props_safety = P13
    f.contract("""    ensures
        /*@L:try_parse_accepts_only_whole_input:C05*/ at_line_start(line@) && ret is Ok ==> whole_input_taken(line@),
        /*@L:try_parse_trailing_bytes_are_an_error_carrying_the_input:C05*/ (at_line_start(line@) && ret is Err && ret->Err_0.line@ != line@) ==> ({ let b = line@; ret->Err_0.line@ == b.subrange(0, line_end(b)) }),""")
    u.emit(f)
    u.raw("}\n", "glue")

    u.raw(label_helper_lemmas(LOCALITY, "C06"), "line locality and the concatenation theorem (pure lemmas)")
    u.raw(label_helper_lemmas(MEMBER_ACCEPT, "C05"), "every well-formed member line is accepted with exactly its parts (pure lemmas)")
    u.raw(FOOTER, "footer")
    return u
