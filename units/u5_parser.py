"""U5: the mapping-line parser (src/mapping.rs) under contract: totality, progress, line-boundary discipline (C06, C13) and the
class / header / member grammar (C05)."""
import re
from vf.unit import Unit, strip_attrs_and_docs
from .common import HEADER, FOOTER, contract, extract_struct, extract_struct_priv

# spec text of a byte-predicate closure body: exec helper calls become their spec functions, byte literals stay
SPEC_MAP = [(r"is_newline\((\w+)\)", r"spec_is_newline(*\1)"), (r"shim_byte_is_numeric\(\*(\w+)\)", r"spec_byte_is_numeric(*\1)")]

PRIMS = """
// ---- contracts of the scanning primitives: positive, relational facts about the (closure) predicate ----
pub open spec fn callable<P: Fn(&u8) -> bool>(p: P) -> bool { forall|b: &u8| #[trigger] p.requires((b,)) }
// k is the first position where p answers true (or the length if it never does)
pub open spec fn first_hit<P: Fn(&u8) -> bool>(b: Seq<u8>, p: P, k: int) -> bool {
    0 <= k <= b.len() && (forall|j: int| 0 <= j < k ==> p.ensures((&#[trigger] b[j],), false)) && (k < b.len() ==> p.ensures((&b[k],), true))
}
// the split position is recoverable from the result: length of the yielded string (Ok) / of the offending slice (Err)
pub open spec fn cut_of(ret: Result<(&str, &[u8]), ParseError>) -> int {
    match ret { Ok((s, _)) => str_bytes(s).len() as int, Err(e) => e.line@.len() as int }
}
pub open spec fn split_ok(b: Seq<u8>, k: int, ret: Result<(&str, &[u8]), ParseError>) -> bool {
    match ret {
        Ok((s, rest)) => valid_utf8(b.subrange(0, k)) && str_bytes(s) == b.subrange(0, k) && rest@ == b.subrange(k, b.len() as int),
        Err(e) => !valid_utf8(b.subrange(0, k)) && e.line@ == b.subrange(0, k),
    }
}
"""


def build():
    u = Unit("u5_parser")
    u.raw(HEADER.replace("use std::cmp::Ordering;", "use std::cmp::Ordering;\nuse vstd::string::StringSliceAdditionalSpecFns;"), "header")
    u.raw("use std::str;\n", "glue")
    mp = u.source("src/mapping.rs")
    u.raw("""#[verifier::external_type_specification]
#[verifier::external_body]
pub struct ExUtf8Error(std::str::Utf8Error);
""", "glue")
    pe = extract_struct_priv(u, mp, "ParseError", derive="#[derive(Copy, Clone)]")
    extract_struct(u, mp, "ParseErrorKind", kind="enum", derive="#[derive(Copy, Clone)]")
    extract_struct(u, mp, "LineMapping", derive="#[derive(Copy, Clone)]")
    extract_struct(u, mp, "ProguardRecord", kind="enum")
    u.raw(contract("parser_model.rs"), "parser_model")
    u.raw(PRIMS, "prims")

    P13 = ["C13"]
    # ---------------- is_newline ----------------
    f = mp.fn("is_newline")
    f.ret("r")
    f.props_all = ["C06", "C05"]; f.props_safety = P13
    f.contract("    ensures /*@L:is_newline_is_cr_or_lf:C06,C05*/ r == spec_is_newline(*byte),")
    u.emit(f)

    # ---------------- consume_leading_newlines ----------------
    f = mp.fn("consume_leading_newlines")
    f.ret("ret")
    f.props_all = ["C06", "C05"]; f.props_safety = P13
    f.replace_all_re(r"(\w+)\.iter\(\)\.position\(", r"shim_slice_position(\1, ", "R2", why="slice.iter().position(p) behind a shim", min_count=1)
    f.closure("|c|", params="|c: &u8|", ret="r: bool", spec="ensures r == ({specbody})", spec_map=SPEC_MAP)
    f.contract("    ensures /*@L:skips_exactly_the_leading_terminators:C06,C05*/ ret@ == skip_nl(bytes@),")
    f.insert_before("&bytes[pos..]", "{ proof { lemma_skip_nl(bytes@, pos as int); } ")
    f.insert_after("&bytes[pos..]", " }")
    f.insert_before('b""', "{ proof { lemma_skip_nl(bytes@, bytes@.len() as int); assert(bytes@.subrange(bytes@.len() as int, bytes@.len() as int) =~= Seq::<u8>::empty()); } ")
    f.insert_after('b""', " }")
    u.emit(f)

    # ---------------- split_line ----------------
    f = mp.fn("split_line")
    f.ret("ret")
    f.props_all = ["C06"]; f.props_safety = P13
    f.replace_all_re(r"(\w+)\.iter\(\)\.position\(is_newline\)", r"shim_slice_position(\1, |b: &u8| -> (r: bool) ensures r == spec_is_newline(*b) { is_newline(b) })", "R2",
                     why="slice.iter().position(f) behind a shim; the fn item `is_newline` eta-expanded into a closure with its contract", min_count=1)
    f.contract("""    ensures
        /*@L:error_line_is_the_first_line_with_its_terminator:C06*/ ret.0@ == bytes@.subrange(0, line_end(bytes@)) && ret.1@ == bytes@.subrange(line_end(bytes@), bytes@.len() as int),
        0 <= line_end(bytes@) <= bytes@.len(), bytes@.len() > 0 ==> line_end(bytes@) >= 1,""")
    f.body_start("proof { vstd::slice::axiom_spec_len(bytes); }\n")
    f.insert_before("pos + 1", "{ proof { lemma_line_end(bytes@, pos as int); } ")
    f.insert_after("pos + 1", " }")
    f.insert_before("bytes.len()", "{ proof { lemma_line_end(bytes@, bytes@.len() as int); } ")
    f.insert_after("bytes.len()", " }")
    u.emit(f)

    # ---------------- parse_prefix ----------------
    f = mp.fn("parse_prefix")
    f.ret("ret")
    f.props_all = ["C05", "C06"]; f.props_safety = P13
    f.replace_all_re(r"(\w+)\.strip_prefix\((\w+)\)", r"shim_strip_prefix(\1, \2)", "R2", why="<[u8]>::strip_prefix (unstable SlicePattern) behind a shim", min_count=1)
    f.contract("""    ensures /*@L:strips_exactly_the_prefix_or_errors:C05,C06*/ match ret {
        Ok(rest) => prefix@.len() <= bytes@.len() && bytes@.subrange(0, prefix@.len() as int) == prefix@ && rest@ == bytes@.subrange(prefix@.len() as int, bytes@.len() as int),
        Err(e) => !(prefix@.len() <= bytes@.len() && bytes@.subrange(0, prefix@.len() as int) == prefix@) && e.line@ == bytes@,
    },""")
    u.emit(f)

    # ---------------- parse_until ----------------
    f = mp.fn("parse_until")
    f.ret("ret")
    f.props_all = ["C05", "C06"]; f.props_safety = P13
    f.replace_all_re(r"(\w+)\.iter\(\)\.position\(", r"shim_slice_position(\1, ", "R2", min_count=1)
    f.replace_all_re(r"&\[\] as &\[u8\]", "shim_empty_u8()", "R2", why="`&[] as &[u8]` (array-to-slice cast in an expression) behind a shim", min_count=1)
    f.contract("""    requires callable(predicate),
    ensures /*@L:splits_at_the_first_hit:C05,C06*/ first_hit(bytes@, predicate, cut_of(ret)) && split_ok(bytes@, cut_of(ret), ret),""")
    f.after_stmt("let (slice, rest) = match", """    proof {
        let k = slice@.len() as int;
        assert(slice@ =~= bytes@.subrange(0, k));
        assert(rest@ =~= bytes@.subrange(k, bytes@.len() as int));
        assert(first_hit(bytes@, predicate, k));
    }
""")
    u.emit(f)

    # ---------------- parse_until_no_newline ----------------
    f = mp.fn("parse_until_no_newline")
    f.ret("ret")
    f.props_all = ["C05", "C06"]; f.props_safety = P13
    f.closure("|byte|", params="|byte: &u8|", ret="r: bool", spec="""
            ensures r ==> (spec_is_newline(*byte) || predicate.ensures((byte,), true)),
                    !r ==> (!spec_is_newline(*byte) && predicate.ensures((byte,), false)),
                    r && !spec_is_newline(*byte) ==> predicate.ensures((byte,), true),""")
    f.contract("""    requires callable(predicate),
    ensures /*@L:stops_at_hit_and_never_crosses_a_line_end:C05,C06*/ ({ let k = cut_of(ret); 0 <= k <= bytes@.len()
        && (forall|j: int| 0 <= j < k ==> !spec_is_newline(#[trigger] bytes@[j]) && predicate.ensures((&bytes@[j],), false))
        && match ret {
            Ok((s, rest)) => valid_utf8(bytes@.subrange(0, k)) && str_bytes(s) == bytes@.subrange(0, k) && rest@ == bytes@.subrange(k, bytes@.len() as int)
                && (k < bytes@.len() ==> !spec_is_newline(bytes@[k]) && predicate.ensures((&bytes@[k],), true)),
            Err(e) => (!valid_utf8(bytes@.subrange(0, k)) || (k < bytes@.len() && spec_is_newline(bytes@[k]))) && e.line@ == bytes@.subrange(0, k),
        } }),""")
    f.body_start("let ghost b0 = bytes@;\n")
    f.insert_before("if !bytes.is_empty() && is_newline(&bytes[0])", """proof {
                let k = str_bytes(slice).len() as int;
                if k < b0.len() { assert(bytes@[0] == b0[k]); }
            }
            """)
    u.emit(f)

    # ---------------- parse_usize ----------------
    f = mp.fn("parse_usize")
    f.ret("ret")
    f.props_all = ["C05", "C06"]; f.props_safety = P13
    f.replace_all_re(r"\(\*(\w+) as char\)\.is_numeric\(\)", r"shim_byte_is_numeric(*\1)", "R2", why="char::is_numeric behind a shim (table validated natively)", min_count=1)
    f.replace_all_re(r"(\w+)\.iter\(\)\.position\(", r"shim_slice_position(\1, ", "R2", min_count=1)
    f.replace_all_re(r"&\[\] as &\[u8\]", "shim_empty_u8()", "R2", min_count=1)
    f.replace_all_re(r"\bs\.parse\(\)", "shim_parse_usize(s)", "R2", why="str::parse::<usize> behind a shim with an abstract result", min_count=1)
    f.closure("|c|", params="|c: &u8|", ret="r: bool", spec="ensures r == ({specbody})", spec_map=[(r"\(\*(\w+) as char\)\.is_numeric\(\)", r"spec_byte_is_numeric(*\1)")])
    f.contract("""    ensures /*@L:number_is_the_maximal_digit_run:C05,C06*/ ({ let k = match ret { Ok((_, rest)) => bytes@.len() - rest@.len(), Err(e) => e.line@.len() as int };
        0 <= k <= bytes@.len()
        && (forall|j: int| 0 <= j < k ==> spec_byte_is_numeric(#[trigger] bytes@[j])) && (k < bytes@.len() ==> !spec_byte_is_numeric(bytes@[k]))
        && match ret {
            Ok((v, rest)) => rest@ == bytes@.subrange(k, bytes@.len() as int) && valid_utf8(bytes@.subrange(0, k)) && spec_parse_usize(bytes@.subrange(0, k)) == Some(v),
            Err(e) => e.line@ == bytes@.subrange(0, k) && (!valid_utf8(bytes@.subrange(0, k)) || spec_parse_usize(bytes@.subrange(0, k)) is None),
        } }),""")
    f.after_stmt("let (slice, rest) = match", """    proof {
        let k = slice@.len() as int;
        assert(slice@ =~= bytes@.subrange(0, k));
        assert(rest@ =~= bytes@.subrange(k, bytes@.len() as int));
    }
""")
    u.emit(f)

    u.raw(FOOTER, "footer")
    return u
