"""U2: the in-memory mapper's reader side (src/mapper.rs) under contract.

profile = "functional": entries in the property's domain (line numbers < 2^32-1, builder invariant) -- C01..C04
profile = "safety":     NO precondition on entry values (C13): overflow, bounds, termination only.
"""
from vf.unit import Unit
from .common import CLONE_STACKFRAME, HEADER, FOOTER, contract, extract_struct, extract_struct_priv


def build(profile="functional"):
    fun = profile == "functional"
    u = Unit("u2_mapper_reader." + profile)
    u.raw(HEADER, "header")
    u.raw(contract("std_specs.rs"), "std_specs")
    st = u.source("src/stacktrace.rs")
    extract_struct(u, st, "StackFrame")
    u.raw(CLONE_STACKFRAME, "glue")
    mp = u.source("src/mapper.rs")
    extract_struct_priv(u, mp, "MemberMapping")
    u.raw(contract("model.rs"), "model")
    u.raw(contract("mapper_model.rs"), "mapper_model")

    ecn = mp.fn("extract_class_name")
    ecn.ret("r")
    ecn.contract("""    ensures match r { Some(x) => outer_simple_name(full_path@) == Some(x@), None => outer_simple_name(full_path@) is None },""")
    ecn.contracted = False
    u.raw("#[verifier::external_body]\n", "glue")
    u.emit(ecn)

    # ---------------- iterate_with_lines ----------------
    f = mp.fn("iterate_with_lines")
    f.ret("ret")
    f.props_safety = ["C13"]
    if fun:
        f.props_all = ["C01", "C02"]
        f.contract("""    requires
        (*old(members)).obeys_prophetic_iter_laws(),
        (*old(members)).decrease() is Some,
        wf_mms((*old(members)).remaining()),
        old(frame).line < 0xffff_ffff,
    ensures
        /*@L:frame_unchanged:C01,C02*/ *final(frame) == *old(frame),
        /*@L:first_applicable:C01,C02*/ ({ let rem0 = (*old(members)).remaining(); let line = old(frame).line as int;
          match ret {
            Some(fr) => exists|k: int| 0 <= k < rem0.len()
                && (forall|j: int| 0 <= j < k ==> !applies(abs_mm(*#[trigger] rem0[j]), line))
                && applies(abs_mm(*rem0[k]), line)
                && aframe(fr) == entry_out(abs_mm(*rem0[k]), aframe(*old(frame)))
                && (*final(members)).remaining() == rem0.skip(k + 1),
            None => forall|j: int| 0 <= j < rem0.len() ==> !applies(abs_mm(*#[trigger] rem0[j]), line),
          } }),""")
        inv_extra = """            wf_mms(rem0),
            frame.line < 0xffff_ffff,
            forall|j: int| 0 <= j < n ==> !applies(abs_mm(*#[trigger] rem0[j]), frame.line as int),"""
    else:
        f.props_all = ["C13"]
        f.contract("""    requires
        (*old(members)).obeys_prophetic_iter_laws(),
        (*old(members)).decrease() is Some,
    ensures
        /*@L:frame_unchanged:C13*/ *final(frame) == *old(frame),""")
        inv_extra = ""
    f.body_start("let ghost mut n: int = 0;\n    let ghost rem0 = members.remaining();\n    proof { assert(rem0.skip(0) == rem0); }\n")
    f.for_to_loop(
        1,
        spec="""        invariant
            members.obeys_prophetic_iter_laws(),
            members.decrease() is Some,
            *frame == *old(frame),
            rem0 == (*old(members)).remaining(),
            0 <= n <= rem0.len(),
            rem0.skip(n) == members.remaining(),
%s
        ensures n == rem0.len(),
        decreases members.decrease()->0,""" % inv_extra,
        before_next="let ghost rem_before = members.remaining();\n",
        on_none="proof { assert(rem_before.len() == 0); }",
        after_next="""        proof {
            assert(rem_before.len() > 0);
            assert(member == rem0[n]);
            assert(rem0.skip(n).drop_first() == rem0.skip(n + 1));
            n = n + 1;
        }
""")
    u.emit(f)

    # ---------------- iterate_without_lines ----------------
    g = mp.fn("iterate_without_lines")
    g.ret("ret")
    g.props_safety = ["C13"]
    if fun:
        g.props_all = ["C03", "C02"]
        g.contract("""    requires
        (*old(members)).obeys_prophetic_iter_laws(),
    ensures
        /*@L:frame_unchanged:C03,C02*/ *final(frame) == *old(frame),
        /*@L:next_by_params:C03,C02*/ ({ let rem0 = (*old(members)).remaining();
          match ret {
            Some(fr) => rem0.len() > 0
                && aframe(fr) == entry_out_params(abs_mm(*rem0[0]), aframe(*old(frame)))
                && (*final(members)).remaining() == rem0.skip(1),
            None => rem0.len() == 0,
          } }),""")
        g.body_start("let ghost rem0 = members.remaining();\n")
        g.insert_after("let member = members.next()?;", "\n    proof { assert(rem0.drop_first() == rem0.skip(1)); }")
    else:
        g.props_all = ["C13"]
        g.contract("""    requires
        (*old(members)).obeys_prophetic_iter_laws(),
    ensures
        /*@L:frame_unchanged:C13*/ *final(frame) == *old(frame),""")
    u.emit(g)

    u.raw(FOOTER, "footer")
    return u
