"""U2: the in-memory mapper's reader side (src/mapper.rs) under contract.

profile = "functional": entries in the property's domain (line numbers < 2^32-1, builder invariant) -- C01..C04
profile = "safety":     NO precondition on entry values (C13): overflow, bounds, termination only.
"""
from vf.unit import Unit
from .common import CLONE_STACKFRAME, HEADER, FOOTER, contract, extract_struct, extract_struct_priv


def build(profile="functional"):
    fun = profile == "functional"
    u = Unit("u2_mapper_reader." + profile)
    u.raw(HEADER, "header")
    u.raw(contract("std_specs.rs"), "std_specs")
    st = u.source("src/stacktrace.rs")
    extract_struct(u, st, "StackFrame")
    u.raw(CLONE_STACKFRAME, "glue")
    mp = u.source("src/mapper.rs")
    extract_struct_priv(u, mp, "MemberMapping")
    extract_struct_priv(u, mp, "ClassMembers")
    extract_struct_priv(u, mp, "ClassMapping")
    extract_struct_priv(u, mp, "ProguardMapper")
    ty = mp.item("type", "MemberIter")
    u.emit(ty)
    extract_struct_priv(u, mp, "RemappedFrameIter")
    u.raw("use std::collections::HashMap;\n", "glue")
    u.raw(contract("hash_specs.rs"), "hash_specs")
    u.raw(contract("model.rs"), "model")
    u.raw(contract("mapper_model.rs"), "mapper_model")

    ecn = mp.fn("extract_class_name")
    ecn.ret("r")
    ecn.contract("""    ensures match r { Some(x) => outer_simple_name(full_path@) == Some(x@), None => outer_simple_name(full_path@) is None },""")
    ecn.contracted = False
    u.raw("#[verifier::external_body]\n", "glue")
    u.emit(ecn)

    # ---------------- iterate_with_lines ----------------
    f = mp.fn("iterate_with_lines")
    f.ret("ret")
    f.props_safety = ["C13"]
    # R5 / R11: the three statements that compute the answer for ONE entry (line rule, file rule, class rule) are verified as a region function of their
    # own and called in place. Reason (found by the automatic mutation sweep): inside the loop, with the quantified invariant in the context, Z3 does not
    # terminate on ANY wrong variant of these statements (a changed comparison in the line rule ran for > 15 min), so a broken tree was `undecided` instead of
    # a violation. In the region's quantifier-free context a wrong variant fails within a second.
    import re
    from vf.unit import Fragment, AnchorLost
    # the region: from the statement that binds `line` to the last statement before `return Some(StackFrame { .. })`; it must bind `line`, `file`, `class`
    m_line = re.search(r"let\s+line\s*=", f.orig)
    m_ret = re.search(r"return\s+Some\(\s*StackFrame\s*\{", f.orig)
    if not m_line or not m_ret or m_ret.start() < m_line.start():
        raise AnchorLost("iterate_with_lines: the statements from `let line = ..` up to `return Some(StackFrame { .. })` not found")
    ra = m_line.start()
    rb = ra + len(f.orig[ra:m_ret.start()].rstrip())
    for _nm in ("file", "class"):
        if not re.search(r"let\s+%s\s*=" % _nm, f.orig[ra:rb]):
            raise AnchorLost("iterate_with_lines: no statement binding `%s` between `let line = ..` and the return" % _nm)
    rg = Fragment(u, f.file, mp.src, f.start + ra, f.start + rb, "region", "entry-out")
    rg.qualname = "%s[entry-out]" % f.qualname
    rg.contracted = True
    rg.props_all = ["C01", "C02"] if fun else ["C13"]
    rg.props_safety = ["C13"]
    RG_CONTRACT = """        requires entry_in_domain(abs_mm(*member)), frame.line < 0xffff_ffff, applies(abs_mm(*member), frame.line as int),
        ensures /*@L:answer_for_one_entry_is_entry_out:C01,C02*/
            aframe(StackFrame { class: ret.2, method: member.original, file: ret.1, line: ret.0, parameters: frame.parameters }) == entry_out(abs_mm(*member), aframe(*frame)),
""" if fun else ""
    u.emit(rg, prefix="fn region_entry_out<'a>(frame: &StackFrame<'a>, member: &MemberMapping<'a>) -> (ret: (usize, Option<&'a str>, &'a str))\n" + RG_CONTRACT + "{\n        ",
           suffix="\n        (line, file, class)\n}\n")
    f.replace_span(ra, rb, "let (line, file, class) = region_entry_out(&*frame, member);", "R11",
                   "the statements that compute the answer for one entry => call of the region function generated from this very text")
    if fun:
        f.props_all = ["C01", "C02"]
        f.contract("""    requires
        (*old(members)).obeys_prophetic_iter_laws(),
        (*old(members)).decrease() is Some,
        wf_mms((*old(members)).remaining()),
        old(frame).line < 0xffff_ffff,
    ensures
        /*@L:frame_unchanged:C01,C02*/ *final(frame) == *old(frame),
        /*@L:first_applicable:C01,C02*/ ({ let rem0 = (*old(members)).remaining(); let line = old(frame).line as int;
          match ret {
            Some(fr) => exists|k: int| 0 <= k < rem0.len()
                && (forall|j: int| 0 <= j < k ==> !applies(abs_mm(*#[trigger] rem0[j]), line))
                && applies(abs_mm(*rem0[k]), line)
                && aframe(fr) == entry_out(abs_mm(*rem0[k]), aframe(*old(frame)))
                && (*final(members)).remaining() == rem0.skip(k + 1),
            None => forall|j: int| 0 <= j < rem0.len() ==> !applies(abs_mm(*#[trigger] rem0[j]), line),
          } }),
        /*@L:step_of_retrace:C01,C02*/ ({ let es = abs_mms((*old(members)).remaining()); let f = aframe(*old(frame));
          match ret {
            Some(fr) => retrace(es, f).len() > 0 && aframe(fr) == retrace(es, f)[0]
                && retrace(abs_mms((*final(members)).remaining()), f) == retrace(es, f).drop_first(),
            None => retrace(es, f).len() == 0 && (*final(members)).remaining().len() == 0,
          } }),
        (*final(members)).obeys_prophetic_iter_laws(), (*final(members)).decrease() is Some,
        wf_mms((*final(members)).remaining()),""")
        f.insert_before("return Some(StackFrame", """proof {
            let es = abs_mms(rem0);
            assert forall|j: int| 0 <= j < n - 1 implies !applies(#[trigger] es[j], frame.line as int) by { assert(es[j] == abs_mm(*rem0[j])); }
            assert(es[n - 1] == abs_mm(*rem0[n - 1]));
            lemma_retrace_first(es, aframe(*frame), n - 1);
            assert(abs_mms(rem0.skip(n)) == es.skip(n));
        }
        """)
        f.before_tail("""proof {
        let es = abs_mms(rem0);
        assert forall|j: int| 0 <= j < es.len() implies !applies(#[trigger] es[j], frame.line as int) by { assert(es[j] == abs_mm(*rem0[j])); }
        lemma_retrace_none(es, aframe(*frame));
    }
    """)
        inv_extra = """            wf_mms(rem0),
            frame.line < 0xffff_ffff,
            forall|j: int| 0 <= j < n ==> !applies(abs_mm(*#[trigger] rem0[j]), frame.line as int),"""
    else:
        f.props_all = ["C13"]
        f.contract("""    requires
        (*old(members)).obeys_prophetic_iter_laws(),
        (*old(members)).decrease() is Some,
    ensures
        /*@L:frame_unchanged:C13*/ *final(frame) == *old(frame),
        (*final(members)).obeys_prophetic_iter_laws(), (*final(members)).decrease() is Some,""")
        inv_extra = ""
    f.body_start("let ghost mut n: int = 0;\n    let ghost rem0 = members.remaining();\n    proof { assert(rem0.skip(0) == rem0); }\n")
    f.for_to_loop(
        1,
        spec="""        invariant
            members.obeys_prophetic_iter_laws(),
            members.decrease() is Some,
            *frame == *old(frame),
            rem0 == (*old(members)).remaining(),
            0 <= n <= rem0.len(),
            rem0.skip(n) == members.remaining(),
%s
        ensures n == rem0.len(),
        decreases members.decrease()->0,""" % inv_extra,
        before_next="let ghost rem_before = members.remaining();\n",
        on_none="proof { assert(rem_before.len() == 0); }",
        after_next="""        proof {
            assert(rem_before.len() > 0);
            assert(member == rem0[n]);
            assert(rem0.skip(n).drop_first() == rem0.skip(n + 1));
            n = n + 1;
        }
""")
    u.emit(f)

    # ---------------- iterate_without_lines ----------------
    g = mp.fn("iterate_without_lines")
    g.ret("ret")
    g.props_safety = ["C13"]
    if fun:
        g.props_all = ["C03", "C02"]
        g.contract("""    requires
        (*old(members)).obeys_prophetic_iter_laws(),
    ensures
        /*@L:frame_unchanged:C03,C02*/ *final(frame) == *old(frame),
        /*@L:next_by_params:C03,C02*/ ({ let rem0 = (*old(members)).remaining();
          match ret {
            Some(fr) => rem0.len() > 0
                && aframe(fr) == entry_out_params(abs_mm(*rem0[0]), aframe(*old(frame)))
                && (*final(members)).remaining() == rem0.skip(1),
            None => rem0.len() == 0,
          } }),
        (*final(members)).obeys_prophetic_iter_laws() == (*old(members)).obeys_prophetic_iter_laws(),
        (*final(members)).decrease() is Some == (*old(members)).decrease() is Some,
        wf_mms((*old(members)).remaining()) ==> wf_mms((*final(members)).remaining()),""")
        g.body_start("let ghost rem0 = members.remaining();\n")
        g.insert_after("let member = members.next()?;", "\n    proof { assert(rem0.drop_first() == rem0.skip(1)); }")
    else:
        g.props_all = ["C13"]
        g.contract("""    requires
        (*old(members)).obeys_prophetic_iter_laws(), (*old(members)).decrease() is Some,
    ensures
        /*@L:frame_unchanged:C13*/ *final(frame) == *old(frame),
        (*final(members)).obeys_prophetic_iter_laws(), (*final(members)).decrease() is Some,""")
    u.emit(g)

    HASH = "proof { axiom_str_key_model(); }\n        broadcast use axiom_str_borrowed_key, axiom_str_borrowed_value, axiom_str_ext;\n"
    # =================== RemappedFrameIter ===================
    IT = r"impl<'m> RemappedFrameIter<'m>"
    u.raw(mp.impl_header(IT) + "{\n", "glue")
    e = mp.impl_fn(IT, "empty")
    e.ret("ret")
    e.props_all = ["C01", "C02", "C03", "C13"]
    e.contract("    ensures /*@L:empty_iter:C01,C02,C03,C13*/ ret.inner is None,")
    u.emit(e)
    mfn = mp.impl_fn(IT, "members")
    mfn.ret("ret")
    mfn.props_all = ["C01", "C02", "C03", "C13"]
    mfn.contract("    ensures /*@L:members_iter:C01,C02,C03,C13*/ ret.inner == Some((frame, members)),")
    u.emit(mfn)
    ITI = r"impl<'m> Iterator for RemappedFrameIter<'m>"
    nx = mp.impl_fn(ITI, "next")
    nx.replace("Self::Item", "StackFrame<'m>", "R8", why="trait method verified as inherent method: associated type spelled out")
    nx.ret("ret")
    nx.props_safety = ["C13"]
    nx.props_all = ["C01", "C02", "C03"] if fun else ["C13"]
    if fun:
        nx.contract("""    requires mit_wf(*old(self)),
    ensures
        mit_wf(*final(self)),
        /*@L:next_is_head_of_answers:C01,C02,C03*/ match ret {
            Some(fr) => mit_answers(*old(self)).len() > 0 && aframe(fr) == mit_answers(*old(self))[0]
                && mit_answers(*final(self)) == mit_answers(*old(self)).drop_first(),
            None => mit_answers(*old(self)).len() == 0,
        },""")
    else:
        nx.contract("""    requires match old(self).inner { None => true, Some((frame, members)) => members.obeys_prophetic_iter_laws() && members.decrease() is Some },
    ensures match final(self).inner { None => true, Some((frame, members)) => members.obeys_prophetic_iter_laws() && members.decrease() is Some },""")
    u.emit(nx)
    u.raw("}\n", "glue")

    # =================== impl ProguardMapper ===================
    PM = r"impl<'s> ProguardMapper<'s>"
    u.raw(mp.impl_header(PM) + "{\n", "glue")
    # ---------------- remap_class ----------------
    rc = mp.impl_fn(PM, "remap_class")
    rc.ret("ret")
    rc.props_safety = ["C13"]
    rc.props_all = ["C04", "C02"] if fun else ["C13"]
    rc.closure("|class|", params="|class: &'s ClassMapping<'s>|", ret="r: &'s str", spec="ensures r == ({body})")
    rc.body_start(HASH)
    if fun:
        rc.contract("""    ensures
        /*@L:remap_class_exact:C04,C02*/ match ret {
            Some(s) => exists|k: &str| #[trigger] self.classes@.contains_key(k) && k@ == class@ && self.classes@[k].original == s,
            None => no_key(self.classes@, class@),
        },""")
    else:
        rc.contract("    ensures true,")
    u.emit(rc)

    # ---------------- remap_method ----------------
    rm = mp.impl_fn(PM, "remap_method")
    rm.ret("ret")
    rm.props_safety = ["C13"]
    rm.props_all = ["C04", "C02"] if fun else ["C13"]
    rm.closure("|member|", params="|member: &MemberMapping<'s>|", ret="b: bool",
               spec="ensures b == (member.original@ == first.original@)" if fun else "")
    rm.body_start(HASH)
    if fun:
        rm.contract("""    ensures
        /*@L:method_iff_unanimous:C04,C02*/ match ret {
            Some((oc, om)) => exists|ck: &str, mk: &str| #[trigger] self.classes@.contains_key(ck) && ck@ == class@
                && #[trigger] self.classes@[ck].members@.contains_key(mk) && mk@ == method@
                && oc == self.classes@[ck].original
                && ({ let v = self.classes@[ck].members@[mk].all_mappings@;
                      v.len() > 0 && forall|k: int| 0 <= k < v.len() ==> (#[trigger] v[k]).original@ == om@ }),
            None => no_key(self.classes@, class@) || (exists|ck: &str| #[trigger] self.classes@.contains_key(ck) && ck@ == class@
                && (no_key(self.classes@[ck].members@, method@) || (exists|mk: &str| #[trigger] self.classes@[ck].members@.contains_key(mk) && mk@ == method@
                    && ({ let v = self.classes@[ck].members@[mk].all_mappings@;
                          v.len() == 0 || exists|k1: int, k2: int| 0 <= k1 < v.len() && 0 <= k2 < v.len() && (#[trigger] v[k1]).original@ != (#[trigger] v[k2]).original@ })))),
        },""")
        rm.body_start("let ghost cname = class@;\n")
        rm.after_stmt("let class = self.classes.get(", """        let ghost ck = choose|ck: &str| #[trigger] self.classes@.contains_key(ck) && ck@ == cname && self.classes@[ck] == *class;
""")
        rm.after_stmt("let mut members = class.members.get(", """        let ghost v = members.remaining();
        let ghost mk = choose|mk: &str| #[trigger] class.members@.contains_key(mk) && mk@ == method@ && v == class.members@[mk].all_mappings@.as_ref();
        let ghost vv = class.members@[mk].all_mappings@;
        proof { assert(forall|j: int| 0 <= j < vv.len() ==> *#[trigger] v[j] == vv[j]); }
""")
        rm.before_tail("""proof {
            assert(self.classes@.contains_key(ck) && self.classes@[ck].members@.contains_key(mk));
            if all_matching {
                assert forall|k: int| 0 <= k < vv.len() implies (#[trigger] vv[k]).original@ == first.original@ by {
                    if k > 0 { assert(*rem1[k - 1] == vv[k]); }
                }
            } else {
                let idx = choose|idx: int| 0 <= idx < rem1.len() && rem1[idx].original@ != first.original@;
                assert(vv[idx + 1] == *rem1[idx]);
                assert(vv[idx + 1].original@ != vv[0].original@);
            }
        }
        """)
        rm.after_stmt("let first = members.next()", """        let ghost rem1 = members.remaining();
        proof { assert(*first == *v[0]); assert(forall|j: int| 0 <= j < rem1.len() ==> *#[trigger] rem1[j] == *v[j + 1]); }
""")
    else:
        rm.contract("    ensures true,")
    u.emit(rm)

    # ---------------- remap_frame ----------------
    rf = mp.impl_fn(PM, "remap_frame")
    rf.ret("ret")
    rf.props_safety = ["C13"]
    rf.props_all = ["C01", "C02", "C03"] if fun else ["C13"]
    rf.body_start(HASH)
    if fun:
        rf.contract("""    requires wf_mapper(*self), frame.line < 0xffff_ffff,
    ensures
        mit_wf(ret),
        /*@L:unknown_class_no_frames:C01,C02,C03*/ no_key(self.classes@, frame.class@) ==> ret.inner is None,
        /*@L:exact_entry_list:C01,C02,C03*/ forall|ck: &str| #[trigger] self.classes@.contains_key(ck) && ck@ == frame.class@ ==> ({
            let cm = self.classes@[ck];
            &&& (no_key(cm.members@, frame.method@) ==> ret.inner is None)
            &&& (ret.inner is Some ==> aframe(ret.inner.unwrap().0) == (AFrame { class: cm.original@, ..aframe(*frame) }))
            &&& (forall|mk: &str| #[trigger] cm.members@.contains_key(mk) && mk@ == frame.method@ ==>
                    match frame.parameters {
                        None => mit_members(ret) == cm.members@[mk].all_mappings@,
                        Some(ps) => (no_key(cm.members@[mk].mappings_by_params@, ps@) ==> ret.inner is None)
                            && (forall|pk: &str| #[trigger] cm.members@[mk].mappings_by_params@.contains_key(pk) && pk@ == ps@ ==>
                                    mit_members(ret) == cm.members@[mk].mappings_by_params@[pk]@),
                    })
        }),""")
    else:
        rf.contract("""    ensures match ret.inner { None => true, Some((frame, members)) => members.obeys_prophetic_iter_laws() && members.decrease() is Some },""")
    u.emit(rf)
    u.raw("}\n", "glue")
    u.raw(FOOTER, "footer")
    return u
