"""U9: ProguardCache::test (the library's own integrity self-test) never panics on a cache that satisfies the representation
invariant the writer establishes (C09: "the library's own integrity self-test accepts every such file")."""
from vf.unit import Unit
from .common import HEADER, FOOTER, contract, extract_struct

MODEL = """
pub uninterp spec fn tbl(bytes: Seq<u8>, offset: u32) -> Option<Seq<char>>;
pub open spec fn absent() -> u32 { 0xffff_ffffu32 }
// sum of the member counts of the first i classes
pub open spec fn members_upto(cs: Seq<Class>, i: int) -> int
    decreases i
{ if i <= 0 { 0 } else { members_upto(cs, i - 1) + cs[i - 1].members_len as int } }
pub proof fn lemma_members_upto_mono(cs: Seq<Class>, i: int, j: int)
    requires 0 <= i <= j,
    ensures 0 <= members_upto(cs, i) <= members_upto(cs, j),
    decreases j
{ if j > i { lemma_members_upto_mono(cs, i, j - 1); } else if i > 0 { lemma_members_upto_mono(cs, 0, i - 1); lemma_members_upto_mono(cs, i - 1, i - 1); } }

pub open spec fn member_strings_ok(sb: Seq<u8>, m: Member) -> bool {
    tbl(sb, m.obfuscated_name_offset) is Some && tbl(sb, m.original_name_offset) is Some
    && (m.params_offset != absent() ==> tbl(sb, m.params_offset) is Some)
    && (m.original_class_offset != absent() ==> tbl(sb, m.original_class_offset) is Some)
    && (m.original_file_offset != absent() ==> tbl(sb, m.original_file_offset) is Some)
}
// what the writer establishes (tiling: proved on the writer tail, unit u8; readable strings: watto StringTable, assumed)
pub open spec fn wf_for_selftest(c: ProguardCache) -> bool {
    let sb = c.string_bytes@; let cs = c.classes@;
    (forall|i: int| 0 <= i < cs.len() ==> {
        &&& tbl(sb, (#[trigger] cs[i]).obfuscated_name_offset) is Some
        &&& tbl(sb, cs[i].original_name_offset) is Some
        &&& (cs[i].file_name_offset != absent() ==> tbl(sb, cs[i].file_name_offset) is Some)
        &&& cs[i].members_offset as int == members_upto(cs, i)                      // member ranges tile the section, in class order
    })
    && members_upto(cs, cs.len() as int) <= c.members@.len() && c.members@.len() <= u32::MAX
    && (forall|k: int| 0 <= k < c.members@.len() ==> member_strings_ok(sb, #[trigger] c.members@[k]))
}
"""


def build():
    u = Unit("u9_selftest")
    u.raw(HEADER, "header")
    u.raw(contract("std_specs.rs"), "std_specs")
    raw = u.source("src/cache/raw.rs")
    cm = u.source("src/cache/mod.rs")
    u.raw("pub struct ReadStringError;\npub struct StringTable;\nimpl StringTable {\n    #[verifier::external_body]\n    pub fn read<'a>(bytes: &'a [u8], offset: usize) -> Result<&'a str, ReadStringError> { unimplemented!() }\n}\n", "glue")
    extract_struct(u, raw, "Header")
    extract_struct(u, raw, "Class")
    extract_struct(u, raw, "Member")
    extract_struct(u, raw, "ProguardCache")
    u.raw("pub mod raw { pub use super::{Class, Member, Header}; }\n", "glue")
    u.raw(MODEL, "model")
    IMPL = r"impl<'data> ProguardCache<'data>"
    u.raw("impl<'data> ProguardCache<'data> {\n#[verifier::external_body]\n", "glue")
    rs = raw.impl_fn(IMPL, "read_string")
    rs.replace("watto::ReadStringError", "ReadStringError", "R4", why="dependency error type replaced by an opaque unit struct")
    rs.ret("r")
    rs.contract("    ensures match r { Ok(s) => tbl(self.string_bytes@, offset) == Some(s@), Err(_) => tbl(self.string_bytes@, offset) is None },")
    rs.contracted = False
    u.emit(rs)
    g = cm.impl_fn(IMPL, "get_class_members")
    g.ret("ret")
    g.props_all = ["C09"]
    g.contract("""    ensures ({ let a = class.members_offset as int; let b = a + class.members_len as int;
          if b <= self.members@.len() { ret is Some && ret->0@ == self.members@.subrange(a, b) } else { ret is None } }),""")
    u.emit(g)

    t = raw.impl_fn(IMPL, "test")
    t.props_all = ["C09"]
    t.props_safety = ["C13"]
    t.contract("""    requires wf_for_selftest(*self),
    ensures /*@L:self_test_accepts_well_formed_caches:C09*/ true,   // reaching the end = none of the assert!s fired""")
    t.replace_all_re(r"assert_eq!\((.+?), (.+?)\);", r"assert!(\1 == \2);", "R7", why="assert_eq!(A, B) => assert!(A == B): panics iff the original panics (message differs)", min_count=0)
    t.body_start("let ghost cs = self.classes@;\n        let ghost mut ci: int = 0;\n")
    t.for_to_loop(1, it_name="it_c", iter_expr="self.classes.iter()",
        spec="""            invariant
                it_c.obeys_prophetic_iter_laws(), it_c.decrease() is Some,
                wf_for_selftest(*self), cs == self.classes@,
                0 <= ci <= cs.len(), it_c.remaining() == cs.as_ref().skip(ci),
                prev_end as int == members_upto(cs, ci),
            decreases it_c.decrease()->0,""",
        before_next="let ghost rem_before = it_c.remaining();\n",
        on_none="",
        after_next="""            proof {
                assert(rem_before.len() > 0);
                assert(*class == cs[ci]);
                assert(cs.as_ref().skip(ci).drop_first() == cs.as_ref().skip(ci + 1));
                lemma_members_upto_mono(cs, ci + 1, cs.len() as int);
                ci = ci + 1;
            }
""")
    t.loop_spec(2, """                invariant forall|k: int| 0 <= k < self.members@.len() ==> member_strings_ok(self.string_bytes@, #[trigger] self.members@[k]),
                    members@ == self.members@.subrange(cs[ci - 1].members_offset as int, cs[ci - 1].members_offset as int + cs[ci - 1].members_len as int),
                    0 <= cs[ci - 1].members_offset as int, cs[ci - 1].members_offset as int + cs[ci - 1].members_len as int <= self.members@.len(),""")
    u.emit(t)
    u.raw("}\n", "glue")
    u.raw(FOOTER, "footer")
    return u
