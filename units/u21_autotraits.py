"""U21: the public handle and result types are `Send + Sync` (C20, the type-level half).

The unit extracts the real definitions of the types (every field, as written in /repo) as plain Rust outside the `verus!` block and states
one obligation per type, `assert_send_sync::<T>()` with `fn assert_send_sync<T: Send + Sync>() {}`. The obligation is discharged by rustc's
trait solver, which is the front end of the verifier: a field that is not `Sync` (`Cell`, `RefCell`, `Rc`, a raw pointer) or not `Send`
makes it fail with E0277, and that error is reported as a failed obligation (kind `autotrait`), not as a front-end problem.
Dropped from the extracted text: attributes and doc comments (derives do not influence auto traits). NOT seen by this unit: `impl` items
(an `unsafe impl Send/Sync` would not be noticed), and the run-time half of the property (concurrent queries answer as if alone), which is
argued in DESIGN.md from three facts -- these types are `Sync`, every query takes `&self`, and every query's result is proved to be a spec
function of the receiver and the arguments (units u1 / u2 / u10 / u12 / u17) -- but not proved (no contract quantifies over schedules).
"""
from vf.unit import Unit, strip_attrs_and_docs
from .common import FOOTER

PRE = """// GENERATED on every run by /verif/check from /repo's working tree -- do not edit.
#![allow(unused_imports, dead_code, unused_variables, unused_mut, unused_assignments, unreachable_code)]
use vstd::prelude::*;
use std::collections::{HashMap, HashSet, BTreeMap, BTreeSet};
use std::cell::{Cell, RefCell, OnceCell};
use std::rc::Rc;
use std::sync::{Arc, Mutex, RwLock, OnceLock};
use std::sync::atomic::{AtomicBool, AtomicU32, AtomicU64, AtomicUsize};
use std::marker::PhantomData;
fn assert_send_sync<T: Send + Sync>() {}
"""


def plain(u, src, kind, name):
    """Emit one type definition as plain Rust, preceded by every struct / enum / type alias of the same file that it mentions and that was not
    emitted yet (a helper type introduced for a new field must be in scope for the obligation to be stated at all)."""
    import re
    done = u.__dict__.setdefault("_types_emitted", set())
    if (src.rel, name) in done:
        return None
    done.add((src.rel, name))
    f = src.item(kind, name)
    strip_attrs_and_docs(f)
    f.props_all = ["C20"]   # the obligations are the labelled assertions below, one per type
    for it in src.items:
        if it.kind in ("struct", "enum", "type") and (src.rel, it.name) not in done and it.name != name and re.search(r"\b%s\b" % re.escape(it.name), f.orig):
            plain(u, src, it.kind, it.name)
    u.emit(f)
    return f


def build():
    u = Unit("u21_autotraits")
    u.raw(PRE, "header (plain Rust)")
    st = u.source("src/stacktrace.rs")
    mg = u.source("src/mapping.rs")
    mp = u.source("src/mapper.rs")
    raw = u.source("src/cache/raw.rs")
    cm = u.source("src/cache/mod.rs")
    for n in ("StackFrame", "Throwable", "StackTrace"):
        plain(u, st, "struct", n)
    for k, n in (("struct", "ParseError"), ("enum", "ParseErrorKind"), ("struct", "MappingSummary"), ("struct", "ProguardMapping"),
                 ("struct", "ProguardRecordIter"), ("struct", "LineMapping"), ("enum", "ProguardRecord")):
        plain(u, mg, k, n)
    u.raw("use std::str;\n", "glue")
    for k, n in (("struct", "DeobfuscatedSignature"), ("struct", "MemberMapping"), ("struct", "ClassMembers"), ("struct", "ClassMapping"),
                 ("type", "MemberIter"), ("struct", "RemappedFrameIter"), ("struct", "ProguardMapper")):
        plain(u, mp, k, n)
    u.raw("pub mod cache {\nuse super::*;\npub mod raw {\nuse super::*;\n", "glue")
    for n in ("Header", "Class", "Member", "ProguardCache"):
        plain(u, raw, "struct", n)
    u.raw("}\nuse raw::ProguardCache;\n", "glue")
    plain(u, cm, "enum", "CacheErrorKind")
    plain(u, cm, "struct", "CacheError")
    plain(u, cm, "struct", "RemappedFrameIter")
    u.raw("}\n", "glue")
    TYPES = ["ProguardMapper<'a>", "cache::raw::ProguardCache<'a>", "ProguardMapping<'a>", "RemappedFrameIter<'a>", "cache::RemappedFrameIter<'a, 'a>",
             "StackFrame<'a>", "Throwable<'a>", "StackTrace<'a>", "DeobfuscatedSignature", "MappingSummary<'a>", "ProguardRecordIter<'a>",
             "ProguardRecord<'a>", "ParseError<'a>", "cache::CacheError"]
    body = "\n".join("    /*@L:%s_is_send_and_sync:C20*/ assert_send_sync::<%s>();" % (t.split("<")[0].replace("::", "_").lower(), t) for t in TYPES)
    u.raw("fn c20_handle_and_result_types_are_send_and_sync<'a>() {\n%s\n}\n" % body, "auto-trait obligations")
    u.raw("verus! {\n// no Verus obligations in this unit: the obligations above are discharged by rustc's trait solver\nproof fn u21_marker() ensures true {}\n", "glue")
    u.raw(FOOTER, "footer")
    return u
