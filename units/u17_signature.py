"""U17: the JVM descriptor tokenizer returns exactly what a reference tokenizer returns (C16, the tokenizer half).

Functions under contract (real text): src/java.rs `parse_obfuscated_bytecode_signature`, `java_base_types`.
Specification, over the UTF-8 bytes of the string:  `sig_spec(s)` = strip `(`, split at the LAST `)`, non-empty return type, and
`tok(params, 0, 0)`: scan the parameter bytes; `[` stays in the current window, a base-type letter closes the window after itself,
`L` closes it after the next `;` (no `;` => no result), any other byte (including every byte of a non-ASCII character) stays in the
window. Contract: `Some((types, ret))` <=> `sig_spec` is `Some` with the same windows (as byte ranges of the parameter string) and the
same return type; `None` <=> `None`. In particular an unterminated object type, a missing `(` / `)` or an empty return type yield None.
The renderers (`byte_code_type_to_java_type*`: `Chars::next_back`, `as_str`, `replace`, `format!`), the assembly
(`filter().filter_map().collect()`) and `format_signature` are NOT under contract.
"""
import re

from vf.unit import Unit, AnchorLost
from .common import HEADER, FOOTER, contract, extract_struct_priv
from .u11_text_safety import str_shims

SPEC = """
pub open spec fn is_base(b: u8) -> bool { b == 90u8 || b == 66u8 || b == 67u8 || b == 83u8 || b == 73u8 || b == 74u8 || b == 70u8 || b == 68u8 || b == 86u8 }  // Z B C S I J F D V
// the reference tokenizer: windows (from, to) into p
pub open spec fn tok(p: Seq<u8>, i: int, first: int) -> Option<Seq<(int, int)>>
    decreases p.len() - i
    when 0 <= i
{
    if i >= p.len() { Some(Seq::empty()) }
    else if p[i] == 76u8 {
        match first_byte(p.subrange(i + 1, p.len() as int), 59u8) {
            Some(d) => if 0 <= d && i + 2 + d <= p.len() { match tok(p, i + 2 + d, i + 2 + d) { Some(r) => Some(seq![(first, i + 2 + d)] + r), None => None } } else { None },
            None => None,
        }
    } else if p[i] == 91u8 { tok(p, i + 1, first) }
    else if is_base(p[i]) { match tok(p, i + 1, i + 1) { Some(r) => Some(seq![(first, i + 1)] + r), None => None } }
    else { tok(p, i + 1, first) }
}
pub open spec fn cat(ws: Seq<(int, int)>, o: Option<Seq<(int, int)>>) -> Option<Seq<(int, int)>> { match o { Some(r) => Some(ws + r), None => None } }
pub open spec fn cons(w: (int, int), o: Option<Seq<(int, int)>>) -> Option<Seq<(int, int)>> { match o { Some(r) => Some(seq![w] + r), None => None } }
pub proof fn lemma_cat_cons(ws: Seq<(int, int)>, w: (int, int), o: Option<Seq<(int, int)>>)
    ensures cat(ws, cons(w, o)) == cat(ws.push(w), o),
{ match o { Some(r) => { assert(ws + (seq![w] + r) =~= ws.push(w) + r); }, None => {} } }
// the three cases of the reference tokenizer at an `L`
pub proof fn lemma_tok_object_found(p: Seq<u8>, i: int, first: int, last: int)
    requires 0 <= i < last < p.len(), p[i] == 76u8, p[last] == 59u8, forall|j: int| i < j < last ==> #[trigger] p[j] != 59u8,
    ensures tok(p, i, first) == cons((first, last + 1), tok(p, last + 1, last + 1)),
{
    let t = p.subrange(i + 1, p.len() as int);
    assert forall|k: int| 0 <= k < last - i - 1 implies #[trigger] t[k] != 59u8 by { assert(t[k] == p[i + 1 + k]); }
    assert(t[last - i - 1] == p[last]);
    lemma_first_byte_at(t, 59u8, last - i - 1);
}
pub proof fn lemma_tok_object_unterminated(p: Seq<u8>, i: int, first: int)
    requires 0 <= i < p.len(), p[i] == 76u8, forall|j: int| i < j < p.len() ==> #[trigger] p[j] != 59u8,
    ensures tok(p, i, first) is None,
{
    let t = p.subrange(i + 1, p.len() as int);
    assert forall|k: int| 0 <= k < t.len() implies #[trigger] t[k] != 59u8 by { assert(t[k] == p[i + 1 + k]); }
    lemma_first_byte_none(t, 59u8);
}
// bytes >= 0x80 (the bytes of non-ASCII characters) are skipped one by one
pub proof fn lemma_tok_skip(p: Seq<u8>, i: int, j: int, first: int)
    requires 0 <= i <= j <= p.len(), forall|k: int| i <= k < j ==> #[trigger] p[k] >= 128u8,
    ensures tok(p, i, first) == tok(p, j, first),
    decreases j - i
{
    if i < j { assert(p[i] >= 128u8); lemma_tok_skip(p, i + 1, j, first); }
}
pub proof fn lemma_first_byte_at(s: Seq<u8>, c: u8, d: int)
    requires 0 <= d < s.len(), s[d] == c, forall|k: int| 0 <= k < d ==> #[trigger] s[k] != c,
    ensures first_byte(s, c) == Some(d),
    decreases d
{
    if d > 0 {
        let t = s.subrange(1, s.len() as int);
        assert(s[0] != c);
        assert forall|k: int| 0 <= k < d - 1 implies #[trigger] t[k] != c by { assert(t[k] == s[k + 1]); }
        assert(t[d - 1] == s[d]);
        lemma_first_byte_at(t, c, d - 1);
    }
}
pub proof fn lemma_first_byte_none(s: Seq<u8>, c: u8)
    requires forall|k: int| 0 <= k < s.len() ==> #[trigger] s[k] != c,
    ensures first_byte(s, c) is None,
    decreases s.len()
{
    if s.len() > 0 {
        let t = s.subrange(1, s.len() as int);
        assert(s[0] != c);
        assert forall|k: int| 0 <= k < t.len() implies #[trigger] t[k] != c by { assert(t[k] == s[k + 1]); }
        lemma_first_byte_none(t, c);
    }
}
pub struct SigSpec { pub params: Seq<u8>, pub windows: Seq<(int, int)>, pub ret: Seq<u8> }
pub open spec fn sig_spec(s: Seq<u8>) -> Option<SigSpec> {
    if !(s.len() >= 1 && s[0] == 40u8) { None } else {
        match split_last(s.subrange(1, s.len() as int), 41u8) { None => None, Some((params, ret)) =>
            if ret.len() == 0 { None } else { match tok(params, 0, 0) { None => None, Some(ws) => Some(SigSpec { params: params, windows: ws, ret: ret }) } } }
    }
}
pub open spec fn windows_match<'a>(types: Seq<&'a str>, p: Seq<u8>, ws: Seq<(int, int)>) -> bool {
    types.len() == ws.len() && forall|k: int| 0 <= k < ws.len() ==> 0 <= (#[trigger] ws[k]).0 <= ws[k].1 <= p.len() && sb(types[k]) == p.subrange(ws[k].0, ws[k].1)
}

// ---- JVM field descriptors (JVMS 4.3.2) over bytes: `[`* ( base letter | `L` name `;` ), the name without `;` ----
pub open spec fn is_type_at(p: Seq<u8>, i: int, e: int) -> bool
    decreases e - i
{
    0 <= i < e <= p.len() && (
        if p[i] == 91u8 { is_type_at(p, i + 1, e) }
        else if p[i] == 76u8 { i + 1 < e && p[e - 1] == 59u8 && forall|j: int| i < j < e - 1 ==> #[trigger] p[j] != 59u8 }
        else { is_base(p[i]) && e == i + 1 })
}
pub proof fn lemma_tok_one(p: Seq<u8>, i: int, first: int, e: int)
    requires is_type_at(p, i, e),
    ensures tok(p, i, first) == cons((first, e), tok(p, e, e)),
    decreases e - i
{
    if p[i] == 91u8 { lemma_tok_one(p, i + 1, first, e); }
    else if p[i] == 76u8 { lemma_tok_object_found(p, i, first, e - 1); }
}
// a parameter list that is a concatenation of field types (boundaries bs[0] = 0 < .. < bs[n] = len) ..
pub open spec fn types_at(p: Seq<u8>, bs: Seq<int>) -> bool {
    bs.len() >= 1 && bs[0] == 0 && bs[bs.len() - 1] == p.len() && forall|k: int| 0 <= k < bs.len() - 1 ==> is_type_at(p, #[trigger] bs[k], bs[k + 1])
}
pub open spec fn windows_of(bs: Seq<int>) -> Seq<(int, int)> { Seq::new((bs.len() - 1) as nat, |k: int| (bs[k], bs[k + 1])) }
pub proof fn lemma_tok_from(p: Seq<u8>, bs: Seq<int>, k: int)
    requires types_at(p, bs), 0 <= k < bs.len(),
    ensures tok(p, bs[k], bs[k]) == Some(windows_of(bs).subrange(k, bs.len() - 1)),
    decreases bs.len() - k
{
    let n = bs.len() - 1;
    if k == n { assert(windows_of(bs).subrange(k, n) =~= Seq::<(int, int)>::empty()); }
    else {
        assert(is_type_at(p, bs[k], bs[k + 1]));
        lemma_tok_one(p, bs[k], bs[k], bs[k + 1]);
        lemma_tok_from(p, bs, k + 1);
        assert(seq![(bs[k], bs[k + 1])] + windows_of(bs).subrange(k + 1, n) =~= windows_of(bs).subrange(k, n));
    }
}
// .. is tokenized at exactly the type boundaries: one window per parameter, in order (C16, "valid descriptors")
pub proof fn lemma_valid_parameter_list_is_tokenized_at_type_boundaries(p: Seq<u8>, bs: Seq<int>)
    requires types_at(p, bs),
    ensures tok(p, 0, 0) == Some(windows_of(bs)),
{
    lemma_tok_from(p, bs, 0);
    assert(windows_of(bs).subrange(0, bs.len() - 1) =~= windows_of(bs));
}
// C16, "invalid ones to none": no `(`, no `)`, no return type, or an unterminated object type
pub proof fn lemma_invalid_descriptors_have_no_result(s: Seq<u8>)
    ensures
        (s.len() == 0 || s[0] != 40u8) ==> sig_spec(s) is None,
        s.len() >= 1 && last_byte(s.subrange(1, s.len() as int), 41u8) is None ==> sig_spec(s) is None,
        s.len() >= 1 && s[s.len() - 1] == 41u8 ==> sig_spec(s) is None,
{
    if s.len() >= 1 && s[s.len() - 1] == 41u8 && s[0] == 40u8 {
        let t = s.subrange(1, s.len() as int);
        if t.len() > 0 { assert(t[t.len() - 1] == 41u8); assert(last_byte(t, 41u8) == Some(t.len() - 1)); assert(t.subrange(t.len() as int, t.len() as int).len() == 0); }
    }
}
pub proof fn lemma_unterminated_object_type_has_no_result(p: Seq<u8>, bs: Seq<int>, k: int, i: int)
    requires bs.len() >= 1, bs[0] == 0, 0 <= k < bs.len(), forall|j: int| 0 <= j < k ==> is_type_at(p, #[trigger] bs[j], bs[j + 1]),
        0 <= bs[k] <= i < p.len(), forall|j: int| bs[k] <= j < i ==> #[trigger] p[j] == 91u8, p[i] == 76u8, forall|j: int| i < j < p.len() ==> #[trigger] p[j] != 59u8,
    ensures tok(p, 0, 0) is None,
{
    lemma_tok_prefix_types(p, bs, k, 0);
    lemma_tok_brackets(p, bs[k], i, bs[k]);
    lemma_tok_object_unterminated(p, i, bs[k]);
}
pub proof fn lemma_tok_brackets(p: Seq<u8>, a: int, i: int, first: int)
    requires 0 <= a <= i <= p.len(), forall|j: int| a <= j < i ==> #[trigger] p[j] == 91u8,
    ensures tok(p, a, first) == tok(p, i, first),
    decreases i - a
{ if a < i { assert(p[a] == 91u8); lemma_tok_brackets(p, a + 1, i, first); } }
pub proof fn lemma_tok_prefix_types(p: Seq<u8>, bs: Seq<int>, k: int, j: int)
    requires bs.len() >= 1, 0 <= j <= k < bs.len(), bs[j] >= 0, forall|x: int| 0 <= x < k ==> is_type_at(p, #[trigger] bs[x], bs[x + 1]),
    ensures tok(p, bs[j], bs[j]) is None <== tok(p, bs[k], bs[k]) is None,
    decreases k - j
{
    if j < k { assert(is_type_at(p, bs[j], bs[j + 1])); lemma_tok_one(p, bs[j], bs[j], bs[j + 1]); lemma_tok_prefix_types(p, bs, k, j + 1); }
}
"""

ASM_SPEC = """
// ---- assembly: one rendered type per window (empty windows and types that do not render are dropped), then the return type ----
pub open spec fn params_spec(p: Seq<u8>, ws: Seq<(int, int)>, remap: spec_fn(Seq<u8>) -> Option<Seq<u8>>) -> Seq<Seq<u8>>
    decreases ws.len()
{
    if ws.len() == 0 { Seq::empty() } else {
        let head = p.subrange(ws[0].0, ws[0].1);
        let rest = params_spec(p, ws.subrange(1, ws.len() as int), remap);
        if head.len() == 0 { rest } else { match render(head, remap, 0) { Some(x) => seq![x] + rest, None => rest } }
    }
}
pub open spec fn deob_spec(s: Seq<u8>, remap: spec_fn(Seq<u8>) -> Option<Seq<u8>>) -> Option<(Seq<Seq<u8>>, Seq<u8>)> {
    match sig_spec(s) { None => None, Some(ss) => match render(ss.ret, remap, 0) { None => None, Some(r) => Some((params_spec(ss.params, ss.windows, remap), r)) } }
}
pub open spec fn strs(v: Seq<String>) -> Seq<Seq<u8>> { Seq::new(v.len(), |k: int| sbs(v[k])) }
// into_iter().filter(f1).filter_map(f2).collect(): the kept and mapped items, in order
pub open spec fn fm_spec<T, U>(v: Seq<T>, keep: Seq<bool>, os: Seq<Option<U>>) -> Seq<U>
    decreases v.len()
{
    if v.len() == 0 || keep.len() != v.len() || os.len() != v.len() { Seq::empty() } else {
        let rest = fm_spec(v.subrange(1, v.len() as int), keep.subrange(1, keep.len() as int), os.subrange(1, os.len() as int));
        if keep[0] { match os[0] { Some(u) => seq![u] + rest, None => rest } } else { rest }
    }
}
#[verifier::external_body]
fn shim_vec_into_iter_filter_filter_map_collect<T, U, F1: Fn(&T) -> bool, F2: Fn(T) -> Option<U>>(v: Vec<T>, f1: F1, f2: F2) -> (r: Vec<U>)
    requires forall|x: &T| #[trigger] f1.requires((x,)), forall|x: T| #[trigger] f2.requires((x,)),
    ensures exists|keep: Seq<bool>, os: Seq<Option<U>>| keep.len() == v@.len() && os.len() == v@.len()
        && (forall|k: int| 0 <= k < v@.len() ==> f1.ensures((&v@[k],), #[trigger] keep[k]))
        && (forall|k: int| 0 <= k < v@.len() && keep[k] ==> f2.ensures((v@[k],), #[trigger] os[k]))
        && r@ == fm_spec(v@, keep, os),
{ v.into_iter().filter(|x| f1(x)).filter_map(|x| f2(x)).collect() }
pub proof fn lemma_assemble(v: Seq<&str>, keep: Seq<bool>, os: Seq<Option<String>>, p: Seq<u8>, ws: Seq<(int, int)>, rm: spec_fn(Seq<u8>) -> Option<Seq<u8>>)
    requires keep.len() == v.len(), os.len() == v.len(), windows_match(v, p, ws),
        forall|k: int| 0 <= k < v.len() ==> #[trigger] keep[k] == (sb(v[k]).len() != 0),
        forall|k: int| 0 <= k < v.len() && keep[k] ==> match #[trigger] os[k] { Some(x) => render(sb(v[k]), rm, 0) == Some(sbs(x)), None => render(sb(v[k]), rm, 0) is None },
    ensures strs(fm_spec(v, keep, os)) == params_spec(p, ws, rm),
    decreases v.len()
{
    if v.len() == 0 { assert(strs(fm_spec(v, keep, os)) =~= params_spec(p, ws, rm)); }
    else {
        let v1 = v.subrange(1, v.len() as int); let k1 = keep.subrange(1, keep.len() as int); let o1 = os.subrange(1, os.len() as int); let w1 = ws.subrange(1, ws.len() as int);
        assert forall|k: int| 0 <= k < w1.len() implies 0 <= (#[trigger] w1[k]).0 <= w1[k].1 <= p.len() && sb(v1[k]) == p.subrange(w1[k].0, w1[k].1) by { assert(w1[k] == ws[k + 1]); assert(v1[k] == v[k + 1]); }
        assert forall|k: int| 0 <= k < v1.len() implies #[trigger] k1[k] == (sb(v1[k]).len() != 0) by { assert(k1[k] == keep[k + 1]); }
        assert forall|k: int| 0 <= k < v1.len() && k1[k] implies match #[trigger] o1[k] { Some(x) => render(sb(v1[k]), rm, 0) == Some(sbs(x)), None => render(sb(v1[k]), rm, 0) is None } by { assert(k1[k] == keep[k + 1]); assert(o1[k] == os[k + 1]); }
        lemma_assemble(v1, k1, o1, p, w1, rm);
        let rest = fm_spec(v1, k1, o1);
        assert(sb(v[0]) == p.subrange(ws[0].0, ws[0].1));
        assert(keep[0] == (sb(v[0]).len() != 0));
        if keep[0] { match os[0] { Some(x) => { assert(strs(seq![x] + rest) =~= seq![sbs(x)] + strs(rest)); }, None => {} } }
    }
}
"""

FMT_SPEC = """
// ---- DeobfuscatedSignature: `(` p1 `, ` p2 .. `)` then `: ` return type unless it is empty or `void` ----
pub open spec fn join_spec(ps: Seq<Seq<u8>>, sep: Seq<u8>) -> Seq<u8>
    decreases ps.len()
{ if ps.len() == 0 { Seq::empty() } else if ps.len() == 1 { ps[0] } else { ps[0] + sep + join_spec(ps.subrange(1, ps.len() as int), sep) } }
pub open spec fn lit_void() -> Seq<u8> { seq![118u8, 111u8, 105u8, 100u8] }
pub open spec fn fmt_sig_spec(ps: Seq<Seq<u8>>, r: Seq<u8>) -> Seq<u8> {
    seq![40u8] + join_spec(ps, seq![44u8, 32u8]) + seq![41u8] + (if r.len() != 0 && r != lit_void() { seq![58u8, 32u8] + r } else { Seq::<u8>::empty() })
}
// [String]::join(&str): the items with the separator between them
#[verifier::external_body]
fn shim_vec_string_join(v: &Vec<String>, sep: &str) -> (r: String) ensures sbs(r) == join_spec(strs(v@), sb(sep)) { v.join(sep) }
#[verifier::external_body]
fn shim_format1<A0: std::fmt::Display>(l0: &str, a0: &A0, l1: &str) -> (r: String)
    ensures sbs(r) == sb(l0) + dsp(*a0) + sb(l1),
{ format!("{}{}{}", l0, a0, l1) }
// &str == &str / != : equality of contents
#[verifier::external_body]
fn shim_str_eq(a: &str, b: &str) -> (r: bool) ensures r == (sb(a) == sb(b)) { a == b }
"""

REND = """pub open spec fn keyword(b: u8) -> Seq<u8> {
    if b == 90u8 { seq![98u8, 111u8, 111u8, 108u8, 101u8, 97u8, 110u8] }  // Z -> boolean
    else if b == 66u8 { seq![98u8, 121u8, 116u8, 101u8] }  // B -> byte
    else if b == 67u8 { seq![99u8, 104u8, 97u8, 114u8] }  // C -> char
    else if b == 83u8 { seq![115u8, 104u8, 111u8, 114u8, 116u8] }  // S -> short
    else if b == 73u8 { seq![105u8, 110u8, 116u8] }  // I -> int
    else if b == 74u8 { seq![108u8, 111u8, 110u8, 103u8] }  // J -> long
    else if b == 70u8 { seq![102u8, 108u8, 111u8, 97u8, 116u8] }  // F -> float
    else if b == 68u8 { seq![100u8, 111u8, 117u8, 98u8, 108u8, 101u8] }  // D -> double
    else if b == 86u8 { seq![118u8, 111u8, 105u8, 100u8] }  // V -> void
    else { Seq::empty() }
}

pub open spec fn brackets(n: nat) -> Seq<u8> decreases n { if n == 0 { Seq::empty() } else { brackets((n - 1) as nat) + seq![91u8, 93u8] } }   // "[]" n times
pub open spec fn replace_byte(s: Seq<u8>, a: u8, b: u8) -> Seq<u8> { s.map_values(|x: u8| if x == a { b } else { x }) }
pub open spec fn dots(s: Seq<u8>) -> Seq<u8> { replace_byte(s, 47u8, 46u8) }                                  // `/` -> `.`
// the reference renderer of one field type: array dimensions append `[]`, base letters become keywords, `Lname;` becomes the dotted
// name, replaced by the class mapping's original name when it knows the dotted name; other bytes before the element type are skipped
pub open spec fn render(t: Seq<u8>, remap: spec_fn(Seq<u8>) -> Option<Seq<u8>>, dims: nat) -> Option<Seq<u8>>
    decreases t.len()
{
    if t.len() == 0 { None }
    else if t[0] == 76u8 {
        let r = t.subrange(1, t.len() as int);
        if r.len() == 0 || r[r.len() - 1] != 59u8 { None }
        else { let name = dots(r.subrange(0, r.len() - 1)); Some((match remap(name) { Some(m) => m, None => name }) + brackets(dims)) }
    }
    else if t[0] == 91u8 { render(t.subrange(1, t.len() as int), remap, dims + 1) }
    else if is_base(t[0]) { Some(keyword(t[0]) + brackets(dims)) }
    else { render(t.subrange(1, t.len() as int), remap, dims) }
}
pub proof fn lemma_render_skip(t: Seq<u8>, k: int, remap: spec_fn(Seq<u8>) -> Option<Seq<u8>>, dims: nat)
    requires 0 <= k <= t.len(), forall|j: int| 0 <= j < k ==> #[trigger] t[j] >= 128u8,
    ensures render(t, remap, dims) == render(t.subrange(k, t.len() as int), remap, dims),
    decreases k
{
    if k > 0 {
        let t1 = t.subrange(1, t.len() as int);
        assert(t[0] >= 128u8);
        assert forall|j: int| 0 <= j < k - 1 implies #[trigger] t1[j] >= 128u8 by { assert(t1[j] == t[j + 1]); }
        lemma_render_skip(t1, k - 1, remap, dims);
        assert(t1.subrange(k - 1, t1.len() as int) =~= t.subrange(k, t.len() as int));
    } else { assert(t.subrange(0, t.len() as int) =~= t); }
}
// ---- std::str::Chars as a window of bytes ----
pub uninterp spec fn ch_rest(c: std::str::Chars<'_>) -> Seq<u8>;      // the bytes not yet consumed (= as_str())
#[verifier::external_body]
fn shim_str_chars<'a>(s: &'a str) -> (r: std::str::Chars<'a>) ensures ch_rest(r) == sb(s) { s.chars() }
// next(): takes one char (k = 1..4 bytes) from the front; an ASCII char is its byte, every byte of a non-ASCII char is >= 0x80
#[verifier::external_body]
fn shim_chars_next<'a>(c: &mut std::str::Chars<'a>) -> (r: Option<char>)
    ensures match r {
        None => ch_rest(*old(c)).len() == 0 && ch_rest(*final(c)) == ch_rest(*old(c)),
        Some(x) => ({ let o = ch_rest(*old(c)); let n = ch_rest(*final(c)); let k = o.len() - n.len();
            1 <= k <= 4 && k <= o.len() && n == o.subrange(k, o.len() as int)
            && (if is_ascii_char(x) { k == 1 && o[0] == x as u8 } else { forall|j: int| 0 <= j < k ==> #[trigger] o[j] >= 128u8 }) }),
    },
{ c.next() }
// next_back(): the same from the back
#[verifier::external_body]
fn shim_chars_next_back<'a>(c: &mut std::str::Chars<'a>) -> (r: Option<char>)
    ensures match r {
        None => ch_rest(*old(c)).len() == 0 && ch_rest(*final(c)) == ch_rest(*old(c)),
        Some(x) => ({ let o = ch_rest(*old(c)); let n = ch_rest(*final(c)); let k = o.len() - n.len();
            1 <= k <= 4 && k <= o.len() && n == o.subrange(0, n.len() as int)
            && (if is_ascii_char(x) { k == 1 && o[o.len() - 1] == x as u8 } else { o[o.len() - 1] >= 128u8 }) }),
    },
{ c.next_back() }
#[verifier::external_body]
fn shim_chars_as_str<'a>(c: &std::str::Chars<'a>) -> (r: &'a str) ensures sb(r) == ch_rest(*c) { c.as_str() }
// ---- String as bytes ----
pub uninterp spec fn sbs(s: String) -> Seq<u8>;
// both byte views are the UTF-8 encoding of the char view that vstd's own specifications speak about (`s@`): a `&str` and a `String`
// with the same chars have the same bytes. This links values that reach the code through constructs specified by vstd only
// (e.g. the implicit deref coercion `&String -> &str`) to the byte model.
pub uninterp spec fn utf8_of(s: Seq<char>) -> Seq<u8>;
#[verifier::external_body]
pub proof fn axiom_bytes_of_view()
    ensures forall|t: &str| #[trigger] sb(t) == utf8_of(t@), forall|s: String| #[trigger] sbs(s) == utf8_of(s@),
{}
#[verifier::external_body]
fn shim_str_to_string(s: &str) -> (r: String) ensures sbs(r) == sb(s) { s.to_string() }
#[verifier::external_body]
fn shim_string_push_str(s: &mut String, t: &str) ensures sbs(*final(s)) == sbs(*old(s)) + sb(t) { s.push_str(t) }
#[verifier::external_body]
fn shim_string_as_str<'a>(s: &'a String) -> (r: &'a str) ensures sb(r) == sbs(*s) { s.as_str() }
// str::replace(char, &str) for an ASCII char and a one-byte replacement: a byte-wise map (no byte of a multi-byte char equals an ASCII byte)
#[verifier::external_body]
fn shim_str_replace_char(s: &str, from: char, to: &str) -> (r: String)
    requires is_ascii_char(from), sb(to).len() == 1, sb(to)[0] < 128u8,
    ensures sbs(r) == replace_byte(sb(s), from as u8, sb(to)[0]),
{ s.replace(from, to) }
// format!("{}{}", a, b): the two renderings, in order
pub uninterp spec fn dsp<T>(t: T) -> Seq<u8>;     // what `{}` appends for a value
#[verifier::external_body]
pub proof fn axiom_dsp()
    ensures forall|s: &str| #[trigger] dsp::<&str>(s) == sb(s), forall|s: String| #[trigger] dsp::<String>(s) == sbs(s),
{}
#[verifier::external_body]
fn shim_format2<A0: std::fmt::Display, A1: std::fmt::Display>(l0: &str, a0: &A0, l1: &str, a1: &A1, l2: &str) -> (r: String)
    ensures sbs(r) == sb(l0) + dsp(*a0) + sb(l1) + dsp(*a1) + sb(l2),
{ format!("{}{}{}{}{}", l0, a0, l1, a1, l2) }
// ---- the class mappings, as functions from dotted obfuscated names to original names (their own contracts: units u2 / u3) ----
#[verifier::external_body]
pub struct ProguardMapper<'s> { _p: std::marker::PhantomData<&'s ()> }
#[verifier::external_body]
pub struct ProguardCache<'data> { _p: std::marker::PhantomData<&'data ()> }
pub uninterp spec fn mapper_remap(m: &ProguardMapper<'_>, name: Seq<u8>) -> Option<Seq<u8>>;
pub uninterp spec fn cache_remap(m: &ProguardCache<'_>, name: Seq<u8>) -> Option<Seq<u8>>;
pub open spec fn mapper_remap_fn(m: &ProguardMapper<'_>) -> spec_fn(Seq<u8>) -> Option<Seq<u8>> { |n: Seq<u8>| mapper_remap(m, n) }
pub open spec fn cache_remap_fn(m: &ProguardCache<'_>) -> spec_fn(Seq<u8>) -> Option<Seq<u8>> { |n: Seq<u8>| cache_remap(m, n) }
impl<'s> ProguardMapper<'s> {
    #[verifier::external_body]
    pub fn remap_class(&'s self, class: &str) -> (r: Option<&'s str>)
        ensures match r { Some(x) => mapper_remap(self, sb(class)) == Some(sb(x)), None => mapper_remap(self, sb(class)) is None },
    { unimplemented!() }
}
impl<'data> ProguardCache<'data> {
    #[verifier::external_body]
    pub fn remap_class(&self, class: &str) -> (r: Option<&'data str>)
        ensures match r { Some(x) => cache_remap(self, sb(class)) == Some(sb(x)), None => cache_remap(self, sb(class)) is None },
    { unimplemented!() }
}
// ---- valid field descriptors render as the property says: keyword / dotted (re)mapped name, then one `[]` per array dimension ----
pub open spec fn java_type_of(p: Seq<u8>, i: int, e: int, remap: spec_fn(Seq<u8>) -> Option<Seq<u8>>, dims: nat) -> Seq<u8>
    decreases e - i
{
    if !(0 <= i < e <= p.len()) { Seq::empty() }
    else if p[i] == 91u8 { java_type_of(p, i + 1, e, remap, dims + 1) }
    else if p[i] == 76u8 { let name = dots(p.subrange(i + 1, e - 1)); (match remap(name) { Some(m) => m, None => name }) + brackets(dims) }
    else { keyword(p[i]) + brackets(dims) }
}
pub proof fn lemma_valid_type_renders_as_java_type(p: Seq<u8>, i: int, e: int, remap: spec_fn(Seq<u8>) -> Option<Seq<u8>>, dims: nat)
    requires is_type_at(p, i, e),
    ensures render(p.subrange(i, e), remap, dims) == Some(java_type_of(p, i, e, remap, dims)),
    decreases e - i
{
    let t = p.subrange(i, e);
    assert(t[0] == p[i]);
    if p[i] == 91u8 {
        lemma_valid_type_renders_as_java_type(p, i + 1, e, remap, dims + 1);
        assert(t.subrange(1, t.len() as int) =~= p.subrange(i + 1, e));
    } else if p[i] == 76u8 {
        let r = t.subrange(1, t.len() as int);
        assert(r =~= p.subrange(i + 1, e));
        assert(r[r.len() - 1] == p[e - 1]);
        assert(r.subrange(0, r.len() - 1) =~= p.subrange(i + 1, e - 1));
    }
}
// the two renderers are the same function of the class mapping: they agree on every string whenever the two mappings agree on class names
pub proof fn lemma_renderers_agree(t: Seq<u8>, f: spec_fn(Seq<u8>) -> Option<Seq<u8>>, g: spec_fn(Seq<u8>) -> Option<Seq<u8>>, dims: nat)
    requires forall|n: Seq<u8>| #[trigger] f(n) == g(n),
    ensures render(t, f, dims) == render(t, g, dims),
    decreases t.len()
{
    if t.len() > 0 && t[0] != 76u8 { if t[0] == 91u8 { lemma_renderers_agree(t.subrange(1, t.len() as int), f, g, dims + 1); } else if !is_base(t[0]) { lemma_renderers_agree(t.subrange(1, t.len() as int), f, g, dims); } }
}
"""


def render_fn(f, remap):
    """Contract and proof hints of one renderer (`byte_code_type_to_java_type[_cache]`)."""
    mp = re.search(r"fn\s+\w+\s*\(\s*(\w+)\s*:\s*&str\s*,\s*(\w+)\s*:", f.orig)
    mc = re.search(r"let\s+mut\s+(\w+)\s*=\s*(\w+)\.chars\(\)\s*;", f.orig)
    ms = re.search(r"let\s+mut\s+(\w+)\s*=\s*\"\"\.to_string\(\)\s*;", f.orig)
    mw = re.search(r"while\s+let\s+Some\((\w+)\)\s*=\s*(\w+)\.next\(\)", f.orig)
    mb = re.search(r"(\w+)\.next_back\(\)", f.orig)
    mpush = re.search(r"(\w+)\.push_str\([^;]*\);", f.orig)
    if not (mp and mc and ms and mw and mb and mpush) or len(f.loops()) != 1:
        raise AnchorLost("%s: renderer of unknown shape" % f.name)
    src, owner, chrs, suffix, token = mp.group(1), mp.group(2), mc.group(1), ms.group(1), mw.group(1)
    if mc.group(2) != src or mw.group(2) != chrs or mb.group(1) != chrs or mpush.group(1) != suffix:
        raise AnchorLost("%s: renderer bindings of unknown shape" % f.name)
    f.method_to_shim("chars", "shim_str_chars", why="str::chars")
    f.method_to_shim("to_string", "shim_str_to_string", why="str::to_string: the same bytes")
    f.method_to_shim("replace", "shim_str_replace_char", arg_ok=lambda a: a.startswith("'"), why="str::replace(ASCII char, one-byte str): byte-wise map")
    f.method_to_shim("as_str", "shim_chars_as_str", borrow="&", why="Chars::as_str: the rest")
    f.method_to_shim("next_back", "shim_chars_next_back", borrow="&mut ", why="Chars::next_back")
    f.method_to_shim("push_str", "shim_string_push_str", borrow="&mut ", why="String::push_str: appends the bytes")
    # `&obfuscated` (a &String passed where &str is expected): the deref coercion spelled out
    strings = set(m.group(1) for m in re.finditer(r"let\s+(\w+)\s*=\s*[^;]*\.replace\([^;]*;", f.orig))   # locals bound to a String
    for m in re.finditer(r"\.remap_class\(\s*&(\w+)\s*\)", f.orig):
        if m.group(1) in strings:
            f.replace_span(m.start(1) - 1, m.end(1), "shim_string_as_str(&%s)" % m.group(1), "R2", "deref coercion &String -> &str spelled out")
    # format!("{}{}", a, b) => shim_format2("", &(a), "", &(b), "")   (arguments: any two expressions)
    from vf.rustlex import match_close
    toks = f._toks()
    for m in re.finditer(r"format!\(", f.orig):
        i = next(ix for ix, t in enumerate(toks) if t[1] == m.end() - 1)
        c = toks[match_close(f.orig, toks, i)][1]
        # split the macro arguments at depth-0 commas
        parts, start, j = [], m.end(), i + 1
        while toks[j][1] < c:
            k_, s_, e_ = toks[j]
            ch = f.orig[s_:e_]
            if k_ == "punct" and ch in "([{":
                j = match_close(f.orig, toks, j) + 1
                continue
            if k_ == "punct" and ch == ",":
                parts.append((start, s_))
                start = e_
            j += 1
        parts.append((start, c))
        if len(parts) != 3 or f.orig[parts[0][0]:parts[0][1]].strip() != '"{}{}"':
            raise AnchorLost("%s: format! invocation of unknown shape" % f.name)
        f.replace_span(m.start(), parts[1][0], 'shim_format2("", &(', "R2", "format! behind a shim: the literal pieces and the renderings of the arguments, in order (assumed)")
        f.replace_span(parts[1][1], parts[2][0], '), "", &(', "R2", "format! (continued)")
        f.replace_span(c, c + 1, '), "")', "R2", "format! (end)")
    RM = "%s_fn(%s)" % (remap, owner)
    f.contract("""    ensures
        /*@L:type_is_rendered_exactly_as_the_reference_renderer_does:C16*/ match ret {
            Some(x) => render(sb(%(src)s), %(rm)s, 0) == Some(sbs(x)),
            None => render(sb(%(src)s), %(rm)s, 0) is None,
        },
""" % dict(src=src, rm=RM))
    f.body_start("let ghost t0 = sb(%s);\n    let ghost rm: spec_fn(Seq<u8>) -> Option<Seq<u8>> = %s;\n    let ghost mut dims: nat = 0;\n    proof { axiom_dsp(); axiom_bytes_of_view(); axiom_u17_literals(); assert forall|a: Seq<u8>, b: Seq<u8>| #[trigger] (Seq::<u8>::empty() + a + Seq::<u8>::empty() + b + Seq::<u8>::empty()) == a + b by { assert(Seq::<u8>::empty() + a + Seq::<u8>::empty() + b + Seq::<u8>::empty() =~= a + b); } }\n" % (src, RM))

    def next_of(expr):
        if re.fullmatch(r"%s\.next\(\)" % chrs, expr):
            return "shim_chars_next(&mut %s)" % chrs
        raise AnchorLost("unexpected iterator expression %r" % expr)
    f.while_let_to_loop(1, scrutinee_map=next_of, attrs="#[verifier::loop_isolation(false)]\n    ",
                        spec="""        invariant
            /*@L:rendering_the_rest_with_the_dimensions_seen_so_far:C16*/ render(t0, rm, 0) == render(ch_rest(%(chrs)s), rm, dims),
            sbs(%(suffix)s) == brackets(dims),
        decreases ch_rest(%(chrs)s).len(),""" % dict(chrs=chrs, suffix=suffix),
                        before_next="let ghost r0 = ch_rest(%s);\n" % chrs,
                        on_none="proof { assert(r0.len() == 0); }",
                        after_next="""        let ghost r1 = ch_rest(%(chrs)s);
        proof {
            let k = r0.len() - r1.len();
            if !is_ascii_char(%(token)s) { lemma_render_skip(r0, k, rm, dims); } else { assert(r1 == r0.subrange(1, r0.len() as int)); }
        }
""" % dict(chrs=chrs, token=token))
    # after the statement that contains `next_back()` (the check of the final `;`): what the last byte was
    blk = f.enclosing_block(mb.start())
    sa = mb.start()
    while sa > blk[0] + 1 and f.orig[sa - 1] not in ";{}":
        sa -= 1
    k0 = f.orig[sa:].lstrip()
    sa += len(f.orig[sa:]) - len(k0)
    if k0.startswith("if "):
        toks = f._toks()
        bo = next(ix for ix, t in enumerate(toks) if t[1] > mb.end() and f.orig[t[1]:t[2]] == "{")
        se = toks[match_close(f.orig, toks, bo)][2]
    else:
        se = f.stmt_extent(sa)[1]
    f.insert_at(se, "\n            proof { /*@L:object_type_must_end_with_a_semicolon:C16*/ assert(r1.len() > 0 && r1[r1.len() - 1] == 59u8); assert(ch_rest(%s) == r1.subrange(0, r1.len() - 1)); }" % chrs)
    f.insert_at(mpush.end(), "\n            proof { dims = dims + 1; }")


def assemble_fn(f, render_name, remap):
    """Contract and proof hints of `deobfuscate_bytecode_signature[_cache]`."""
    from vf.rustlex import match_close
    mp = re.search(r"fn\s+\w+\s*\(\s*(\w+)\s*:\s*&str\s*,\s*(\w+)\s*:", f.orig)
    mt = re.search(r"let\s+\((\w+),\s*(\w+)\)\s*=\s*parse_obfuscated_bytecode_signature\((\w+)\)\?;", f.orig)
    mc = re.search(r"let\s+(\w+)\s*:\s*Vec<String>\s*=\s*(\w+)\s*\.into_iter\(\)\s*\.filter\(", f.orig)
    if not (mp and mt and mc):
        raise AnchorLost("%s: assembly of unknown shape" % f.name)
    sig, owner, ptypes, rtype, jtypes = mp.group(1), mp.group(2), mt.group(1), mt.group(2), mc.group(1)
    if mt.group(3) != sig or mc.group(2) != ptypes:
        raise AnchorLost("%s: assembly bindings of unknown shape" % f.name)
    toks = f._toks()
    def close_of(open_off):
        i = next(ix for ix, t in enumerate(toks) if t[1] == open_off)
        return toks[match_close(f.orig, toks, i)][1]
    o1 = mc.end() - 1
    c1 = close_of(o1)
    m2 = re.match(r"\)\s*\.filter_map\(", f.orig[c1:])
    if not m2:
        raise AnchorLost("%s: `.filter(..).filter_map(..)` expected" % f.name)
    o2 = c1 + m2.end() - 1
    c2 = close_of(o2)
    m3 = re.match(r"\)\s*\.collect\(\)\s*;", f.orig[c2:])
    if not m3:
        raise AnchorLost("%s: `.filter_map(..).collect();` expected" % f.name)
    xs = mc.start(2)
    f.replace_span(xs, o1 + 1, "shim_vec_into_iter_filter_filter_map_collect(%s, " % ptypes, "R2",
                   "iterator chain into_iter().filter(f1).filter_map(f2).collect() behind one shim (kept and mapped items, in order; assumed)")
    f.replace_span(c1, o2 + 1, ", ", "R2", "iterator chain (continued)")
    f.replace_span(c2, c2 + m3.end() - 1, ")", "R2", "iterator chain (end)")
    # the two closures
    mk1 = re.match(r"\s*\|(\w+)\|", f.orig[o1 + 1:])
    mk2 = re.match(r"\s*\|(\w+)\|", f.orig[o2 + 1:])
    if not (mk1 and mk2):
        raise AnchorLost("%s: closures expected" % f.name)
    a1, a2 = mk1.group(1), mk2.group(1)
    str_shims(f)
    RM = "%s_fn(%s)" % (remap, owner)
    f.closure("|%s|" % a1, occ=1, params="|%s: &&str|" % a1, ret="keep: bool", spec="ensures keep == (sb(*%s).len() != 0)" % a1)
    occ2 = 2 if a1 == a2 else 1
    f.closure("|%s|" % a2, occ=occ2, params="|%s: &str|" % a2, ret="o: Option<String>",
              spec="ensures match o { Some(x) => render(sb(%(a)s), %(rm)s, 0) == Some(sbs(x)), None => render(sb(%(a)s), %(rm)s, 0) is None }" % dict(a=a2, rm=RM))
    f.contract("""    ensures
        /*@L:signature_is_deobfuscated_exactly_as_the_reference_does:C16*/ match ret {
            Some((ps, r)) => deob_spec(sb(%(sig)s), %(rm)s) == Some((strs(ps@), sbs(r))),
            None => deob_spec(sb(%(sig)s), %(rm)s) is None,
        },
""" % dict(sig=sig, rm=RM))
    f.insert_at(mc.start(), "let ghost v0 = %s@;\n    " % ptypes)
    f.insert_at(c2 + m3.end(), """
    proof {
        let ss = sig_spec(sb(%(sig)s))->Some_0;
        let (keep, os) = choose|keep: Seq<bool>, os: Seq<Option<String>>| keep.len() == v0.len() && os.len() == v0.len()
            && (forall|k: int| 0 <= k < v0.len() ==> #[trigger] keep[k] == (sb(v0[k]).len() != 0))
            && (forall|k: int| 0 <= k < v0.len() && keep[k] ==> match #[trigger] os[k] { Some(x) => render(sb(v0[k]), %(rm)s, 0) == Some(sbs(x)), None => render(sb(v0[k]), %(rm)s, 0) is None })
            && %(jt)s@ == fm_spec(v0, keep, os);
        lemma_assemble(v0, keep, os, ss.params, ss.windows, %(rm)s);
    }""" % dict(sig=sig, rm=RM, jt=jtypes))


def build():
    u = Unit("u17_signature")
    u.raw(HEADER, "header")
    jv = u.source("src/java.rs")
    u.raw(contract("text_model.rs"), "text_model")
    u.raw(SPEC, "tokenizer spec")
    u.raw("""// strip_prefix(char) with a functional contract (first byte)
#[verifier::external_body]
fn shim_str_strip_prefix_char_f<'a>(s: &'a str, c: char) -> (r: Option<&'a str>)
    requires is_ascii_char(c),
    ensures match r { Some(t) => sb(s).len() >= 1 && sb(s)[0] == c as u8 && sb(t) == sb(s).subrange(1, sb(s).len() as int), None => !(sb(s).len() >= 1 && sb(s)[0] == c as u8) },
{ s.strip_prefix(c) }
// get(a..b) with the complete contract: Some iff the range is in bounds and on char boundaries
#[verifier::external_body]
fn shim_str_get_f<'a>(s: &'a str, a: usize, b: usize) -> (r: Option<&'a str>)
    ensures (r is Some) == (a <= b <= sb(s).len() && is_cb(s, a as int) && is_cb(s, b as int)), r is Some ==> sb(r->Some_0) == sb(s).subrange(a as int, b as int),
{ s.get(a..b) }
// ends_with([c]) for a one-element array of an ASCII char
#[verifier::external_body]
fn shim_str_ends_with_1(s: &str, cs: [char; 1]) -> (r: bool)
    requires is_ascii_char(cs[0]),
    ensures r == (sb(s).len() >= 1 && sb(s)[sb(s).len() - 1] == cs[0] as u8),
{ s.ends_with(cs) }
""", "functional shims")

    jb = jv.fn("java_base_types")
    jb.contracted = True
    jb.props_all = ["C16"]
    jb.props_safety = ["C13", "C12"]
    jb.ret("r")
    mjb = re.search(r"fn\s+java_base_types\s*\(\s*(\w+)\s*:\s*char", jb.orig)
    if not mjb:
        raise AnchorLost("java_base_types: parameter not found")
    jb.contract("""    ensures
        /*@L:base_type_letters_are_ZBCSIJFDV:C16*/ (r is Some) == (is_ascii_char(%(c)s) && is_base(%(c)s as u8)),
        /*@L:base_type_letters_become_their_java_keywords:C16*/ r is Some ==> sb(r->Some_0) == keyword(%(c)s as u8),""" % dict(c=mjb.group(1)))
    jb.body_start("proof { axiom_u17_literals(); }\n")
    u.emit(jb)

    ps = jv.fn("parse_obfuscated_bytecode_signature")
    ps.contracted = True
    ps.props_all = ["C16"]
    ps.props_safety = ["C13", "C12"]
    ps.ret("ret")
    # shims: the functional variants where the proof needs them
    ps.method_to_shim("strip_prefix", "shim_str_strip_prefix_char_f", arg_ok=lambda a: a.startswith("'"), why="str::strip_prefix(char), functional contract")
    ps.method_to_shim("ends_with", "shim_str_ends_with_1", arg_ok=lambda a: a.startswith("["), why="str::ends_with([char]), functional contract")
    ps.method_to_shim("get", "shim_str_get_f", arg_ok=lambda a: ".." in a and "..=" not in a, why="str::get(range), complete contract")
    for m in re.finditer(r"\.get\(([^()]*?)(\.\.)(?!=)", ps.orig):
        ps.replace_span(m.start(2), m.end(2), ", ", "R2", "range argument passed as two integers")
    str_shims(ps, skip=("strip_prefix", "ends_with", "get"))
    loops = ps.loops()
    if len(loops) != 2 or loops[0][0] != "while" or loops[1][0] != "for":
        raise AnchorLost("parse_obfuscated_bytecode_signature: expected `while let` with one inner `for`")
    mi = re.search(r"let\s+mut\s+(\w+)\s*=\s*(\w+)\.char_indices\(\)\s*;", ps.orig)
    mf = re.search(r"let\s+mut\s+(\w+)\s*=\s*\d+\s*;", ps.orig)
    mt = re.search(r"let\s+mut\s+(\w+)\s*:\s*Vec<&str>\s*=\s*Vec::new\(\)\s*;", ps.orig)
    mw = re.search(r"while\s+let\s+Some\(\((\w+),\s*(\w+)\)\)", ps.orig)
    ml = re.search(r"let\s+mut\s+(\w+)\s*=\s*%s\s*;" % (mw.group(1) if mw else "idx"), ps.orig)
    mr = re.search(r"let\s+\((\w+),\s*(\w+)\)\s*=\s*(\w+)\.r?split_once\('\)'\)\?;", ps.orig)
    if not (mi and mf and mt and mw and ml and mr):
        raise AnchorLost("parse_obfuscated_bytecode_signature: bindings not found")
    it, src, first, types, idx, token, last = mi.group(1), mi.group(2), mf.group(1), mt.group(1), mw.group(1), mw.group(2), ml.group(1)
    mp = re.search(r"fn\s+parse_obfuscated_bytecode_signature\s*\(\s*(\w+)\s*:", ps.orig)
    if not mp:
        raise AnchorLost("parse_obfuscated_bytecode_signature: parameter not found")
    ps.body_start("let ghost s0 = sb(%s);\n" % mp.group(1))
    ps.insert_at(mi.end(), """
    let ghost p = sb(%(src)s);
    let ghost mut ws: Seq<(int, int)> = Seq::empty();
    proof { axiom_str_boundaries(%(src)s); assert(windows_match(%(types)s@, p, ws)); }""" % dict(src=src, types=types))
    INV = """        invariant
            p == sb(%(src)s), ci_bytes(%(it)s) == p, ci_len(%(it)s) == p.len(), 0 <= ci_pos(%(it)s) <= p.len(), p.len() <= usize::MAX,
            forall|i: int| #[trigger] ci_cb(%(it)s, i) == is_cb(%(src)s, i), is_cb(%(src)s, ci_pos(%(it)s)),
            is_cb(%(src)s, %(first)s as int), %(first)s <= ci_pos(%(it)s),
            sig_spec(s0) == (match tok(p, 0, 0) { None => None, Some(w) => Some(SigSpec { params: p, windows: w, ret: sb(%(ret)s) }) }),
""" % dict(src=src, it=it, first=first, ret=mr.group(2))

    def next_of(expr):
        if re.fullmatch(r"%s\.next\(\)" % it, expr) or re.fullmatch(r"%s(\.by_ref\(\))?" % it, expr):
            return "shim_ci_next(&mut %s)" % it
        raise AnchorLost("unexpected iterator expression %r" % expr)
    ps.while_let_to_loop(1, scrutinee_map=next_of,
                         attrs="#[verifier::loop_isolation(false)]\n    ",
                         spec=INV + """            windows_match(%(types)s@, p, ws),
            /*@L:windows_so_far_plus_the_reference_tokenizer_on_the_rest:C16*/ tok(p, 0, 0) == cat(ws, tok(p, ci_pos(%(it)s), %(first)s as int)),
        decreases ci_len(%(it)s) - ci_pos(%(it)s),""" % dict(types=types, it=it, first=first),
                         before_next="let ghost pos0: int = ci_pos(%s);\n" % it,
                         after_next="""        proof {
            if !is_ascii_char(%(token)s) { lemma_tok_skip(p, pos0, ci_pos(%(it)s), %(first)s as int); }
        }
""" % dict(token=token, it=it, first=first))
    ps.for_to_loop(2, next_map=next_of,
                   spec="""        invariant_except_break
            forall|j: int| pos0 < j < ci_pos(%(it)s) ==> #[trigger] p[j] != 59u8,
""" % dict(it=it) + INV + """            %(idx)s == pos0, p[pos0 as int] == 76u8, pos0 < ci_pos(%(it)s), %(last)s < ci_pos(%(it)s), pos0 <= %(last)s,
            windows_match(%(types)s@, p, ws), tok(p, 0, 0) == cat(ws, tok(p, pos0, %(first)s as int)),
        ensures
            /*@L:object_type_runs_to_the_next_semicolon:C16*/ (p[%(last)s as int] == 59u8 && pos0 < %(last)s && ci_pos(%(it)s) == %(last)s + 1 && forall|j: int| pos0 < j < %(last)s ==> #[trigger] p[j] != 59u8)
                || (ci_pos(%(it)s) == p.len() && forall|j: int| pos0 < j < p.len() ==> #[trigger] p[j] != 59u8),
        decreases ci_len(%(it)s) - ci_pos(%(it)s),""" % dict(it=it, idx=idx, last=last, types=types, first=first),
                   after_next="""                proof { if !is_ascii_char(c) { assert(c != ';'); } }
""")
    # hints at the two window sites: `let ty = .. get(first..X)?; .. types.push(ty); first = X;`
    gets = list(re.finditer(r"let\s+(\w+)\s*=\s*%s\.get\(\s*%s\s*\.\.\s*([^)]*?)\)\?;" % (src, first), ps.orig))
    pushes = list(re.finditer(r"%s\.push\((\w+)\);" % types, ps.orig))
    if len(gets) != 2 or len(pushes) != 2:
        raise AnchorLost("parse_obfuscated_bytecode_signature: expected two `get(first..X)?` windows and two pushes")
    # object type (first site): what the reference tokenizer does at this `L`
    ps.insert_at(gets[0].start(), """proof {
                if p[%(last)s as int] == 59u8 && pos0 < %(last)s && ci_pos(%(it)s) == %(last)s + 1 { lemma_tok_object_found(p, pos0, %(first)s as int, %(last)s as int); }
                else { lemma_tok_object_unterminated(p, pos0, %(first)s as int); }
            }
            """ % dict(last=last, it=it, first=first))
    ps.insert_at(pushes[0].end(), """
            proof { lemma_cat_cons(ws, (%(first)s as int, (%(x)s) as int), tok(p, (%(x)s) as int, (%(x)s) as int)); ws = ws.push((%(first)s as int, (%(x)s) as int)); }""" % dict(first=first, x=gets[0].group(2).strip()))
    ps.insert_at(gets[1].start(), "proof { assert(p[pos0 as int] == %s as u8 && is_base(p[pos0 as int])); assert(tok(p, pos0, %s as int) == cons((%s as int, pos0 + 1), tok(p, pos0 + 1, pos0 + 1))); }\n            " % (token, first, first))
    ps.insert_at(pushes[1].end(), """
            proof { lemma_cat_cons(ws, (%(first)s as int, (%(x)s) as int), tok(p, (%(x)s) as int, (%(x)s) as int)); ws = ws.push((%(first)s as int, (%(x)s) as int)); }""" % dict(first=first, x=gets[1].group(2).strip()))
    ps.contract("""    ensures
        /*@L:signature_is_tokenized_exactly_as_the_reference_tokenizer_does:C16*/ match ret {
            Some((types, r)) => match sig_spec(sb(signature)) { Some(ss) => sb(r) == ss.ret && windows_match(types@, ss.params, ss.windows), None => false },
            None => sig_spec(sb(signature)) is None,
        },
""")
    u.emit(ps)

    # ---- the renderers ----
    u.raw(REND, "renderer spec and std models")
    lits = []
    for name, remap, owner in (("byte_code_type_to_java_type", "mapper_remap", "mapper"), ("byte_code_type_to_java_type_cache", "cache_remap", "cache")):
        f = jv.fn(name)
        f.contracted = True
        f.props_all = ["C16"]
        f.props_safety = ["C13" if remap == "mapper_remap" else "C12"]
        f.ret("ret")
        render_fn(f, remap)
        for m in re.finditer(r'"((?:[^"\\]|\\.)*)"', f.orig):
            for piece in m.group(1).split("{}"):
                if '"%s"' % piece not in lits:
                    lits.append('"%s"' % piece)
        u.emit(f)
    for m in re.finditer(r'"((?:[^"\\]|\\.)*)"', jb.orig):
        if '"%s"' % m.group(1) not in lits:
            lits.append('"%s"' % m.group(1))

    # ---- DeobfuscatedSignature ----
    u.raw(FMT_SPEC, "format_signature spec")
    mpr = u.source("src/mapper.rs")
    extract_struct_priv(u, mpr, "DeobfuscatedSignature")
    DS = "impl DeobfuscatedSignature"
    u.raw("impl DeobfuscatedSignature {\n", "glue")
    nw = mpr.impl_fn(DS, "new")
    nw.contracted = True
    nw.props_all = ["C16"]
    nw.props_safety = ["C13", "C12"]
    nw.ret("ret")
    mn = re.search(r"fn\s+new\s*\(\s*(\w+)\s*:", nw.orig)
    if not mn:
        raise AnchorLost("DeobfuscatedSignature::new: parameter not found")
    nw.contract("    ensures /*@L:parameters_and_return_type_are_stored_as_given:C16*/ ret.parameters == %s.0 && ret.return_type == %s.1," % (mn.group(1), mn.group(1)))
    if "pub(crate)" in nw.orig[:20]:
        nw.replace_span(0, len("pub(crate)"), "pub", "R4", "visibility widening")
    u.emit(nw)
    rt = mpr.impl_fn(DS, "return_type")
    rt.contracted = True
    rt.props_all = ["C16"]
    rt.props_safety = ["C13", "C12"]
    rt.ret("ret")
    rt.contract("    ensures /*@L:return_type_accessor_returns_the_stored_string:C16*/ sb(ret) == sbs(self.return_type),")
    rt.method_to_shim("as_str", "shim_string_as_str", borrow="&", why="String::as_str: the same bytes")
    u.emit(rt)
    fs = mpr.impl_fn(DS, "format_signature")
    fs.contracted = True
    fs.props_all = ["C16"]
    fs.props_safety = ["C13", "C12"]
    fs.ret("ret")
    fs.contract("    ensures /*@L:formatted_signature_lists_parameters_then_non_void_return_type:C16*/ sbs(ret) == fmt_sig_spec(strs(self.parameters@), sbs(self.return_type)),")
    fs.method_to_shim("join", "shim_vec_string_join", borrow="&", why="[String]::join(&str)")
    fs.method_to_shim("push_str", "shim_string_push_str", borrow="&mut ", why="String::push_str: appends the bytes")
    fs.method_to_shim("is_empty", "shim_str_is_empty", why="str::is_empty")
    for m in re.finditer(r"format!\(\"((?:[^\"\\{}])*)\{\}((?:[^\"\\{}])*)\",\s*", fs.orig):
        fs.replace_span(m.start(), m.end(), 'shim_format1("%s", &(' % m.group(1), "R2", "format! behind a shim: the literal pieces and the rendering of the argument, in order (assumed)")
        toks = fs._toks()
        from vf.rustlex import match_close
        i = next(ix for ix, t in enumerate(toks) if t[1] == m.start() + len("format!"))
        c = toks[match_close(fs.orig, toks, i)][1]
        fs.replace_span(c, c + 1, '), "%s")' % m.group(2), "R2", "format! (end)")
    if len(re.findall(r"format!\(", fs.orig)) != 1:
        raise AnchorLost("format_signature: format! invocation of unknown shape")
    # `E != "lit"` on &str: contents compared
    toks = fs._toks()
    for m in re.finditer(r"\s*(!=|==)\s*(\"[^\"]*\")", fs.orig):
        ix = next(k for k, t in enumerate(toks) if t[1] >= m.start(1))
        a = fs._receiver_start(toks, ix)
        fs.replace_span(a, a, ("!" if m.group(1) == "!=" else "") + "shim_str_eq(", "R2", "&str compared with a literal: equality of contents")
        fs.replace_span(m.start(), m.end(), ", %s)" % m.group(2), "R2", "&str comparison (end)")
    fs.body_start("proof { axiom_dsp(); axiom_bytes_of_view(); axiom_u17_literals(); assert(sb(\"void\") == lit_void()); }\n")
    lits_fs = re.findall(r'"((?:[^"\\]|\\.)*)"', fs.orig)
    u.emit(fs)
    u.raw("}\n", "glue")
    # ---- the two public entry points: assembly, then DeobfuscatedSignature::new ----
    u.raw("pub mod java { pub use super::{deobfuscate_bytecode_signature, deobfuscate_bytecode_signature_cache}; }\n", "glue (the `java::` paths of the callers)")
    cmod = u.source("src/cache/mod.rs")
    for src_, IMPL, remap in ((mpr, "impl<'s> ProguardMapper<'s>", "mapper_remap"), (cmod, "impl<'data> ProguardCache<'data>", "cache_remap")):
        g = src_.impl_fn(IMPL, "deobfuscate_signature")
        g.contracted = True
        g.props_all = ["C16"]
        g.props_safety = ["C13" if remap == "mapper_remap" else "C12"]
        g.ret("ret")
        mg = re.search(r"fn\s+deobfuscate_signature\s*\(\s*&(?:'\w+\s+)?self\s*,\s*(\w+)\s*:\s*&str\s*\)", g.orig)
        mm = re.search(r"\.map\(\s*(DeobfuscatedSignature::new)\s*\)", g.orig)
        if not (mg and mm):
            raise AnchorLost("%s::deobfuscate_signature: unknown shape" % IMPL)
        g.replace_span(mm.start(1), mm.end(1), "|t: (Vec<String>, String)| -> (d: DeobfuscatedSignature) ensures d.parameters == t.0 && d.return_type == t.1 { DeobfuscatedSignature::new(t) }",
                       "R3", "a fn item passed to Option::map is eta-expanded into a closure that carries the item's contract")
        g.contract("""    ensures
        /*@L:entry_point_returns_the_deobfuscated_signature:C16*/ match ret {
            Some(d) => deob_spec(sb(%(sig)s), %(rm)s_fn(self)) == Some((strs(d.parameters@), sbs(d.return_type))),
            None => deob_spec(sb(%(sig)s), %(rm)s_fn(self)) is None,
        },
""" % dict(sig=mg.group(1), rm=remap))
        str_shims(g)
        u.raw(IMPL + " {\n", "glue")
        u.emit(g)
        u.raw("}\n", "glue")
    for lit in lits_fs:
        for piece in lit.split("{}"):
            if '"%s"' % piece not in lits:
                lits.append('"%s"' % piece)
    ax = ["#[verifier::external_body]\npub proof fn axiom_u17_literals()\n    ensures\n"]
    for lit in lits:
        val = bytes(lit[1:-1], "utf-8").decode("unicode_escape").encode("utf-8")
        ax.append("        sb(%s) == %s,\n" % (lit, ("seq![%s]" % ", ".join("%du8" % b for b in val)) if val else "Seq::<u8>::empty()"))
    ax.append("{}\n")
    u.raw("".join(ax), "literal axioms (generated from the literals in the extracted text)")

    # ---- the assembly ----
    u.raw(ASM_SPEC, "assembly spec")
    for name, render_name, remap in (("deobfuscate_bytecode_signature", "byte_code_type_to_java_type", "mapper_remap"),
                                     ("deobfuscate_bytecode_signature_cache", "byte_code_type_to_java_type_cache", "cache_remap")):
        f = jv.fn(name)
        f.contracted = True
        f.props_all = ["C16"]
        f.props_safety = ["C13" if remap == "mapper_remap" else "C12"]
        f.ret("ret")
        assemble_fn(f, render_name, remap)
        u.emit(f)
    u.raw(FOOTER, "footer")
    return u
