"""U8/U9: the tail of ProguardCache::write (everything after the record-collection loop) and the PaddedWriter helper.

* PaddedWriter::{new, write_all, pad_to_8} are verified against the std::io::Write trait contract (C15).
* R5 region `write[tail]` = raw.rs from `let string_bytes = string_table.into_bytes();` to the final `Ok(())`, with the local
  `writer` (a PaddedWriter) as `&mut` parameter and `string_table`, `classes` as value parameters.  What is dropped: the
  collection loop before it (assumed to establish wf_cip for every stored class) and the statement
  `let mut writer = PaddedWriter::new(writer);` (PaddedWriter::new is verified; that `&mut W` forwards Write to `W` is std's).
"""
from vf.unit import Unit, strip_attrs_and_docs
from .common import HEADER, FOOTER, contract, extract_struct, extract_struct_priv, widen


def build():
    u = Unit("u8_writer_tail")
    u.rlimit = 400  # the tail region is one long straight-line proof (measured: ~120M rlimit units, 9 s)
    u.raw("#![feature(allocator_api)]\n" + HEADER, "header")
    u.raw("use std::collections::{BTreeMap, HashSet};\nuse std::io::Write;\n", "glue")
    raw = u.source("src/cache/raw.rs")
    for cname in ("PRGCACHE_MAGIC_BYTES", "PRGCACHE_MAGIC", "PRGCACHE_MAGIC_FLIPPED"):
        c = raw.item("const", cname)
        widen(c)
        if not c.orig.startswith("pub"):
            c.replace_span(0, 0, "pub ", "R4", "visibility widening")
        u.raw("#[verifier::external_body] // R4: value pinned by the Kani harness K2\n", "glue")
        u.emit(c)
    u.emit(raw.item("const", "PRGCACHE_VERSION"))
    extract_struct(u, raw, "Header")
    extract_struct(u, raw, "Class")
    extract_struct(u, raw, "Member")
    extract_struct_priv(u, raw, "ClassInProgress")
    extract_struct_priv(u, raw, "PaddedWriter")
    u.raw(contract("writer_model.rs"), "writer_model")
    u.raw(contract("writer_lemmas.rs"), "writer_lemmas")

    # ---------------- PaddedWriter ----------------
    PW = r"impl<W: Write> PaddedWriter<W>"
    u.raw(raw.impl_header(PW) + "{\n", "glue")
    n = raw.impl_fn(PW, "new")
    n.ret("r")
    n.props_all = ["C15", "C09"]
    n.contract("    ensures /*@L:new_starts_aligned:C15,C09*/ r.inner == inner && r.offset == 0,")
    u.emit(n)
    w = raw.impl_fn(PW, "write_all")
    w.ret("r")
    w.props_all = ["C15", "C09"]
    w.props_safety = ["C13"]
    w.contract("""    ensures
        /*@L:write_all_delivers_all_or_prefix:C15*/ match r {
            Ok(_) => final(self).inner.sunk() == old(self).inner.sunk() + buf@,
            Err(_) => delivered_prefix(old(self).inner.sunk(), final(self).inner.sunk(), buf@),
        },
        /*@L:offset_tracks_position_mod_8:C15,C09*/ r is Ok ==> final(self).offset as int == (old(self).offset as int + buf@.len()) % 8,""")
    w.body_start("proof { reveal(delivered_prefix); }\n")
    u.emit(w)
    p = raw.impl_fn(PW, "pad_to_8")
    p.ret("r")
    p.props_all = ["C15", "C09"]
    p.props_safety = ["C13"]
    p.contract("""    ensures
        /*@L:padding_is_zero_bytes_to_next_multiple_of_8:C15,C09*/ match r {
            Ok(_) => ext_by_zeros(old(self).inner.sunk(), final(self).inner.sunk(), pad_len(old(self).offset as int)) && final(self).offset == 0,
            Err(_) => 0 <= final(self).inner.sunk().len() - old(self).inner.sunk().len() <= pad_len(old(self).offset as int)
                && ext_by_zeros(old(self).inner.sunk(), final(self).inner.sunk(), final(self).inner.sunk().len() - old(self).inner.sunk().len()),
        },""")
    p.body_start("proof { reveal(delivered_prefix); reveal(ext_by_zeros); }\n")
    u.emit(p)
    u.raw("}\n", "glue")
    # ---------------- R5 region: the tail of ProguardCache::write ----------------
    wfn = raw.impl_fn(r"impl<'data> ProguardCache<'data>", "write")
    reg = raw.region(wfn, "let string_bytes = string_table.into_bytes();", "Ok(())", "tail")
    reg.contracted = True
    reg.kind = "region"
    reg.props_all = ["C15", "C09", "C10", "C03", "C02"]
    reg.props_safety = ["C13"]
    # R2 shims
    reg.replace_re(r"classes\s*\.values\(\)\s*\.map\(\|c\| c\.class\.members_len\)\s*\.sum::<u32>\(\)", "shim_sum_members_len(&classes)", "R2",
                   why="Iterator::map+sum over BTreeMap::values behind a shim (assumed: the u32 sum, panics on overflow => precondition)")
    reg.replace_re(r"classes\s*\.values\(\)\s*\.map\(\|c\| c\.class\.members_by_params_len\)\s*\.sum::<u32>\(\)", "shim_sum_by_params_len(&classes)", "R2")
    reg.replace("classes.len()", "shim_btree_len(&classes)", "R2", why="BTreeMap::len behind a shim")
    # Pod::as_bytes behind shims, chosen by the receiver expression (generic, so that a wrong receiver is *verified*, not lost)
    import re as _re
    for m in _re.finditer(r"([a-z_]+(?:\.[a-z_]+)*)\.as_bytes\(\)", reg.orig):
        recv = m.group(1)
        shim = {"header": "shim_header_as_bytes", "c.class": "shim_class_as_bytes"}.get(recv, "shim_members_as_bytes")
        reg.replace_span(m.start(), m.end(), "%s(&%s)" % (shim, recv), "R2",
                         "Pod::as_bytes behind a shim (byte image abstract; layout pinned by Kani K1)")
    reg.replace_re(r"members\.extend\(c\.members\.into_values\(\)\.flat_map\(\|m\| m\.into_iter\(\)\)\);", "shim_extend_flatten(&mut members, c.members);", "R2",
                   why="Vec::extend(BTreeMap::into_values().flat_map(..)) behind a shim: appends the map's vectors in key order")
    reg.replace_re(r"members_by_params\.extend\(\s*c\.members_by_params\s*\.into_values\(\)\s*\.flat_map\(\|m\| m\.into_iter\(\)\),?\s*\);", "shim_extend_flatten(&mut members_by_params, c.members_by_params);", "R2")
    # ghost set-up at the start of the region: `done` tracks the bytes delivered so far (relative to sunk0)
    reg.insert_at(0, """let ghost cs = vals(classes);
        let ghost nn = cs.len() as int;
        let ghost sunk0 = writer.inner.sunk();
        let ghost strs = table_bytes(string_table);
        let ghost canon = canonical(cs, strs);
        let ghost hb = hdr_bytes(header_of(cs, strs));
        let ghost cb = classes_bytes(cs, nn);
        let ghost mb = members_bytes(all_members(cs, nn));
        let ghost pb = members_bytes(all_by_params(cs, nn));
        let ghost mut done: Seq<u8> = Seq::empty();
        let ghost z1 = zeros(pad_len(hb.len() as int)); let ghost z2 = zeros(pad_len(cb.len() as int));
        let ghost z3 = zeros(pad_len(mb.len() as int)); let ghost z4 = zeros(pad_len(pb.len() as int));
        let ghost p2 = Seq::<u8>::empty() + hb + z1;
        let ghost mut stage: int = 0;   // how many of the nine chunks (hb z1 cb z2 mb z3 pb z4 strs) have been delivered completely
        proof {
            axiom_record_sizes(); lemma_classes_len(cs, nn);
            // the canonical layout as one left-nested concatenation; every cumulative prefix of it is a prefix of canon
            lemma_canonical_flat(cs, strs);
            lemma_layout_prefixes(canon, hb, z1, cb, z2, mb, z3, pb, z4, strs);
            lemma_add_empty(sunk0);
            assert(done == layout_prefix(0, hb, z1, cb, z2, mb, z3, pb, z4, strs));
        }
        """)
    # generic tracking of every `writer.write_all(X)?;` / `writer.pad_to_8()?;` statement, in whatever order they occur:
    # before each one the obligation "what has been delivered plus this chunk is still a prefix of the canonical bytes".
    import re
    loops = reg.loops()
    lo, hi = (loops[0][2], loops[0][3]) if loops else (-1, -1)
    CHUNKS = [(r"header\.as_bytes\(\)", "hdr_bytes(header)"), (r"c\.class\.as_bytes\(\)", "class_bytes(c.class)"),
              (r"&string_bytes", "string_bytes@"), (r"([a-z_]+)\.as_bytes\(\)", r"members_bytes(\1@)")]
    for m in re.finditer(r"writer\s*\.\s*(write_all\((.*?)\)|pad_to_8\(\))\s*\?;", reg.orig, re.S):
        inloop = lo < m.start() < hi
        LP = "hb, z1, cb, z2, mb, z3, pb, z4, strs"
        if m.group(1).startswith("pad_to_8"):
            reg.insert_at(m.start(), """let ghost chunk = zeros(pad_len(writer.offset as int));
        proof { /*@L:padding_is_the_next_chunk_of_the_layout:C15,C09,C10*/ assert(chunk == layout_chunk(stage + 1, %s));
                assert(done + chunk == layout_prefix(stage + 1, %s));
                lemma_track_pad(sunk0, done, pad_len(writer.offset as int), canon); }
        """ % (LP, LP))
            reg.insert_at(m.end(), """
        proof { done = done + chunk; stage = stage + 1; assert(done == layout_prefix(stage, hb, z1, cb, z2, mb, z3, pb, z4, strs)); assert(writer.inner.sunk() == sunk0 + done); assert(writer.offset as int == done.len() %% 8); }""" % ())
        else:
            arg = m.group(2).strip()
            chunk = None
            for pat, rep in CHUNKS:
                mm = re.fullmatch(pat, arg)
                if mm:
                    chunk = mm.expand(rep)
                    break
            if chunk is None:
                from vf.unit import AnchorLost
                raise AnchorLost("write_all argument %r has no known byte image" % arg)
            if inloop:
                reg.insert_at(m.start(), """let ghost chunk = %s;
        proof { /*@L:class_record_is_the_next_piece_of_the_class_section:C15,C09,C10,C03,C02*/ assert(c.class == emitted_class(cs, i));
                lemma_class_piece_prefix(p2, cs, i, nn, canon);
                lemma_track_write(sunk0, done, chunk, canon); }
        """ % chunk)
                reg.insert_at(m.end(), """
        proof { done = done + chunk; assert(writer.inner.sunk() == sunk0 + done); assert(writer.offset as int == done.len() %% 8); }""" % ())
            else:
                reg.insert_at(m.start(), """let ghost chunk = %s;
        proof { /*@L:chunk_is_the_next_chunk_of_the_layout:C15,C09,C10,C03,C02*/ assert(chunk == layout_chunk(stage + 1, %s));
                assert(done + chunk == layout_prefix(stage + 1, %s));
                lemma_track_write(sunk0, done, chunk, canon); }
        """ % (chunk, LP, LP))
                reg.insert_at(m.end(), """
        proof { done = done + chunk; stage = stage + 1; assert(done == layout_prefix(stage, hb, z1, cb, z2, mb, z3, pb, z4, strs)); assert(writer.inner.sunk() == sunk0 + done); assert(writer.offset as int == done.len() %% 8); }""" % ())
    reg.insert_before("writer.write_all(header.as_bytes())", "proof { assert(header == header_of(cs, strs)); }\n        ") if "writer.write_all(header.as_bytes())" in " ".join(reg.orig.split()) else None
    reg.for_to_loop(1, it_name="it", iter_expr="shim_into_values(classes)",
        after_decl="""let ghost mut n: int = 0;
        proof { assert(cs.skip(0) == cs); /*@L:class_section_starts_after_padded_header:C15,C09,C10*/ assert(stage == 2); lemma_add_empty(p2); assert(done == p2 + classes_bytes(cs, 0)); }
""",
        spec="""            invariant
                it.obeys_prophetic_iter_laws(), it.decrease() is Some,
                0 <= n <= nn, nn == cs.len(), cs.skip(n) == it.remaining(),
                cs == vals(classes), strs == table_bytes(string_table), sunk0 == old(writer).inner.sunk(),
                canon == canonical(cs, strs), hb == hdr_bytes(header_of(cs, strs)), hb.len() == 24,
                cb == classes_bytes(cs, nn), mb == members_bytes(all_members(cs, nn)), pb == members_bytes(all_by_params(cs, nn)),
                stage == 2, z1 == zeros(pad_len(hb.len() as int)), z2 == zeros(pad_len(cb.len() as int)), z3 == zeros(pad_len(mb.len() as int)), z4 == zeros(pad_len(pb.len() as int)),
                forall|k: int| 0 <= k <= 9 ==> is_prefix_of(#[trigger] layout_prefix(k, hb, z1, cb, z2, mb, z3, pb, z4, strs), canon),
                done == p2 + classes_bytes(cs, n), p2 == Seq::<u8>::empty() + hb + zeros(pad_len(hb.len() as int)), is_prefix_of(p2 + cb, canon),
                writer.inner.sunk() == sunk0 + done,
                writer.offset as int == done.len() % 8,
                members@ == all_members(cs, n), members_by_params@ == all_by_params(cs, n),
            ensures n == nn,
            decreases it.decrease()->0,""",
        before_next="let ghost rem_before = it.remaining();\n",
        on_none="proof { assert(rem_before.len() == 0); }",
        after_next="""            let ghost i = n;
            proof {
                assert(rem_before.len() > 0);
                assert(c == cs[n]);
                assert(cs.skip(n).drop_first() == cs.skip(n + 1));
                n = n + 1;
                lemma_members_before(cs, i);
                axiom_record_sizes(); lemma_classes_len(cs, i); lemma_classes_len(cs, nn);
            }
""")
    # end of the loop body: the two vectors hold the records of the first n classes
    if loops:
        reg.insert_at(hi, """proof { assert(members@ == all_members(cs, n)); assert(members_by_params@ == all_by_params(cs, n));
                assert(done == p2 + classes_bytes(cs, n)); }
        """)
    # after the loop the whole class section has been delivered
    if loops:
        reg.insert_at(hi + 1, """
        proof { assert(done == layout_prefix(3, hb, z1, cb, z2, mb, z3, pb, z4, strs)); stage = 3; }""")
    reg.insert_at(len(reg.orig) - len("Ok(())"), "proof { /*@L:everything_was_written:C15,C09,C10*/ assert(stage == 9); assert(done == canon); }\n        ")
    u.emit(reg, prefix="""fn region_write_tail<'d, W: Write>(writer: &mut PaddedWriter<W>, string_table: StringTable, classes: BTreeMap<&'d str, ClassInProgress<'d>>) -> (ret: std::io::Result<()>)
    requires
        old(writer).offset == 0,
        // representable domain (the u32 sums in the header must not overflow: Iterator::sum panics in debug builds)
        sum_members_len(vals(classes)) <= u32::MAX, sum_by_params_len(vals(classes)) <= u32::MAX,
    ensures
        /*@L:ok_means_canonical_bytes:C15,C09,C10,C03,C02*/ ret is Ok ==> final(writer).inner.sunk() == old(writer).inner.sunk() + canonical(vals(classes), table_bytes(string_table)),
        /*@L:err_means_only_a_prefix_was_delivered:C15*/ ret is Err ==> delivered_prefix(old(writer).inner.sunk(), final(writer).inner.sunk(), canonical(vals(classes), table_bytes(string_table))),
{
""", suffix="\n}\n")

    u.raw(FOOTER, "footer")
    return u
