"""U8/U9: the tail of ProguardCache::write (everything after the record-collection loop) and the PaddedWriter helper.

* PaddedWriter::{new, write_all, pad_to_8} are verified against the std::io::Write trait contract (C15).
* R5 region `write[tail]` = raw.rs from `let string_bytes = string_table.into_bytes();` to the final `Ok(())`, with the local
  `writer` (a PaddedWriter) as `&mut` parameter and `string_table`, `classes` as value parameters.  What is dropped: the
  collection loop before it (assumed to establish wf_cip for every stored class) and the statement
  `let mut writer = PaddedWriter::new(writer);` (PaddedWriter::new is verified; that `&mut W` forwards Write to `W` is std's).
"""
from vf.unit import Unit, strip_attrs_and_docs
from .common import HEADER, FOOTER, contract, extract_struct, extract_struct_priv, widen


def build():
    u = Unit("u8_writer_tail")
    u.rlimit = 50  # every region query is small (measured: <= 1.1M rlimit units each, ~1 s in total, stable over 8 solver seeds)
    u.raw("#![feature(allocator_api)]\n" + HEADER, "header")
    u.raw("use std::collections::{BTreeMap, HashSet};\nuse std::io::{ErrorKind, Write};\n", "glue")
    raw = u.source("src/cache/raw.rs")
    for cname in ("PRGCACHE_MAGIC_BYTES", "PRGCACHE_MAGIC", "PRGCACHE_MAGIC_FLIPPED"):
        c = raw.item("const", cname)
        widen(c)
        if not c.orig.startswith("pub"):
            c.replace_span(0, 0, "pub ", "R4", "visibility widening")
        u.raw("#[verifier::external_body] // R4: value pinned by the Kani harness K2\n", "glue")
        u.emit(c)
    u.emit(raw.item("const", "PRGCACHE_VERSION"))
    extract_struct(u, raw, "Header")
    extract_struct(u, raw, "Class")
    extract_struct(u, raw, "Member")
    extract_struct_priv(u, raw, "ClassInProgress")
    extract_struct_priv(u, raw, "PaddedWriter")
    u.raw(contract("writer_model.rs"), "writer_model")
    u.raw(contract("writer_lemmas.rs"), "writer_lemmas")

    # ---------------- PaddedWriter ----------------
    PW = r"impl<W: Write> PaddedWriter<W>"
    u.raw(raw.impl_header(PW) + "{\n", "glue")
    n = raw.impl_fn(PW, "new")
    n.ret("r")
    n.props_all = ["C15", "C09"]
    n.contract("    ensures /*@L:new_starts_aligned:C15,C09*/ r.inner == inner && r.offset == 0,")
    u.emit(n)
    w = raw.impl_fn(PW, "write_all")
    w.ret("r")
    w.props_all = ["C15", "C09"]
    w.props_safety = ["C13"]
    w.contract("""    requires
        // representation invariant of PaddedWriter (established by `new`, kept by every method): the position is kept modulo 8
        old(self).offset < 8,
    ensures
        final(self).offset < 8,
        /*@L:write_all_delivers_all_or_prefix:C15*/ match r {
            Ok(_) => final(self).inner.sunk() == old(self).inner.sunk() + buf@,
            Err(_) => delivered_prefix(old(self).inner.sunk(), final(self).inner.sunk(), buf@),
        },
        /*@L:offset_tracks_position_mod_8:C15,C09*/ r is Ok ==> final(self).offset as int == (old(self).offset as int + buf@.len()) % 8,""")
    w.body_start("proof { reveal(delivered_prefix); }\n")
    u.emit(w)
    p = raw.impl_fn(PW, "pad_to_8")
    p.ret("r")
    p.props_all = ["C15", "C09"]
    p.props_safety = ["C13"]
    p.contract("""    requires old(self).offset < 8,
    ensures
        final(self).offset < 8,
        /*@L:padding_is_zero_bytes_to_next_multiple_of_8:C15,C09*/ match r {
            Ok(_) => ext_by_zeros(old(self).inner.sunk(), final(self).inner.sunk(), pad_len(old(self).offset as int)) && final(self).offset == 0,
            Err(_) => 0 <= final(self).inner.sunk().len() - old(self).inner.sunk().len() <= pad_len(old(self).offset as int)
                && ext_by_zeros(old(self).inner.sunk(), final(self).inner.sunk(), final(self).inner.sunk().len() - old(self).inner.sunk().len()),
        },""")
    p.body_start("proof { reveal(delivered_prefix); reveal(ext_by_zeros); }\n")
    u.emit(p)
    u.raw("}\n", "glue")
    # ---------------- R5 regions: the tail of ProguardCache::write, cut into three consecutive pieces ----------------
    # A = header part   [`let string_bytes = ..` , `let mut members = Vec::new();`)
    # B = class loop    [`let mut members = Vec::new();` , end of the `for` block]
    # C = the rest      (end of the `for` block , final `Ok(())`]
    # and a hand-written composition `A?; B?; C` that is verified against the contract of the whole tail.
    import re
    from vf.unit import Fragment, AnchorLost
    wfn = raw.impl_fn(r"impl<'data> ProguardCache<'data>", "write")
    tail = raw.region(wfn, "let string_bytes = string_table.into_bytes();", "Ok(())", "tail")
    # anchor (not an obligation): the sink the regions write to is the caller's writer, wrapped by PaddedWriter::new and nothing else.
    # The regions are proved for PaddedWriter<W> with any W: Write; PaddedWriter::new's contract (r.inner == inner) ties W to the
    # caller's sink only if this binding is the statement below. Any other shape (e.g. an extra buffering layer) => undecided.
    head = re.sub(r"//[^\n]*", "", tail.src[wfn.start:tail.start])
    head = head[head.index("{"):]
    bind = re.findall(r"let\s+mut\s+writer\s*=\s*PaddedWriter::new\(\s*writer\s*\)\s*;", head)
    if len(bind) != 1 or len(re.findall(r"\bwriter\b", head)) != 2:
        raise AnchorLost("write: the sink binding before the tail is not exactly `let mut writer = PaddedWriter::new(writer);`")
    mb_ = tail._find("let mut members = Vec::new();")
    tl = tail.loops()
    if not tl:
        raise AnchorLost("write tail: class loop not found")
    loop_close = tl[0][3] + 1

    def sub(a, b, name):
        f = Fragment(u, tail.file, tail.src, tail.start + a, tail.start + b, "region", name)
        f.qualname = "%s[%s]" % (wfn.qualname, name)
        f.contracted = True
        f.props_all = ["C15", "C09", "C10", "C03", "C02"]
        f.props_safety = ["C13"]
        return f
    A = sub(0, mb_.start(), "tail-A:header")
    B = sub(mb_.start(), loop_close, "tail-B:classes")
    C = sub(loop_close, len(tail.orig), "tail-C:sections")

    GHOSTS = """let ghost nn = cs.len() as int;
        let ghost canon = canonical(cs, strs);
        proof { axiom_record_sizes(); }
        """

    def shims(reg):
        reg.replace_all_re(r"classes\s*\.values\(\)\s*\.map\(\|c\| c\.class\.members_len\)\s*\.sum::<u32>\(\)", "shim_sum_members_len(&classes)", "R2",
                           why="Iterator::map+sum over BTreeMap::values behind a shim (assumed: the u32 sum; panics on overflow => precondition)")
        reg.replace_all_re(r"classes\s*\.values\(\)\s*\.map\(\|c\| c\.class\.members_by_params_len\)\s*\.sum::<u32>\(\)", "shim_sum_by_params_len(&classes)", "R2")
        reg.replace_all_re(r"classes\.len\(\)", "shim_btree_len(&classes)", "R2", why="BTreeMap::len behind a shim")
        for m in re.finditer(r"([a-z_]+(?:\.[a-z_]+)*)\.as_bytes\(\)", reg.orig):
            recv = m.group(1)
            shim = {"header": "shim_header_as_bytes", "c.class": "shim_class_as_bytes"}.get(recv, "shim_members_as_bytes")
            reg.replace_span(m.start(), m.end(), "%s(&%s)" % (shim, recv), "R2",
                             "Pod::as_bytes behind a shim (byte image abstract; layout pinned by Kani K1)")
        reg.replace_all_re(r"members\.extend\(\s*c\.members\s*\.into_values\(\)\s*\.(?:flat_map\(\|m\| m\.into_iter\(\)\)|flatten\(\)),?\s*\);", "shim_extend_flatten(&mut members, c.members);", "R2",
                           why="Vec::extend(BTreeMap::into_values().flat_map(..)) behind a shim: appends the map's vectors in key order")
        reg.replace_all_re(r"members_by_params\.extend\(\s*c\.members_by_params\s*\.into_values\(\)\s*\.(?:flat_map\(\|m\| m\.into_iter\(\)\)|flatten\(\)),?\s*\);", "shim_extend_flatten(&mut members_by_params, c.members_by_params);", "R2")

    CHUNKS = [(r"header\.as_bytes\(\)", "hdr_bytes(header)"), (r"c\.class\.as_bytes\(\)", "class_bytes(c.class)"),
              (r"&string_bytes", "string_bytes@"), (r"([a-z_]+)\.as_bytes\(\)", r"members_bytes(\1@)")]

    AFTER = """
        proof { assert(writer.inner.sunk() == sunk0 + tail_prefix(stage, cs, strs)); assert(writer.offset as int == tail_prefix(stage, cs, strs).len() % 8); }"""

    def track(reg, inloop_range=None):
        """generic tracking of every `writer.write_all(X)?;` / `writer.pad_to_8()?;` statement, in whatever order they occur:
        ghost `stage` = number of layout chunks delivered so far; the step lemmas of contracts/writer_lemmas.rs carry the rest"""
        lo, hi = inloop_range or (-1, -1)
        for m in re.finditer(r"writer\s*\.\s*(write_all\((.*?)\)|pad_to_8\(\))\s*\?;", reg.orig, re.S):
            inloop = lo < m.start() < hi
            if m.group(1).startswith("pad_to_8"):
                if inloop:
                    raise AnchorLost("pad_to_8 inside the class loop is not a shape the tracking knows")
                reg.insert_at(m.start(), """proof { if stage % 2 == 1 {
                    lemma_tail_pad(sunk0, stage, cs, strs, writer.offset as int);
                    /*@L:padding_is_the_next_chunk_of_the_layout:C15,C09,C10*/ assert(zeros(pad_len(writer.offset as int)) == tail_chunk(stage + 1, cs, strs));
                } else { lemma_tail_pad_noop(sunk0, stage, cs, strs, writer.offset as int); } }
        """)
                reg.insert_at(m.end(), """
        proof { if stage % 2 == 1 { stage = stage + 1; } }""" + AFTER)
                continue
            arg = m.group(2).strip()
            chunk = None
            for pat, rep in CHUNKS:
                mm = re.fullmatch(pat, arg)
                if mm:
                    chunk = mm.expand(rep)
                    break
            if chunk is None:
                raise AnchorLost("write_all argument %r has no known byte image" % arg)
            if inloop:
                reg.insert_at(m.start(), """let ghost chunk = %s;
        proof { /*@L:class_record_is_the_next_piece_of_the_class_section:C15,C09,C10,C03,C02*/ assert(c.class == emitted_class(cs, i));
                lemma_class_piece_prefix(p2, cs, i, nn, canon);
                lemma_track_write(sunk0, done, chunk, canon); }
        """ % chunk)
                reg.insert_at(m.end(), """
        proof { done = done + chunk; assert(writer.inner.sunk() == sunk0 + done); assert(writer.offset as int == done.len() % 8); }""")
            else:
                reg.insert_at(m.start(), """let ghost chunk = %s;
        proof { /*@L:a_section_starts_on_an_aligned_position:C15,C09,C10*/ assert(stage %% 2 == 0 && stage < 9);
                /*@L:chunk_is_the_next_chunk_of_the_layout:C15,C09,C10,C03,C02*/ assert(chunk == tail_chunk(stage + 1, cs, strs));
                lemma_tail_write(sunk0, stage, cs, strs); }
        """ % chunk)
                reg.insert_at(m.end(), """
        proof { stage = stage + 1; }""" + AFTER)

    DOMAIN = "sum_members_len(vals(classes)) <= u32::MAX, sum_by_params_len(vals(classes)) <= u32::MAX,"
    # ---- region A ----
    shims(A)
    A.insert_at(0, """let ghost cs = vals(classes);
        let ghost strs = table_bytes(string_table);
        let ghost sunk0 = writer.inner.sunk();
        """ + GHOSTS + """let ghost mut stage: int = 0;
        proof { lemma_tail_start(sunk0, cs, strs); }
        """)
    track(A)
    if re.search(r"writer\s*\.\s*write_all\(header\.as_bytes\(\)\)", A.orig):
        A.insert_before("writer.write_all(header.as_bytes())", "proof { /*@L:header_fields_are_magic_version_and_counts:C09,C10*/ assert(header == header_of(cs, strs)); }\n        ")
    u.emit(A, prefix="""fn region_tail_a<'d, W: Write>(writer: &mut PaddedWriter<W>, string_table: StringTable, classes: BTreeMap<&'d str, ClassInProgress<'d>>)
        -> (ret: std::io::Result<(Vec<u8>, BTreeMap<&'d str, ClassInProgress<'d>>)>)
    requires
        old(writer).offset == 0,
        // representable domain: the u32 sums in the header must not overflow (Iterator::sum panics in debug builds)
        %s
    ensures
        /*@L:A_ok_header_and_padding_delivered:C15,C09,C10*/ ret is Ok ==> ({ let cs = vals(classes); let strs = table_bytes(string_table);
            ret->Ok_0.0@ == strs && ret->Ok_0.1 == classes
            && final(writer).inner.sunk() == old(writer).inner.sunk() + tail_prefix(2, cs, strs)
            && final(writer).offset as int == tail_prefix(2, cs, strs).len() %% 8 }),
        /*@L:A_err_means_only_a_prefix_was_delivered:C15*/ ret is Err ==> delivered_prefix(old(writer).inner.sunk(), final(writer).inner.sunk(), canonical(vals(classes), table_bytes(string_table))),
{
""" % DOMAIN, suffix="""
    proof { /*@L:A_ends_after_the_padded_header:C15,C09,C10*/ assert(stage == 2); }
    Ok((string_bytes, classes))
}
""")
    # ---- region B ----
    shims(B)
    bl = B.loops()
    B.insert_at(0, GHOSTS + """let ghost mut stage: int = 2;
        let ghost p2 = tail_prefix(2, cs, strs);
        let ghost cb = classes_bytes(cs, nn);
        let ghost mut done: Seq<u8> = p2;
        proof { lemma_classes_len(cs, nn); lemma_tail_write(sunk0, 2, cs, strs); assert(cb == tail_chunk(3, cs, strs)); }
        """)
    track(B, (bl[0][2], bl[0][3]))
    B.for_to_loop(1, it_name="it", iter_expr="shim_into_values(classes)",
        after_decl="""let ghost mut n: int = 0;
        proof { assert(cs.skip(0) == cs); lemma_add_empty(p2); assert(done == p2 + classes_bytes(cs, 0)); }
""",
        spec="""            invariant
                it.obeys_prophetic_iter_laws(), it.decrease() is Some,
                0 <= n <= nn, nn == cs.len(), cs.skip(n) == it.remaining(),
                cs == vals(classes), sunk0 == sunk0_, strs == strs_,
                canon == canonical(cs, strs), cb == classes_bytes(cs, nn),
                is_prefix_of(p2 + cb, canon),
                done == p2 + classes_bytes(cs, n), p2 == tail_prefix(2, cs, strs),
                writer.inner.sunk() == sunk0 + done,
                writer.offset as int == done.len() % 8,
                members@ == all_members(cs, n), members_by_params@ == all_by_params(cs, n),
            ensures n == nn,
            decreases it.decrease()->0,""",
        before_next="let ghost rem_before = it.remaining();\n",
        on_none="proof { assert(rem_before.len() == 0); }",
        after_next="""            let ghost i = n;
            proof {
                assert(rem_before.len() > 0);
                assert(c == cs[n]);
                assert(cs.skip(n).drop_first() == cs.skip(n + 1));
                n = n + 1;
                lemma_members_before(cs, i);
                axiom_record_sizes(); lemma_classes_len(cs, i); lemma_classes_len(cs, nn);
            }
""")
    B.insert_at(bl[0][3], """proof { assert(members@ == all_members(cs, n)); assert(members_by_params@ == all_by_params(cs, n));
                /*@L:one_class_record_per_class:C09,C10*/ assert(done == p2 + classes_bytes(cs, n)); }
        """)
    u.emit(B, prefix="""fn region_tail_b<'d, W: Write>(writer: &mut PaddedWriter<W>, classes: BTreeMap<&'d str, ClassInProgress<'d>>, Ghost(sunk0_): Ghost<Seq<u8>>, Ghost(strs_): Ghost<Seq<u8>>)
        -> (ret: std::io::Result<(Vec<Member>, Vec<Member>)>)
    requires
        old(writer).inner.sunk() == sunk0_ + tail_prefix(2, vals(classes), strs_),
        old(writer).offset as int == tail_prefix(2, vals(classes), strs_).len() % 8,
    ensures
        /*@L:B_ok_class_section_delivered:C15,C09,C10,C03,C02*/ ret is Ok ==> ({ let cs = vals(classes); let nn = cs.len() as int;
            ret->Ok_0.0@ == all_members(cs, nn) && ret->Ok_0.1@ == all_by_params(cs, nn)
            && final(writer).inner.sunk() == sunk0_ + tail_prefix(3, cs, strs_)
            && final(writer).offset as int == tail_prefix(3, cs, strs_).len() % 8 }),
        /*@L:B_err_means_only_a_prefix_was_delivered:C15*/ ret is Err ==> delivered_prefix(sunk0_, final(writer).inner.sunk(), canonical(vals(classes), strs_)),
{
    let ghost cs = vals(classes);
    let ghost sunk0 = sunk0_;
    let ghost strs = strs_;
""", suffix="""
    proof { /*@L:B_ends_after_the_class_section:C15,C09,C10*/ assert(stage == 2); lemma_tail_step(2, cs, strs); assert(done == tail_prefix(3, cs, strs)); }
    Ok((members, members_by_params))
}
""")
    # ---- region C ----
    shims(C)
    C.insert_at(0, GHOSTS + """let ghost mut stage: int = 3;
        """)
    track(C)
    C.insert_at(len(C.orig) - len("Ok(())"), "proof { /*@L:everything_was_written:C15,C09,C10*/ assert(stage == 9); lemma_tail_prefix_9(cs, strs); }\n        ")
    u.emit(C, prefix="""fn region_tail_c<'d, W: Write>(writer: &mut PaddedWriter<W>, members: Vec<Member>, members_by_params: Vec<Member>, string_bytes: Vec<u8>,
        Ghost(sunk0_): Ghost<Seq<u8>>, Ghost(cs_): Ghost<Seq<ClassInProgress<'d>>>) -> (ret: std::io::Result<()>)
    requires
        members@ == all_members(cs_, cs_.len() as int), members_by_params@ == all_by_params(cs_, cs_.len() as int),
        old(writer).inner.sunk() == sunk0_ + tail_prefix(3, cs_, string_bytes@),
        old(writer).offset as int == tail_prefix(3, cs_, string_bytes@).len() % 8,
    ensures
        /*@L:C_ok_means_canonical_bytes:C15,C09,C10,C03,C02*/ ret is Ok ==> final(writer).inner.sunk() == sunk0_ + canonical(cs_, string_bytes@),
        /*@L:C_err_means_only_a_prefix_was_delivered:C15*/ ret is Err ==> delivered_prefix(sunk0_, final(writer).inner.sunk(), canonical(cs_, string_bytes@)),
{
    let ghost cs = cs_;
    let ghost sunk0 = sunk0_;
    let ghost strs = string_bytes@;
""", suffix="\n}\n")
    # ---- composition: the tail is A; B; C with `?` propagation (hand-written sequencing, verified against the whole-tail contract) ----
    u.raw("""fn tail_composed<'d, W: Write>(writer: &mut PaddedWriter<W>, string_table: StringTable, classes: BTreeMap<&'d str, ClassInProgress<'d>>) -> (ret: std::io::Result<()>)
    requires
        old(writer).offset == 0,
        %s
    ensures
        /*@L:ok_means_canonical_bytes:C15,C09,C10,C03,C02*/ ret is Ok ==> final(writer).inner.sunk() == old(writer).inner.sunk() + canonical(vals(classes), table_bytes(string_table)),
        /*@L:err_means_only_a_prefix_was_delivered:C15*/ ret is Err ==> delivered_prefix(old(writer).inner.sunk(), final(writer).inner.sunk(), canonical(vals(classes), table_bytes(string_table))),
{
    let ghost sunk0 = writer.inner.sunk();
    let ghost cs = vals(classes);
    let ghost strs = table_bytes(string_table);
    let (string_bytes, classes) = region_tail_a(writer, string_table, classes)?;
    let (members, members_by_params) = region_tail_b(writer, classes, Ghost(sunk0), Ghost(strs))?;
    region_tail_c(writer, members, members_by_params, string_bytes, Ghost(sunk0), Ghost(cs))
}
""" % DOMAIN, "composition")
    u.raw(FOOTER, "footer")
    return u
