"""U8/U9: the tail of ProguardCache::write (everything after the record-collection loop) and the PaddedWriter helper.

* PaddedWriter::{new, write_all, pad_to_8} are verified against the std::io::Write trait contract (C15).
* R5 region `write[tail]` = raw.rs from `let string_bytes = string_table.into_bytes();` to the final `Ok(())`, with the local
  `writer` (a PaddedWriter) as `&mut` parameter and `string_table`, `classes` as value parameters.  What is dropped: the
  collection loop before it (assumed to establish wf_cip for every stored class) and the statement
  `let mut writer = PaddedWriter::new(writer);` (PaddedWriter::new is verified; that `&mut W` forwards Write to `W` is std's).
"""
from vf.unit import Unit, strip_attrs_and_docs
from .common import HEADER, FOOTER, contract, extract_struct, extract_struct_priv, widen


def build():
    u = Unit("u8_writer_tail")
    u.raw("#![feature(allocator_api)]\n" + HEADER, "header")
    u.raw("use std::collections::{BTreeMap, HashSet};\nuse std::io::Write;\n", "glue")
    raw = u.source("src/cache/raw.rs")
    for cname in ("PRGCACHE_MAGIC_BYTES", "PRGCACHE_MAGIC", "PRGCACHE_MAGIC_FLIPPED"):
        c = raw.item("const", cname)
        widen(c)
        if not c.orig.startswith("pub"):
            c.replace_span(0, 0, "pub ", "R4", "visibility widening")
        u.raw("#[verifier::external_body] // R4: value pinned by the Kani harness K2\n", "glue")
        u.emit(c)
    u.emit(raw.item("const", "PRGCACHE_VERSION"))
    extract_struct(u, raw, "Header")
    extract_struct(u, raw, "Class")
    extract_struct(u, raw, "Member")
    extract_struct_priv(u, raw, "ClassInProgress")
    extract_struct_priv(u, raw, "PaddedWriter")
    u.raw(contract("writer_model.rs"), "writer_model")
    u.raw(contract("writer_lemmas.rs"), "writer_lemmas")

    # ---------------- PaddedWriter ----------------
    PW = r"impl<W: Write> PaddedWriter<W>"
    u.raw(raw.impl_header(PW) + "{\n", "glue")
    n = raw.impl_fn(PW, "new")
    n.ret("r")
    n.props_all = ["C15", "C09"]
    n.contract("    ensures /*@L:new_starts_aligned:C15,C09*/ r.inner == inner && r.offset == 0,")
    u.emit(n)
    w = raw.impl_fn(PW, "write_all")
    w.ret("r")
    w.props_all = ["C15", "C09"]
    w.props_safety = ["C13"]
    w.contract("""    ensures
        /*@L:write_all_delivers_all_or_prefix:C15*/ match r {
            Ok(_) => final(self).inner.sunk() == old(self).inner.sunk() + buf@,
            Err(_) => delivered_prefix(old(self).inner.sunk(), final(self).inner.sunk(), buf@),
        },
        /*@L:offset_tracks_position_mod_8:C15,C09*/ r is Ok ==> final(self).offset as int == (old(self).offset as int + buf@.len()) % 8,""")
    u.emit(w)
    p = raw.impl_fn(PW, "pad_to_8")
    p.ret("r")
    p.props_all = ["C15", "C09"]
    p.props_safety = ["C13"]
    p.contract("""    ensures
        /*@L:padding_is_zero_bytes_to_next_multiple_of_8:C15,C09*/ match r {
            Ok(_) => ext_by_zeros(old(self).inner.sunk(), final(self).inner.sunk(), pad_len(old(self).offset as int)) && final(self).offset == 0,
            Err(_) => final(self).inner.sunk().len() - old(self).inner.sunk().len() <= pad_len(old(self).offset as int)
                && ext_by_zeros(old(self).inner.sunk(), final(self).inner.sunk(), final(self).inner.sunk().len() - old(self).inner.sunk().len()),
        },""")
    u.emit(p)
    u.raw("}\n", "glue")
    # ---------------- R5 region: the tail of ProguardCache::write ----------------
    wfn = raw.impl_fn(r"impl<'data> ProguardCache<'data>", "write")
    reg = raw.region(wfn, "let string_bytes = string_table.into_bytes();", "Ok(())", "tail")
    reg.contracted = True
    reg.kind = "region"
    reg.props_all = ["C15", "C09", "C10", "C03", "C02"]
    reg.props_safety = ["C13"]
    # R2 shims
    reg.replace_re(r"classes\s*\.values\(\)\s*\.map\(\|c\| c\.class\.members_len\)\s*\.sum::<u32>\(\)", "shim_sum_members_len(&classes)", "R2",
                   why="Iterator::map+sum over BTreeMap::values behind a shim (assumed: the u32 sum, panics on overflow => precondition)")
    reg.replace_re(r"classes\s*\.values\(\)\s*\.map\(\|c\| c\.class\.members_by_params_len\)\s*\.sum::<u32>\(\)", "shim_sum_by_params_len(&classes)", "R2")
    reg.replace("classes.len()", "shim_btree_len(&classes)", "R2", why="BTreeMap::len behind a shim")
    reg.replace("header.as_bytes()", "shim_header_as_bytes(&header)", "R2", why="Pod::as_bytes behind a shim (byte image abstract; layout pinned by Kani K1)")
    reg.replace("c.class.as_bytes()", "shim_class_as_bytes(&c.class)", "R2")
    reg.replace("members.as_bytes()", "shim_members_as_bytes(&members)", "R2")
    reg.replace("members_by_params.as_bytes()", "shim_members_as_bytes(&members_by_params)", "R2")
    reg.replace_re(r"members\.extend\(c\.members\.into_values\(\)\.flat_map\(\|m\| m\.into_iter\(\)\)\);", "shim_extend_flatten(&mut members, c.members);", "R2",
                   why="Vec::extend(BTreeMap::into_values().flat_map(..)) behind a shim: appends the map's vectors in key order")
    reg.replace_re(r"members_by_params\.extend\(\s*c\.members_by_params\s*\.into_values\(\)\s*\.flat_map\(\|m\| m\.into_iter\(\)\),?\s*\);", "shim_extend_flatten(&mut members_by_params, c.members_by_params);", "R2")
    # ghost set-up at the start of the region
    reg.insert_at(0, """let ghost cs = vals(classes);
        let ghost nn = cs.len() as int;
        let ghost sunk0 = writer.inner.sunk();
        let ghost strs = table_bytes(string_table);
        let ghost canon = canonical(cs, strs);
        let ghost hb = hdr_bytes(header_of(cs, strs));
        let ghost s1 = padded(hb);
        let ghost cb = classes_bytes(cs, nn);
        let ghost mb = members_bytes(all_members(cs, nn));
        let ghost pb = members_bytes(all_by_params(cs, nn));
        proof { axiom_record_sizes(); lemma_classes_len(cs, nn); }
        """)
    T = "padded(cb) + padded(mb) + padded(pb) + strs"
    reg.insert_before("writer.write_all(header.as_bytes())", """proof {
            assert(header == header_of(cs, strs));
            let rest = zeros(pad_len(24)) + padded(cb) + padded(mb) + padded(pb) + strs;
            assert(canon =~= Seq::<u8>::empty() + hb + rest);
            lemma_step(sunk0, Seq::empty(), hb, rest, canon);
            assert(sunk0 + Seq::<u8>::empty() =~= sunk0);
        }
        """)
    reg.insert_before("writer.pad_to_8()?;", """proof {
            let rest = padded(cb) + padded(mb) + padded(pb) + strs;
            assert(canon =~= hb + zeros(pad_len(24)) + rest);
            lemma_pad_step(sunk0, hb, pad_len(24), rest, canon);
            assert(writer.inner.sunk() =~= sunk0 + hb);
            assert(pad_len(writer.offset as int) == pad_len(24));
        }
        """, occ=1)
    reg.for_to_loop(1, it_name="it", iter_expr="shim_into_values(classes)",
        after_decl="""let ghost mut n: int = 0;
        proof { assert(cs.skip(0) == cs); assert(writer.inner.sunk() =~= sunk0 + (s1 + classes_bytes(cs, 0))); }
""",
        spec="""            invariant
                it.obeys_prophetic_iter_laws(), it.decrease() is Some,
                0 <= n <= nn, nn == cs.len(), cs.skip(n) == it.remaining(),
                cs == vals(classes), strs == table_bytes(string_table), sunk0 == old(writer).inner.sunk(),
                canon == canonical(cs, strs), hb == hdr_bytes(header_of(cs, strs)), s1 == padded(hb), hb.len() == 24,
                cb == classes_bytes(cs, nn), mb == members_bytes(all_members(cs, nn)), pb == members_bytes(all_by_params(cs, nn)),
                writer.inner.sunk() == sunk0 + (s1 + classes_bytes(cs, n)),
                writer.offset as int == (28 * n) % 8,
                members@ == all_members(cs, n), members_by_params@ == all_by_params(cs, n),
            ensures n == nn,
            decreases it.decrease()->0,""",
        before_next="let ghost rem_before = it.remaining();\n",
        on_none="proof { assert(rem_before.len() == 0); }",
        after_next="""            let ghost i = n;
            let ghost c_in = c;
            proof {
                assert(rem_before.len() > 0);
                assert(c == cs[n]);
                assert(cs.skip(n).drop_first() == cs.skip(n + 1));
                n = n + 1;
                lemma_members_before(cs, i);
                axiom_record_sizes(); lemma_classes_len(cs, i);
            }
""")
    reg.insert_before("writer.write_all(c.class.as_bytes())", """proof {
                assert(c.class == emitted_class(cs, i));
                let ck = class_bytes(emitted_class(cs, i));
                let done = s1 + classes_bytes(cs, i);
                let rest = classes_suffix(cs, i + 1, nn) + zeros(pad_len(cb.len() as int)) + padded(mb) + padded(pb) + strs;
                lemma_classes_split(cs, i, nn);
                lemma_classes_suffix_head(cs, i, nn);
                assert(canon =~= done + ck + rest);
                lemma_step(sunk0, done, ck, rest, canon);
                assert(done + ck =~= s1 + classes_bytes(cs, i + 1));
                assert(members@ =~= all_members(cs, i + 1));
                assert(members_by_params@ =~= all_by_params(cs, i + 1));
            }
            """)
    reg.insert_before("writer.pad_to_8()?;", """proof {
            let done = s1 + cb;
            let rest = padded(mb) + padded(pb) + strs;
            assert(canon =~= done + zeros(pad_len(cb.len() as int)) + rest);
            lemma_pad_step(sunk0, done, pad_len(cb.len() as int), rest, canon);
            assert(pad_len(writer.offset as int) == pad_len(cb.len() as int));
        }
        """, occ=2)
    reg.insert_before("writer.write_all(members.as_bytes())", """proof {
            let done = s1 + padded(cb);
            let rest = zeros(pad_len(mb.len() as int)) + padded(pb) + strs;
            assert(done =~= s1 + cb + zeros(pad_len(cb.len() as int)));
            assert(writer.inner.sunk() =~= sunk0 + done);
            assert(canon =~= done + mb + rest);
            lemma_step(sunk0, done, mb, rest, canon);
        }
        """)
    reg.insert_before("writer.pad_to_8()?;", """proof {
            let done = s1 + padded(cb) + mb;
            let rest = padded(pb) + strs;
            assert(writer.inner.sunk() =~= sunk0 + done);
            assert(canon =~= done + zeros(pad_len(mb.len() as int)) + rest);
            lemma_pad_step(sunk0, done, pad_len(mb.len() as int), rest, canon);
            assert(pad_len(writer.offset as int) == pad_len(mb.len() as int));
        }
        """, occ=3)
    reg.insert_before("writer.write_all(members_by_params.as_bytes())", """proof {
            let done = s1 + padded(cb) + padded(mb);
            let rest = zeros(pad_len(pb.len() as int)) + strs;
            assert(writer.inner.sunk() =~= sunk0 + done);
            assert(canon =~= done + pb + rest);
            lemma_step(sunk0, done, pb, rest, canon);
        }
        """)
    reg.insert_before("writer.pad_to_8()?;", """proof {
            let done = s1 + padded(cb) + padded(mb) + pb;
            assert(writer.inner.sunk() =~= sunk0 + done);
            assert(canon =~= done + zeros(pad_len(pb.len() as int)) + strs);
            lemma_pad_step(sunk0, done, pad_len(pb.len() as int), strs, canon);
            assert(pad_len(writer.offset as int) == pad_len(pb.len() as int));
        }
        """, occ=4)
    reg.insert_before("writer.write_all(&string_bytes)", """proof {
            let done = s1 + padded(cb) + padded(mb) + padded(pb);
            assert(writer.inner.sunk() =~= sunk0 + done);
            assert(canon =~= done + strs + Seq::<u8>::empty());
            lemma_step(sunk0, done, strs, Seq::empty(), canon);
            assert(done + strs =~= canon);
        }
        """)
    u.emit(reg, prefix="""fn region_write_tail<'d, W: Write>(writer: &mut PaddedWriter<W>, string_table: StringTable, classes: BTreeMap<&'d str, ClassInProgress<'d>>) -> (ret: std::io::Result<()>)
    requires
        old(writer).offset == 0,
        // representable domain (the u32 sums in the header must not overflow: Iterator::sum panics in debug builds)
        sum_members_len(vals(classes)) <= u32::MAX, sum_by_params_len(vals(classes)) <= u32::MAX,
    ensures
        /*@L:ok_means_canonical_bytes:C15,C09,C10,C03,C02*/ ret is Ok ==> final(writer).inner.sunk() == old(writer).inner.sunk() + canonical(vals(classes), table_bytes(string_table)),
        /*@L:err_means_only_a_prefix_was_delivered:C15*/ ret is Err ==> delivered_prefix(old(writer).inner.sunk(), final(writer).inner.sunk(), canonical(vals(classes), table_bytes(string_table))),
{
""", suffix="\n}\n")

    u.raw(FOOTER, "footer")
    return u
