"""U16: printing a frame / a throwable and parsing it back is lossless (C17, the single-line half).

Functions under contract (real text): the bodies of `Display::fmt` for `StackFrame` and `Throwable` in
src/stacktrace.rs (R8: verified as inherent methods with the same body, because Verus forbids contracts on methods of an external
trait's impl; dropped: the `impl Display for ..` header).  The parsers are the exact contracts of unit u15.

  * `StackFrame::fmt` appends `frame_text(class, method, file or "<unknown>", line)` = `at ` class `.` method `(` file `:` dec(line) `)`.
  * `Throwable::fmt` appends `throwable_text(class, message)` = class [`: ` message].
  * pure lemmas: `frame_spec(frame_text(c, m, f, n)) == Some((c, m, f, n))` when c.m has no `(`, m no `.`, f no `:`;
    `throwable_class / throwable_message(throwable_text(c, msg)) == (c, msg)` when c has no space; with u15's exact contracts
    (`parse_frame` / `parse_throwable` == `frame_spec` / the first-`: ` split on the trimmed line) this is parse(print(x)) == x.
Assumed: `write!`/`writeln!` append the literal pieces and the renderings of the arguments in order; `{}` of a `&str` is the
string, of a `usize` its decimal digits `dec(n)` with `parse(dec(n)) == n`; `trim` is the identity on text without outer white space.
Not decided: whole traces (`StackTrace::fmt` and parse_stacktrace, which walks `&mut` links: out of reach), that `{}` of a nested
value appends what its `fmt` appends.
"""
import re

from vf.unit import Unit, AnchorLost
from .common import HEADER, FOOTER, contract, extract_struct

MODEL = """
// ---- fmt model over bytes ----
#[verifier::external_trait_specification]
#[verifier::external_trait_extension(FmtWriteSpec via FmtWriteSpecImpl)]
pub trait ExFmtWrite {
    type ExternalTraitSpecificationFor: std::fmt::Write;
    spec fn bytes(&self) -> Seq<u8>;      // ghost: everything written so far (UTF-8)
}
pub uninterp spec fn dsp<T>(t: T) -> Seq<u8>;     // what `{}` appends for a value
pub uninterp spec fn dec(n: usize) -> Seq<u8>;    // decimal digits of n
#[verifier::external_body]
pub proof fn axiom_dsp()
    ensures
        forall|s: &str| #[trigger] dsp::<&str>(s) == sb(s),
        forall|n: usize| #[trigger] dsp::<usize>(n) == dec(n),
        forall|n: usize| spec_parse_usize(#[trigger] dec(n)) == Some(n),
{}
"""


def write_shims(f, maxholes=4):
    """`write!(W, "l0{}l1{}..", a0, a1, ..)` / `writeln!(..)` => `shim_writeK(W, "l0", &(a0), "l1", &(a1), .., "lK")` (K holes)."""
    from vf.rustlex import match_close
    toks = f._toks()
    n = 0
    used = set()
    for m in re.finditer(r"\b(write|writeln)!\(", f.orig):
        po = m.end() - 1
        i = next(ix for ix, t in enumerate(toks) if t[1] == po)
        c = toks[match_close(f.orig, toks, i)][1]
        inner = f.orig[po + 1:c]
        # split at depth-0 commas
        parts, depth, cur = [], 0, ""
        in_str = False
        k = 0
        while k < len(inner):
            ch = inner[k]
            if in_str:
                cur += ch
                if ch == "\\":
                    cur += inner[k + 1]; k += 1
                elif ch == '"':
                    in_str = False
            elif ch == '"':
                in_str = True; cur += ch
            elif ch in "([{":
                depth += 1; cur += ch
            elif ch in ")]}":
                depth -= 1; cur += ch
            elif ch == "," and depth == 0:
                parts.append(cur.strip()); cur = ""
            else:
                cur += ch
            k += 1
        if cur.strip():
            parts.append(cur.strip())
        if len(parts) == 1 and m.group(1) == "writeln":
            parts.append('""')      # `writeln!(w)` is `writeln!(w, "")`
        if len(parts) < 2 or not parts[1].startswith('"'):
            raise AnchorLost("%s: write! invocation of unknown shape" % f.name)
        w, fmt, args = parts[0], parts[1][1:-1], parts[2:]
        pieces = fmt.split("{}")
        if "{" in "".join(pieces) or "}" in "".join(pieces) or len(pieces) - 1 != len(args) or len(args) > maxholes:
            raise AnchorLost("%s: format string %r not of the form lit{}lit{}.." % (f.name, fmt))
        if m.group(1) == "writeln":
            pieces[-1] += "\\n"
        call = "shim_write%d(%s" % (len(args), w)
        for j, a in enumerate(args):
            call += ', "%s", &(%s)' % (pieces[j], a)
        call += ', "%s")' % pieces[-1]
        f.replace_span(m.start(), c + 1, call, "R2", "write!/writeln! behind a shim: appends the literal pieces and the renderings of the arguments, in order (assumed)")
        used.add(len(args))
        n += 1
    return used


def shim_text(k):
    tps = ", ".join("A%d: std::fmt::Display" % j for j in range(k))
    params = "".join(", l%d: &str, a%d: &A%d" % (j, j, j) for j in range(k))
    spec = " + ".join(["(*old(w)).bytes()"] + ["sb(l%d) + dsp(*a%d)" % (j, j) for j in range(k)] + ["sb(l%d)" % k])
    fmt = "".join("{}{}" for _ in range(k)) + "{}"
    fargs = "".join(", l%d, a%d" % (j, j) for j in range(k)) + ", l%d" % k
    return """#[verifier::external_body]
fn shim_write%d<W: std::fmt::Write%s>(w: &mut W%s, l%d: &str) -> (r: Result<(), std::fmt::Error>)
    ensures r is Ok ==> (*final(w)).bytes() == %s,
{ write!(w, "%s"%s) }
""" % (k, (", " + tps) if tps else "", params, k, spec, fmt, fargs)


def build():
    u = Unit("u16_print_parse")
    OUT = """// Display stand-ins so that `T: Display` bounds are met (what `{}` prints is the abstract `dsp`)
impl std::fmt::Display for Throwable<'_> { fn fmt(&self, f: &mut std::fmt::Formatter<'_>) -> std::fmt::Result { unimplemented!() } }
impl std::fmt::Display for StackFrame<'_> { fn fmt(&self, f: &mut std::fmt::Formatter<'_>) -> std::fmt::Result { unimplemented!() } }
impl std::fmt::Display for StackTrace<'_> { fn fmt(&self, f: &mut std::fmt::Formatter<'_>) -> std::fmt::Result { unimplemented!() } }
"""
    u.raw(HEADER.replace("verus! {", OUT + "verus! {", 1), "header")
    u.raw("use std::fmt::{Display, Formatter, Result as FmtResult, Write};\n", "glue")
    st = u.source("src/stacktrace.rs")
    extract_struct(u, st, "StackFrame")
    extract_struct(u, st, "Throwable")
    extract_struct(u, st, "StackTrace")
    u.raw(contract("std_specs.rs"), "std_specs")
    u.raw(contract("text_model.rs"), "text_model")
    u.raw(MODEL, "model")
    from . import u15_classifiers  # the reference parsers live in u15's model text
    u.raw(u15_classifiers.SPEC_TEXT, "classifier specs (same text as unit u15)")
    u.raw("""
pub open spec fn lit_unknown() -> Seq<u8> { seq![60u8, 117u8, 110u8, 107u8, 110u8, 111u8, 119u8, 110u8, 62u8] }   // "<unknown>"
pub open spec fn frame_text(c: Seq<u8>, m: Seq<u8>, f: Seq<u8>, n: usize) -> Seq<u8> {
    lit_at() + c + seq![46u8] + m + seq![40u8] + f + seq![58u8] + dec(n) + seq![41u8]
}
pub open spec fn throwable_text(c: Seq<u8>, msg: Option<Seq<u8>>) -> Seq<u8> {
    match msg { Some(x) => c + lit_colon_space() + x, None => c }
}
pub open spec fn opt_sb(o: Option<&str>) -> Option<Seq<u8>> { match o { Some(s) => Some(sb(s)), None => None } }

// ---- C17: parse(print(x)) == x, as statements about the reference parsers of u15 ----
pub proof fn lemma_frame_roundtrip(c: Seq<u8>, m: Seq<u8>, f: Seq<u8>, n: usize)
    requires !c.contains(40u8), !m.contains(40u8), !m.contains(46u8), !f.contains(58u8),
    ensures /*@L:printed_frame_parses_back_to_its_parts:C17*/ frame_spec(frame_text(c, m, f, n)) == Some(FrameParts { class: c, method: m, file: f, line: n }),
{
    axiom_dsp();
    let t = frame_text(c, m, f, n);
    let ms = c + seq![46u8] + m;
    let fs = f + seq![58u8] + dec(n);
    let mid = ms + seq![40u8] + fs;
    assert(t =~= lit_at() + mid + seq![41u8]);
    assert(t.subrange(0, 3) =~= lit_at());
    assert(t.subrange(3, t.len() - 1) =~= mid);
    assert(!ms.contains(40u8)) by {
        if ms.contains(40u8) { let j = choose|j: int| 0 <= j < ms.len() && ms[j] == 40u8;
            if j < c.len() { assert(c[j] == 40u8); } else if j > c.len() { assert(m[j - c.len() - 1] == 40u8); } }
    }
    lemma_split_first_concat(ms, 40u8, fs);
    lemma_split_last_concat(c, 46u8, m);
    lemma_split_first_concat(f, 58u8, dec(n));
}
pub proof fn lemma_throwable_roundtrip(c: Seq<u8>, msg: Option<Seq<u8>>)
    requires !c.contains(32u8),
    ensures /*@L:printed_throwable_parses_back_to_its_parts:C17*/ throwable_class(throwable_text(c, msg)) == c && throwable_message(throwable_text(c, msg)) == msg,
{
    let t = throwable_text(c, msg);
    let p = lit_colon_space();
    axiom_first_occ(t, p);
    match msg {
        Some(x) => {
            let n = c.len() as int;
            assert(t.subrange(n, n + 2) =~= p);
            match first_occ(t, p) {
                Some(i) => {
                    if i < n { assert(t.subrange(i, i + 2)[1] == 32u8); if i + 1 < n { assert(c[i + 1] == 32u8); } else { assert(t[n] == 58u8); } }
                    assert(i == n);
                    assert(t.subrange(0, n) =~= c);
                    assert(t.subrange(n + 2, t.len() as int) =~= x);
                },
                None => { assert(t.subrange(n, n + 2) != p); },
            }
        },
        None => {
            match first_occ(t, p) {
                Some(i) => { assert(t.subrange(i, i + 2)[1] == 32u8); assert(c[i + 1] == 32u8); },
                None => {},
            }
        },
    }
}
""", "roundtrip")
    used = set()
    frags = []
    for ty, props in (("StackFrame", ["C17"]), ("Throwable", ["C17"]), ("StackTrace", ["C17", "C08"])):
        f = st.impl_fn(r"impl Display for %s<'_>" % ty, "fmt")
        f.ret("ret")
        f.contracted = True
        f.props_all = props
        f.props_safety = ["C13"]
        f.replace_re(r"fn fmt\(", "fn fmt_%s(" % ty.lower(), "R8", why="Display::fmt verified as an inherent method with the same body (no contracts on methods of an external trait's impl)")
        used |= write_shims(f)
        frags.append((ty, f))
    u.raw("".join(shim_text(k) for k in sorted(used)), "write shims (one per number of holes that occurs)")
    # ---- StackFrame ----
    ty, f = frags[0]
    f.contract("""    ensures
        /*@L:frame_prints_as_at_class_dot_method_paren_file_colon_line_paren:C17*/ ret is Ok ==> (*final(f)).bytes() == (*old(f)).bytes()
            + frame_text(sb(self.class), sb(self.method), match self.file { Some(x) => sb(x), None => lit_unknown() }, self.line),
""")
    f.body_start("proof { axiom_dsp(); axiom_u16_literals(); }\n")
    f.before_tail("")
    u.raw("impl<'s> StackFrame<'s> {\n", "glue")
    u.emit(f)
    u.raw("}\n", "glue")
    # ---- Throwable ----
    ty, f = frags[1]
    f.contract("""    ensures
        /*@L:throwable_prints_as_class_colon_space_message:C17*/ ret is Ok ==> (*final(f)).bytes() == (*old(f)).bytes() + throwable_text(sb(self.class), opt_sb(self.message)),
""")
    f.body_start("proof { axiom_dsp(); axiom_u16_literals(); }\n    let ghost t0 = (*f).bytes();\n")
    u.raw("impl<'s> Throwable<'s> {\n", "glue")
    u.emit(f)
    u.raw("}\n", "glue")
    # ---- StackTrace: exception line, one indented line per frame, then `Caused by: ` and the cause (printed by the same impl) ----
    ty, f = frags[2]
    u.raw("""
// `{}` of a reference / a box prints the value behind it (std: Display for &T and Box<T> delegate)
#[verifier::external_body]
pub proof fn axiom_dsp_refs()
    ensures
        forall|x: &Throwable<'_>| #[trigger] dsp::<&Throwable<'_>>(x) == dsp::<Throwable<'_>>(*x),
        forall|x: &StackFrame<'_>| #[trigger] dsp::<&StackFrame<'_>>(x) == dsp::<StackFrame<'_>>(*x),
        forall|x: &Box<StackTrace<'_>>| #[trigger] dsp::<&Box<StackTrace<'_>>>(x) == dsp::<StackTrace<'_>>(**x),
{}
pub open spec fn frames_text(fr: Seq<StackFrame<'_>>, n: int) -> Seq<u8>
    decreases n
{ if n <= 0 { Seq::empty() } else { frames_text(fr, n - 1) + seq![32u8, 32u8, 32u8, 32u8] + dsp(fr[n - 1]) + seq![10u8] } }
pub open spec fn lit_caused_by() -> Seq<u8> { seq![67u8, 97u8, 117u8, 115u8, 101u8, 100u8, 32u8, 98u8, 121u8, 58u8, 32u8] }   // "Caused by: "
pub open spec fn head_text(t: StackTrace<'_>) -> Seq<u8> { match t.exception { Some(e) => dsp(e) + seq![10u8], None => Seq::<u8>::empty() } }
pub open spec fn trace_text(t: StackTrace<'_>) -> Seq<u8> {
    head_text(t)
    + frames_text(t.frames@, t.frames@.len() as int)
    + (match t.cause { Some(c) => lit_caused_by() + dsp(*c), None => Seq::<u8>::empty() })
}
""", "trace text")
    f.contract("""    ensures
        /*@L:trace_prints_exception_line_frame_lines_and_cause:C17,C08*/ ret is Ok ==> (*final(f)).bytes() == (*old(f)).bytes() + trace_text(*self),
""")
    f.body_start("proof { axiom_dsp(); axiom_dsp_refs(); axiom_u16_literals(); }\n    let ghost t0 = (*f).bytes();\n    let ghost head = head_text(*self);\n")
    lp = f.loops()
    if len(lp) != 1 or lp[0][0] != "for":
        raise AnchorLost("StackTrace::fmt: expected one `for` loop over the frames")
    mfor = re.search(r"for\s+(\w+)\s+in\s+&self\.frames\s*\{", f.orig)
    if not mfor:
        raise AnchorLost("StackTrace::fmt: `for frame in &self.frames` not found")
    f.replace_span(mfor.start(), mfor.end(), """for %s in it: &self.frames
            invariant
                (*f).bytes() == t0 + head + frames_text(self.frames@, it.index@ as int),
                it.seq().len() == self.frames@.len(), forall|k: int| 0 <= k < it.seq().len() ==> *(#[trigger] it.seq()[k]) == self.frames@[k],
        {
            proof { axiom_dsp(); axiom_dsp_refs(); axiom_u16_literals(); }""" % mfor.group(1), "R1", "Verus loop-invariant syntax on the same `for` loop (named iterator)")
    f.insert_at(mfor.start(), "proof { /*@L:head_is_the_exception_line_or_nothing:C17,C08*/ assert((*f).bytes() =~= t0 + head + frames_text(self.frames@, 0)); }\n        ")
    f.insert_at(lp[0][3], """    proof {
                let i = it.index@ as int;
                assert(*%(fr)s == self.frames@[i]);
                assert(frames_text(self.frames@, i + 1) == frames_text(self.frames@, i) + seq![32u8, 32u8, 32u8, 32u8] + dsp(self.frames@[i]) + seq![10u8]);
                assert((*f).bytes() =~= t0 + head + frames_text(self.frames@, i + 1));
            }
        """ % dict(fr=mfor.group(1)))
    u.raw("impl<'s> StackTrace<'s> {\n", "glue")
    u.emit(f)
    u.raw("}\n", "glue")
    # literal axioms for every string literal in the three bodies
    lits = []
    for _, f in frags:
        for m in re.finditer(r'"((?:[^"\\]|\\.)*)"', f.orig):
            for piece in m.group(1).split("{}"):
                lit = '"%s"' % piece
                if lit not in lits:
                    lits.append(lit)
    for extra in ('""', '"\\n"'):
        if extra not in lits:
            lits.append(extra)
    ax = ["#[verifier::external_body]\npub proof fn axiom_u16_literals()\n    ensures\n"]
    for lit in lits:
        val = bytes(lit[1:-1], "utf-8").decode("unicode_escape").encode("utf-8")
        ax.append("        sb(%s) == %s,\n" % (lit, ("seq![%s]" % ", ".join("%du8" % b for b in val)) if val else "Seq::<u8>::empty()"))
    ax.append("{}\n")
    u.raw("".join(ax), "literal axioms (generated from the literals in the extracted text)")
    u.raw(FOOTER, "footer")
    return u
