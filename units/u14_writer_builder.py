"""U14: the collection loop of `ProguardCache::write` as a whole -- the plumbing around the arms of unit u6_writer_step.

R5 region `write[collect]` = from `let mut string_table = StringTable::new();` to the end of the final flush. The four regions
of u6_writer_step are emitted and verified again in this file; in the collect region each of them is replaced (R11) by a call of the
region function generated from that very text. `mapping.iter().filter_map(Result::ok).peekable()` behind a shim, `while let` => `loop`
(R1), `records.peek()` => `shim_peek`.
Postcondition: every class handed to the writer tail satisfies `wf_cip` (its two u32 counters equal the numbers of member records
in its maps) -- the precondition of the tail's length / count lemmas (u8), so far assumed.
Domain: fewer than 2^32 Ok records (the counters are u32).
"""


def build():
    from . import u6_writer_step
    return u6_writer_step.build(whole=True)
