"""U22: the mapping UUID is the version-5 UUID of exactly the source bytes in the namespace v5(DNS, "guardsquare.com") (C18).

Function under contract (real text): src/mapping.rs `ProguardMapping::uuid` (behind `#[cfg(feature = "uuid")]`, which the pinned build does
not enable; the text is extracted regardless and the attribute dropped).
Contract: `ret == uuid_v5(uuid_v5(Uuid::NAMESPACE_DNS, "guardsquare.com" bytes), self.source@)` -- so the identifier is a function of the bytes and of
nothing else (no validity check, no trimming, no line-ending normalisation, no lossy UTF-8 conversion), in the namespace the property names.
`uuid_v5` is UNINTERPRETED: that `uuid::Uuid::new_v5` implements RFC 4122 version 5 (SHA-1) is the dependency's business and is not decided.
Rewrites: R14 `lazy_static::lazy_static! { static ref N: T = E; }` => `let N: T = E;` (the memoisation is dropped: the initialiser is a pure
expression); the `Uuid` type of the optional dependency is a stand-in struct with the two items the function uses (`new_v5`, `NAMESPACE_DNS`).
"""
import re

from vf.unit import Unit, AnchorLost, strip_attrs_and_docs
from .common import HEADER, FOOTER, extract_struct_priv

MODEL = """
// ---- stand-in for the optional dependency `uuid` (ASSUMED: new_v5 is a function of namespace and name bytes) ----
pub struct Uuid { pub opaque: u128 }
pub uninterp spec fn uuid_v5(ns: Uuid, name: Seq<u8>) -> Uuid;
impl Uuid {
    // RFC 4122 Appendix C: 6ba7b810-9dad-11d1-80b4-00c04fd430c8
    pub const NAMESPACE_DNS: Uuid = Uuid { opaque: 0x6ba7b8109dad11d180b400c04fd430c8u128 };
    pub const NAMESPACE_URL: Uuid = Uuid { opaque: 0x6ba7b8119dad11d180b400c04fd430c8u128 };
    pub const NAMESPACE_OID: Uuid = Uuid { opaque: 0x6ba7b8129dad11d180b400c04fd430c8u128 };
    pub const NAMESPACE_X500: Uuid = Uuid { opaque: 0x6ba7b8149dad11d180b400c04fd430c8u128 };
    #[verifier::external_body]
    pub fn new_v5(namespace: &Uuid, name: &[u8]) -> (r: Uuid) ensures r == uuid_v5(*namespace, name@) { unimplemented!() }
}
// a few slice functions a changed body is likely to use (so that such a change is refuted rather than undecided)
pub open spec fn is_ascii_ws(b: u8) -> bool { b == 32u8 || b == 9u8 || b == 10u8 || b == 12u8 || b == 13u8 }
pub open spec fn skip_ws(b: Seq<u8>) -> Seq<u8>
    decreases b.len()
{ if b.len() > 0 && is_ascii_ws(b[0]) { skip_ws(b.subrange(1, b.len() as int)) } else { b } }
pub open spec fn skip_ws_end(b: Seq<u8>) -> Seq<u8>
    decreases b.len()
{ if b.len() > 0 && is_ascii_ws(b[b.len() - 1]) { skip_ws_end(b.subrange(0, b.len() - 1)) } else { b } }
pub assume_specification<'a> [<[u8]>::trim_ascii_start] (s: &'a [u8]) -> (r: &'a [u8]) ensures r@ == skip_ws(s@);
pub assume_specification<'a> [<[u8]>::trim_ascii_end] (s: &'a [u8]) -> (r: &'a [u8]) ensures r@ == skip_ws_end(s@);
pub assume_specification<'a> [<[u8]>::trim_ascii] (s: &'a [u8]) -> (r: &'a [u8]) ensures r@ == skip_ws_end(skip_ws(s@));
pub open spec fn lit_guardsquare_com() -> Seq<u8> { seq![103u8, 117u8, 97u8, 114u8, 100u8, 115u8, 113u8, 117u8, 97u8, 114u8, 101u8, 46u8, 99u8, 111u8, 109u8] }   // "guardsquare.com"
"""


def build():
    u = Unit("u22_uuid")
    u.raw(HEADER, "header")
    mg = u.source("src/mapping.rs")
    extract_struct_priv(u, mg, "ProguardMapping")
    u.raw(MODEL, "model")
    PM = r"impl<'s> ProguardMapping<'s>"
    f = mg.impl_fn(PM, "uuid")
    strip_attrs_and_docs(f)
    f.ret("ret")
    f.contracted = True
    f.props_all = ["C18"]
    f.props_safety = ["C13"]
    m = re.search(r"lazy_static::lazy_static!\s*\{\s*static\s+ref\s+(\w+)\s*:\s*([^=]+?)\s*=\s*", f.orig)
    if not m:
        raise AnchorLost("uuid: `lazy_static! { static ref NAME: T = EXPR; }` not found")
    toks = f._toks()
    from vf.rustlex import match_close
    ob = f.orig.index("{", m.start())
    i = next(ix for ix, t in enumerate(toks) if t[1] == ob)
    cb = toks[match_close(f.orig, toks, i)][1]
    inner_end = f.orig.rindex(";", m.end(), cb)
    f.replace_span(m.start(), m.end(), "let %s: %s = " % (m.group(1), m.group(2)), "R14",
                   "lazy_static! { static ref N: T = E; } => let N: T = E; (memoisation of a pure initialiser dropped)")
    f.replace_span(inner_end + 1, cb + 1, "", "R14", "lazy_static! (closing brace)")
    for cm_ in re.finditer(r"\bconst\s+\w+\s*:\s*&(?!\s*')", f.orig):
        f.insert_at(cm_.end(), "'static ")   # elided 'static spelled out (Verus turns consts into items with explicit lifetimes)
    # byte-string literals of the body: contents by axiom generated from the literal text
    lits = []
    for lm in re.finditer(r'b"((?:[^"\\]|\\.)*)"', f.orig):
        if lm.group(0) not in lits:
            lits.append(lm.group(0))
    ax = ["#[verifier::external_body]\npub proof fn axiom_u22_literals()\n    ensures true,\n"]
    for lit in lits:
        val = bytes(lit[2:-1], "utf-8").decode("unicode_escape").encode("utf-8")
        ax.append("        %s@ == %s,\n" % (lit, ("seq![%s]" % ", ".join("%du8" % b for b in val)) if val else "Seq::<u8>::empty()"))
    ax.append("{}\n")
    u.raw("".join(ax), "literal axioms (generated from the literals in the extracted text)")
    f.body_start("proof { axiom_u22_literals(); }\n")
    f.contract("""    ensures
        /*@L:uuid_is_v5_of_exactly_the_source_bytes_in_the_guardsquare_namespace:C18*/ ret == uuid_v5(uuid_v5(Uuid::NAMESPACE_DNS, lit_guardsquare_com()), self.source@),
""")
    u.raw(mg.impl_header(PM) + "{\n", "glue")
    u.emit(f)
    u.raw("}\n", "glue")
    u.raw(FOOTER, "footer")
    return u
