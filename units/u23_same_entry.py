"""U23: the mapper builder and the cache writer collect the SAME entries (C02 / C01 / C03 / C04, pure lemmas; no function of /repo is verified here).

The unit connects specifications that are each proved against the real code elsewhere, cut out of the text of the units / contract files that use
them (see `cut`; nothing is re-typed):
  * `stored_entry` / `astep` / `run` / `built` -- what the mapper builder does per record and as a whole (u6 mapper, u13),
  * `stored_member` / `w_step` / `w_run` / `w_flush` -- what the cache writer's collection loop does (u6 writer, u14),
  * `abs_mm` / `abs_member(string bytes, .)` -- how the two readers interpret what they find (u2 / u1), both into the shared `Entry` of model.rs.
Lemmas:
  1. same abstract entry per method record: `abs_member(bytes(table), stored_member(..)) == abs_mm(stored_entry(..))`;
  2. the sourceFile header rule: after ANY header record (with or without a value) both steps leave the same file for the class
     (this is the obligation that exposed defect D7);
  3. THE REFINEMENT (induction over the record stream, one step lemma per record kind): for a mapping in the property's domain (non-empty class
     names, line numbers below 2^32-1) and any table sequence allowed by u14 (`tables_ok`), `built(recs, true)` and `w_flush(w_run(ts, recs))` have the
     same class keys and, under every key, related class fields and the same abstract entries at the same positions -- per method name and per
     (method name, arguments).
  4. sortedness of what is handed to the tail (what the reader's binary searches need): the class records the tail emits are STRICTLY sorted by the
     obfuscated names the string section resolves, and within every collected class the member records are sorted by resolved method name
     (groups of a BTreeMap in key order, flattened: `lemma_flat_groups_sorted`), the by-params records by (resolved name, resolved parameters).
  5. THE READER'S REPRESENTATION INVARIANT: `wf_cache(c)` (cache_model.rs, the precondition of the cache reader's functional contracts) holds for
     every cache whose sections are what `parse` reads back from the emitted file: classes strictly sorted, every class's ranges inside the
     sections (tiling), members sorted by name, by-params records by (name, parameters), `wf_member` for every record (strings readable,
     numbers in the domain, `u32::MAX` never a readable offset), original names interned (canonical offsets).
  6. C01, last clause: `built(pre + b1 + b2 + post) == built(pre + b2 + b1 + post)` for two complete, distinctly named class blocks -- the mapper does
     not depend on the order of class blocks (any reordering is a sequence of such transpositions). Via a segment-wise fold `fold_from` and
     `lemma_block_from_any_state`: what a block leaves as class in progress depends on the block alone.
  7. `wf_for_selftest(c)` -- the precondition under which unit u9 proves that `ProguardCache::test()` runs through without a failing assertion --
     holds for every cache written from a mapping (class names / file readable, `members_offset` tiles, every member's strings readable, the
     parameter string included).
ASSUMED: BTreeMap<&str, V> and BTreeMap<(&str, &str), V> iterate in strictly ascending (lexicographic) key order and `vals` are the values in that order (std);
the string-table round trip of watto for the strings of the records (`resolves`: an offset handed out reads back the string from the
final table's bytes; offsets below 2^32-1).
"""
import re

from vf.unit import Unit, AnchorLost
from vf.rustlex import code_tokens, match_close
from .common import label_helper_lemmas, HEADER, FOOTER, contract, extract_struct, extract_struct_priv


def cut(text, head_re):
    """The item of `text` whose header matches `head_re` (from the match to the end of its `{..}` body or its `;`).
    `text` may be the Python source of another unit: only the Rust string literal that contains the match is lexed."""
    m = re.search(head_re, text)
    if not m:
        raise AnchorLost("specification item %r not found" % head_re)
    end = text.find('\n"""', m.start())
    sub = text[m.start():end if end >= 0 else len(text)]
    toks = code_tokens(sub)
    for ix, (k, s, e) in enumerate(toks):
        if s < m.end() - m.start():
            continue
        ch = sub[s:e]
        if ch == ";":
            return sub[:e] + "\n"
        if ch == "{":
            c = toks[match_close(sub, toks, ix)][2]
            return sub[:c] + "\n"
    raise AnchorLost("specification item %r has no end" % head_re)


LEMMA = """
// ASSUMED (watto::StringTable): an offset handed out by the table reads back the same string from the table's bytes; offsets fit below the sentinel
pub open spec fn resolves(t: StringTable, s: Seq<char>) -> bool {
    offset_of(t, s) is Some && offset_of(t, s)->0 < 0xffff_ffff && tbl(table_bytes(t), offset_of(t, s)->0 as u32) == Some(s)
}
pub open spec fn opt_resolves(t: StringTable, o: Option<&str>) -> bool { match o { Some(s) => resolves(t, s@), None => true } }

pub proof fn lemma_builders_store_the_same_abstract_entry(lm: Option<LineMapping>, t: StringTable, obfuscated: &str, original: &str, original_class: Option<&str>,
        arguments: &str, file_name: Option<&str>, file_off: u32)
    requires
        lm_in_domain(lm),
        resolves(t, original@), opt_resolves(t, original_class), opt_resolves(t, file_name),
        // the sourceFile offset the writer keeps for the class is the offset of the header value the mapper keeps (u6: w_header / Header arm)
        file_off == (match file_name { Some(f) => off32(t, f@), None => absent() }),
    ensures
        /*@L:both_builders_store_the_same_abstract_entry_for_a_method_record:C02,C01*/
        abs_member(table_bytes(t), stored_member(lm, t, obfuscated, original, original_class, arguments, file_off)) == abs_mm(stored_entry(lm, original_class, original, file_name)),
        entry_in_domain(abs_mm(stored_entry(lm, original_class, original, file_name))),
{
    let i = interp(lm);
    lemma_interp_domain(lm);
    let m = stored_member(lm, t, obfuscated, original, original_class, arguments, file_off);
    let e = stored_entry(lm, original_class, original, file_name);
    assert(m.startline as int == i.start && m.endline as int == i.end && m.original_startline as int == i.orig_start);
    assert(e.startline as int == i.start && e.endline as int == i.end && e.original_startline as int == i.orig_start);
    match i.orig_end { Some(x) => { assert(m.original_endline as int == x && m.original_endline != absent()); }, None => { assert(m.original_endline == absent()); } }
    match original_class { Some(c) => { assert(m.original_class_offset != absent()); }, None => {} }
    match file_name { Some(f) => { assert(file_off != absent()); }, None => {} }
}
// ---- the sourceFile header rule: after ANY header record both builders keep the same file for the class ----
pub open spec fn file_rel(t: StringTable, f: Option<&str>, off: u32) -> bool { off == (match f { Some(x) => off32(t, x@), None => absent() }) }
pub proof fn lemma_header_record_keeps_the_same_source_file_in_both_builders<'s>(a: AState<'s>, w: AWState<'s>, tf: StringTable, key: &'s str, value: Option<&'s str>,
        next: Option<&ProguardRecord<'s>>)
    requires file_rel(tf, a.cur.file_name, w.cur.class.file_name_offset),
    ensures
        /*@L:header_record_leaves_the_same_source_file_in_mapper_and_cache:C02,C01*/
        file_rel(tf, astep(a, true, ProguardRecord::Header { key, value }, next).cur.file_name,
                     w_step(w, tf, ProguardRecord::Header { key, value }, next).cur.class.file_name_offset),
{
}

// ======== positional refinement: the two abstract folds store related states, record after record ========
pub open spec fn rel_members<'s>(sb: Seq<u8>, ms: Seq<Member>, es: Seq<MemberMapping<'s>>) -> bool {
    ms.len() == es.len() && forall|i: int| 0 <= i < ms.len() ==> abs_member(sb, #[trigger] ms[i]) == abs_mm(es[i])
}
pub open spec fn rel_class<'s>(tn: StringTable, a: AClass<'s>, w: ACip<'s>) -> bool {
    let sb = table_bytes(tn);
    &&& w.name == a.obfuscated
    &&& (a.original@.len() > 0) == (w.name@.len() > 0)
    &&& file_rel(tn, a.file_name, w.class.file_name_offset) && opt_resolves(tn, a.file_name)
    &&& (a.original@.len() > 0 ==> w.class.original_name_offset == off32(tn, a.original@) && w.class.obfuscated_name_offset == off32(tn, a.obfuscated@)
            && resolves(tn, a.original@) && resolves(tn, a.obfuscated@))
    &&& forall|k: &'s str| rel_members(sb, #[trigger] (w.members)(k), members_of(a, k).all)
    &&& forall|k: &'s str, p: &'s str| rel_members(sb, #[trigger] (w.by)((k, p)), by_of(members_of(a, k), p))
}
pub open spec fn rel_state<'s>(tn: StringTable, a: AState<'s>, w: AWState<'s>) -> bool {
    &&& rel_class(tn, a.cur, w.cur)
    &&& a.seen == w.cur.seen
    &&& forall|k: &'s str| a.done.contains_key(k) == w.done.contains_key(k)
    &&& forall|k: &'s str| #[trigger] a.done.contains_key(k) ==> rel_class(tn, a.done[k], w.done[k])
}
// offsets handed out by an earlier table are the offsets of the final table
pub open spec fn stable(t: StringTable, tn: StringTable) -> bool {
    forall|x: Seq<char>| #[trigger] offset_of(t, x) is Some ==> offset_of(tn, x) == offset_of(t, x)
}
// the property's domain, record by record, and the string-table round trip for the record's strings in the final table
pub open spec fn rec_ok<'s>(tn: StringTable, rec: ProguardRecord<'s>) -> bool {
    match rec {
        ProguardRecord::Header { key, value } => key@ == "sourceFile"@ ==> opt_resolves(tn, value),
        ProguardRecord::Class { original, obfuscated } => original@.len() > 0 && obfuscated@.len() > 0 && resolves(tn, original@) && resolves(tn, obfuscated@),
        ProguardRecord::Method { ty, original, obfuscated, arguments, original_class, line_mapping } =>
            lm_in_domain(line_mapping) && resolves(tn, original@) && opt_resolves(tn, original_class),
        _ => true,
    }
}
pub open spec fn strings_in<'s>(t: StringTable, rec: ProguardRecord<'s>) -> bool {
    forall|i: int| 0 <= i < strings_of(rec).len() ==> offset_of(t, #[trigger] strings_of(rec)[i]) is Some
}
pub proof fn lemma_rel_members_push<'s>(sb: Seq<u8>, ms: Seq<Member>, es: Seq<MemberMapping<'s>>, m: Member, e: MemberMapping<'s>)
    requires rel_members(sb, ms, es), abs_member(sb, m) == abs_mm(e),
    ensures rel_members(sb, ms.push(m), es.push(e)),
{
    assert forall|i: int| 0 <= i < ms.push(m).len() implies abs_member(sb, #[trigger] ms.push(m)[i]) == abs_mm(es.push(e)[i]) by {
        if i < ms.len() { assert(ms.push(m)[i] == ms[i] && es.push(e)[i] == es[i]); }
    }
}
pub proof fn lemma_step_header<'s>(tn: StringTable, a: AState<'s>, w: AWState<'s>, tf: StringTable, key: &'s str, value: Option<&'s str>, next: Option<&ProguardRecord<'s>>)
    requires rel_state(tn, a, w), stable(tf, tn), rec_ok(tn, ProguardRecord::Header { key, value }), strings_in(tf, ProguardRecord::Header { key, value }),
    ensures rel_state(tn, astep(a, true, ProguardRecord::Header { key, value }, next), w_step(w, tf, ProguardRecord::Header { key, value }, next)),
{
    let rec = ProguardRecord::Header { key, value };
    let a1 = astep(a, true, rec, next); let w1 = w_step(w, tf, rec, next);
    if key@ == "sourceFile"@ {
        match value { Some(f) => { assert(strings_of(rec)[0] == f@); assert(offset_of(tf, f@) is Some); }, None => {} }
    }
    assert forall|k: &'s str| rel_members(table_bytes(tn), #[trigger] (w1.cur.members)(k), members_of(a1.cur, k).all) by {
        assert((w1.cur.members)(k) == (w.cur.members)(k)); assert(members_of(a1.cur, k) == members_of(a.cur, k));
    }
    assert forall|k: &'s str, p: &'s str| rel_members(table_bytes(tn), #[trigger] (w1.cur.by)((k, p)), by_of(members_of(a1.cur, k), p)) by {
        assert((w1.cur.by)((k, p)) == (w.cur.by)((k, p))); assert(members_of(a1.cur, k) == members_of(a.cur, k));
    }
}

pub proof fn lemma_step_class<'s>(tn: StringTable, a: AState<'s>, w: AWState<'s>, tf: StringTable, original: &'s str, obfuscated: &'s str, next: Option<&ProguardRecord<'s>>)
    requires rel_state(tn, a, w), stable(tf, tn), rec_ok(tn, ProguardRecord::Class { original, obfuscated }), strings_in(tf, ProguardRecord::Class { original, obfuscated }),
    ensures rel_state(tn, astep(a, true, ProguardRecord::Class { original, obfuscated }, next), w_step(w, tf, ProguardRecord::Class { original, obfuscated }, next)),
{
    let rec = ProguardRecord::Class { original, obfuscated };
    let a1 = astep(a, true, rec, next); let w1 = w_step(w, tf, rec, next);
    let sb = table_bytes(tn);
    assert(strings_of(rec)[0] == obfuscated@ && strings_of(rec)[1] == original@);
    assert(offset_of(tf, obfuscated@) is Some && offset_of(tf, original@) is Some);
    // the new class in progress
    assert forall|k: &'s str| rel_members(sb, #[trigger] (w1.cur.members)(k), members_of(a1.cur, k).all) by {
        assert((w1.cur.members)(k) == Seq::<Member>::empty()); assert(members_of(a1.cur, k) == no_members::<'s>());
    }
    assert forall|k: &'s str, p: &'s str| rel_members(sb, #[trigger] (w1.cur.by)((k, p)), by_of(members_of(a1.cur, k), p)) by {
        assert((w1.cur.by)((k, p)) == Seq::<Member>::empty()); assert(members_of(a1.cur, k) == no_members::<'s>());
    }
    assert(rel_class(tn, a1.cur, w1.cur));
    // the finished class is stored under the same key, or not at all, on both sides
    assert forall|k: &'s str| a1.done.contains_key(k) == w1.done.contains_key(k) by {}
    assert forall|k: &'s str| #[trigger] a1.done.contains_key(k) implies rel_class(tn, a1.done[k], w1.done[k]) by {
        if a.cur.original@.len() > 0 && k == a.cur.obfuscated { } else { assert(a.done.contains_key(k)); }
    }
}
pub proof fn lemma_step_method<'s>(tn: StringTable, a: AState<'s>, w: AWState<'s>, tf: StringTable, ty: &'s str, original: &'s str, obfuscated: &'s str, arguments: &'s str,
        original_class: Option<&'s str>, line_mapping: Option<LineMapping>, next: Option<&ProguardRecord<'s>>)
    requires rel_state(tn, a, w), stable(tf, tn),
        rec_ok(tn, ProguardRecord::Method { ty, original, obfuscated, arguments, original_class, line_mapping }),
        strings_in(tf, ProguardRecord::Method { ty, original, obfuscated, arguments, original_class, line_mapping }),
    ensures rel_state(tn, astep(a, true, ProguardRecord::Method { ty, original, obfuscated, arguments, original_class, line_mapping }, next),
                      w_step(w, tf, ProguardRecord::Method { ty, original, obfuscated, arguments, original_class, line_mapping }, next)),
{
    let rec = ProguardRecord::Method { ty, original, obfuscated, arguments, original_class, line_mapping };
    let a1 = astep(a, true, rec, next); let w1 = w_step(w, tf, rec, next);
    let sb = table_bytes(tn);
    let ss = strings_of(rec);
    assert(ss[0] == obfuscated@ && ss[1] == original@ && ss[2] == arguments@);
    assert(offset_of(tf, obfuscated@) is Some && offset_of(tf, original@) is Some && offset_of(tf, arguments@) is Some);
    match original_class { Some(c) => { assert(ss[3] == c@); assert(offset_of(tf, c@) is Some); }, None => {} }
    let foff = w.cur.class.file_name_offset;
    let m = stored_member(line_mapping, tf, obfuscated, original, original_class, arguments, foff);
    // the offsets of the record's strings are the same in the final table
    assert(m == stored_member(line_mapping, tn, obfuscated, original, original_class, arguments, foff));
    let e = stored_entry(line_mapping, original_class, original, a.cur.file_name);
    lemma_builders_store_the_same_abstract_entry(line_mapping, tn, obfuscated, original, original_class, arguments, a.cur.file_name, foff);
    assert(abs_member(sb, m) == abs_mm(e));
    let indexed = !is_inlined_callee(line_mapping, next);
    let fresh = indexed && !a.seen.contains((obfuscated, arguments, original));
    let old_m = members_of(a.cur, obfuscated);
    assert forall|k: &'s str| rel_members(sb, #[trigger] (w1.cur.members)(k), members_of(a1.cur, k).all) by {
        if k == obfuscated {
            lemma_rel_members_push(sb, (w.cur.members)(k), old_m.all, m, e);
            assert(members_of(a1.cur, k).all == old_m.all.push(e));
        } else {
            assert((w1.cur.members)(k) == (w.cur.members)(k)); assert(members_of(a1.cur, k) == members_of(a.cur, k));
        }
    }
    assert forall|k: &'s str, p: &'s str| rel_members(sb, #[trigger] (w1.cur.by)((k, p)), by_of(members_of(a1.cur, k), p)) by {
        if k == obfuscated {
            if fresh && p == arguments {
                lemma_rel_members_push(sb, (w.cur.by)((k, p)), by_of(old_m, p), m, e);
                assert(by_of(members_of(a1.cur, k), p) == by_of(old_m, p).push(e));
            } else {
                assert((w1.cur.by)((k, p)) == (w.cur.by)((k, p)));
                assert(by_of(members_of(a1.cur, k), p) == by_of(old_m, p));
            }
        } else {
            assert((w1.cur.by)((k, p)) == (w.cur.by)((k, p))); assert(members_of(a1.cur, k) == members_of(a.cur, k));
        }
    }
}

pub proof fn lemma_step<'s>(tn: StringTable, a: AState<'s>, w: AWState<'s>, tf: StringTable, rec: ProguardRecord<'s>, next: Option<&ProguardRecord<'s>>)
    requires rel_state(tn, a, w), stable(tf, tn), rec_ok(tn, rec), strings_in(tf, rec),
    ensures rel_state(tn, astep(a, true, rec, next), w_step(w, tf, rec, next)),
{
    match rec {
        ProguardRecord::Header { key, value } => { lemma_step_header(tn, a, w, tf, key, value, next); },
        ProguardRecord::Class { original, obfuscated } => { lemma_step_class(tn, a, w, tf, original, obfuscated, next); },
        ProguardRecord::Method { ty, original, obfuscated, arguments, original_class, line_mapping } => {
            lemma_step_method(tn, a, w, tf, ty, original, obfuscated, arguments, original_class, line_mapping, next);
        },
        _ => {},
    }
}
// tables only grow (tables_ok): what table i handed out is what the last table hands out
pub proof fn lemma_tables_stable<'s>(ts: Seq<StringTable>, recs: Seq<ProguardRecord<'s>>, nn: int, i: int)
    requires tables_ok(ts, recs, nn), 0 <= i <= nn,
    ensures stable(ts[i], ts[nn]),
    decreases nn - i
{
    if i < nn {
        lemma_tables_stable(ts, recs, nn, i + 1);
        assert(table_grew(ts[(i + 1) - 1], ts[i + 1], strings_of(recs[(i + 1) - 1])));
        assert forall|x: Seq<char>| #[trigger] offset_of(ts[i], x) is Some implies offset_of(ts[nn], x) == offset_of(ts[i], x) by {
            assert(offset_of(ts[i + 1], x) == offset_of(ts[i], x));
        }
    }
}
pub open spec fn recs_ok<'s>(tn: StringTable, recs: Seq<ProguardRecord<'s>>) -> bool { forall|i: int| 0 <= i < recs.len() ==> rec_ok(tn, #[trigger] recs[i]) }

pub proof fn lemma_runs_are_related<'s>(ts: Seq<StringTable>, recs: Seq<ProguardRecord<'s>>, n: int)
    requires tables_ok(ts, recs, recs.len() as int), recs_ok(ts[recs.len() as int], recs), 0 <= n <= recs.len(),
    ensures rel_state(ts[recs.len() as int], run(recs, true, n), w_run(ts, recs, n)),
    decreases n
{
    let nn = recs.len() as int; let tn = ts[nn];
    if n <= 0 {
        let a = start_state::<'s>(); let w = AWState { done: Map::<&'s str, ACip<'s>>::empty(), cur: fresh_cip::<'s>() };
        assert forall|k: &'s str| rel_members(table_bytes(tn), #[trigger] (w.cur.members)(k), members_of(a.cur, k).all) by {
            assert((w.cur.members)(k) == Seq::<Member>::empty()); assert(members_of(a.cur, k) == no_members::<'s>());
        }
        assert forall|k: &'s str, p: &'s str| rel_members(table_bytes(tn), #[trigger] (w.cur.by)((k, p)), by_of(members_of(a.cur, k), p)) by {
            assert((w.cur.by)((k, p)) == Seq::<Member>::empty()); assert(members_of(a.cur, k) == no_members::<'s>());
        }
        reveal_strlit("");
        assert(a.cur.original@.len() == 0 && w.cur.name@.len() == 0);
    } else {
        lemma_runs_are_related(ts, recs, n - 1);
        lemma_tables_stable(ts, recs, nn, n);
        assert(table_grew(ts[n - 1], ts[n], strings_of(recs[n - 1])));
        assert(rec_ok(tn, recs[n - 1]));
        lemma_step(tn, run(recs, true, n - 1), w_run(ts, recs, n - 1), ts[n], recs[n - 1], next_of(recs, n));
    }
}
// THE REFINEMENT: for a mapping in the property's domain, the mapper built with the parameter index and the classes collected by the cache writer
// have the same class keys, and under every key the same abstract entries at the same positions (line-based lists and by-params lists)
pub proof fn lemma_mapper_and_cache_writer_collect_the_same_entries<'s>(ts: Seq<StringTable>, recs: Seq<ProguardRecord<'s>>)
    requires tables_ok(ts, recs, recs.len() as int), recs_ok(ts[recs.len() as int], recs),
    ensures ({
        let tn = ts[recs.len() as int]; let m = built(recs, true); let w = w_flush(w_run(ts, recs, recs.len() as int).done, w_run(ts, recs, recs.len() as int).cur);
        &&& /*@L:mapper_and_cache_have_the_same_class_keys:C02,C04*/ forall|k: &'s str| m.contains_key(k) == w.contains_key(k)
        &&& /*@L:same_entries_at_the_same_positions_under_every_class:C02,C01,C03*/ forall|k: &'s str| #[trigger] m.contains_key(k) ==> rel_class(tn, m[k], w[k])
    }),
{
    let nn = recs.len() as int;
    lemma_runs_are_related(ts, recs, nn);
    let a = run(recs, true, nn); let ws = w_run(ts, recs, nn);
    let m = built(recs, true); let w = w_flush(ws.done, ws.cur);
    assert forall|k: &'s str| m.contains_key(k) == w.contains_key(k) by {}
    assert forall|k: &'s str| #[trigger] m.contains_key(k) implies rel_class(ts[nn], m[k], w[k]) by {
        if a.cur.original@.len() > 0 && k == a.cur.obfuscated { } else { assert(a.done.contains_key(k)); }
    }
}


// ======== the class section the writer emits is strictly sorted by the names the string section resolves (what the reader's binary search needs) ========
// every finished class of the mapper fold sits under its own obfuscated name and has a non-empty original name
pub proof fn lemma_done_keys<'s>(recs: Seq<ProguardRecord<'s>>, n: int)
    requires 0 <= n <= recs.len(),
    ensures forall|k: &'s str| #[trigger] run(recs, true, n).done.contains_key(k) ==> run(recs, true, n).done[k].obfuscated == k && run(recs, true, n).done[k].original@.len() > 0,
    decreases n
{
    if n > 0 {
        lemma_done_keys(recs, n - 1);
        let a = run(recs, true, n - 1); let a1 = run(recs, true, n);
        assert forall|k: &'s str| #[trigger] a1.done.contains_key(k) implies a1.done[k].obfuscated == k && a1.done[k].original@.len() > 0 by {
            match recs[n - 1] {
                ProguardRecord::Class { original, obfuscated } => { if a.cur.original@.len() > 0 && k == a.cur.obfuscated { } else { assert(a.done.contains_key(k)); } },
                _ => { assert(a.done.contains_key(k)); },
            }
        }
    }
}
// ASSUMED (std): BTreeMap<&str, V> iterates in strictly ascending key order; `vals` are the values in that order
pub uninterp spec fn keys_of<V>(m: BTreeMap<&str, V>) -> Seq<&str>;
#[verifier::external_body]
pub proof fn axiom_btree_str_order<V>(m: BTreeMap<&str, V>)
    ensures
        keys_of(m).len() == vals(m).len(),
        forall|i: int| 0 <= i < keys_of(m).len() ==> bmap(m).contains_key(#[trigger] keys_of(m)[i]) && bmap(m)[keys_of(m)[i]] == vals(m)[i],
        forall|i: int, j: int| 0 <= i < j < keys_of(m).len() ==> seq_cmp((#[trigger] keys_of(m)[i])@, (#[trigger] keys_of(m)[j])@) == Ordering::Less,
{}
pub open spec fn emitted_classes(cs: Seq<ClassInProgress>, n: int) -> Seq<Class> { Seq::new(n as nat, |i: int| emitted_class(cs, i)) }

pub proof fn lemma_emitted_class_section_is_strictly_sorted<'s>(ts: Seq<StringTable>, recs: Seq<ProguardRecord<'s>>, classes: BTreeMap<&'s str, ClassInProgress<'s>>)
    requires
        tables_ok(ts, recs, recs.len() as int), recs_ok(ts[recs.len() as int], recs),
        // what unit u14 proves about the collection loop
        abs_done(bmap(classes)) == w_flush(w_run(ts, recs, recs.len() as int).done, w_run(ts, recs, recs.len() as int).cur),
    ensures
        /*@L:emitted_classes_are_strictly_sorted_by_resolved_obfuscated_name:C09,C02,C04*/
        classes_sorted(table_bytes(ts[recs.len() as int]), emitted_classes(vals(classes), vals(classes).len() as int)),
{
    let nn = recs.len() as int; let tn = ts[nn]; let sb = table_bytes(tn);
    let cs = vals(classes); let ks = keys_of(classes);
    lemma_mapper_and_cache_writer_collect_the_same_entries(ts, recs);
    lemma_done_keys(recs, nn);
    axiom_btree_str_order(classes);
    let m = built(recs, true); let w = w_flush(w_run(ts, recs, nn).done, w_run(ts, recs, nn).cur);
    let a = run(recs, true, nn);
    let ec = emitted_classes(cs, cs.len() as int);
    assert forall|i: int| 0 <= i < cs.len() implies tbl(sb, (#[trigger] ec[i]).obfuscated_name_offset) == Some(ks[i]@) by {
        let k = ks[i];
        assert(bmap(classes).contains_key(k) && bmap(classes)[k] == cs[i]);
        assert(abs_done(bmap(classes)).contains_key(k) && abs_done(bmap(classes))[k] == abs_cip(cs[i]));
        assert(w.contains_key(k) && m.contains_key(k));
        assert(rel_class(tn, m[k], w[k]));
        // the mapper's class under key k has obfuscated name k and a non-empty original name
        if a.cur.original@.len() > 0 && k == a.cur.obfuscated { assert(m[k] == a.cur); } else { assert(a.done.contains_key(k)); assert(m[k] == a.done[k]); }
        assert(m[k].obfuscated == k && m[k].original@.len() > 0);
        assert(w[k].class == cs[i].class);
        assert(ec[i].obfuscated_name_offset == cs[i].class.obfuscated_name_offset);
    }
    assert forall|i: int, j: int| 0 <= i < j < ec.len() implies
        seq_cmp(tbl(sb, (#[trigger] ec[i]).obfuscated_name_offset).unwrap(), tbl(sb, (#[trigger] ec[j]).obfuscated_name_offset).unwrap()) == Ordering::Less by {
        assert(tbl(sb, ec[i].obfuscated_name_offset) == Some(ks[i]@)); assert(tbl(sb, ec[j].obfuscated_name_offset) == Some(ks[j]@));
    }
}


// ======== within every collected class, the member records are sorted by (resolved) method name, the by-params records by (name, params) ========
pub open spec fn cip_names_ok<'s>(tn: StringTable, w: ACip<'s>) -> bool {
    let sb = table_bytes(tn);
    &&& forall|k: &'s str, i: int| 0 <= i < (w.members)(k).len() ==> tbl(sb, (#[trigger] (w.members)(k)[i]).obfuscated_name_offset) == Some(k@)
    &&& forall|k: &'s str, p: &'s str, i: int| 0 <= i < (w.by)((k, p)).len() ==>
            tbl(sb, (#[trigger] (w.by)((k, p))[i]).obfuscated_name_offset) == Some(k@) && tbl(sb, (w.by)((k, p))[i].params_offset) == Some(p@)
}
pub open spec fn names_state<'s>(tn: StringTable, w: AWState<'s>) -> bool {
    cip_names_ok(tn, w.cur) && forall|k: &'s str| #[trigger] w.done.contains_key(k) ==> cip_names_ok(tn, w.done[k])
}
pub open spec fn rec_names_ok<'s>(tn: StringTable, rec: ProguardRecord<'s>) -> bool {
    match rec {
        ProguardRecord::Method { ty, original, obfuscated, arguments, original_class, line_mapping } => resolves(tn, obfuscated@) && resolves(tn, arguments@),
        _ => true,
    }
}
pub open spec fn recs_names_ok<'s>(tn: StringTable, recs: Seq<ProguardRecord<'s>>) -> bool { forall|i: int| 0 <= i < recs.len() ==> rec_names_ok(tn, #[trigger] recs[i]) }

pub proof fn lemma_names_step<'s>(tn: StringTable, w: AWState<'s>, tf: StringTable, rec: ProguardRecord<'s>, next: Option<&ProguardRecord<'s>>)
    requires names_state(tn, w), stable(tf, tn), rec_names_ok(tn, rec), strings_in(tf, rec),
    ensures names_state(tn, w_step(w, tf, rec, next)),
{
    let w1 = w_step(w, tf, rec, next);
    let sb = table_bytes(tn);
    match rec {
        ProguardRecord::Header { key, value } => {
            assert forall|k: &'s str, i: int| 0 <= i < (w1.cur.members)(k).len() implies tbl(sb, (#[trigger] (w1.cur.members)(k)[i]).obfuscated_name_offset) == Some(k@) by { assert((w1.cur.members)(k) == (w.cur.members)(k)); }
            assert forall|k: &'s str, p: &'s str, i: int| 0 <= i < (w1.cur.by)((k, p)).len() implies
                tbl(sb, (#[trigger] (w1.cur.by)((k, p))[i]).obfuscated_name_offset) == Some(k@) && tbl(sb, (w1.cur.by)((k, p))[i].params_offset) == Some(p@) by { assert((w1.cur.by)((k, p)) == (w.cur.by)((k, p))); }
        },
        ProguardRecord::Class { original, obfuscated } => {
            assert forall|k: &'s str, i: int| 0 <= i < (w1.cur.members)(k).len() implies tbl(sb, (#[trigger] (w1.cur.members)(k)[i]).obfuscated_name_offset) == Some(k@) by { assert((w1.cur.members)(k) == Seq::<Member>::empty()); }
            assert forall|k: &'s str, p: &'s str, i: int| 0 <= i < (w1.cur.by)((k, p)).len() implies
                tbl(sb, (#[trigger] (w1.cur.by)((k, p))[i]).obfuscated_name_offset) == Some(k@) && tbl(sb, (w1.cur.by)((k, p))[i].params_offset) == Some(p@) by { assert((w1.cur.by)((k, p)) == Seq::<Member>::empty()); }
            assert forall|k: &'s str| #[trigger] w1.done.contains_key(k) implies cip_names_ok(tn, w1.done[k]) by {
                if w.cur.name@.len() > 0 && k == w.cur.name { } else { assert(w.done.contains_key(k)); }
            }
        },
        ProguardRecord::Method { ty, original, obfuscated, arguments, original_class, line_mapping } => {
            let ss = strings_of(rec);
            assert(ss[0] == obfuscated@ && ss[2] == arguments@);
            assert(offset_of(tf, obfuscated@) is Some && offset_of(tf, arguments@) is Some);
            let m = stored_member(line_mapping, tf, obfuscated, original, original_class, arguments, w.cur.class.file_name_offset);
            assert(tbl(sb, m.obfuscated_name_offset) == Some(obfuscated@) && tbl(sb, m.params_offset) == Some(arguments@));
            assert forall|k: &'s str, i: int| 0 <= i < (w1.cur.members)(k).len() implies tbl(sb, (#[trigger] (w1.cur.members)(k)[i]).obfuscated_name_offset) == Some(k@) by {
                if k == obfuscated { if i < (w.cur.members)(k).len() { assert((w1.cur.members)(k)[i] == (w.cur.members)(k)[i]); } } else { assert((w1.cur.members)(k) == (w.cur.members)(k)); }
            }
            assert forall|k: &'s str, p: &'s str, i: int| 0 <= i < (w1.cur.by)((k, p)).len() implies
                tbl(sb, (#[trigger] (w1.cur.by)((k, p))[i]).obfuscated_name_offset) == Some(k@) && tbl(sb, (w1.cur.by)((k, p))[i].params_offset) == Some(p@) by {
                if (w1.cur.by)((k, p)) == (w.cur.by)((k, p)) { } else {
                    assert((k, p) == (obfuscated, arguments));
                    if i < (w.cur.by)((k, p)).len() { assert((w1.cur.by)((k, p))[i] == (w.cur.by)((k, p))[i]); }
                }
            }
        },
        _ => {},
    }
}
pub proof fn lemma_names_run<'s>(ts: Seq<StringTable>, recs: Seq<ProguardRecord<'s>>, n: int)
    requires tables_ok(ts, recs, recs.len() as int), recs_names_ok(ts[recs.len() as int], recs), 0 <= n <= recs.len(),
    ensures names_state(ts[recs.len() as int], w_run(ts, recs, n)),
    decreases n
{
    let nn = recs.len() as int; let tn = ts[nn];
    if n > 0 {
        lemma_names_run(ts, recs, n - 1);
        lemma_tables_stable(ts, recs, nn, n);
        assert(table_grew(ts[n - 1], ts[n], strings_of(recs[n - 1])));
        assert(rec_names_ok(tn, recs[n - 1]));
        lemma_names_step(tn, w_run(ts, recs, n - 1), ts[n], recs[n - 1], next_of(recs, n));
    }
}
// groups in ascending key order, every record of group g carrying the name of key g => the concatenation is sorted by name
pub open spec fn group_of(groups: Seq<Vec<Member>>, x: int) -> int
    decreases groups.len()
{
    if groups.len() == 0 { 0 } else if x < flat(groups.drop_last()).len() { group_of(groups.drop_last(), x) } else { groups.len() - 1 }
}
pub proof fn lemma_group_of(groups: Seq<Vec<Member>>, x: int)
    requires 0 <= x < flat(groups).len(),
    ensures 0 <= group_of(groups, x) < groups.len(),
        exists|i: int| 0 <= i < groups[group_of(groups, x)]@.len() && flat(groups)[x] == #[trigger] groups[group_of(groups, x)]@[i],
    decreases groups.len()
{
    if groups.len() > 0 {
        let g0 = groups.drop_last(); let f0 = flat(g0); let last = groups.last()@;
        assert(flat(groups) == f0 + last);
        if x < f0.len() {
            lemma_group_of(g0, x);
            let g = group_of(g0, x);
            let i = choose|i: int| 0 <= i < g0[g]@.len() && f0[x] == #[trigger] g0[g]@[i];
            assert(g0[g] == groups[g]);
            assert(flat(groups)[x] == groups[g]@[i]);
        } else {
            let i = x - f0.len();
            assert(flat(groups)[x] == last[i]);
            assert(groups[groups.len() - 1]@[i] == last[i]);
        }
    }
}
pub proof fn lemma_group_of_monotone(groups: Seq<Vec<Member>>, x: int, y: int)
    requires 0 <= x <= y < flat(groups).len(),
    ensures group_of(groups, x) <= group_of(groups, y),
    decreases groups.len()
{
    if groups.len() > 0 {
        let g0 = groups.drop_last(); let f0 = flat(g0);
        assert(flat(groups) == f0 + groups.last()@);
        if y < f0.len() { lemma_group_of_monotone(g0, x, y); }
        else if x < f0.len() { lemma_group_of(g0, x); }
    }
}
pub proof fn lemma_flat_groups_sorted(sb: Seq<u8>, groups: Seq<Vec<Member>>, names: Seq<Seq<char>>)
    requires groups.len() == names.len(),
        forall|g: int, i: int| 0 <= g < groups.len() && 0 <= i < groups[g]@.len() ==> tbl(sb, (#[trigger] groups[g]@[i]).obfuscated_name_offset) == Some(names[g]),
        forall|g: int, h: int| 0 <= g < h < names.len() ==> seq_cmp(#[trigger] names[g], #[trigger] names[h]) == Ordering::Less,
    ensures members_sorted(sb, flat(groups)),
{
    let f = flat(groups);
    assert forall|x: int| 0 <= x < f.len() implies tbl(sb, (#[trigger] f[x]).obfuscated_name_offset) == Some(names[group_of(groups, x)]) by {
        lemma_group_of(groups, x);
        let g = group_of(groups, x);
        let i = choose|i: int| 0 <= i < groups[g]@.len() && f[x] == #[trigger] groups[g]@[i];
        assert(tbl(sb, groups[g]@[i].obfuscated_name_offset) == Some(names[g]));
    }
    assert forall|x: int, y: int| 0 <= x < y < f.len() implies seq_cmp(member_name(sb, #[trigger] f[x]), member_name(sb, #[trigger] f[y])) != Ordering::Greater by {
        lemma_group_of(groups, x); lemma_group_of(groups, y); lemma_group_of_monotone(groups, x, y);
        let g = group_of(groups, x); let h = group_of(groups, y);
        assert(member_name(sb, f[x]) == names[g] && member_name(sb, f[y]) == names[h]);
        if g == h { axiom_seq_cmp_total(names[g], names[g]); } else { assert(seq_cmp(names[g], names[h]) == Ordering::Less); }
    }
}

pub proof fn lemma_members_of_every_collected_class_are_sorted_by_name<'s>(ts: Seq<StringTable>, recs: Seq<ProguardRecord<'s>>, classes: BTreeMap<&'s str, ClassInProgress<'s>>, key: &'s str)
    requires
        tables_ok(ts, recs, recs.len() as int), recs_names_ok(ts[recs.len() as int], recs),
        abs_done(bmap(classes)) == w_flush(w_run(ts, recs, recs.len() as int).done, w_run(ts, recs, recs.len() as int).cur),   // unit u14
        bmap(classes).contains_key(key),
    ensures
        /*@L:member_records_of_a_class_are_sorted_by_resolved_method_name:C09,C02,C01*/
        members_sorted(table_bytes(ts[recs.len() as int]), flat(vals(bmap(classes)[key].members))),
{
    let nn = recs.len() as int; let tn = ts[nn]; let sb = table_bytes(tn);
    lemma_names_run(ts, recs, nn);
    let ws = w_run(ts, recs, nn); let w = w_flush(ws.done, ws.cur);
    let c = bmap(classes)[key];
    assert(abs_done(bmap(classes)).contains_key(key) && abs_done(bmap(classes))[key] == abs_cip(c));
    assert(w.contains_key(key));
    if ws.cur.name@.len() > 0 && key == ws.cur.name { assert(w[key] == ws.cur); } else { assert(ws.done.contains_key(key)); assert(w[key] == ws.done[key]); }
    assert(cip_names_ok(tn, w[key]));
    axiom_btree_str_order(c.members);
    let groups = vals(c.members); let ks = keys_of(c.members);
    let names = Seq::new(ks.len(), |g: int| ks[g]@);
    assert forall|g: int, i: int| 0 <= g < groups.len() && 0 <= i < groups[g]@.len() implies tbl(sb, (#[trigger] groups[g]@[i]).obfuscated_name_offset) == Some(names[g]) by {
        let k = ks[g];
        assert(bmap(c.members).contains_key(k) && bmap(c.members)[k] == groups[g]);
        assert((abs_cip(c).members)(k) == vec_at(c.members, k));
        assert((w[key].members)(k) == groups[g]@);
        assert(tbl(sb, (w[key].members)(k)[i].obfuscated_name_offset) == Some(k@));
    }
    assert forall|g: int, h: int| 0 <= g < h < names.len() implies seq_cmp(#[trigger] names[g], #[trigger] names[h]) == Ordering::Less by {
        assert(seq_cmp(ks[g]@, ks[h]@) == Ordering::Less);
    }
    lemma_flat_groups_sorted(sb, groups, names);
}


// ---- the by-params records of every collected class are sorted by (resolved method name, resolved parameter string) ----
pub uninterp spec fn keys2_of<'a, V>(m: BTreeMap<(&'a str, &'a str), V>) -> Seq<(&'a str, &'a str)>;
// ASSUMED (std): BTreeMap<(&str, &str), V> iterates in strictly ascending lexicographic key order; `vals` are the values in that order
#[verifier::external_body]
pub proof fn axiom_btree_pair_order<'a, V>(m: BTreeMap<(&'a str, &'a str), V>)
    ensures
        keys2_of(m).len() == vals(m).len(),
        forall|i: int| 0 <= i < keys2_of(m).len() ==> bmap(m).contains_key(#[trigger] keys2_of(m)[i]) && bmap(m)[keys2_of(m)[i]] == vals(m)[i],
        forall|i: int, j: int| 0 <= i < j < keys2_of(m).len() ==>
            lex2(seq_cmp((#[trigger] keys2_of(m)[i]).0@, (#[trigger] keys2_of(m)[j]).0@), seq_cmp(keys2_of(m)[i].1@, keys2_of(m)[j].1@)) == Ordering::Less,
{}
pub proof fn lemma_flat_groups_sorted2(sb: Seq<u8>, groups: Seq<Vec<Member>>, names: Seq<Seq<char>>, params: Seq<Seq<char>>)
    requires groups.len() == names.len(), groups.len() == params.len(),
        forall|g: int, i: int| 0 <= g < groups.len() && 0 <= i < groups[g]@.len() ==>
            tbl(sb, (#[trigger] groups[g]@[i]).obfuscated_name_offset) == Some(names[g]) && tbl(sb, groups[g]@[i].params_offset) == Some(params[g]),
        forall|g: int, h: int| 0 <= g < h < names.len() ==> lex2(seq_cmp(#[trigger] names[g], #[trigger] names[h]), seq_cmp(params[g], params[h])) == Ordering::Less,
    ensures members_sorted2(sb, flat(groups)),
{
    let f = flat(groups);
    assert forall|x: int| 0 <= x < f.len() implies tbl(sb, (#[trigger] f[x]).obfuscated_name_offset) == Some(names[group_of(groups, x)]) && tbl(sb, f[x].params_offset) == Some(params[group_of(groups, x)]) by {
        lemma_group_of(groups, x);
        let g = group_of(groups, x);
        let i = choose|i: int| 0 <= i < groups[g]@.len() && f[x] == #[trigger] groups[g]@[i];
        assert(tbl(sb, groups[g]@[i].obfuscated_name_offset) == Some(names[g]));
    }
    assert forall|x: int, y: int| 0 <= x < y < f.len() implies
        lex2(seq_cmp(member_name(sb, #[trigger] f[x]), member_name(sb, #[trigger] f[y])), seq_cmp(member_params(sb, f[x]), member_params(sb, f[y]))) != Ordering::Greater by {
        lemma_group_of(groups, x); lemma_group_of(groups, y); lemma_group_of_monotone(groups, x, y);
        let g = group_of(groups, x); let h = group_of(groups, y);
        assert(member_name(sb, f[x]) == names[g] && member_name(sb, f[y]) == names[h] && member_params(sb, f[x]) == params[g] && member_params(sb, f[y]) == params[h]);
        if g == h { axiom_seq_cmp_total(names[g], names[g]); axiom_seq_cmp_total(params[g], params[g]); }
    }
}
pub proof fn lemma_by_params_records_of_every_collected_class_are_sorted<'s>(ts: Seq<StringTable>, recs: Seq<ProguardRecord<'s>>, classes: BTreeMap<&'s str, ClassInProgress<'s>>, key: &'s str)
    requires
        tables_ok(ts, recs, recs.len() as int), recs_names_ok(ts[recs.len() as int], recs),
        abs_done(bmap(classes)) == w_flush(w_run(ts, recs, recs.len() as int).done, w_run(ts, recs, recs.len() as int).cur),   // unit u14
        bmap(classes).contains_key(key),
    ensures
        /*@L:by_params_records_of_a_class_are_sorted_by_resolved_name_and_parameters:C09,C02,C03*/
        members_sorted2(table_bytes(ts[recs.len() as int]), flat(vals(bmap(classes)[key].members_by_params))),
{
    let nn = recs.len() as int; let tn = ts[nn]; let sb = table_bytes(tn);
    lemma_names_run(ts, recs, nn);
    let ws = w_run(ts, recs, nn); let w = w_flush(ws.done, ws.cur);
    let c = bmap(classes)[key];
    assert(abs_done(bmap(classes)).contains_key(key) && abs_done(bmap(classes))[key] == abs_cip(c));
    assert(w.contains_key(key));
    if ws.cur.name@.len() > 0 && key == ws.cur.name { assert(w[key] == ws.cur); } else { assert(ws.done.contains_key(key)); assert(w[key] == ws.done[key]); }
    assert(cip_names_ok(tn, w[key]));
    axiom_btree_pair_order(c.members_by_params);
    let groups = vals(c.members_by_params); let ks = keys2_of(c.members_by_params);
    let names = Seq::new(ks.len(), |g: int| ks[g].0@);
    let params = Seq::new(ks.len(), |g: int| ks[g].1@);
    assert forall|g: int, i: int| 0 <= g < groups.len() && 0 <= i < groups[g]@.len() implies
        tbl(sb, (#[trigger] groups[g]@[i]).obfuscated_name_offset) == Some(names[g]) && tbl(sb, groups[g]@[i].params_offset) == Some(params[g]) by {
        let k = ks[g];
        assert(bmap(c.members_by_params).contains_key(k) && bmap(c.members_by_params)[k] == groups[g]);
        assert((abs_cip(c).by)(k) == vec_at(c.members_by_params, k));
        assert((w[key].by)((k.0, k.1)) == groups[g]@);
        assert(tbl(sb, (w[key].by)((k.0, k.1))[i].obfuscated_name_offset) == Some(k.0@));
    }
    assert forall|g: int, h: int| 0 <= g < h < names.len() implies lex2(seq_cmp(#[trigger] names[g], #[trigger] names[h]), seq_cmp(params[g], params[h])) == Ordering::Less by {
        assert(lex2(seq_cmp(ks[g].0@, ks[h].0@), seq_cmp(ks[g].1@, ks[h].1@)) == Ordering::Less);
    }
    lemma_flat_groups_sorted2(sb, groups, names, params);
}


// ======== every record the writer collects satisfies the reader's `wf_member`, and original-name offsets are canonical (interning) ========
pub open spec fn table_ok(tn: StringTable) -> bool { tbl(table_bytes(tn), absent()) is None }
pub open spec fn orig_canon(tn: StringTable, m: Member) -> bool {
    tbl(table_bytes(tn), m.original_name_offset) is Some && off32(tn, tbl(table_bytes(tn), m.original_name_offset)->0) == m.original_name_offset
}
pub open spec fn member_ok(tn: StringTable, m: Member) -> bool { wf_member(table_bytes(tn), m) && orig_canon(tn, m) }
pub open spec fn cip_wf<'s>(tn: StringTable, w: ACip<'s>) -> bool {
    &&& forall|k: &'s str, i: int| 0 <= i < (w.members)(k).len() ==> member_ok(tn, #[trigger] (w.members)(k)[i])
    &&& forall|k: &'s str, p: &'s str, i: int| 0 <= i < (w.by)((k, p)).len() ==> member_ok(tn, #[trigger] (w.by)((k, p))[i])
}
pub open spec fn file_ok(tn: StringTable, w: ACip) -> bool { w.class.file_name_offset == absent() || tbl(table_bytes(tn), w.class.file_name_offset) is Some }
pub open spec fn wf_state<'s>(tn: StringTable, w: AWState<'s>) -> bool {
    file_ok(tn, w.cur) && cip_wf(tn, w.cur) && forall|k: &'s str| #[trigger] w.done.contains_key(k) ==> cip_wf(tn, w.done[k])
}
pub proof fn lemma_wf_step<'s>(tn: StringTable, w: AWState<'s>, tf: StringTable, rec: ProguardRecord<'s>, next: Option<&ProguardRecord<'s>>)
    requires wf_state(tn, w), table_ok(tn), stable(tf, tn), rec_ok(tn, rec), rec_names_ok(tn, rec), strings_in(tf, rec),
    ensures wf_state(tn, w_step(w, tf, rec, next)),
{
    let w1 = w_step(w, tf, rec, next);
    let sb = table_bytes(tn);
    match rec {
        ProguardRecord::Header { key, value } => {
            if key@ == "sourceFile"@ { match value { Some(f) => { assert(strings_of(rec)[0] == f@); assert(offset_of(tf, f@) is Some); }, None => {} } }
            assert forall|k: &'s str, i: int| 0 <= i < (w1.cur.members)(k).len() implies member_ok(tn, #[trigger] (w1.cur.members)(k)[i]) by { assert((w1.cur.members)(k) == (w.cur.members)(k)); }
            assert forall|k: &'s str, p: &'s str, i: int| 0 <= i < (w1.cur.by)((k, p)).len() implies member_ok(tn, #[trigger] (w1.cur.by)((k, p))[i]) by { assert((w1.cur.by)((k, p)) == (w.cur.by)((k, p))); }
        },
        ProguardRecord::Class { original, obfuscated } => {
            assert forall|k: &'s str, i: int| 0 <= i < (w1.cur.members)(k).len() implies member_ok(tn, #[trigger] (w1.cur.members)(k)[i]) by { assert((w1.cur.members)(k) == Seq::<Member>::empty()); }
            assert forall|k: &'s str, p: &'s str, i: int| 0 <= i < (w1.cur.by)((k, p)).len() implies member_ok(tn, #[trigger] (w1.cur.by)((k, p))[i]) by { assert((w1.cur.by)((k, p)) == Seq::<Member>::empty()); }
            assert forall|k: &'s str| #[trigger] w1.done.contains_key(k) implies cip_wf(tn, w1.done[k]) by {
                if w.cur.name@.len() > 0 && k == w.cur.name { } else { assert(w.done.contains_key(k)); }
            }
        },
        ProguardRecord::Method { ty, original, obfuscated, arguments, original_class, line_mapping } => {
            let ss = strings_of(rec);
            assert(ss[0] == obfuscated@ && ss[1] == original@ && ss[2] == arguments@);
            assert(offset_of(tf, obfuscated@) is Some && offset_of(tf, original@) is Some && offset_of(tf, arguments@) is Some);
            match original_class { Some(c) => { assert(ss[3] == c@); assert(offset_of(tf, c@) is Some); }, None => {} }
            let foff = w.cur.class.file_name_offset;
            let m = stored_member(line_mapping, tf, obfuscated, original, original_class, arguments, foff);
            assert(m == stored_member(line_mapping, tn, obfuscated, original, original_class, arguments, foff));
            let i_ = interp(line_mapping);
            lemma_interp_domain(line_mapping);
            match i_.orig_end { Some(x) => { assert(m.original_endline as int == x && m.original_endline != absent()); }, None => { assert(m.original_endline == absent()); } }
            assert(member_strings_ok(sb, m));
            assert(entry_in_domain(abs_member(sb, m)));
            assert(member_ok(tn, m));
            assert forall|k: &'s str, i: int| 0 <= i < (w1.cur.members)(k).len() implies member_ok(tn, #[trigger] (w1.cur.members)(k)[i]) by {
                if k == obfuscated { if i < (w.cur.members)(k).len() { assert((w1.cur.members)(k)[i] == (w.cur.members)(k)[i]); } } else { assert((w1.cur.members)(k) == (w.cur.members)(k)); }
            }
            assert forall|k: &'s str, p: &'s str, i: int| 0 <= i < (w1.cur.by)((k, p)).len() implies member_ok(tn, #[trigger] (w1.cur.by)((k, p))[i]) by {
                if (w1.cur.by)((k, p)) == (w.cur.by)((k, p)) { } else {
                    assert((k, p) == (obfuscated, arguments));
                    if i < (w.cur.by)((k, p)).len() { assert((w1.cur.by)((k, p))[i] == (w.cur.by)((k, p))[i]); }
                }
            }
        },
        _ => {},
    }
}
pub proof fn lemma_wf_run<'s>(ts: Seq<StringTable>, recs: Seq<ProguardRecord<'s>>, n: int)
    requires tables_ok(ts, recs, recs.len() as int), recs_ok(ts[recs.len() as int], recs), recs_names_ok(ts[recs.len() as int], recs), table_ok(ts[recs.len() as int]), 0 <= n <= recs.len(),
    ensures wf_state(ts[recs.len() as int], w_run(ts, recs, n)),
    decreases n
{
    let nn = recs.len() as int; let tn = ts[nn];
    if n > 0 {
        lemma_wf_run(ts, recs, n - 1);
        lemma_tables_stable(ts, recs, nn, n);
        assert(table_grew(ts[n - 1], ts[n], strings_of(recs[n - 1])));
        assert(rec_ok(tn, recs[n - 1]) && rec_names_ok(tn, recs[n - 1]));
        lemma_wf_step(tn, w_run(ts, recs, n - 1), ts[n], recs[n - 1], next_of(recs, n));
    }
}


// ======== the ranges of the emitted class records tile the two member sections ========
pub proof fn lemma_tiling(cs: Seq<ClassInProgress>, n: int, i: int)
    requires 0 <= i < n <= cs.len(),
    ensures
        members_before(cs, i) + flat(vals(cs[i].members)).len() <= all_members(cs, n).len(),
        all_members(cs, n).subrange(members_before(cs, i), members_before(cs, i) + flat(vals(cs[i].members)).len()) == flat(vals(cs[i].members)),
        by_params_before(cs, i) + flat(vals(cs[i].members_by_params)).len() <= all_by_params(cs, n).len(),
        all_by_params(cs, n).subrange(by_params_before(cs, i), by_params_before(cs, i) + flat(vals(cs[i].members_by_params)).len()) == flat(vals(cs[i].members_by_params)),
    decreases n
{
    lemma_members_before(cs, n - 1);
    let f = flat(vals(cs[n - 1].members)); let g = flat(vals(cs[n - 1].members_by_params));
    assert(all_members(cs, n) == all_members(cs, n - 1) + f);
    assert(all_by_params(cs, n) == all_by_params(cs, n - 1) + g);
    if i == n - 1 {
        assert(all_members(cs, n).subrange(members_before(cs, i), members_before(cs, i) + f.len()) =~= f);
        assert(all_by_params(cs, n).subrange(by_params_before(cs, i), by_params_before(cs, i) + g.len()) =~= g);
    } else {
        lemma_tiling(cs, n - 1, i);
        lemma_members_before(cs, i);
        let fi = flat(vals(cs[i].members)); let gi = flat(vals(cs[i].members_by_params));
        assert(all_members(cs, n).subrange(members_before(cs, i), members_before(cs, i) + fi.len()) =~= all_members(cs, n - 1).subrange(members_before(cs, i), members_before(cs, i) + fi.len()));
        assert(all_by_params(cs, n).subrange(by_params_before(cs, i), by_params_before(cs, i) + gi.len()) =~= all_by_params(cs, n - 1).subrange(by_params_before(cs, i), by_params_before(cs, i) + gi.len()));
    }
}
// every record of a flattened BTreeMap of groups is a record of one of the groups
pub proof fn lemma_flat_all(groups: Seq<Vec<Member>>, p: spec_fn(Member) -> bool)
    requires forall|g: int, i: int| 0 <= g < groups.len() && 0 <= i < groups[g]@.len() ==> p(#[trigger] groups[g]@[i]),
    ensures forall|x: int| 0 <= x < flat(groups).len() ==> p(#[trigger] flat(groups)[x]),
{
    assert forall|x: int| 0 <= x < flat(groups).len() implies p(#[trigger] flat(groups)[x]) by {
        lemma_group_of(groups, x);
        let g = group_of(groups, x);
        let i = choose|i: int| 0 <= i < groups[g]@.len() && flat(groups)[x] == #[trigger] groups[g]@[i];
        assert(p(groups[g]@[i]));
    }
}


// ======== THE READER'S REPRESENTATION INVARIANT HOLDS FOR WHAT THE WRITER EMITS ========
pub proof fn lemma_class_of_key<'s>(ts: Seq<StringTable>, recs: Seq<ProguardRecord<'s>>, classes: BTreeMap<&'s str, ClassInProgress<'s>>, key: &'s str)
    requires
        tables_ok(ts, recs, recs.len() as int), recs_ok(ts[recs.len() as int], recs), recs_names_ok(ts[recs.len() as int], recs), table_ok(ts[recs.len() as int]),
        abs_done(bmap(classes)) == w_flush(w_run(ts, recs, recs.len() as int).done, w_run(ts, recs, recs.len() as int).cur),
        bmap(classes).contains_key(key),
    ensures ({ let tn = ts[recs.len() as int]; let sb = table_bytes(tn); let c = bmap(classes)[key];
        &&& tbl(sb, c.class.original_name_offset) is Some
        &&& forall|x: int| 0 <= x < flat(vals(c.members)).len() ==> member_ok(tn, #[trigger] flat(vals(c.members))[x])
        &&& forall|x: int| 0 <= x < flat(vals(c.members_by_params)).len() ==> member_ok(tn, #[trigger] flat(vals(c.members_by_params))[x])
    }),
{
    let nn = recs.len() as int; let tn = ts[nn]; let sb = table_bytes(tn);
    lemma_wf_run(ts, recs, nn);
    lemma_mapper_and_cache_writer_collect_the_same_entries(ts, recs);
    lemma_done_keys(recs, nn);
    let ws = w_run(ts, recs, nn); let w = w_flush(ws.done, ws.cur);
    let a = run(recs, true, nn); let m = built(recs, true);
    let c = bmap(classes)[key];
    assert(abs_done(bmap(classes)).contains_key(key) && abs_done(bmap(classes))[key] == abs_cip(c));
    assert(w.contains_key(key) && m.contains_key(key));
    if ws.cur.name@.len() > 0 && key == ws.cur.name { assert(w[key] == ws.cur); } else { assert(ws.done.contains_key(key)); assert(w[key] == ws.done[key]); }
    assert(cip_wf(tn, w[key]));
    assert(rel_class(tn, m[key], w[key]));
    if a.cur.original@.len() > 0 && key == a.cur.obfuscated { assert(m[key] == a.cur); } else { assert(a.done.contains_key(key)); assert(m[key] == a.done[key]); }
    assert(m[key].original@.len() > 0);
    assert(w[key].class == c.class);
    axiom_btree_str_order(c.members);
    axiom_btree_pair_order(c.members_by_params);
    let g1 = vals(c.members); let k1 = keys_of(c.members);
    assert forall|g: int, i: int| 0 <= g < g1.len() && 0 <= i < g1[g]@.len() implies member_ok(tn, #[trigger] g1[g]@[i]) by {
        let k = k1[g];
        assert(bmap(c.members).contains_key(k) && bmap(c.members)[k] == g1[g]);
        assert((abs_cip(c).members)(k) == vec_at(c.members, k));
        assert((w[key].members)(k) == g1[g]@);
        assert(member_ok(tn, (w[key].members)(k)[i]));
    }
    lemma_flat_all(g1, |x: Member| member_ok(tn, x));
    let g2 = vals(c.members_by_params); let k2 = keys2_of(c.members_by_params);
    assert forall|g: int, i: int| 0 <= g < g2.len() && 0 <= i < g2[g]@.len() implies member_ok(tn, #[trigger] g2[g]@[i]) by {
        let k = k2[g];
        assert(bmap(c.members_by_params).contains_key(k) && bmap(c.members_by_params)[k] == g2[g]);
        assert((abs_cip(c).by)(k) == vec_at(c.members_by_params, k));
        assert((w[key].by)((k.0, k.1)) == g2[g]@);
        assert(member_ok(tn, (w[key].by)((k.0, k.1))[i]));
    }
    lemma_flat_all(g2, |x: Member| member_ok(tn, x));
}

pub proof fn lemma_cache_written_from_a_mapping_satisfies_the_readers_invariant<'s>(ts: Seq<StringTable>, recs: Seq<ProguardRecord<'s>>,
        classes: BTreeMap<&'s str, ClassInProgress<'s>>, c: ProguardCache)
    requires
        // the mapping is in the property's domain and the string table reads back what it handed out
        tables_ok(ts, recs, recs.len() as int), recs_ok(ts[recs.len() as int], recs), recs_names_ok(ts[recs.len() as int], recs), table_ok(ts[recs.len() as int]),
        // unit u14: what the collection loop leaves behind
        abs_done(bmap(classes)) == w_flush(w_run(ts, recs, recs.len() as int).done, w_run(ts, recs, recs.len() as int).cur),
        forall|i: int| 0 <= i < vals(classes).len() ==> wf_cip(#[trigger] vals(classes)[i]),
        all_members(vals(classes), vals(classes).len() as int).len() <= u32::MAX, all_by_params(vals(classes), vals(classes).len() as int).len() <= u32::MAX,
        // units u8 + u20: what `parse` reads back from the emitted file
        c.classes@ == emitted_classes(vals(classes), vals(classes).len() as int),
        c.members@ == all_members(vals(classes), vals(classes).len() as int),
        c.members_by_params@ == all_by_params(vals(classes), vals(classes).len() as int),
        c.string_bytes@ == table_bytes(ts[recs.len() as int]),
    ensures
        /*@L:written_cache_satisfies_the_readers_representation_invariant:C02,C01,C03,C04,C09*/ wf_cache(c),
{
    let nn = recs.len() as int; let tn = ts[nn]; let sb = table_bytes(tn);
    let cs = vals(classes); let n = cs.len() as int; let ks = keys_of(classes);
    lemma_emitted_class_section_is_strictly_sorted(ts, recs, classes);
    axiom_btree_str_order(classes);
    assert forall|i: int| 0 <= i < c.classes@.len() implies wf_class(c, #[trigger] c.classes@[i]) by {
        let key = ks[i];
        let cl = c.classes@[i];
        assert(cl == emitted_class(cs, i));
        assert(bmap(classes).contains_key(key) && bmap(classes)[key] == cs[i]);
        lemma_class_of_key(ts, recs, classes, key);
        lemma_members_of_every_collected_class_are_sorted_by_name(ts, recs, classes, key);
        lemma_by_params_records_of_every_collected_class_are_sorted(ts, recs, classes, key);
        lemma_tiling(cs, n, i);
        lemma_members_before(cs, i);
        lemma_members_before(cs, n);
        assert(wf_cip(cs[i]));
        let fm = flat(vals(cs[i].members)); let fb = flat(vals(cs[i].members_by_params));
        assert(cl.members_offset as int == members_before(cs, i) && cl.members_len as int == fm.len());
        assert(cl.members_by_params_offset as int == by_params_before(cs, i) && cl.members_by_params_len as int == fb.len());
        assert(class_members(c, cl) == fm);
        assert(class_members_by_params(c, cl) == fb);
        assert forall|k: int| 0 <= k < fm.len() implies wf_member(sb, #[trigger] fm[k]) by { assert(member_ok(tn, fm[k])); }
        assert forall|k: int| 0 <= k < fb.len() implies wf_member(sb, #[trigger] fb[k]) by { assert(member_ok(tn, fb[k])); }
        assert forall|x: int, y: int| 0 <= x < fm.len() && 0 <= y < fm.len()
            && tbl(sb, (#[trigger] fm[x]).original_name_offset) == tbl(sb, (#[trigger] fm[y]).original_name_offset) implies fm[x].original_name_offset == fm[y].original_name_offset by {
            assert(member_ok(tn, fm[x]) && member_ok(tn, fm[y]));
        }
    }
}


// ======== C01, last clause: the mapper does not depend on the order of distinctly named class blocks ========
pub open spec fn is_class_rec<'s>(r: ProguardRecord<'s>) -> bool { r is Class }
// a block: one class record followed by records that are not class records
pub open spec fn is_block<'s>(b: Seq<ProguardRecord<'s>>) -> bool { b.len() >= 1 && is_class_rec(b[0]) && forall|i: int| 1 <= i < b.len() ==> !is_class_rec(#[trigger] b[i]) }
pub open spec fn after_of<'a, 's>(seg: Seq<ProguardRecord<'s>>, after: Option<&'a ProguardRecord<'s>>, n: int) -> Option<&'a ProguardRecord<'s>> { if 0 <= n < seg.len() { Some(&seg[n]) } else { after } }
// the builder state after the first n records of `seg`, started in state s; `after` is the record that follows the segment (look-ahead)
pub open spec fn fold_from<'a, 's>(s: AState<'s>, seg: Seq<ProguardRecord<'s>>, after: Option<&'a ProguardRecord<'s>>, init: bool, n: int) -> AState<'s>
    decreases n
{ if n <= 0 { s } else { astep(fold_from(s, seg, after, init, n - 1), init, seg[n - 1], after_of(seg, after, n)) } }

pub proof fn lemma_run_is_fold<'s>(recs: Seq<ProguardRecord<'s>>, init: bool, n: int)
    requires 0 <= n <= recs.len(),
    ensures run(recs, init, n) == fold_from(start_state(), recs, None, init, n),
    decreases n
{ if n > 0 { lemma_run_is_fold(recs, init, n - 1); } }

// folding over a concatenation = folding over the first part (looking ahead into the second), then over the second
pub proof fn lemma_fold_concat<'a, 's>(s: AState<'s>, x: Seq<ProguardRecord<'s>>, y: Seq<ProguardRecord<'s>>, after: Option<&'a ProguardRecord<'s>>, init: bool, n: int)
    requires 0 <= n <= y.len(),
    ensures fold_from(s, x + y, after, init, x.len() + n) == fold_from(fold_from(s, x, after_of(y, after, 0), init, x.len() as int), y, after, init, n),
    decreases n
{
    let xy = x + y;
    if n == 0 {
        lemma_fold_prefix(s, x, y, after, init, x.len() as int);
    } else {
        lemma_fold_concat(s, x, y, after, init, n - 1);
        assert(xy[x.len() + n - 1] == y[n - 1]);
        assert(after_of(xy, after, x.len() + n) == after_of(y, after, n)) by { if n < y.len() { assert(xy[x.len() + n] == y[n]); } }
    }
}
pub proof fn lemma_fold_prefix<'a, 's>(s: AState<'s>, x: Seq<ProguardRecord<'s>>, y: Seq<ProguardRecord<'s>>, after: Option<&'a ProguardRecord<'s>>, init: bool, k: int)
    requires 0 <= k <= x.len(),
    ensures fold_from(s, x + y, after, init, k) == fold_from(s, x, after_of(y, after, 0), init, k),
    decreases k
{
    let xy = x + y;
    if k > 0 {
        lemma_fold_prefix(s, x, y, after, init, k - 1);
        assert(xy[k - 1] == x[k - 1]);
        assert(after_of(xy, after, k) == after_of(x, after_of(y, after, 0), k)) by {
            if k < x.len() { assert(xy[k] == x[k]); } else if y.len() > 0 { assert(xy[k] == y[0]); }
        }
    }
}
// what a block does to the state: the class in progress is finished (flush), and the new class in progress and the de-duplication set depend on the
// block alone -- not on the state before it, and not on what follows as long as that is not a method record
pub open spec fn fresh_state<'s>() -> AState<'s> { start_state() }
pub proof fn lemma_block_from_any_state<'a, 's>(s: AState<'s>, t: AState<'s>, b: Seq<ProguardRecord<'s>>, after1: Option<&'a ProguardRecord<'s>>, after2: Option<&'a ProguardRecord<'s>>, init: bool, n: int)
    requires is_block(b), 1 <= n <= b.len(),
        !(after1 is Some && *after1->0 is Method), !(after2 is Some && *after2->0 is Method),
    ensures
        fold_from(s, b, after1, init, n).cur == fold_from(t, b, after2, init, n).cur,
        fold_from(s, b, after1, init, n).seen == fold_from(t, b, after2, init, n).seen,
        fold_from(s, b, after1, init, n).done == flush(s.done, s.cur),
    decreases n
{
    if n > 1 {
        lemma_block_from_any_state(s, t, b, after1, after2, init, n - 1);
        assert(!is_class_rec(b[n - 1]));
        let s1 = fold_from(s, b, after1, init, n - 1); let t1 = fold_from(t, b, after2, init, n - 1);
        match b[n - 1] {
            ProguardRecord::Method { ty, original, obfuscated, arguments, original_class, line_mapping } => {
                assert(is_inlined_callee(line_mapping, after_of(b, after1, n)) == is_inlined_callee(line_mapping, after_of(b, after2, n)));
            },
            _ => {},
        }
    } else {
        assert(is_class_rec(b[0]));
    }
}

pub proof fn lemma_fold_after_nonmethod<'a, 's>(s: AState<'s>, seg: Seq<ProguardRecord<'s>>, after1: Option<&'a ProguardRecord<'s>>, after2: Option<&'a ProguardRecord<'s>>, init: bool, n: int)
    requires 0 <= n <= seg.len(), !(after1 is Some && *after1->0 is Method), !(after2 is Some && *after2->0 is Method),
    ensures fold_from(s, seg, after1, init, n) == fold_from(s, seg, after2, init, n),
    decreases n
{
    if n > 0 {
        lemma_fold_after_nonmethod(s, seg, after1, after2, init, n - 1);
        match seg[n - 1] {
            ProguardRecord::Method { ty, original, obfuscated, arguments, original_class, line_mapping } => {
                assert(is_inlined_callee(line_mapping, after_of(seg, after1, n)) == is_inlined_callee(line_mapping, after_of(seg, after2, n)));
            },
            _ => {},
        }
    }
}
// once a class record has been processed, only `flush(done, cur)` of the state before it matters
pub proof fn lemma_fold_same_after_class<'a, 's>(s: AState<'s>, t: AState<'s>, seg: Seq<ProguardRecord<'s>>, after: Option<&'a ProguardRecord<'s>>, init: bool, n: int)
    requires 1 <= n <= seg.len(), is_class_rec(seg[0]), flush(s.done, s.cur) == flush(t.done, t.cur),
    ensures fold_from(s, seg, after, init, n) == fold_from(t, seg, after, init, n),
    decreases n
{
    if n > 1 { lemma_fold_same_after_class(s, t, seg, after, init, n - 1); }
    else {
        assert(fold_from(s, seg, after, init, 0) == s && fold_from(t, seg, after, init, 0) == t);
        match seg[0] { ProguardRecord::Class { original, obfuscated } => {}, _ => {} }
    }
}
pub open spec fn block_key<'s>(b: Seq<ProguardRecord<'s>>) -> &'s str { match b[0] { ProguardRecord::Class { original, obfuscated } => obfuscated, _ => "" } }
pub proof fn lemma_flush_commutes<'s>(d: Map<&'s str, AClass<'s>>, c1: AClass<'s>, c2: AClass<'s>)
    requires c1.obfuscated != c2.obfuscated,
    ensures flush(flush(d, c1), c2) == flush(flush(d, c2), c1),
{
    assert(flush(flush(d, c1), c2) =~= flush(flush(d, c2), c1));
}
pub proof fn lemma_block_cur_key<'a, 's>(s: AState<'s>, b: Seq<ProguardRecord<'s>>, after: Option<&'a ProguardRecord<'s>>, init: bool, n: int)
    requires is_block(b), 1 <= n <= b.len(),
    ensures fold_from(s, b, after, init, n).cur.obfuscated == block_key(b),
    decreases n
{
    if n > 1 { lemma_block_cur_key(s, b, after, init, n - 1); assert(!is_class_rec(b[n - 1])); }
}

// THE ORDER OF TWO NEIGHBOURING, DISTINCTLY NAMED CLASS BLOCKS DOES NOT MATTER (what comes before and after them is arbitrary, except that what follows starts
// with a class record or is empty, i.e. the two blocks are complete)
pub proof fn lemma_order_of_distinctly_named_class_blocks_does_not_matter<'s>(pre: Seq<ProguardRecord<'s>>, b1: Seq<ProguardRecord<'s>>, b2: Seq<ProguardRecord<'s>>,
        post: Seq<ProguardRecord<'s>>, init: bool)
    requires is_block(b1), is_block(b2), post.len() == 0 || is_class_rec(post[0]), block_key(b1) != block_key(b2),
    ensures /*@L:mapper_does_not_depend_on_the_order_of_distinctly_named_class_blocks:C01*/ built(pre + b1 + b2 + post, init) == built(pre + b2 + b1 + post, init),
{
    let r12 = pre + b1 + b2 + post; let r21 = pre + b2 + b1 + post;
    let s0 = start_state::<'s>();
    let aft = after_of(post, None, 0);
    let l = pre.len() as int; let n1 = b1.len() as int; let n2 = b2.len() as int; let np = post.len() as int;
    lemma_run_is_fold(r12, init, r12.len() as int);
    lemma_run_is_fold(r21, init, r21.len() as int);
    // decompose both folds: ((pre + bX) + bY) + post
    lemma_fold_concat(s0, pre + b1 + b2, post, None, init, np);
    lemma_fold_concat(s0, pre + b1, b2, aft, init, n2);
    lemma_fold_concat(s0, pre, b1, after_of(b2, aft, 0), init, n1);
    lemma_fold_concat(s0, pre + b2 + b1, post, None, init, np);
    lemma_fold_concat(s0, pre + b2, b1, aft, init, n1);
    lemma_fold_concat(s0, pre, b2, after_of(b1, aft, 0), init, n2);
    let a_b1 = after_of(b1, after_of(b2, aft, 0), 0); let a_b2 = after_of(b2, after_of(b1, aft, 0), 0);
    assert(a_b1 == Some(&b1[0]) && a_b2 == Some(&b2[0]));
    // the state after `pre` is the same in both orders (the look-ahead is a class record either way)
    let sp1 = fold_from(s0, pre, a_b1, init, l); let sp2 = fold_from(s0, pre, a_b2, init, l);
    lemma_fold_after_nonmethod(s0, pre, a_b1, a_b2, init, l);
    assert(sp1 == sp2);
    // order 1: pre, b1, b2      order 2: pre, b2, b1
    let x1 = fold_from(sp1, b1, after_of(b2, aft, 0), init, n1);
    let x12 = fold_from(x1, b2, aft, init, n2);
    let y2 = fold_from(sp2, b2, after_of(b1, aft, 0), init, n2);
    let y21 = fold_from(y2, b1, aft, init, n1);
    assert(after_of(b2, aft, 0) == Some(&b2[0]) && after_of(b1, aft, 0) == Some(&b1[0]));
    assert(!(aft is Some && *aft->0 is Method)) by { if post.len() > 0 { assert(aft == Some(&post[0])); } }
    lemma_block_from_any_state(sp1, y2, b1, after_of(b2, aft, 0), aft, init, n1);      // C1, X1 the same wherever b1 stands
    lemma_block_from_any_state(sp2, x1, b2, after_of(b1, aft, 0), aft, init, n2);      // C2, X2 likewise
    lemma_block_from_any_state(x1, x1, b2, aft, aft, init, n2);
    lemma_block_from_any_state(y2, y2, b1, aft, aft, init, n1);
    lemma_block_cur_key(sp1, b1, after_of(b2, aft, 0), init, n1);
    lemma_block_cur_key(sp2, b2, after_of(b1, aft, 0), init, n2);
    let d0 = flush(sp1.done, sp1.cur);
    assert(x12.done == flush(d0, x1.cur) && x12.cur == y2.cur);
    assert(y21.done == flush(d0, y2.cur) && y21.cur == x1.cur);
    lemma_flush_commutes(d0, x1.cur, y2.cur);
    assert(flush(x12.done, x12.cur) == flush(y21.done, y21.cur));
    if np == 0 {
        assert(r12 =~= pre + b1 + b2 && r21 =~= pre + b2 + b1);
    } else {
        lemma_fold_same_after_class(x12, y21, post, None, init, np);
    }
}


// ======== `ProguardCache::test()` accepts every cache written from a mapping (its precondition in unit u9 holds) ========
pub open spec fn params_readable(tn: StringTable, m: Member) -> bool { tbl(table_bytes(tn), m.params_offset) is Some }
pub proof fn lemma_members_upto_is_members_before(cs: Seq<ClassInProgress>, n: int, i: int)
    requires 0 <= i <= n <= cs.len(), forall|k: int| 0 <= k < cs.len() ==> wf_cip(#[trigger] cs[k]),
    ensures members_upto(emitted_classes(cs, n), i) == members_before(cs, i),
    decreases i
{
    if i > 0 {
        lemma_members_upto_is_members_before(cs, n, i - 1);
        assert(emitted_classes(cs, n)[i - 1] == emitted_class(cs, i - 1));
        assert(wf_cip(cs[i - 1]));
    }
}
pub proof fn lemma_self_test_accepts_every_written_cache<'s>(ts: Seq<StringTable>, recs: Seq<ProguardRecord<'s>>,
        classes: BTreeMap<&'s str, ClassInProgress<'s>>, c: ProguardCache)
    requires
        tables_ok(ts, recs, recs.len() as int), recs_ok(ts[recs.len() as int], recs), recs_names_ok(ts[recs.len() as int], recs), table_ok(ts[recs.len() as int]),
        abs_done(bmap(classes)) == w_flush(w_run(ts, recs, recs.len() as int).done, w_run(ts, recs, recs.len() as int).cur),
        forall|i: int| 0 <= i < vals(classes).len() ==> wf_cip(#[trigger] vals(classes)[i]),
        all_members(vals(classes), vals(classes).len() as int).len() <= u32::MAX, all_by_params(vals(classes), vals(classes).len() as int).len() <= u32::MAX,
        c.classes@ == emitted_classes(vals(classes), vals(classes).len() as int),
        c.members@ == all_members(vals(classes), vals(classes).len() as int),
        c.members_by_params@ == all_by_params(vals(classes), vals(classes).len() as int),
        c.string_bytes@ == table_bytes(ts[recs.len() as int]),
    ensures
        /*@L:self_test_precondition_holds_for_every_written_cache:C09*/ wf_for_selftest(c),
{
    let nn = recs.len() as int; let tn = ts[nn]; let sb = table_bytes(tn);
    let cs = vals(classes); let n = cs.len() as int; let ks = keys_of(classes);
    lemma_cache_written_from_a_mapping_satisfies_the_readers_invariant(ts, recs, classes, c);
    lemma_emitted_class_section_is_strictly_sorted(ts, recs, classes);
    lemma_mapper_and_cache_writer_collect_the_same_entries(ts, recs);
    lemma_names_run(ts, recs, nn);
    axiom_btree_str_order(classes);
    let m = built(recs, true); let ws = w_run(ts, recs, nn); let w = w_flush(ws.done, ws.cur);
    assert forall|i: int| 0 <= i < c.classes@.len() implies
        tbl(sb, (#[trigger] c.classes@[i]).obfuscated_name_offset) is Some && tbl(sb, c.classes@[i].original_name_offset) is Some
        && (c.classes@[i].file_name_offset != absent() ==> tbl(sb, c.classes@[i].file_name_offset) is Some)
        && c.classes@[i].members_offset as int == members_upto(c.classes@, i) by {
        let key = ks[i];
        assert(c.classes@[i] == emitted_class(cs, i));
        assert(bmap(classes).contains_key(key) && bmap(classes)[key] == cs[i]);
        assert(wf_class(c, c.classes@[i]));
        assert(abs_done(bmap(classes)).contains_key(key) && abs_done(bmap(classes))[key] == abs_cip(cs[i]));
        assert(w.contains_key(key) && m.contains_key(key));
        assert(rel_class(tn, m[key], w[key]));
        assert(w[key].class == cs[i].class);
        match m[key].file_name { Some(f) => { assert(resolves(tn, f@)); }, None => {} }
        lemma_members_upto_is_members_before(cs, n, i);
        lemma_members_before(cs, i);
        lemma_members_before(cs, n);
        lemma_tiling(cs, n, i);
    }
    lemma_members_upto_is_members_before(cs, n, n);
    lemma_members_before(cs, n);
    // every member record: readable strings, including the parameter string
    assert forall|k: int| 0 <= k < c.members@.len() implies selftest_member_ok(sb, #[trigger] c.members@[k]) by {
        lemma_member_in_some_class(ts, recs, classes, k);
    }
}
// every record of the member section belongs to one collected class, hence satisfies member_ok and has a readable parameter string
pub proof fn lemma_member_in_some_class<'s>(ts: Seq<StringTable>, recs: Seq<ProguardRecord<'s>>, classes: BTreeMap<&'s str, ClassInProgress<'s>>, k: int)
    requires
        tables_ok(ts, recs, recs.len() as int), recs_ok(ts[recs.len() as int], recs), recs_names_ok(ts[recs.len() as int], recs), table_ok(ts[recs.len() as int]),
        abs_done(bmap(classes)) == w_flush(w_run(ts, recs, recs.len() as int).done, w_run(ts, recs, recs.len() as int).cur),
        0 <= k < all_members(vals(classes), vals(classes).len() as int).len(),
    ensures selftest_member_ok(table_bytes(ts[recs.len() as int]), all_members(vals(classes), vals(classes).len() as int)[k]),
{
    let cs = vals(classes);
    lemma_all_members_ok(ts, recs, classes, cs.len() as int, k);
}
pub proof fn lemma_all_members_ok<'s>(ts: Seq<StringTable>, recs: Seq<ProguardRecord<'s>>, classes: BTreeMap<&'s str, ClassInProgress<'s>>, n: int, k: int)
    requires
        tables_ok(ts, recs, recs.len() as int), recs_ok(ts[recs.len() as int], recs), recs_names_ok(ts[recs.len() as int], recs), table_ok(ts[recs.len() as int]),
        abs_done(bmap(classes)) == w_flush(w_run(ts, recs, recs.len() as int).done, w_run(ts, recs, recs.len() as int).cur),
        0 <= n <= vals(classes).len(), 0 <= k < all_members(vals(classes), n).len(),
    ensures selftest_member_ok(table_bytes(ts[recs.len() as int]), all_members(vals(classes), n)[k]),
    decreases n
{
    let nn = recs.len() as int; let tn = ts[nn]; let sb = table_bytes(tn);
    let cs = vals(classes); let ks = keys_of(classes);
    if n > 0 {
        let prev = all_members(cs, n - 1); let f = flat(vals(cs[n - 1].members));
        assert(all_members(cs, n) == prev + f);
        if k < prev.len() { lemma_all_members_ok(ts, recs, classes, n - 1, k); assert(all_members(cs, n)[k] == prev[k]); }
        else {
            axiom_btree_str_order(classes);
            let key = ks[n - 1];
            assert(bmap(classes).contains_key(key) && bmap(classes)[key] == cs[n - 1]);
            lemma_class_of_key(ts, recs, classes, key);
            let x = k - prev.len();
            assert(all_members(cs, n)[k] == f[x]);
            assert(member_ok(tn, f[x]));
            // the parameter string: every record under a method-name key carries a readable parameter offset
            lemma_params_readable(ts, recs, classes, key, x);
        }
    }
}
pub open spec fn cip_params_ok<'s>(tn: StringTable, w: ACip<'s>) -> bool {
    forall|k: &'s str, i: int| 0 <= i < (w.members)(k).len() ==> params_readable(tn, #[trigger] (w.members)(k)[i])
}
pub open spec fn params_state<'s>(tn: StringTable, w: AWState<'s>) -> bool {
    cip_params_ok(tn, w.cur) && forall|k: &'s str| #[trigger] w.done.contains_key(k) ==> cip_params_ok(tn, w.done[k])
}
pub proof fn lemma_params_step<'s>(tn: StringTable, w: AWState<'s>, tf: StringTable, rec: ProguardRecord<'s>, next: Option<&ProguardRecord<'s>>)
    requires params_state(tn, w), stable(tf, tn), rec_names_ok(tn, rec), strings_in(tf, rec),
    ensures params_state(tn, w_step(w, tf, rec, next)),
{
    let w1 = w_step(w, tf, rec, next);
    match rec {
        ProguardRecord::Header { key, value } => {
            assert forall|k: &'s str, i: int| 0 <= i < (w1.cur.members)(k).len() implies params_readable(tn, #[trigger] (w1.cur.members)(k)[i]) by { assert((w1.cur.members)(k) == (w.cur.members)(k)); }
        },
        ProguardRecord::Class { original, obfuscated } => {
            assert forall|k: &'s str, i: int| 0 <= i < (w1.cur.members)(k).len() implies params_readable(tn, #[trigger] (w1.cur.members)(k)[i]) by { assert((w1.cur.members)(k) == Seq::<Member>::empty()); }
            assert forall|k: &'s str| #[trigger] w1.done.contains_key(k) implies cip_params_ok(tn, w1.done[k]) by {
                if w.cur.name@.len() > 0 && k == w.cur.name { } else { assert(w.done.contains_key(k)); }
            }
        },
        ProguardRecord::Method { ty, original, obfuscated, arguments, original_class, line_mapping } => {
            let ss = strings_of(rec);
            assert(ss[2] == arguments@);
            assert(offset_of(tf, arguments@) is Some);
            assert forall|k: &'s str, i: int| 0 <= i < (w1.cur.members)(k).len() implies params_readable(tn, #[trigger] (w1.cur.members)(k)[i]) by {
                if k == obfuscated { if i < (w.cur.members)(k).len() { assert((w1.cur.members)(k)[i] == (w.cur.members)(k)[i]); } } else { assert((w1.cur.members)(k) == (w.cur.members)(k)); }
            }
        },
        _ => {},
    }
}
pub proof fn lemma_params_run<'s>(ts: Seq<StringTable>, recs: Seq<ProguardRecord<'s>>, n: int)
    requires tables_ok(ts, recs, recs.len() as int), recs_names_ok(ts[recs.len() as int], recs), 0 <= n <= recs.len(),
    ensures params_state(ts[recs.len() as int], w_run(ts, recs, n)),
    decreases n
{
    let nn = recs.len() as int; let tn = ts[nn];
    if n > 0 {
        lemma_params_run(ts, recs, n - 1);
        lemma_tables_stable(ts, recs, nn, n);
        assert(table_grew(ts[n - 1], ts[n], strings_of(recs[n - 1])));
        assert(rec_names_ok(tn, recs[n - 1]));
        lemma_params_step(tn, w_run(ts, recs, n - 1), ts[n], recs[n - 1], next_of(recs, n));
    }
}
pub proof fn lemma_params_readable<'s>(ts: Seq<StringTable>, recs: Seq<ProguardRecord<'s>>, classes: BTreeMap<&'s str, ClassInProgress<'s>>, key: &'s str, x: int)
    requires
        tables_ok(ts, recs, recs.len() as int), recs_names_ok(ts[recs.len() as int], recs),
        abs_done(bmap(classes)) == w_flush(w_run(ts, recs, recs.len() as int).done, w_run(ts, recs, recs.len() as int).cur),
        bmap(classes).contains_key(key), 0 <= x < flat(vals(bmap(classes)[key].members)).len(),
    ensures params_readable(ts[recs.len() as int], flat(vals(bmap(classes)[key].members))[x]),
{
    let nn = recs.len() as int; let tn = ts[nn];
    lemma_params_run(ts, recs, nn);
    let ws = w_run(ts, recs, nn); let w = w_flush(ws.done, ws.cur);
    let c = bmap(classes)[key];
    assert(abs_done(bmap(classes)).contains_key(key) && abs_done(bmap(classes))[key] == abs_cip(c));
    assert(w.contains_key(key));
    if ws.cur.name@.len() > 0 && key == ws.cur.name { assert(w[key] == ws.cur); } else { assert(ws.done.contains_key(key)); assert(w[key] == ws.done[key]); }
    assert(cip_params_ok(tn, w[key]));
    axiom_btree_str_order(c.members);
    let g1 = vals(c.members); let k1 = keys_of(c.members);
    assert forall|g: int, i: int| 0 <= g < g1.len() && 0 <= i < g1[g]@.len() implies params_readable(tn, #[trigger] g1[g]@[i]) by {
        let k = k1[g];
        assert(bmap(c.members).contains_key(k) && bmap(c.members)[k] == g1[g]);
        assert((abs_cip(c).members)(k) == vec_at(c.members, k));
        assert((w[key].members)(k) == g1[g]@);
        assert(params_readable(tn, (w[key].members)(k)[i]));
    }
    lemma_flat_all(g1, |m: Member| params_readable(tn, m));
}

// the hypotheses are satisfiable whenever the table resolves the record's strings (no contradiction hidden in the requires)
pub proof fn lemma_same_entry_instance(t: StringTable, original: &str)
    requires resolves(t, original@),
    ensures abs_member(table_bytes(t), stored_member(None, t, original, original, None, original, absent())).orig_method == original@,
{
    lemma_builders_store_the_same_abstract_entry(None, t, original, original, None, original, None, absent());
}

"""


DECL = r"""
// ======== what the fold stores, said WITHOUT the fold (C01: one entry per method record of the class, in file order; C03: the by-params index holds the
// first occurrence of every (name, arguments, original name) among the records that are not inlined callees; nothing leaks between blocks) ========
// the source file in force after the first n records of block b: the value of the last `sourceFile` header among b[1..n)
pub open spec fn file_at<'s>(b: Seq<ProguardRecord<'s>>, n: int) -> Option<&'s str>
    decreases n
{
    if n <= 1 { None } else {
        match b[n - 1] {
            ProguardRecord::Header { key, value } => if key@ == "sourceFile"@ { value } else { file_at(b, n - 1) },
            _ => file_at(b, n - 1),
        }
    }
}
pub open spec fn rec_name<'s>(r: ProguardRecord<'s>) -> &'s str { match r { ProguardRecord::Method { obfuscated, .. } => obfuscated, _ => "" } }
pub open spec fn rec_args<'s>(r: ProguardRecord<'s>) -> &'s str { match r { ProguardRecord::Method { arguments, .. } => arguments, _ => "" } }
pub open spec fn rec_orig<'s>(r: ProguardRecord<'s>) -> &'s str { match r { ProguardRecord::Method { original, .. } => original, _ => "" } }
pub open spec fn rec_lm<'s>(r: ProguardRecord<'s>) -> Option<LineMapping> { match r { ProguardRecord::Method { line_mapping, .. } => line_mapping, _ => None } }
pub open spec fn rec_key<'s>(r: ProguardRecord<'s>) -> (&'s str, &'s str, &'s str) { (rec_name(r), rec_args(r), rec_orig(r)) }
// the entry a method record denotes, given the source file in force where it stands
pub open spec fn rec_entry<'s>(r: ProguardRecord<'s>, file: Option<&'s str>) -> MemberMapping<'s> {
    match r {
        ProguardRecord::Method { original, original_class, line_mapping, .. } => stored_entry(line_mapping, original_class, original, file),
        _ => stored_entry(None, None, "", file),
    }
}
pub open spec fn is_method_named<'s>(r: ProguardRecord<'s>, m: &'s str) -> bool { r is Method && rec_name(r) == m }
// C01: the entries of obfuscated method m among the first n records of the block -- one per method record with that name, in file order
pub open spec fn entries_of<'s>(b: Seq<ProguardRecord<'s>>, m: &'s str, n: int) -> Seq<MemberMapping<'s>>
    decreases n
{
    if n <= 1 { Seq::empty() } else {
        let p = entries_of(b, m, n - 1);
        if is_method_named(b[n - 1], m) { p.push(rec_entry(b[n - 1], file_at(b, n - 1))) } else { p }
    }
}
// C03: record i of the block is a method record that is not an inlined callee (the record after it does not repeat its obfuscated range)
pub open spec fn counted<'a, 's>(b: Seq<ProguardRecord<'s>>, after: Option<&'a ProguardRecord<'s>>, i: int) -> bool {
    b[i] is Method && !is_inlined_callee(rec_lm(b[i]), after_of(b, after, i + 1))
}
// ... and no earlier such record of the block has the same (obfuscated name, arguments, original name)
pub open spec fn first_real<'a, 's>(b: Seq<ProguardRecord<'s>>, after: Option<&'a ProguardRecord<'s>>, i: int) -> bool {
    counted(b, after, i) && forall|j: int| 1 <= j < i && #[trigger] counted(b, after, j) ==> rec_key(b[j]) != rec_key(b[i])
}
pub open spec fn in_by<'a, 's>(b: Seq<ProguardRecord<'s>>, after: Option<&'a ProguardRecord<'s>>, m: &'s str, a: &'s str, i: int) -> bool {
    is_method_named(b[i], m) && rec_args(b[i]) == a && first_real(b, after, i)
}
pub open spec fn by_entries_of<'a, 's>(b: Seq<ProguardRecord<'s>>, after: Option<&'a ProguardRecord<'s>>, m: &'s str, a: &'s str, n: int) -> Seq<MemberMapping<'s>>
    decreases n
{
    if n <= 1 { Seq::empty() } else {
        let p = by_entries_of(b, after, m, a, n - 1);
        if in_by(b, after, m, a, n - 1) { p.push(rec_entry(b[n - 1], file_at(b, n - 1))) } else { p }
    }
}
pub open spec fn seen_upto<'a, 's>(b: Seq<ProguardRecord<'s>>, after: Option<&'a ProguardRecord<'s>>, n: int, k: (&'s str, &'s str, &'s str)) -> bool {
    exists|j: int| 1 <= j < n && #[trigger] counted(b, after, j) && rec_key(b[j]) == k
}

// the fold over a block, characterised: file in force, de-duplication set, per-name entry list, per-(name, arguments) index
pub proof fn lemma_block_file_and_seen<'a, 's>(s: AState<'s>, b: Seq<ProguardRecord<'s>>, after: Option<&'a ProguardRecord<'s>>, n: int, k: (&'s str, &'s str, &'s str))
    requires is_block(b), 1 <= n <= b.len(),
    ensures
        fold_from(s, b, after, true, n).cur.file_name == file_at(b, n),
        fold_from(s, b, after, false, n).cur.file_name == file_at(b, n),
        fold_from(s, b, after, true, n).seen.contains(k) <==> seen_upto(b, after, n, k),
    decreases n
{
    if n > 1 {
        lemma_block_file_and_seen(s, b, after, n - 1, k);
        assert(!is_class_rec(b[n - 1]));
        let s1 = fold_from(s, b, after, true, n - 1);
        let s2 = fold_from(s, b, after, true, n);
        if seen_upto(b, after, n - 1, k) {
            let j = choose|j: int| 1 <= j < n - 1 && #[trigger] counted(b, after, j) && rec_key(b[j]) == k;
            assert(1 <= j < n && counted(b, after, j) && rec_key(b[j]) == k);
        }
        if counted(b, after, n - 1) && rec_key(b[n - 1]) == k { assert(seen_upto(b, after, n, k)); }
        if seen_upto(b, after, n, k) {
            let j = choose|j: int| 1 <= j < n && #[trigger] counted(b, after, j) && rec_key(b[j]) == k;
            if j < n - 1 { assert(seen_upto(b, after, n - 1, k)); }
        }
        match b[n - 1] {
            ProguardRecord::Method { ty, original, obfuscated, arguments, original_class, line_mapping } => {
                assert(rec_key(b[n - 1]) == (obfuscated, arguments, original));
                assert(s2.seen == method_seen(s1.seen, true, line_mapping, obfuscated, original, arguments, after_of(b, after, n)));
            },
            _ => { assert(!counted(b, after, n - 1)); },
        }
    } else {
        assert(is_class_rec(b[0]));
        assert(!seen_upto(b, after, 1, k));
    }
}

pub proof fn lemma_block_entries<'a, 's>(s: AState<'s>, b: Seq<ProguardRecord<'s>>, after: Option<&'a ProguardRecord<'s>>, init: bool, n: int, m: &'s str)
    requires is_block(b), 1 <= n <= b.len(),
    ensures
        members_of(fold_from(s, b, after, init, n).cur, m).all == entries_of(b, m, n),
        fold_from(s, b, after, init, n).cur.members.contains_key(m) <==> entries_of(b, m, n).len() > 0,
    decreases n
{
    if n > 1 {
        lemma_block_entries(s, b, after, init, n - 1, m);
        lemma_block_file_and_seen(s, b, after, n - 1, (m, m, m));
        assert(!is_class_rec(b[n - 1]));
        let s1 = fold_from(s, b, after, init, n - 1);
        match b[n - 1] {
            ProguardRecord::Method { ty, original, obfuscated, arguments, original_class, line_mapping } => {
                assert(s1.cur.file_name == file_at(b, n - 1));
            },
            _ => {},
        }
    } else {
        assert(is_class_rec(b[0]));
    }
}

pub proof fn lemma_block_by_params<'a, 's>(s: AState<'s>, b: Seq<ProguardRecord<'s>>, after: Option<&'a ProguardRecord<'s>>, n: int, m: &'s str, a: &'s str)
    requires is_block(b), 1 <= n <= b.len(),
    ensures
        by_of(members_of(fold_from(s, b, after, true, n).cur, m), a) == by_entries_of(b, after, m, a, n),
        by_of(members_of(fold_from(s, b, after, false, n).cur, m), a) == Seq::<MemberMapping<'s>>::empty(),
    decreases n
{
    if n > 1 {
        lemma_block_by_params(s, b, after, n - 1, m, a);
        assert(!is_class_rec(b[n - 1]));
        let s1 = fold_from(s, b, after, true, n - 1);
        match b[n - 1] {
            ProguardRecord::Method { ty, original, obfuscated, arguments, original_class, line_mapping } => {
                let k = (obfuscated, arguments, original);
                lemma_block_file_and_seen(s, b, after, n - 1, k);
                assert(rec_key(b[n - 1]) == k);
                assert(s1.seen.contains(k) <==> seen_upto(b, after, n - 1, k));
                if counted(b, after, n - 1) {
                    if seen_upto(b, after, n - 1, k) {
                        let j = choose|j: int| 1 <= j < n - 1 && #[trigger] counted(b, after, j) && rec_key(b[j]) == k;
                        assert(!first_real(b, after, n - 1));
                    } else {
                        assert(first_real(b, after, n - 1)) by {
                            assert forall|j: int| 1 <= j < n - 1 && #[trigger] counted(b, after, j) implies rec_key(b[j]) != rec_key(b[n - 1]) by {
                                if rec_key(b[j]) == k { assert(seen_upto(b, after, n - 1, k)); }
                            }
                        }
                    }
                }
            },
            _ => {},
        }
    } else {
        assert(is_class_rec(b[0]));
    }
}

// C03, "inlined callees never appear, duplicates never appear": every entry of the index comes from a record that is not an inlined callee, and
// two entries under the same (name, arguments) have different original names
pub proof fn lemma_by_params_entries_come_from_first_real_records<'a, 's>(b: Seq<ProguardRecord<'s>>, after: Option<&'a ProguardRecord<'s>>, m: &'s str, a: &'s str, n: int, x: int)
    requires is_block(b), 1 <= n <= b.len(), 0 <= x < by_entries_of(b, after, m, a, n).len(),
    ensures /*@L:every_entry_of_the_parameter_index_comes_from_a_record_that_is_not_an_inlined_callee:C03*/
        exists|i: int| 1 <= i < n && #[trigger] in_by(b, after, m, a, i) && by_entries_of(b, after, m, a, n)[x] == rec_entry(b[i], file_at(b, i))
            && by_entries_of(b, after, m, a, n)[x].original == rec_orig(b[i]),
    decreases n
{
    if n > 1 {
        let p = by_entries_of(b, after, m, a, n - 1);
        if x < p.len() {
            lemma_by_params_entries_come_from_first_real_records(b, after, m, a, n - 1, x);
            let i = choose|i: int| 1 <= i < n - 1 && #[trigger] in_by(b, after, m, a, i) && p[x] == rec_entry(b[i], file_at(b, i)) && p[x].original == rec_orig(b[i]);
            assert(1 <= i < n && in_by(b, after, m, a, i));
        } else {
            assert(in_by(b, after, m, a, n - 1));
        }
    }
}
pub proof fn lemma_parameter_index_has_no_duplicates<'a, 's>(b: Seq<ProguardRecord<'s>>, after: Option<&'a ProguardRecord<'s>>, m: &'s str, a: &'s str, n: int, x: int, y: int)
    requires is_block(b), 1 <= n <= b.len(), 0 <= x < y < by_entries_of(b, after, m, a, n).len(),
    ensures /*@L:two_entries_under_the_same_name_and_arguments_have_different_original_names:C03*/
        by_entries_of(b, after, m, a, n)[x].original != by_entries_of(b, after, m, a, n)[y].original,
    decreases n
{
    if n > 1 {
        let p = by_entries_of(b, after, m, a, n - 1);
        if y < p.len() {
            lemma_parameter_index_has_no_duplicates(b, after, m, a, n - 1, x, y);
        } else {
            // y is the entry of record n-1, which is a first occurrence; x comes from an earlier counted record with the same name and arguments
            lemma_by_params_entries_come_from_first_real_records(b, after, m, a, n - 1, x);
            let i = choose|i: int| 1 <= i < n - 1 && #[trigger] in_by(b, after, m, a, i) && p[x] == rec_entry(b[i], file_at(b, i)) && p[x].original == rec_orig(b[i]);
            assert(in_by(b, after, m, a, n - 1));
            assert(counted(b, after, i));
            assert(rec_key(b[i]) != rec_key(b[n - 1]));
        }
    }
}
// ... and "one frame per distinct (name, arguments, original name)": every record that is not an inlined callee is represented
pub proof fn lemma_every_real_method_is_in_the_parameter_index<'a, 's>(b: Seq<ProguardRecord<'s>>, after: Option<&'a ProguardRecord<'s>>, n: int, i: int)
    requires is_block(b), 1 <= i < n <= b.len(), counted(b, after, i),
    ensures /*@L:every_method_record_that_is_not_an_inlined_callee_is_represented_in_the_parameter_index:C03*/
        exists|x: int| 0 <= x < by_entries_of(b, after, rec_name(b[i]), rec_args(b[i]), n).len()
            && (#[trigger] by_entries_of(b, after, rec_name(b[i]), rec_args(b[i]), n)[x]).original == rec_orig(b[i]),
    decreases n, i
{
    let m = rec_name(b[i]); let a = rec_args(b[i]);
    let q = by_entries_of(b, after, m, a, n);
    if i < n - 1 {
        lemma_every_real_method_is_in_the_parameter_index(b, after, n - 1, i);
        let p = by_entries_of(b, after, m, a, n - 1);
        let x = choose|x: int| 0 <= x < p.len() && (#[trigger] p[x]).original == rec_orig(b[i]);
        assert(q[x] == p[x]);
    } else {
        // i == n - 1
        if first_real(b, after, i) {
            assert(in_by(b, after, m, a, i));
            let x = q.len() - 1;
            assert(q[x].original == rec_orig(b[i]));
        } else {
            let j = choose|j: int| 1 <= j < i && #[trigger] counted(b, after, j) && rec_key(b[j]) == rec_key(b[i]);
            lemma_every_real_method_is_in_the_parameter_index(b, after, n - 1, j);
            let p = by_entries_of(b, after, m, a, n - 1);
            let x = choose|x: int| 0 <= x < p.len() && (#[trigger] p[x]).original == rec_orig(b[j]);
            assert(q[x] == p[x]);
        }
    }
}

// ---- from the block to the mapper: the class stored under a name is the one its LAST block denotes ----
pub open spec fn block_original<'s>(b: Seq<ProguardRecord<'s>>) -> &'s str { match b[0] { ProguardRecord::Class { original, obfuscated } => original, _ => "" } }
pub open spec fn no_class_named<'s>(seg: Seq<ProguardRecord<'s>>, k: &'s str) -> bool {
    forall|i: int| 0 <= i < seg.len() ==> match #[trigger] seg[i] { ProguardRecord::Class { original, obfuscated } => obfuscated != k, _ => true }
}
pub proof fn lemma_cur_keeps_name<'a, 's>(s: AState<'s>, seg: Seq<ProguardRecord<'s>>, after: Option<&'a ProguardRecord<'s>>, init: bool, n: int, k: &'s str, c: AClass<'s>)
    requires 0 <= n <= seg.len(), no_class_named(seg, k), s.cur.obfuscated != k, s.done.contains_key(k), s.done[k] == c,
    ensures ({ let t = fold_from(s, seg, after, init, n); t.cur.obfuscated != k && t.done.contains_key(k) && t.done[k] == c }),
    decreases n
{
    if n > 0 {
        lemma_cur_keeps_name(s, seg, after, init, n - 1, k, c);
        let t = fold_from(s, seg, after, init, n - 1);
        match seg[n - 1] {
            ProguardRecord::Class { original, obfuscated } => { assert(obfuscated != k); },
            _ => {},
        }
    }
}
pub proof fn lemma_block_original<'a, 's>(s: AState<'s>, b: Seq<ProguardRecord<'s>>, after: Option<&'a ProguardRecord<'s>>, init: bool, n: int)
    requires is_block(b), 1 <= n <= b.len(),
    ensures fold_from(s, b, after, init, n).cur.original == block_original(b),
    decreases n
{
    if n > 1 { lemma_block_original(s, b, after, init, n - 1); assert(!is_class_rec(b[n - 1])); }
}

// THE CLASS A MAPPING DENOTES UNDER AN OBFUSCATED NAME, IN TERMS OF RECORDS: take the last block with that name; its entry list for method m is one entry per
// method record named m, in file order, each with the file of the last sourceFile header before it; its parameter index for (m, a) is the first occurrences
// of the distinct original names among the records named m with arguments a that are not inlined callees. Nothing before the block has any influence.
pub proof fn lemma_class_content_is_what_the_records_of_its_last_block_say<'s>(pre: Seq<ProguardRecord<'s>>, b: Seq<ProguardRecord<'s>>, post: Seq<ProguardRecord<'s>>,
        init: bool, m: &'s str, a: &'s str)
    requires is_block(b), post.len() == 0 || is_class_rec(post[0]), no_class_named(post, block_key(b)), block_original(b)@.len() > 0,
    ensures /*@L:mapper_content_of_a_class_is_one_entry_per_method_record_of_its_last_block_in_file_order:C01,C03,C04*/ ({
        let all = built(pre + b + post, init);
        let k = block_key(b);
        let aft = after_of(post, None, 0);
        &&& all.contains_key(k)
        &&& all[k].original == block_original(b) && all[k].obfuscated == k
        &&& all[k].file_name == file_at(b, b.len() as int)
        &&& members_of(all[k], m).all == entries_of(b, m, b.len() as int)
        &&& (all[k].members.contains_key(m) <==> entries_of(b, m, b.len() as int).len() > 0)
        &&& by_of(members_of(all[k], m), a) == (if init { by_entries_of(b, aft, m, a, b.len() as int) } else { Seq::<MemberMapping<'s>>::empty() })
    }),
{
    let recs = pre + b + post;
    let s0 = start_state::<'s>();
    let aft = after_of(post, None, 0);
    let l = pre.len() as int; let nb = b.len() as int; let np = post.len() as int;
    let k = block_key(b);
    lemma_run_is_fold(recs, init, recs.len() as int);
    lemma_fold_concat(s0, pre + b, post, None, init, np);
    lemma_fold_concat(s0, pre, b, aft, init, nb);
    let sp = fold_from(s0, pre, after_of(b, aft, 0), init, l);
    let x = fold_from(sp, b, aft, init, nb);
    let fin = fold_from(x, post, None, init, np);
    assert(run(recs, init, recs.len() as int) == fin);
    lemma_block_cur_key(sp, b, aft, init, nb);
    lemma_block_original(sp, b, aft, init, nb);
    lemma_block_entries(sp, b, aft, init, nb, m);
    lemma_block_by_params(sp, b, aft, nb, m, a);
    lemma_block_file_and_seen(sp, b, aft, nb, (m, m, m));
    let c = x.cur;
    if np == 0 {
        assert(fin == x);
        assert(flush(x.done, x.cur)[k] == c);
    } else {
        // the first record of `post` is a class record: it files c under k; nothing later touches k
        let x1 = fold_from(x, post, None, init, 1);
        assert(fold_from(x, post, None, init, 0) == x);
        match post[0] { ProguardRecord::Class { original, obfuscated } => { assert(obfuscated != k); }, _ => {} }
        assert(x1.done == flush(x.done, x.cur) && x1.done.contains_key(k) && x1.done[k] == c && x1.cur.obfuscated != k);
        let rest = post.subrange(1, np);
        assert(post =~= post.subrange(0, 1) + rest);
        lemma_fold_concat(x, post.subrange(0, 1), rest, None, init, np - 1);
        assert(fold_from(x, post.subrange(0, 1), after_of(rest, None, 0), init, 1) == x1) by {
            assert(fold_from(x, post.subrange(0, 1), after_of(rest, None, 0), init, 0) == x);
            assert(post.subrange(0, 1)[0] == post[0]);
        }
        assert(no_class_named(rest, k)) by { assert forall|i: int| 0 <= i < rest.len() implies match #[trigger] rest[i] { ProguardRecord::Class { original, obfuscated } => obfuscated != k, _ => true } by { assert(rest[i] == post[i + 1]); } }
        lemma_cur_keeps_name(x1, rest, None, init, np - 1, k, c);
        assert(fin == fold_from(x1, rest, None, init, np - 1));
        assert(flush(fin.done, fin.cur)[k] == c);
    }
}
// the definitions above say what they are meant to say on a small block (and their hypotheses are satisfiable): a class record and the same method
// record twice, neither an inlined callee -- two entries in the per-name list, ONE in the parameter index
pub proof fn lemma_declarative_reading_instance<'s>(c: ProguardRecord<'s>, r: ProguardRecord<'s>)
    requires c is Class, r is Method, rec_lm(r) is None,
    ensures ({
        let b = seq![c, r, r];
        &&& is_block(b)
        &&& entries_of(b, rec_name(r), 3).len() == 2
        &&& by_entries_of(b, None, rec_name(r), rec_args(r), 3).len() == 1
        &&& by_entries_of(b, None, rec_name(r), rec_args(r), 3)[0].original == rec_orig(r)
    }),
{
    let b = seq![c, r, r];
    let m = rec_name(r); let a = rec_args(r);
    assert(b[0] == c && b[1] == r && b[2] == r);
    assert(is_block(b));
    reveal_with_fuel(entries_of, 4);
    reveal_with_fuel(by_entries_of, 4);
    assert(counted(b, None, 1) && counted(b, None, 2));
    assert(first_real(b, None, 1));
    assert(!first_real(b, None, 2));
    assert(in_by(b, None, m, a, 1) && !in_by(b, None, m, a, 2));
}
"""


def build():
    from . import u3_interpretation, u6_mapper_step, u6_writer_step
    import inspect
    u = Unit("u23_same_entry")
    u.raw(HEADER, "header")
    u.raw("use std::collections::{BTreeMap, HashMap, HashSet};\n", "glue")
    st = u.source("src/stacktrace.rs")
    mg = u.source("src/mapping.rs")
    mp = u.source("src/mapper.rs")
    raw = u.source("src/cache/raw.rs")
    extract_struct(u, st, "StackFrame")
    extract_struct(u, mg, "LineMapping", derive="#[derive(Copy, Clone)]")
    extract_struct_priv(u, mp, "MemberMapping")
    extract_struct(u, mg, "ProguardRecord", kind="enum")
    u.raw("pub mod raw {\nuse super::*;\n", "glue")
    extract_struct(u, raw, "Class")
    extract_struct(u, raw, "Member")
    extract_struct(u, raw, "Header")
    extract_struct(u, raw, "ProguardCache")
    u.raw("}\nuse raw::{Class, Member, Header, ProguardCache};\n", "glue")
    extract_struct_priv(u, raw, "ClassInProgress")
    u.raw(contract("model.rs"), "model (shared Entry / retrace)")
    cache_model = contract("cache_model.rs")
    mapper_model = contract("mapper_model.rs")
    writer_model = contract("writer_model.rs")
    std_specs = contract("std_specs.rs")
    w_src = inspect.getsource(u6_writer_step)
    m_src = inspect.getsource(u6_mapper_step)
    pieces = [
        cut(cache_model, r"pub uninterp spec fn tbl\b"),
        cut(cache_model, r"pub open spec fn absent\(\)"),
        cut(cache_model, r"pub open spec fn abs_member\b"),
        cut(mapper_model, r"pub open spec fn opt_int\b"),
        cut(mapper_model, r"pub open spec fn abs_mm\b"),
        cut(u3_interpretation.MODEL, r"pub struct Interp\b"),
        cut(u3_interpretation.MODEL, r"pub open spec fn interp\("),
        cut(u3_interpretation.MODEL, r"pub open spec fn lm_in_domain\b"),
        cut(u3_interpretation.MODEL, r"pub open spec fn interp_in_domain\b"),
        cut(u3_interpretation.MODEL, r"pub proof fn lemma_interp_domain\b"),
        cut(m_src, r"pub open spec fn opt_usize\b"),
        cut(m_src, r"pub open spec fn stored_entry<'s>"),
        cut(w_src, r"pub struct StringTable\b"),
        cut(contract("writer_model.rs"), r"pub uninterp spec fn table_bytes\b"),
        cut(w_src, r"pub uninterp spec fn offset_of\b"),
        cut(w_src, r"pub open spec fn off32\b"),
        cut(w_src, r"pub open spec fn stored_member\b"),
        # the two abstract folds (what the builders are proved against, u13 / u14)
        cut(m_src, r"pub open spec fn is_inlined_callee\b"),
        cut(m_src, r"pub struct AMembers<'s>"), cut(m_src, r"pub struct AClass<'s>"), cut(m_src, r"pub struct AState<'s>"),
        cut(m_src, r"pub open spec fn no_members<'s>"), cut(m_src, r"pub open spec fn members_of<'s>"), cut(m_src, r"pub open spec fn by_of<'s>"),
        cut(m_src, r"pub open spec fn method_step<'s>"), cut(m_src, r"pub open spec fn method_seen<'s>"), cut(m_src, r"pub open spec fn flush<'s>"),
        cut(m_src, r"pub open spec fn astep<'s>"), cut(m_src, r"pub open spec fn start_state<'s>"), cut(m_src, r"pub open spec fn next_of<'s>"),
        cut(m_src, r"pub open spec fn run<'s>"), cut(m_src, r"pub open spec fn built<'s>"),
        cut(w_src, r"pub struct ACip<'d>"), cut(w_src, r"pub struct AWState<'d>"), cut(w_src, r"pub open spec fn inc\b"), cut(w_src, r"pub open spec fn fresh_cip<'d>"),
        cut(w_src, r"pub open spec fn w_header<'d>"), cut(w_src, r"pub open spec fn w_class<'d>"), cut(w_src, r"pub open spec fn table_grew\b"),
        cut(w_src, r"pub open spec fn w_method<'d>"), cut(w_src, r"pub open spec fn w_flush<'d>"), cut(w_src, r"pub open spec fn w_step<'d>"),
        cut(w_src, r"pub open spec fn strings_of<'d>"), cut(w_src, r"pub open spec fn w_run<'d>"), cut(w_src, r"pub open spec fn tables_ok<'d>"),
        # the concrete side of the writer (BTreeMap views), the emitted class records (u8) and the reader's sortedness predicate (u1)
        cut(w_src, r"pub uninterp spec fn bmap<K, V>"), cut(w_src, r"pub uninterp spec fn vals<K, V>"), cut(w_src, r"pub open spec fn flat<T>"),
        cut(w_src, r"pub open spec fn vec_at<K>"), cut(w_src, r"pub open spec fn abs_cip<'d>"), cut(w_src, r"pub open spec fn abs_done<'d>"),
        cut(writer_model, r"pub open spec fn members_before\b"), cut(writer_model, r"pub open spec fn by_params_before\b"), cut(writer_model, r"pub open spec fn emitted_class\b"),
        cut(writer_model, r"pub open spec fn all_members\b"), cut(writer_model, r"pub open spec fn all_by_params\b"), cut(writer_model, r"pub open spec fn wf_cip\b"),
        cut(contract("writer_lemmas.rs"), r"pub proof fn lemma_members_before\b"),
        cut(cache_model, r"pub open spec fn member_strings_ok\b"), cut(cache_model, r"pub open spec fn wf_member\b"),
        cut(cache_model, r"pub open spec fn classes_sorted\b"), cut(cache_model, r"pub open spec fn member_name\b"), cut(cache_model, r"pub open spec fn members_sorted\b"),
        cut(cache_model, r"pub open spec fn member_params\b"), cut(cache_model, r"pub open spec fn lex2\b"), cut(cache_model, r"pub open spec fn members_sorted2\b"),
        cut(cache_model, r"pub open spec fn class_members\("), cut(cache_model, r"pub open spec fn class_members_by_params\b"), cut(cache_model, r"pub open spec fn names_interned\b"),
        cut(cache_model, r"pub open spec fn wf_class\b"), cut(cache_model, r"pub open spec fn wf_cache\b"),
        cut(std_specs, r"pub uninterp spec fn seq_cmp\b"), "#[verifier::external_body]\n" + cut(std_specs, r"pub proof fn axiom_seq_cmp_total\b"),
    ]
    from . import u9_selftest
    u9_src = inspect.getsource(u9_selftest)
    # u9 has its own `member_strings_ok` (it includes the parameter string); cache_model.rs has another one under the same name: the self-test's
    # version is renamed mechanically here (the ONLY change to a cut text in this unit)
    pieces += [cut(u9_src, r"pub open spec fn members_upto\b"),
               cut(u9_src, r"pub open spec fn member_strings_ok\b").replace("member_strings_ok", "selftest_member_ok"),
               cut(u9_src, r"pub open spec fn wf_for_selftest\b").replace("member_strings_ok", "selftest_member_ok")]
    u.raw("// ---- definitions cut out of the units / contract files that use them (same text) ----\n" + "".join(pieces), "specifications under comparison")
    u.raw(label_helper_lemmas(LEMMA, "C02"), "lemma")
    u.raw(label_helper_lemmas(DECL, "C01,C03"), "lemma (declarative reading of the fold)")
    u.raw(FOOTER, "footer")
    return u
