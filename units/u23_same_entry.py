"""U23: record by record, the mapper builder and the cache writer store the SAME abstract entry (C02 / C01, pure lemma).

No function of /repo is verified here. The unit connects four specifications that are each proved against the real code elsewhere:
  * `stored_entry(lm, original_class, original, file_name)` -- the MemberMapping the mapper builder pushes for a method record (u6 mapper / u13),
  * `stored_member(lm, table, obfuscated, original, original_class, arguments, file_off)` -- the Member the cache writer pushes (u6 writer / u14),
  * `abs_mm` / `abs_member(string bytes, .)` -- how the two readers interpret what they find (u2 / u1), both into the shared `Entry` of model.rs.
Lemma: for every method record in the property's domain, `abs_member(bytes(table), stored_member(..)) == abs_mm(stored_entry(..))`, provided the string
table reads back what it handed out. So equal records give equal abstract entries, and by the readers' contracts equal answers.
The spec text is NOT re-typed: each definition is cut out of the text of the unit / contract file that uses it (see `cut`).
ASSUMED: the string-table round trip of watto (`tbl(table_bytes(t), off) == Some(s)` when `offset_of(t, s) == Some(off)`, offsets below 2^32-1).
Not proved here: that the two folds put these entries at the same positions (`built` vs `w_run`, two parallel definitions).
"""
import re

from vf.unit import Unit, AnchorLost
from vf.rustlex import code_tokens, match_close
from .common import HEADER, FOOTER, contract, extract_struct, extract_struct_priv


def cut(text, head_re):
    """The item of `text` whose header matches `head_re` (from the match to the end of its `{..}` body or its `;`).
    `text` may be the Python source of another unit: only the Rust string literal that contains the match is lexed."""
    m = re.search(head_re, text)
    if not m:
        raise AnchorLost("specification item %r not found" % head_re)
    end = text.find('\n"""', m.start())
    sub = text[m.start():end if end >= 0 else len(text)]
    toks = code_tokens(sub)
    for ix, (k, s, e) in enumerate(toks):
        if s < m.end() - m.start():
            continue
        ch = sub[s:e]
        if ch == ";":
            return sub[:e] + "\n"
        if ch == "{":
            c = toks[match_close(sub, toks, ix)][2]
            return sub[:c] + "\n"
    raise AnchorLost("specification item %r has no end" % head_re)


LEMMA = """
// ASSUMED (watto::StringTable): an offset handed out by the table reads back the same string from the table's bytes; offsets fit below the sentinel
pub open spec fn resolves(t: StringTable, s: Seq<char>) -> bool {
    offset_of(t, s) is Some && offset_of(t, s)->0 < 0xffff_ffff && tbl(table_bytes(t), offset_of(t, s)->0 as u32) == Some(s)
}
pub open spec fn opt_resolves(t: StringTable, o: Option<&str>) -> bool { match o { Some(s) => resolves(t, s@), None => true } }

pub proof fn lemma_builders_store_the_same_abstract_entry(lm: Option<LineMapping>, t: StringTable, obfuscated: &str, original: &str, original_class: Option<&str>,
        arguments: &str, file_name: Option<&str>, file_off: u32)
    requires
        lm_in_domain(lm),
        resolves(t, original@), opt_resolves(t, original_class), opt_resolves(t, file_name),
        // the sourceFile offset the writer keeps for the class is the offset of the header value the mapper keeps (u6: w_header / Header arm)
        file_off == (match file_name { Some(f) => off32(t, f@), None => absent() }),
    ensures
        /*@L:both_builders_store_the_same_abstract_entry_for_a_method_record:C02,C01*/
        abs_member(table_bytes(t), stored_member(lm, t, obfuscated, original, original_class, arguments, file_off)) == abs_mm(stored_entry(lm, original_class, original, file_name)),
        entry_in_domain(abs_mm(stored_entry(lm, original_class, original, file_name))),
{
    let i = interp(lm);
    lemma_interp_domain(lm);
    let m = stored_member(lm, t, obfuscated, original, original_class, arguments, file_off);
    let e = stored_entry(lm, original_class, original, file_name);
    assert(m.startline as int == i.start && m.endline as int == i.end && m.original_startline as int == i.orig_start);
    assert(e.startline as int == i.start && e.endline as int == i.end && e.original_startline as int == i.orig_start);
    match i.orig_end { Some(x) => { assert(m.original_endline as int == x && m.original_endline != absent()); }, None => { assert(m.original_endline == absent()); } }
    match original_class { Some(c) => { assert(m.original_class_offset != absent()); }, None => {} }
    match file_name { Some(f) => { assert(file_off != absent()); }, None => {} }
}
// ---- the sourceFile header rule: after ANY header record both builders keep the same file for the class ----
pub open spec fn file_rel(t: StringTable, f: Option<&str>, off: u32) -> bool { off == (match f { Some(x) => off32(t, x@), None => absent() }) }
pub proof fn lemma_header_record_keeps_the_same_source_file_in_both_builders<'s>(a: AState<'s>, w: AWState<'s>, tf: StringTable, key: &'s str, value: Option<&'s str>,
        next: Option<&ProguardRecord<'s>>)
    requires file_rel(tf, a.cur.file_name, w.cur.class.file_name_offset),
    ensures
        /*@L:header_record_leaves_the_same_source_file_in_mapper_and_cache:C02,C01*/
        file_rel(tf, astep(a, true, ProguardRecord::Header { key, value }, next).cur.file_name,
                     w_step(w, tf, ProguardRecord::Header { key, value }, next).cur.class.file_name_offset),
{
}
// the hypotheses are satisfiable whenever the table resolves the record's strings (no contradiction hidden in the requires)
pub proof fn lemma_same_entry_instance(t: StringTable, original: &str)
    requires resolves(t, original@),
    ensures abs_member(table_bytes(t), stored_member(None, t, original, original, None, original, absent())).orig_method == original@,
{
    lemma_builders_store_the_same_abstract_entry(None, t, original, original, None, original, None, absent());
}

"""


def build():
    from . import u3_interpretation, u6_mapper_step, u6_writer_step
    import inspect
    u = Unit("u23_same_entry")
    u.raw(HEADER, "header")
    u.raw("use std::collections::HashMap;\n", "glue")
    st = u.source("src/stacktrace.rs")
    mg = u.source("src/mapping.rs")
    mp = u.source("src/mapper.rs")
    raw = u.source("src/cache/raw.rs")
    extract_struct(u, st, "StackFrame")
    extract_struct(u, mg, "LineMapping", derive="#[derive(Copy, Clone)]")
    extract_struct_priv(u, mp, "MemberMapping")
    extract_struct(u, mg, "ProguardRecord", kind="enum")
    u.raw("pub mod raw {\nuse super::*;\n", "glue")
    extract_struct(u, raw, "Class")
    extract_struct(u, raw, "Member")
    u.raw("}\nuse raw::{Class, Member};\n", "glue")
    u.raw(contract("model.rs"), "model (shared Entry / retrace)")
    cache_model = contract("cache_model.rs")
    mapper_model = contract("mapper_model.rs")
    w_src = inspect.getsource(u6_writer_step)
    m_src = inspect.getsource(u6_mapper_step)
    pieces = [
        cut(cache_model, r"pub uninterp spec fn tbl\b"),
        cut(cache_model, r"pub open spec fn absent\(\)"),
        cut(cache_model, r"pub open spec fn abs_member\b"),
        cut(mapper_model, r"pub open spec fn opt_int\b"),
        cut(mapper_model, r"pub open spec fn abs_mm\b"),
        cut(u3_interpretation.MODEL, r"pub struct Interp\b"),
        cut(u3_interpretation.MODEL, r"pub open spec fn interp\("),
        cut(u3_interpretation.MODEL, r"pub open spec fn lm_in_domain\b"),
        cut(u3_interpretation.MODEL, r"pub open spec fn interp_in_domain\b"),
        cut(u3_interpretation.MODEL, r"pub proof fn lemma_interp_domain\b"),
        cut(m_src, r"pub open spec fn opt_usize\b"),
        cut(m_src, r"pub open spec fn stored_entry<'s>"),
        cut(w_src, r"pub struct StringTable\b"),
        cut(contract("writer_model.rs"), r"pub uninterp spec fn table_bytes\b"),
        cut(w_src, r"pub uninterp spec fn offset_of\b"),
        cut(w_src, r"pub open spec fn off32\b"),
        cut(w_src, r"pub open spec fn stored_member\b"),
        # the two abstract folds (what the builders are proved against, u13 / u14)
        cut(m_src, r"pub open spec fn is_inlined_callee\b"),
        cut(m_src, r"pub struct AMembers<'s>"), cut(m_src, r"pub struct AClass<'s>"), cut(m_src, r"pub struct AState<'s>"),
        cut(m_src, r"pub open spec fn no_members<'s>"), cut(m_src, r"pub open spec fn members_of<'s>"), cut(m_src, r"pub open spec fn by_of<'s>"),
        cut(m_src, r"pub open spec fn method_step<'s>"), cut(m_src, r"pub open spec fn method_seen<'s>"), cut(m_src, r"pub open spec fn flush<'s>"),
        cut(m_src, r"pub open spec fn astep<'s>"), cut(m_src, r"pub open spec fn start_state<'s>"), cut(m_src, r"pub open spec fn next_of<'s>"),
        cut(m_src, r"pub open spec fn run<'s>"), cut(m_src, r"pub open spec fn built<'s>"),
        cut(w_src, r"pub struct ACip<'d>"), cut(w_src, r"pub struct AWState<'d>"), cut(w_src, r"pub open spec fn inc\b"), cut(w_src, r"pub open spec fn fresh_cip<'d>"),
        cut(w_src, r"pub open spec fn w_header<'d>"), cut(w_src, r"pub open spec fn w_class<'d>"), cut(w_src, r"pub open spec fn table_grew\b"),
        cut(w_src, r"pub open spec fn w_method<'d>"), cut(w_src, r"pub open spec fn w_flush<'d>"), cut(w_src, r"pub open spec fn w_step<'d>"),
        cut(w_src, r"pub open spec fn strings_of<'d>"), cut(w_src, r"pub open spec fn w_run<'d>"), cut(w_src, r"pub open spec fn tables_ok<'d>"),
    ]
    u.raw("// ---- definitions cut out of the units / contract files that use them (same text) ----\n" + "".join(pieces), "specifications under comparison")
    u.raw(LEMMA, "lemma")
    u.raw(FOOTER, "footer")
    return u
