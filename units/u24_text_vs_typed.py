"""U24: for a trace in canonical printed form, the text API's output is what Display prints for the typed result (C08, last sentence).

No /repo code: pure lemmas over definitions CUT OUT of the units that use them (same text):
  * contracts/text_trace_model.rs + u12 MODEL: `display_of`, `throwable_text`, `cause_text`, `frames_lines`, `frames_text`, `remapped_throwable`,
    `line_out`, `out_upto` -- what `remap_stacktrace` is proved to return (u12: out_upto(self, lines_of(input), #lines));
  * u10 MODEL: `remapped_frames` -- what `remap_stacktrace_typed` is proved to put into `frames` (and `typed_rel`, of which `typed` is the functional form);
  * u19: `ATrace`, `shape`, `frames_shape` and the abstract line classifiers -- the lines Display lays out for a trace.
Own definitions: `typed` (the typed result as a function of the abstract trace), `ptext` (u16's `trace_text` over the char view and the abstract trace),
`canon` (canonical printed form: every line IS what Display prints for its part), and `sp_after_prefix` as the composition u12's shim body spells out.
Links that stay by name: `display_of` (chars, u12) vs `dsp` (bytes, u16); `ptext` vs `trace_text`; `typed` vs `typed_rel`.
"""
import inspect
import re

from vf.unit import Unit
from .common import label_helper_lemmas, HEADER, FOOTER, contract, extract_struct
from .u23_same_entry import cut

LEMMA = r"""
// u12 names `line.strip_prefix(lit).and_then(parse_throwable)` sp_after_prefix; in u19's vocabulary it is this composition
pub open spec fn sp_after_prefix<'a>(line: &'a str, lit: Seq<char>) -> Option<Throwable<'a>> {
    match sp_strip(line, lit) { Some(rest) => sp_throwable(rest), None => None }
}
// the typed result, level by level (u10: typed_rel, here as a function of the abstract trace)
pub open spec fn typed_throwable<'a, M>(m: M, e: Throwable<'a>) -> Throwable<'a> {
    match spec_remap_class(m, e.class@) { Some(c) => Throwable { class: c, message: e.message }, None => e }
}
pub open spec fn typed<'a, M>(m: M, t: ATrace<'a>) -> ATrace<'a>
    decreases t
{
    ATrace {
        exc: match t.exc { Some(e) => Some(typed_throwable(m, e)), None => None },
        frames: remapped_frames(m, t.frames, t.frames.len() as int),
        cause: match t.cause { Some(c) => Some(Box::new(typed(m, *c))), None => None },
    }
}
// what StackTrace's Display prints (u16: trace_text, here over the char view and the abstract trace): [exception line] frame lines [`Caused by: ` cause]
pub open spec fn ptext<'a>(t: ATrace<'a>) -> Seq<char>
    decreases t
{
    (match t.exc { Some(e) => display_of(e) + nl(), None => Seq::empty() })
    + frames_lines(t.frames, t.frames.len() as int)
    + (match t.cause { Some(c) => "Caused by: "@ + ptext(*c), None => Seq::empty() })
}
// canonical printed form: the lines are not only classified as the parts of t (shape), they ARE what Display prints for them
pub open spec fn canon_frames<'a>(fr: Seq<StackFrame<'a>>, ls: Seq<&'a str>, i: int, n: int) -> bool
    decreases n
{
    if n <= 0 { true } else { canon_frames(fr, ls, i, n - 1) && 0 <= i + n - 1 < ls.len() && ls[i + n - 1]@ == "    "@ + display_of(fr[n - 1]) }
}
pub open spec fn canon<'a>(t: ATrace<'a>, ls: Seq<&'a str>, i: int, top: bool) -> bool
    decreases t
{
    let j = if t.exc is Some { i + 1 } else { i };
    &&& (t.exc is Some ==> 0 <= i < ls.len() && ls[i]@ == (if top { ""@ } else { "Caused by: "@ }) + display_of(t.exc->0))
    &&& canon_frames(t.frames, ls, j, t.frames.len() as int)
    &&& (match t.cause { Some(c) => canon(*c, ls, j + t.frames.len(), false), None => true })
}

pub open spec fn out_range<'a, M>(m: M, ls: Seq<&'a str>, i: int, k: int) -> Seq<char>
    decreases k - i
{
    if k <= i { Seq::empty() } else { out_range(m, ls, i, k - 1) + line_out(m, k == 1, ls[k - 1]) }
}
pub proof fn lemma_out_split<'a, M>(m: M, ls: Seq<&'a str>, i: int, k: int)
    requires 0 <= i <= k,
    ensures out_upto(m, ls, k) == out_upto(m, ls, i) + out_range(m, ls, i, k),
    decreases k - i
{
    if k > i {
        lemma_out_split(m, ls, i, k - 1);
        assert(out_upto(m, ls, k) =~= out_upto(m, ls, i) + out_range(m, ls, i, k));
    } else {
        assert(out_upto(m, ls, i) + out_range(m, ls, i, k) =~= out_upto(m, ls, i));
    }
}
pub proof fn lemma_out_range_concat<'a, M>(m: M, ls: Seq<&'a str>, i: int, j: int, k: int)
    requires i <= j <= k,
    ensures out_range(m, ls, i, k) == out_range(m, ls, i, j) + out_range(m, ls, j, k),
    decreases k - j
{
    if k > j {
        lemma_out_range_concat(m, ls, i, j, k - 1);
        assert(out_range(m, ls, i, k) =~= out_range(m, ls, i, j) + out_range(m, ls, j, k));
    } else {
        assert(out_range(m, ls, i, j) + out_range(m, ls, j, k) =~= out_range(m, ls, i, j));
    }
}
pub proof fn lemma_frames_lines_concat<'a>(a: Seq<StackFrame<'a>>, b: Seq<StackFrame<'a>>, n: int)
    requires 0 <= n <= b.len(),
    ensures frames_lines(a + b, a.len() + n) == frames_lines(a, a.len() as int) + frames_lines(b, n),
    decreases n
{
    let ab = a + b;
    if n > 0 {
        lemma_frames_lines_concat(a, b, n - 1);
        assert(ab[a.len() + n - 1] == b[n - 1]);
        assert(frames_lines(ab, a.len() + n) =~= frames_lines(a, a.len() as int) + frames_lines(b, n));
    } else {
        lemma_frames_lines_prefix(a, b, a.len() as int);
        assert(frames_lines(a, a.len() as int) + frames_lines(b, 0) =~= frames_lines(a, a.len() as int));
    }
}
pub proof fn lemma_frames_lines_prefix<'a>(a: Seq<StackFrame<'a>>, b: Seq<StackFrame<'a>>, k: int)
    requires 0 <= k <= a.len(),
    ensures frames_lines(a + b, k) == frames_lines(a, k),
    decreases k
{
    if k > 0 { lemma_frames_lines_prefix(a, b, k - 1); assert((a + b)[k - 1] == a[k - 1]); }
}
// the frame lines of one level: the text API's output for them is what Display prints for the remapped frames
pub proof fn lemma_frame_lines_agree<'a, M>(m: M, fr: Seq<StackFrame<'a>>, ls: Seq<&'a str>, j: int, n: int)
    requires 0 <= n <= fr.len(), j >= 1, frames_shape(fr, ls, j, n), canon_frames(fr, ls, j, n),
    ensures out_range(m, ls, j, j + n) == frames_lines(remapped_frames(m, fr, n), remapped_frames(m, fr, n).len() as int),
    decreases n
{
    if n > 0 {
        lemma_frame_lines_agree(m, fr, ls, j, n - 1);
        let line = ls[j + n - 1]; let f = fr[n - 1];
        let prev = remapped_frames(m, fr, n - 1);
        let add = if pending_frames(m, f).len() == 0 { seq![f] } else { pending_frames(m, f) };
        assert(line_out(m, false, line) == frames_text(line, pending_frames(m, f)));
        lemma_frames_lines_concat(prev, add, add.len() as int);
        if pending_frames(m, f).len() == 0 {
            // kept unchanged: the input line is the printed form of the frame
            assert(frames_lines(add, 0) =~= Seq::<char>::empty());
            assert(frames_lines(add, 1) =~= "    "@ + display_of(f) + nl());
            assert(""@ + line@ + nl() =~= "    "@ + display_of(f) + nl()) by { reveal_strlit(""); }
        }
        assert((prev + add).len() == prev.len() + add.len());
    } else {
        assert(remapped_frames(m, fr, 0) =~= Seq::<StackFrame<'a>>::empty());
    }
}
// one level and everything below it
pub proof fn lemma_levels_agree<'a, M>(m: M, t: ATrace<'a>, ls: Seq<&'a str>, i: int, top: bool)
    requires shape(t, ls, i, top) is Some, canon(t, ls, i, top), top ==> i == 0, !top ==> i >= 1,
        // a trace without top-level exception starts with a frame line (or is empty): its first line must not read as a throwable
        top && t.exc is None && ls.len() > 0 ==> sp_throwable(ls[0]) is None,
        top && t.exc is None ==> t.frames.len() > 0 || t.cause is None,
    ensures out_range(m, ls, i, shape(t, ls, i, top)->0) == (if top { Seq::<char>::empty() } else { "Caused by: "@ }) + ptext(typed(m, t)),
        i <= shape(t, ls, i, top)->0,
    decreases t
{
    let tt = typed(m, t);
    let j = if t.exc is Some { i + 1 } else { i };
    let k = j + t.frames.len();
    let end = shape(t, ls, i, top)->0;
    // head
    let head: Seq<char> = match t.exc { Some(e) => (if top { Seq::<char>::empty() } else { "Caused by: "@ }) + display_of(typed_throwable(m, e)) + nl(), None => Seq::empty() };
    assert(out_range(m, ls, i, j) == head) by {
        reveal_strlit("");
        match t.exc {
            Some(e) => {
                assert(out_range(m, ls, i, i) =~= Seq::<char>::empty());
                assert(out_range(m, ls, i, i + 1) =~= line_out(m, i + 1 == 1, ls[i]));
                if top {
                    assert(sp_throwable(ls[i]) == Some(e));
                    match spec_remap_class::<M>(m, e.class@) {
                        Some(c) => { assert(line_out(m, true, ls[i]) =~= display_of(typed_throwable(m, e)) + nl()); },
                        None => { assert(line_out(m, true, ls[i]) =~= display_of(e) + nl()); },
                    }
                } else {
                    assert(sp_frame(ls[i]) is None && sp_after_prefix(ls[i], "Caused by: "@) == Some(e));
                    match spec_remap_class::<M>(m, e.class@) {
                        Some(c) => { assert(line_out(m, false, ls[i]) =~= "Caused by: "@ + display_of(typed_throwable(m, e)) + nl()); },
                        None => { assert(line_out(m, false, ls[i]) =~= "Caused by: "@ + display_of(e) + nl()); },
                    }
                }
            },
            None => { assert(out_range(m, ls, i, i) =~= Seq::<char>::empty()); },
        }
    }
    // frames: when the top level has no exception its first frame line is line 0, which the text API reads with the `first` rule
    if j >= 1 {
        lemma_frame_lines_agree(m, t.frames, ls, j, t.frames.len() as int);
    } else {
        lemma_frame_lines_agree_first(m, t.frames, ls, t.frames.len() as int);
    }
    let fl = frames_lines(tt.frames, tt.frames.len() as int);
    assert(out_range(m, ls, j, k) == fl);
    lemma_out_range_concat(m, ls, i, j, k);
    match t.cause {
        None => {
            assert(end == k);
            assert(ptext(tt) =~= (match tt.exc { Some(e) => display_of(e) + nl(), None => Seq::empty() }) + fl);
            assert(out_range(m, ls, i, end) =~= (if top { Seq::<char>::empty() } else { "Caused by: "@ }) + ptext(tt));
        },
        Some(c) => {
            assert(shape(*c, ls, k, false) == Some(end));
            assert(k >= 1);
            lemma_levels_agree(m, *c, ls, k, false);
            lemma_out_range_concat(m, ls, i, k, end);
            assert(ptext(tt) =~= (match tt.exc { Some(e) => display_of(e) + nl(), None => Seq::empty() }) + fl + ("Caused by: "@ + ptext(typed(m, *c))));
            assert(out_range(m, ls, i, end) =~= (if top { Seq::<char>::empty() } else { "Caused by: "@ }) + ptext(tt));
        },
    }
}
// the same as lemma_frame_lines_agree for a frame run that starts at line 0 (no top-level exception)
pub proof fn lemma_frame_lines_agree_first<'a, M>(m: M, fr: Seq<StackFrame<'a>>, ls: Seq<&'a str>, n: int)
    requires 0 <= n <= fr.len(), frames_shape(fr, ls, 0, n), canon_frames(fr, ls, 0, n), ls.len() > 0 ==> sp_throwable(ls[0]) is None,
    ensures out_range(m, ls, 0, n) == frames_lines(remapped_frames(m, fr, n), remapped_frames(m, fr, n).len() as int),
    decreases n
{
    if n > 0 {
        lemma_frame_lines_agree_first(m, fr, ls, n - 1);
        let line = ls[n - 1]; let f = fr[n - 1];
        let prev = remapped_frames(m, fr, n - 1);
        let add = if pending_frames(m, f).len() == 0 { seq![f] } else { pending_frames(m, f) };
        assert(sp_frame(line) == Some(f));
        assert(line_out(m, n == 1, line) == frames_text(line, pending_frames(m, f)));
        lemma_frames_lines_concat(prev, add, add.len() as int);
        if pending_frames(m, f).len() == 0 {
            assert(frames_lines(add, 0) =~= Seq::<char>::empty());
            assert(frames_lines(add, 1) =~= "    "@ + display_of(f) + nl());
            assert(""@ + line@ + nl() =~= "    "@ + display_of(f) + nl()) by { reveal_strlit(""); }
        }
        assert((prev + add).len() == prev.len() + add.len());
    } else {
        assert(remapped_frames(m, fr, 0) =~= Seq::<StackFrame<'a>>::empty());
    }
}

// FOR A TRACE IN CANONICAL PRINTED FORM THE TEXT API'S OUTPUT IS WHAT DISPLAY PRINTS FOR THE TYPED RESULT
pub proof fn lemma_text_api_output_is_the_printed_typed_result<'a, M>(m: M, t: ATrace<'a>, ls: Seq<&'a str>)
    requires shape(t, ls, 0, true) == Some(ls.len() as int), canon(t, ls, 0, true),
        t.exc is None && ls.len() > 0 ==> sp_throwable(ls[0]) is None,
        t.exc is None ==> t.frames.len() > 0 || t.cause is None,
    ensures /*@L:text_api_output_for_a_printed_trace_is_the_printed_typed_result:C08*/ out_upto(m, ls, ls.len() as int) == ptext(typed(m, t)),
{
    lemma_levels_agree(m, t, ls, 0, true);
    lemma_out_split(m, ls, 0, ls.len() as int);
    assert(out_upto(m, ls, 0) =~= Seq::<char>::empty());
    assert(Seq::<char>::empty() + ptext(typed(m, t)) =~= ptext(typed(m, t)));
}
"""


def build():
    from . import u10_typed_trace, u12_text_trace, u19_parse_trace
    u = Unit("u24_text_vs_typed")
    u.raw(HEADER, "header")
    st = u.source("src/stacktrace.rs")
    extract_struct(u, st, "StackFrame")
    extract_struct(u, st, "Throwable")
    extract_struct(u, st, "StackTrace")
    ttm = contract("text_trace_model.rs")
    s12 = inspect.getsource(u12_text_trace)
    s10 = inspect.getsource(u10_typed_trace)
    s19 = inspect.getsource(u19_parse_trace)
    pieces = [
        cut(s19, r"pub uninterp spec fn sp_throwable<'a>"), cut(s19, r"pub uninterp spec fn sp_frame<'a>"), cut(s19, r"pub uninterp spec fn sp_strip<'a>"),
        cut(s19, r"pub struct ATrace<'a>"), cut(s19, r"pub open spec fn frames_shape<'a>"), cut(s19, r"pub open spec fn shape<'a>"),
        cut(ttm, r"pub uninterp spec fn display_of<T>"), cut(ttm, r"pub open spec fn nl\(\)"), cut(ttm, r"pub open spec fn throwable_text<'a>"),
        cut(ttm, r"pub open spec fn cause_text<'a>"), cut(ttm, r"pub open spec fn frames_lines<'a>"), cut(ttm, r"pub open spec fn frames_text<'a>"),
        cut(ttm, r"pub open spec fn remapped_throwable<'a>"),
        cut(s12, r"pub uninterp spec fn spec_remap_class<'x, M>"), cut(s12, r"pub uninterp spec fn pending_frames<'x, M>"),
        cut(s12, r"pub open spec fn line_out<'a, M>"), cut(s12, r"pub open spec fn out_upto<'a, M>"),
        cut(s10, r"pub open spec fn remapped_frames<'x, M>"),
    ]
    u.raw("// ---- definitions cut out of the units / contract files that use them (same text) ----\n" + "".join(pieces), "specifications under comparison")
    u.raw(label_helper_lemmas(LEMMA, "C08"), "lemma")
    u.raw(FOOTER, "footer")
    return u
