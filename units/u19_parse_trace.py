"""U19: `parse_stacktrace` builds exactly the nested trace a reference parser builds from the lines (C17, whole traces; C13 safety).

Function under contract (real text): src/stacktrace.rs `parse_stacktrace`, `StackTrace::try_parse`.
The function walks down the chain of causes through a `&mut` cursor (`current = current.cause.as_deref_mut().unwrap()`). Verus'
prophetic model of `&mut` (`final(r)`) carries the proof: a ghost `root = *final(current)` names the value the outermost trace will
have when all borrows have ended, a ghost context `ctx` lists the (exception, frames) levels that are already frozen above the cursor,
and the loop invariant says `abs(root) == wrap(ctx, abs(*final(current)))` and
`parse_from(lines, start, exc0, []) == wrap(ctx, parse_from(lines, n, current.exception, current.frames))`.
Reference parser `trace_spec(lines)`: the first line is the exception if it parses as a throwable; each further line is a frame (added to the
innermost trace), or `Caused by: ` + throwable (opens a new innermost trace, whatever the rest parses to), or ignored; the result is `None`
iff the outermost trace has neither exception nor frames.
Structural round trip (pure lemma `lemma_printed_lines_parse_back`): if the lines have the shape StackTrace's Display lays out for a trace t (`shape`:
[exception line], one line per frame, then the cause's lines with the `Caused by: ` prefix on its exception line; every line classified as what it
prints), t has an exception or a frame at the top, and a missing top-level exception's first line is not mistaken for a throwable, then
`trace_spec(lines) == Some(t)`. The per-line facts (a printed frame / throwable line parses back to its parts) are the single-line lemmas of u16
over u15's exact parsers; that `str::lines` splits the printed text into these lines, and `trim`, stay hypotheses.
ASSUMED: `content.lines().peekable()` yields `lines_of(content)` (abstract), `Peekable::{peek,next}`, `str::strip_prefix(&str)` as an abstract
function, `Option<Box<T>>::as_deref_mut().unwrap()` (the `&mut` to the boxed value; prophecy: what is written through it is what the option
holds afterwards), `parse_frame` / `parse_throwable` are functions of their argument (`sp_frame` / `sp_throwable`; what they are is unit u15).
"""
import re

from vf.unit import Unit, AnchorLost
from .common import HEADER, FOOTER, contract, extract_struct

MODEL = """
// ---- str::lines().peekable() ----
#[verifier::external_type_specification]
#[verifier::external_body]
pub struct ExLines<'a>(std::str::Lines<'a>);
pub uninterp spec fn lines_of<'a>(s: &'a str) -> Seq<&'a str>;                 // the lines `s.lines()` yields, in order
#[verifier::external_body]
fn shim_lines_peekable<'a>(s: &'a str) -> (r: std::iter::Peekable<std::str::Lines<'a>>) ensures pk_rest(r) == lines_of(s) { s.lines().peekable() }
// ---- the line classifiers are functions of the line (their contracts: unit u15) ----
pub uninterp spec fn sp_throwable<'a>(line: &'a str) -> Option<Throwable<'a>>;
pub uninterp spec fn sp_frame<'a>(line: &'a str) -> Option<StackFrame<'a>>;
pub uninterp spec fn sp_strip<'a>(line: &'a str, lit: Seq<char>) -> Option<&'a str>;
#[verifier::external_body]
fn parse_throwable<'a>(line: &'a str) -> (r: Option<Throwable<'a>>) ensures r == sp_throwable(line) { unimplemented!() }
#[verifier::external_body]
fn parse_frame<'a>(line: &'a str) -> (r: Option<StackFrame<'a>>) ensures r == sp_frame(line) { unimplemented!() }
#[verifier::external_body]
fn shim_str_strip_prefix_str<'a>(line: &'a str, lit: &str) -> (r: Option<&'a str>) ensures r == sp_strip(line, lit@) { line.strip_prefix(lit) }
// `o.as_deref_mut().unwrap()` on an Option<Box<T>>: the `&mut` to the boxed value
#[verifier::external_body]
fn shim_opt_box_as_deref_mut_unwrap<'b, T>(o: &'b mut Option<Box<T>>) -> (r: &'b mut T)
    requires *old(o) is Some,
    ensures *r == *(*old(o))->0, *final(o) is Some, *(*final(o))->0 == *final(r),
{ o.as_deref_mut().unwrap() }

// ---- the reference parser ----
pub struct ATrace<'a> { pub exc: Option<Throwable<'a>>, pub frames: Seq<StackFrame<'a>>, pub cause: Option<Box<ATrace<'a>>> }
pub open spec fn abs<'a>(t: StackTrace<'a>) -> ATrace<'a>
    decreases t
{ ATrace { exc: t.exception, frames: t.frames@, cause: match t.cause { Some(b) => Some(Box::new(abs(*b))), None => None } } }
pub open spec fn parse_from<'a>(ls: Seq<&'a str>, i: int, exc: Option<Throwable<'a>>, frames: Seq<StackFrame<'a>>) -> ATrace<'a>
    decreases ls.len() - i
{
    if i < 0 || i >= ls.len() { ATrace { exc: exc, frames: frames, cause: None } }
    else {
        match sp_frame(ls[i]) {
            Some(f) => parse_from(ls, i + 1, exc, frames.push(f)),
            None => match sp_strip(ls[i], "Caused by: "@) {
                Some(rest) => ATrace { exc: exc, frames: frames, cause: Some(Box::new(parse_from(ls, i + 1, sp_throwable(rest), Seq::empty()))) },
                None => parse_from(ls, i + 1, exc, frames),
            },
        }
    }
}
pub open spec fn trace_spec<'a>(ls: Seq<&'a str>) -> Option<ATrace<'a>> {
    let exc0 = if ls.len() > 0 { sp_throwable(ls[0]) } else { None };
    let start: int = if exc0 is Some { 1 } else { 0 };
    let t = parse_from(ls, start, exc0, Seq::empty());
    if t.exc is Some || t.frames.len() > 0 { Some(t) } else { None }
}
// the levels above the cursor, outermost first
pub open spec fn wrap<'a>(ctx: Seq<(Option<Throwable<'a>>, Seq<StackFrame<'a>>)>, x: ATrace<'a>) -> ATrace<'a>
    decreases ctx.len()
{
    if ctx.len() == 0 { x } else { ATrace { exc: ctx[0].0, frames: ctx[0].1, cause: Some(Box::new(wrap(ctx.subrange(1, ctx.len() as int), x))) } }
}
pub proof fn lemma_wrap_push<'a>(ctx: Seq<(Option<Throwable<'a>>, Seq<StackFrame<'a>>)>, lvl: (Option<Throwable<'a>>, Seq<StackFrame<'a>>), x: ATrace<'a>)
    ensures wrap(ctx.push(lvl), x) == wrap(ctx, ATrace { exc: lvl.0, frames: lvl.1, cause: Some(Box::new(x)) }),
    decreases ctx.len()
{
    let c2 = ctx.push(lvl);
    if ctx.len() == 0 {
        assert(c2.subrange(1, 1) =~= Seq::empty());
        assert(wrap(c2.subrange(1, 1), x) == x);
    } else {
        lemma_wrap_push(ctx.subrange(1, ctx.len() as int), lvl, x);
        assert(c2.subrange(1, c2.len() as int) =~= ctx.subrange(1, ctx.len() as int).push(lvl));
        assert(c2[0] == ctx[0]);
    }
}

// ======== whole traces: the reference parser reads back the trace whose printed lines it is given (structural round trip) ========
// `shape(t, ls, i, top)` = the index after the lines that StackTrace's Display lays out for `t` starting at line i:
//   [the exception line]  (top level: a line that parses as this throwable; cause: `Caused by: ` + such a line, which is not a frame line)
//   one line per frame, each parsing as that frame
//   [the lines of the cause]
// and None if the lines at i do not have this shape. A cause must have an exception (its first line carries the `Caused by: ` prefix).
pub open spec fn frames_shape<'a>(fr: Seq<StackFrame<'a>>, ls: Seq<&'a str>, i: int, n: int) -> bool
    decreases n
{
    if n <= 0 { true } else { frames_shape(fr, ls, i, n - 1) && 0 <= i + n - 1 < ls.len() && sp_frame(ls[i + n - 1]) == Some(fr[n - 1]) }
}
pub open spec fn shape<'a>(t: ATrace<'a>, ls: Seq<&'a str>, i: int, top: bool) -> Option<int>
    decreases t
{
    let head: Option<int> = if top {
        match t.exc { Some(e) => if 0 <= i < ls.len() && sp_throwable(ls[i]) == Some(e) { Some(i + 1) } else { None }, None => Some(i) }
    } else {
        match t.exc {
            Some(e) => if 0 <= i < ls.len() && sp_frame(ls[i]) is None && sp_strip(ls[i], "Caused by: "@) is Some && sp_throwable(sp_strip(ls[i], "Caused by: "@)->0) == Some(e) { Some(i + 1) } else { None },
            None => None,
        }
    };
    match head { None => None, Some(j) =>
        if !frames_shape(t.frames, ls, j, t.frames.len() as int) { None } else {
            let k = j + t.frames.len();
            match t.cause { None => Some(k), Some(c) => shape(*c, ls, k, false) }
        }
    }
}
pub proof fn lemma_frames_parse<'a>(ls: Seq<&'a str>, i: int, exc: Option<Throwable<'a>>, acc: Seq<StackFrame<'a>>, fr: Seq<StackFrame<'a>>, n: int)
    requires 0 <= i, 0 <= n <= fr.len(), frames_shape(fr, ls, i, fr.len() as int),
    ensures parse_from(ls, i + n, exc, acc + fr.subrange(0, n)) == parse_from(ls, i, exc, acc),
    decreases n
{
    lemma_frames_shape_prefix(fr, ls, i, fr.len() as int, n);
    if n > 0 {
        lemma_frames_parse(ls, i, exc, acc, fr, n - 1);
        lemma_frames_shape_prefix(fr, ls, i, fr.len() as int, n);
        assert(0 <= i + n - 1 < ls.len() && sp_frame(ls[i + n - 1]) == Some(fr[n - 1]));
        assert((acc + fr.subrange(0, n - 1)).push(fr[n - 1]) =~= acc + fr.subrange(0, n));
    } else {
        assert(acc + fr.subrange(0, 0) =~= acc);
    }
}
pub proof fn lemma_frames_shape_prefix<'a>(fr: Seq<StackFrame<'a>>, ls: Seq<&'a str>, i: int, n: int, m: int)
    requires 0 <= m <= n, frames_shape(fr, ls, i, n),
    ensures frames_shape(fr, ls, i, m), m > 0 ==> 0 <= i + m - 1 < ls.len() && sp_frame(ls[i + m - 1]) == Some(fr[m - 1]),
    decreases n - m
{
    if m < n { lemma_frames_shape_prefix(fr, ls, i, n, m + 1); }
}
// the lines of a trace (from line i on, and nothing after them) parse back to the trace
pub proof fn lemma_shape_parses<'a>(t: ATrace<'a>, ls: Seq<&'a str>, i: int, top: bool)
    requires 0 <= i, shape(t, ls, i, top) == Some(ls.len() as int),
    ensures parse_from(ls, (if t.exc is Some { i + 1 } else { i }), t.exc, Seq::empty()) == t,
    decreases t
{
    let j = if t.exc is Some { i + 1 } else { i };
    let k = j + t.frames.len();
    lemma_frames_parse(ls, j, t.exc, Seq::empty(), t.frames, t.frames.len() as int);
    assert(Seq::<StackFrame<'a>>::empty() + t.frames.subrange(0, t.frames.len() as int) =~= t.frames);
    // from line k on: either the end, or the cause line
    match t.cause {
        None => { assert(k == ls.len()); },
        Some(c) => {
            assert(shape(*c, ls, k, false) == Some(ls.len() as int));
            assert(c.exc is Some);
            assert(0 <= k < ls.len() && sp_frame(ls[k]) is None && sp_strip(ls[k], "Caused by: "@) is Some);
            lemma_shape_parses(*c, ls, k, false);
        },
    }
}
// THE STRUCTURAL ROUND TRIP: if the lines are what Display lays out for t, t has an exception or a frame at the top, and (when the exception is
// absent) the first line is not mistaken for a throwable, then the reference parser returns t
pub proof fn lemma_printed_lines_parse_back<'a>(t: ATrace<'a>, ls: Seq<&'a str>)
    requires shape(t, ls, 0, true) == Some(ls.len() as int),
        t.exc is Some || t.frames.len() > 0,
        t.exc is None ==> (ls.len() > 0 ==> sp_throwable(ls[0]) is None),
    ensures /*@L:reference_parser_reads_back_the_trace_whose_lines_it_is_given:C17*/ trace_spec(ls) == Some(t),
{
    lemma_shape_parses(t, ls, 0, true);
}
"""


def build():
    u = Unit("u19_parse_trace")
    u.raw(HEADER, "header")
    st = u.source("src/stacktrace.rs")
    extract_struct(u, st, "StackFrame")
    extract_struct(u, st, "Throwable")
    extract_struct(u, st, "StackTrace")
    u.raw(contract("peek_model.rs"), "peek_model")
    u.raw(MODEL, "model")
    f = st.fn("parse_stacktrace")
    f.ret("ret")
    f.contracted = True
    f.props_all = ["C17"]
    f.props_safety = ["C13"]
    mp = re.search(r"fn\s+parse_stacktrace\s*\(\s*(\w+)\s*:\s*&str\s*\)", f.orig)
    ml = re.search(r"let\s+mut\s+(\w+)\s*=\s*(\w+)\.lines\(\)\.peekable\(\)\s*;", f.orig)
    me = re.search(r"let\s+(\w+)\s*=\s*(\w+)\.peek\(\)\.and_then\(\s*\|(\w+)\|\s*parse_throwable\(\3\)\s*\)\s*;", f.orig)
    mst = re.search(r"let\s+mut\s+(\w+)\s*=\s*StackTrace\s*\{", f.orig)
    mc = re.search(r"let\s+mut\s+(\w+)\s*=\s*&mut\s+(\w+)\s*;", f.orig)
    md = re.search(r"(\w+)\s*=\s*(\w+)\.cause\.as_deref_mut\(\)\.unwrap\(\)\s*;", f.orig)
    lp = f.loops()
    if not (mp and ml and me and mst and mc and md) or len(lp) != 1 or lp[0][0] != "for":
        raise AnchorLost("parse_stacktrace: unknown shape")
    content, lines, exc, root, cur = mp.group(1), ml.group(1), me.group(1), mst.group(1), mc.group(1)
    if ml.group(2) != content or me.group(2) != lines or mc.group(2) != root or md.group(1) != cur or md.group(2) != cur:
        raise AnchorLost("parse_stacktrace: bindings of unknown shape")
    f.replace_span(ml.start(), ml.end(), "let mut %s = shim_lines_peekable(%s);" % (lines, content), "R2", "str::lines().peekable() behind a shim: ghost view = the lines still to come")
    f.replace_span(me.start(), me.end(),
                   "let %s = shim_peek(&mut %s).and_then(|%s: &&str| -> (o: Option<Throwable<'_>>) ensures o == sp_throwable(*%s) { parse_throwable(%s) });" % (exc, lines, me.group(3), me.group(3), me.group(3)),
                   "R2", "Peekable::peek behind a shim; R3: closure contract (the classifier's own contract)")
    for m in re.finditer(r"\b%s\.next\(\)\s*;" % lines, f.orig):
        f.replace_span(m.start(), m.end(), "shim_peek_next(&mut %s);" % lines, "R2", "Peekable::next behind a shim")
    for m in re.finditer(r"vec!\[\]", f.orig):
        f.replace_span(m.start(), m.end(), "Vec::new()", "R2", "`vec![]` is `Vec::new()`")
    for m in re.finditer(r"(\w+)\.strip_prefix\((\"[^\"]*\")\)", f.orig):
        f.replace_span(m.start(), m.end(), "shim_str_strip_prefix_str(%s, %s)" % (m.group(1), m.group(2)), "R2", "str::strip_prefix(&str) behind a shim (abstract function of line and literal)")
    f.replace_span(md.start(), md.end(), "%s = shim_opt_box_as_deref_mut_unwrap(&mut %s.cause);" % (cur, cur), "R2",
                   "Option<Box<T>>::as_deref_mut().unwrap() behind a shim returning the `&mut` to the boxed value (prophecy: final(r))")
    f.contract("""    ensures
        /*@L:trace_is_parsed_exactly_as_the_reference_parser_does:C17*/ match ret {
            Some(t) => trace_spec(lines_of(%(c)s)) == Some(abs(t)),
            None => trace_spec(lines_of(%(c)s)) is None,
        },
""" % dict(c=content))
    f.insert_at(ml.end(), "\n    let ghost ls = lines_of(%s);" % content)
    f.insert_at(mc.end(), """
    let ghost rootv = *final(%(cur)s);
    let ghost exc0 = %(exc)s;
    let ghost start: int = if exc0 is Some { 1 } else { 0 };
    let ghost mut n: int = start;
    let ghost mut ctx: Seq<(Option<Throwable<'_>>, Seq<StackFrame<'_>>)> = Seq::empty();
    proof { assert(ls.skip(0) =~= ls); if ls.len() > 0 { assert(ls.drop_first() =~= ls.skip(1)); } }""" % dict(cur=cur, exc=exc))

    def nxt(expr):
        if expr.replace(" ", "") != "&mut%s" % lines:
            raise AnchorLost("parse_stacktrace: the loop does not iterate `&mut %s`" % lines)
        return "shim_peek_next(&mut %s)" % lines
    mfor = re.search(r"for\s+(\w+)\s+in", f.orig)
    f.for_to_loop(1, next_map=nxt, spec="""        invariant
            0 <= n <= ls.len(), pk_rest(%(lines)s) == ls.skip(n), %(cur)s.cause is None,
            /*@L:outermost_trace_is_the_context_around_the_cursor:C17*/ abs(rootv) == wrap(ctx, abs(*final(%(cur)s))),
            /*@L:reference_parse_is_the_context_around_the_parse_of_the_rest:C17*/ parse_from(ls, start, exc0, Seq::empty()) == wrap(ctx, parse_from(ls, n, %(cur)s.exception, %(cur)s.frames@)),
        ensures n == ls.len(),
        decreases ls.len() - n,""" % dict(lines=lines, cur=cur),
                  before_next="let ghost c_exc = %s.exception; let ghost c_frames = %s.frames@;\n" % (cur, cur),
                  after_next="""            proof {
                assert(%(l)s == ls[n]);
                assert(ls.skip(n).drop_first() =~= ls.skip(n + 1));
                n = n + 1;
            }
""" % dict(l=mfor.group(1)))
    # descending: the level that is frozen above the cursor from now on
    f.insert_at(md.start(), "let ghost lvl = (c_exc, c_frames);\n            ")
    f.insert_at(md.end(), """
            proof {
                lemma_wrap_push(ctx, lvl, abs(*final(%(cur)s)));
                lemma_wrap_push(ctx, lvl, parse_from(ls, n, %(cur)s.exception, %(cur)s.frames@));
                ctx = ctx.push(lvl);
            }""" % dict(cur=cur))
    u.emit(f)
    # StackTrace::try_parse: from_utf8, then parse_stacktrace
    u.raw("""
#[verifier::external_type_specification]
#[verifier::external_body]
pub struct ExUtf8Error(std::str::Utf8Error);
pub uninterp spec fn str_of<'a>(b: &'a [u8]) -> Option<&'a str>;     // the bytes as a string, when they are valid UTF-8
pub assume_specification<'a> [std::str::from_utf8] (v: &'a [u8]) -> (r: Result<&'a str, std::str::Utf8Error>)
    ensures match r { Ok(s) => str_of(v) == Some(s), Err(_) => str_of(v) is None };
""", "from_utf8 model")
    STI = "impl<'s> StackTrace<'s>"
    tp = st.impl_fn(STI, "try_parse")
    tp.ret("ret")
    tp.contracted = True
    tp.props_all = ["C17"]
    tp.props_safety = ["C13"]
    mt = re.search(r"fn\s+try_parse\s*\(\s*(\w+)\s*:\s*&'s\s*\[u8\]\s*\)", tp.orig)
    if not mt:
        raise AnchorLost("StackTrace::try_parse: parameter not found")
    tp.contract("""    ensures
        /*@L:try_parse_is_the_reference_parser_on_valid_utf8:C17*/ match ret {
            Some(t) => str_of(%(b)s) is Some && trace_spec(lines_of(str_of(%(b)s)->0)) == Some(abs(t)),
            None => str_of(%(b)s) is None || trace_spec(lines_of(str_of(%(b)s)->0)) is None,
        },
""" % dict(b=mt.group(1)))
    u.raw(st.impl_header(STI) + "{\n", "glue")
    u.emit(tp)
    u.raw("}\n", "glue")
    u.raw(FOOTER, "footer")
    return u
