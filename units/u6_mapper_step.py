"""U6m: one step of the mapper builder (`ProguardMapper::create_proguard_mapper`): what a single Method record does to the class
being built -- the rule of C01/C03 for what is stored -- as an R5 region of the real `Method` arm.

Dropped (still assumed): the surrounding `while let Some(record) = records.next()` / `match record` dispatch, `records.peek()` (the
next record is a parameter of the region), the Class/Header arms' bookkeeping other than what u6c proves.
R10: inside the region `continue` is replaced by `return` (the region is the whole rest of the loop body)."""
import re
from vf.unit import Unit, Fragment, AnchorLost
from .common import HEADER, FOOTER, contract, extract_struct, extract_struct_priv

INTERP = None  # filled from u3
ABS = r"""
// ---- abstract view of the builder state (what the readers of unit u2 look at: sequences and maps, no capacities) ----
pub struct AMembers<'s> { pub all: Seq<MemberMapping<'s>>, pub by: Map<&'s str, Seq<MemberMapping<'s>>> }
pub struct AClass<'s> { pub original: &'s str, pub obfuscated: &'s str, pub file_name: Option<&'s str>, pub members: Map<&'s str, AMembers<'s>> }
pub struct AState<'s> { pub done: Map<&'s str, AClass<'s>>, pub cur: AClass<'s>, pub seen: Set<(&'s str, &'s str, &'s str)> }
pub open spec fn abs_members<'s>(m: ClassMembers<'s>) -> AMembers<'s> {
    AMembers { all: m.all_mappings@, by: m.mappings_by_params@.map_values(|v: Vec<MemberMapping<'s>>| v@) }
}
pub open spec fn abs_class<'s>(c: ClassMapping<'s>) -> AClass<'s> {
    AClass { original: c.original, obfuscated: c.obfuscated, file_name: c.file_name, members: c.members@.map_values(|m: ClassMembers<'s>| abs_members(m)) }
}
pub open spec fn abs_classes<'s>(cs: Map<&'s str, ClassMapping<'s>>) -> Map<&'s str, AClass<'s>> { cs.map_values(|c: ClassMapping<'s>| abs_class(c)) }
pub open spec fn no_members<'s>() -> AMembers<'s> { AMembers { all: Seq::empty(), by: Map::empty() } }
pub open spec fn members_of<'s>(c: AClass<'s>, k: &'s str) -> AMembers<'s> { if c.members.contains_key(k) { c.members[k] } else { no_members() } }
pub open spec fn by_of<'s>(m: AMembers<'s>, a: &'s str) -> Seq<MemberMapping<'s>> { if m.by.contains_key(a) { m.by[a] } else { Seq::empty() } }
// what one Method record does to the class being built (C01: stored in file order; C03: by-params gets the first occurrence of
// (name, args, original) among the records that are not inlined callees)
pub open spec fn method_step<'s>(cur: AClass<'s>, seen: Set<(&'s str, &'s str, &'s str)>, init: bool, lm: Option<LineMapping>, obfuscated: &'s str, original: &'s str,
        original_class: Option<&'s str>, arguments: &'s str, next: Option<&ProguardRecord<'s>>) -> AClass<'s> {
    let e = stored_entry(lm, original_class, original, cur.file_name);
    let old = members_of(cur, obfuscated);
    let fresh = init && !is_inlined_callee(lm, next) && !seen.contains((obfuscated, arguments, original));
    let by = if fresh { old.by.insert(arguments, by_of(old, arguments).push(e)) } else { old.by };
    AClass { members: cur.members.insert(obfuscated, AMembers { all: old.all.push(e), by: by }), ..cur }
}
pub open spec fn method_seen<'s>(seen: Set<(&'s str, &'s str, &'s str)>, init: bool, lm: Option<LineMapping>, obfuscated: &'s str, original: &'s str,
        arguments: &'s str, next: Option<&ProguardRecord<'s>>) -> Set<(&'s str, &'s str, &'s str)> {
    if init && !is_inlined_callee(lm, next) { seen.insert((obfuscated, arguments, original)) } else { seen }
}
pub open spec fn flush<'s>(done: Map<&'s str, AClass<'s>>, cur: AClass<'s>) -> Map<&'s str, AClass<'s>> {
    if cur.original@.len() > 0 { done.insert(cur.obfuscated, cur) } else { done }
}
pub open spec fn astep<'s>(s: AState<'s>, init: bool, rec: ProguardRecord<'s>, next: Option<&ProguardRecord<'s>>) -> AState<'s> {
    match rec {
        ProguardRecord::Header { key, value } => AState { cur: AClass { file_name: if key@ == "sourceFile"@ { value } else { s.cur.file_name }, ..s.cur }, ..s },
        ProguardRecord::Class { original, obfuscated } => AState {
            done: flush(s.done, s.cur),
            cur: AClass { original: original, obfuscated: obfuscated, file_name: None, members: Map::empty() },
            seen: Set::empty(),
        },
        ProguardRecord::Method { ty, original, obfuscated, arguments, original_class, line_mapping } => AState {
            cur: method_step(s.cur, s.seen, init, line_mapping, obfuscated, original, original_class, arguments, next),
            seen: method_seen(s.seen, init, line_mapping, obfuscated, original, arguments, next),
            ..s
        },
        _ => s,
    }
}
pub open spec fn start_state<'s>() -> AState<'s> {
    AState { done: Map::empty(), cur: AClass { original: "", obfuscated: "", file_name: None, members: Map::empty() }, seen: Set::empty() }
}
pub open spec fn next_of<'s>(recs: Seq<ProguardRecord<'s>>, n: int) -> Option<&ProguardRecord<'s>> { if 0 <= n < recs.len() { Some(&recs[n]) } else { None } }
// the builder state after the first n records
pub open spec fn run<'s>(recs: Seq<ProguardRecord<'s>>, init: bool, n: int) -> AState<'s>
    decreases n
{
    if n <= 0 { start_state() } else { astep(run(recs, init, n - 1), init, recs[n - 1], next_of(recs, n)) }
}
// the mapper that the record stream denotes
pub open spec fn built<'s>(recs: Seq<ProguardRecord<'s>>, init: bool) -> Map<&'s str, AClass<'s>> {
    let s = run(recs, init, recs.len() as int);
    flush(s.done, s.cur)
}
pub open spec fn mbp_of<'s>(m: Map<&'s str, ClassMembers<'s>>, k: &'s str) -> Map<&'s str, Vec<MemberMapping<'s>>> {
    if m.contains_key(k) { m[k].mappings_by_params@ } else { Map::empty() }
}
// from what the HashMap shims say about the concrete maps to one step of the abstract builder
pub proof fn lemma_method_arm_abs<'s>(c0: ClassMapping<'s>, c1: ClassMapping<'s>, m1: ClassMembers<'s>, v1: Vec<MemberMapping<'s>>,
        obf: &'s str, args: &'s str, e: MemberMapping<'s>, fresh: bool)
    requires
        /*@L:class_header_and_other_methods_untouched:C01,C02,C03*/ c1.original == c0.original && c1.obfuscated == c0.obfuscated && c1.file_name == c0.file_name,
        /*@L:class_header_and_other_methods_untouched:C01,C02,C03*/ c1.members@ == c0.members@.insert(obf, m1),
        /*@L:every_method_record_is_stored_in_file_order:C01,C02*/ m1.all_mappings@ == seq_of(c0.members@, obf).push(e),
        /*@L:by_params_gets_non_inlined_first_occurrences_only:C03,C02*/ fresh ==> m1.mappings_by_params@ == mbp_of(c0.members@, obf).insert(args, v1) && v1@ == bp_of(c0.members@, obf, args).push(e),
        /*@L:by_params_gets_non_inlined_first_occurrences_only:C03,C02*/ !fresh ==> m1.mappings_by_params@ == mbp_of(c0.members@, obf),
    ensures
        abs_class(c1) == (AClass { members: abs_class(c0).members.insert(obf, AMembers { all: members_of(abs_class(c0), obf).all.push(e),
             by: if fresh { members_of(abs_class(c0), obf).by.insert(args, by_of(members_of(abs_class(c0), obf), args).push(e)) } else { members_of(abs_class(c0), obf).by } }), ..abs_class(c0) }),
{
    let g = |v: Vec<MemberMapping<'s>>| v@;
    let f = |m: ClassMembers<'s>| abs_members(m);
    let a0 = abs_class(c0);
    let old = members_of(a0, obf);
    let mbp0 = mbp_of(c0.members@, obf);
    assert(old.by =~= mbp0.map_values(g));
    assert(old.all == seq_of(c0.members@, obf));
    assert(by_of(old, args) == bp_of(c0.members@, obf, args));
    if fresh {
        assert(mbp0.insert(args, v1).map_values(g) =~= mbp0.map_values(g).insert(args, v1@));
    }
    assert(abs_class(c1).members =~= a0.members.insert(obf, abs_members(m1)));
}
pub proof fn lemma_abs_insert<'s>(cs: Map<&'s str, ClassMapping<'s>>, k: &'s str, c: ClassMapping<'s>)
    ensures abs_classes(cs.insert(k, c)) == abs_classes(cs).insert(k, abs_class(c)),
{ assert(abs_classes(cs.insert(k, c)) =~= abs_classes(cs).insert(k, abs_class(c))); }
pub proof fn lemma_abs_empty<'s>()
    ensures abs_classes(Map::<&'s str, ClassMapping<'s>>::empty()) == Map::<&'s str, AClass<'s>>::empty(),
{ assert(abs_classes(Map::<&'s str, ClassMapping<'s>>::empty()) =~= Map::<&'s str, AClass<'s>>::empty()); }
pub proof fn lemma_abs_class_empty<'s>(c: ClassMapping<'s>)
    requires c.members@ == Map::<&'s str, ClassMembers<'s>>::empty(),
    ensures abs_class(c).members == Map::<&'s str, AMembers<'s>>::empty(),
{ assert(abs_class(c).members =~= Map::<&'s str, AMembers<'s>>::empty()); }
"""


def build(whole=False):
    from . import u3_interpretation
    u = Unit("u13_mapper_builder" if whole else "u6_mapper_step")
    OUTSIDE = """// stand-in for `Peekable<FilterMap<ProguardRecordIter, fn(Result<..>) -> Option<..>>>`'s inner iterator (unit u13 only; never executed)
pub struct OkRecords<'s>(std::marker::PhantomData<&'s ()>);
impl<'s> Iterator for OkRecords<'s> { type Item = ProguardRecord<'s>; fn next(&mut self) -> Option<ProguardRecord<'s>> { unimplemented!() } }
"""
    u.raw(HEADER.replace("verus! {", OUTSIDE + "verus! {", 1) if whole else HEADER, "header")
    u.raw("use std::collections::{HashMap, HashSet};\nuse vstd::std_specs::hash::*;\n", "glue")
    u.raw(contract("std_specs.rs"), "std_specs")
    mg = u.source("src/mapping.rs")
    extract_struct(u, mg, "LineMapping", derive="#[derive(Clone, Copy)]")
    extract_struct(u, mg, "ProguardRecord", kind="enum")
    mp = u.source("src/mapper.rs")
    extract_struct_priv(u, mp, "MemberMapping")
    extract_struct_priv(u, mp, "ClassMembers")
    extract_struct_priv(u, mp, "ClassMapping")
    u.raw("""impl<'s> Clone for MemberMapping<'s> {
    #[verifier::external_body] // stands for the compiler-generated #[derive(Clone)] (all fields Copy: field-wise copy)
    fn clone(&self) -> (r: Self) ensures r == *self { unimplemented!() }
}
""", "glue")
    u.raw(u3_interpretation.MODEL, "interp_model")
    u.raw("""
// ---- assumed std contracts: HashMap entry API, HashSet::insert on string keys (content equality) ----
#[verifier::external_body]
pub proof fn axiom_key_models()
    ensures obeys_key_model::<(&str, &str, &str)>(), obeys_key_model::<&str>(), builds_valid_hashers::<std::collections::hash_map::RandomState>(),
{}

// `class.members.entry(k).or_insert_with(|| ClassMembers { all_mappings: Vec::with_capacity(1), mappings_by_params: Default::default() })`
#[verifier::external_body]
fn shim_members_entry<'a, 's>(m: &'a mut HashMap<&'s str, ClassMembers<'s>>, k: &'s str) -> (r: &'a mut ClassMembers<'s>)
    ensures
        old(m)@.contains_key(k) ==> *r == old(m)@[k],
        !old(m)@.contains_key(k) ==> r.all_mappings@ == Seq::<MemberMapping>::empty() && r.mappings_by_params@ == Map::<&str, Vec<MemberMapping>>::empty(),
        final(m)@ == old(m)@.insert(k, *final(r)),
{ unimplemented!() }

// `members.mappings_by_params.entry(k).or_insert_with(|| Vec::with_capacity(1))`
#[verifier::external_body]
fn shim_by_params_entry<'a, 's>(m: &'a mut HashMap<&'s str, Vec<MemberMapping<'s>>>, k: &'s str) -> (r: &'a mut Vec<MemberMapping<'s>>)
    ensures
        old(m)@.contains_key(k) ==> r@ == old(m)@[k]@,
        !old(m)@.contains_key(k) ==> r@ == Seq::<MemberMapping>::empty(),
        final(m)@ == old(m)@.insert(k, *final(r)),
{ unimplemented!() }

pub open spec fn opt_usize(o: Option<int>) -> Option<usize> { match o { Some(x) => Some(x as usize), None => None } }
// the entry stored for a method record (C01): numbers by `interp`, foreign class, original name, the sourceFile header in force
pub open spec fn stored_entry<'s>(lm: Option<LineMapping>, original_class: Option<&'s str>, original: &'s str, file_name: Option<&'s str>) -> MemberMapping<'s> {
    let i = interp(lm);
    MemberMapping { startline: i.start as usize, endline: i.end as usize, original_class, original_file: file_name, original,
                    original_startline: i.orig_start as usize, original_endline: opt_usize(i.orig_end) }
}
pub open spec fn seq_of<'s>(m: Map<&'s str, ClassMembers<'s>>, k: &'s str) -> Seq<MemberMapping<'s>> {
    if m.contains_key(k) { m[k].all_mappings@ } else { Seq::empty() }
}
pub open spec fn bp_of<'s>(m: Map<&'s str, ClassMembers<'s>>, k: &'s str, a: &'s str) -> Seq<MemberMapping<'s>> {
    if m.contains_key(k) && m[k].mappings_by_params@.contains_key(a) { m[k].mappings_by_params@[a]@ } else { Seq::empty() }
}
// C03: an entry is an inlined callee iff the NEXT record is a method whose obfuscated range is identical
pub open spec fn is_inlined_callee(lm: Option<LineMapping>, next: Option<&ProguardRecord>) -> bool {
    match (lm, next) {
        (Some(cur), Some(ProguardRecord::Method { line_mapping: Some(nl), .. })) => cur.startline == nl.startline && cur.endline == nl.endline,
        _ => false,
    }
}
""" + ABS, "model")

    cf = mp.impl_fn(r"impl<'s> ProguardMapper<'s>", "create_proguard_mapper")
    # the region is the body of the `ProguardRecord::Method { .. } => { .. }` arm
    ra, end = cf.arm_body(r"ProguardRecord::Method\s*\{[^}]*\}")
    r = Fragment(u, cf.file, mp.src, cf.start + ra, cf.start + end, "region", "method-arm")
    r.qualname = "%s[method-arm]" % cf.qualname
    r.contracted = True
    r.props_all = ["C01", "C02", "C03"]
    r.props_safety = ["C13"]
    ABSP = "proof { let ghost fresh_ = initialize_param_mapping && !is_inlined_callee(line_mapping, next) && !seen0.contains((obfuscated, arguments, original)); let ghost m1_ = class.members@[obfuscated]; lemma_method_arm_abs(class0, *class, m1_, if fresh_ { m1_.mappings_by_params@[arguments] } else { arbitrary() }, obfuscated, arguments, stored_entry(line_mapping, original_class, original, file0), fresh_); }"
    r.replace_all_re(r"\bcontinue;", ABSP + " return;", "R10", why="the region is the rest of the loop body: `continue` == return from the region", min_count=0)
    r.replace_all_re(r"records\.peek\(\)", "next", "R5", why="unreachable iterator state `records.peek()` becomes a parameter of the region", min_count=1)
    r.replace_call("class .members .entry(obfuscated) .or_insert_with", "shim_members_entry(&mut class.members, obfuscated)", "R2",
                   why="HashMap entry API behind a shim (assumed contract: existing value or a fresh empty ClassMembers)")
    r.replace_call("members .mappings_by_params .entry(arguments) .or_insert_with", "shim_by_params_entry(&mut members.mappings_by_params, arguments)", "R2")
    for occ, (ptype, rtype) in enumerate([("&LineMapping", "(usize, usize)"), ("LineMapping", "(usize, Option<usize>)")], 1):
        r.closure("|line_mapping|", occ=occ, params="|line_mapping: %s|" % ptype, ret="r: %s" % rtype, spec="ensures r == ({body})")
    r.insert_at(0, "proof { axiom_key_models(); }\n        broadcast use group_hash_axioms;\n        let ghost file0 = class.file_name; let ghost class0 = *class; let ghost seen0 = unique_methods@;\n        ")
    u.emit(r, prefix="""fn region_mapper_method_arm<'s>(initialize_param_mapping: bool, line_mapping: Option<LineMapping>, class: &mut ClassMapping<'s>,
        obfuscated: &'s str, original: &'s str, original_class: Option<&'s str>, arguments: &'s str,
        unique_methods: &mut HashSet<(&'s str, &'s str, &'s str)>, next: Option<&ProguardRecord<'s>>)
    ensures
        /*@L:every_method_record_is_stored_in_file_order:C01,C02*/ seq_of(final(class).members@, obfuscated)
            == seq_of(old(class).members@, obfuscated).push(stored_entry(line_mapping, original_class, original, old(class).file_name)),
        /*@L:by_params_gets_non_inlined_first_occurrences_only:C03,C02*/ bp_of(final(class).members@, obfuscated, arguments)
            == (if initialize_param_mapping && !is_inlined_callee(line_mapping, next) && !old(unique_methods)@.contains((obfuscated, arguments, original)) {
                    bp_of(old(class).members@, obfuscated, arguments).push(stored_entry(line_mapping, original_class, original, old(class).file_name))
                } else { bp_of(old(class).members@, obfuscated, arguments) }),
        /*@L:seen_set_records_only_indexed_candidates:C03*/ final(unique_methods)@
            == (if initialize_param_mapping && !is_inlined_callee(line_mapping, next) { old(unique_methods)@.insert((obfuscated, arguments, original)) } else { old(unique_methods)@ }),
        /*@L:other_methods_and_class_header_untouched:C01,C03*/ final(class).original == old(class).original && final(class).obfuscated == old(class).obfuscated
            && final(class).file_name == old(class).file_name && final(class).members@.remove(obfuscated) == old(class).members@.remove(obfuscated),
        /*@L:method_record_is_one_step_of_the_abstract_builder:C02,C03*/ abs_class(*final(class))
            == method_step(abs_class(*old(class)), old(unique_methods)@, initialize_param_mapping, line_mapping, obfuscated, original, original_class, arguments, next),
{
""", suffix="\n        " + ABSP + "\n}\n")
    # ---------------- Class arm: finish the previous class, start a fresh one, reset the de-duplication set ----------------
    a2, b2 = cf.arm_body(r"ProguardRecord::Class\s*\{[^}]*\}")
    r2 = Fragment(u, cf.file, mp.src, cf.start + a2, cf.start + b2, "region", "class-arm")
    r2.qualname = "%s[class-arm]" % cf.qualname
    r2.contracted = True
    r2.props_all = ["C03", "C04", "C01"]
    r2.props_safety = ["C13"]
    r2.insert_at(0, "proof { axiom_key_models(); }\n        broadcast use group_hash_axioms;\n        ")
    u.emit(r2, prefix="""fn region_mapper_class_arm<'s>(classes: &mut HashMap<&'s str, ClassMapping<'s>>, class: ClassMapping<'s>, unique_methods: &mut HashSet<(&'s str, &'s str, &'s str)>,
        original: &'s str, obfuscated: &'s str) -> (ret: ClassMapping<'s>)
    ensures
        /*@L:dedup_state_does_not_leak_into_the_next_class:C03*/ final(unique_methods)@ == Set::<(&str, &str, &str)>::empty(),
        /*@L:new_class_starts_empty:C01,C03*/ ret.original == original && ret.obfuscated == obfuscated && ret.file_name is None && ret.members@ == Map::<&str, ClassMembers>::empty(),
        /*@L:finished_class_is_stored_under_its_obfuscated_name_last_one_wins:C04*/ final(classes)@ == (if class.original@.len() > 0 { old(classes)@.insert(class.obfuscated, class) } else { old(classes)@ }),
{
    let mut class = class;
""", suffix="\n    class\n}\n")

    # ---------------- Header arm: the sourceFile header applies to the class being built ----------------
    a3, b3 = cf.arm_body(r"ProguardRecord::Header\s*\{[^}]*\}")
    r3 = Fragment(u, cf.file, mp.src, cf.start + a3, cf.start + b3, "region", "header-arm")
    r3.qualname = "%s[header-arm]" % cf.qualname
    r3.contracted = True
    r3.props_all = ["C01"]
    r3.props_safety = ["C13"]
    r3.insert_at(0, "broadcast use axiom_str_ext;\n        ")
    u.emit(r3, prefix="""fn region_mapper_header_arm<'s>(class: &mut ClassMapping<'s>, key: &'s str, value: Option<&'s str>)
    ensures
        /*@L:source_file_header_sets_the_file_of_the_current_class:C01*/ final(class).file_name == (if key@ == "sourceFile"@ { value } else { old(class).file_name }),
        final(class).original == old(class).original && final(class).obfuscated == old(class).obfuscated && final(class).members == old(class).members,
{
""", suffix="\n}\n")
    # ---------------- final flush after the loop ----------------
    # the final flush = the first `if .. {` statement after the record loop (structural anchor: any condition text)
    _lp = cf.loops()
    _after = _lp[0][3] + 1 if _lp else 0
    mfl = [m for m in re.finditer(r"(?m)^[ \t]*(if\s[^{;]*\{)", cf.orig) if m.start(1) >= _after][:1]
    mfl = [re.compile(r"if\s[^{;]*\{").match(cf.orig, m.start(1)) for m in mfl]
    flush_found = len(mfl) >= 1
    if not flush_found and not whole:
        raise AnchorLost("create_proguard_mapper: final flush (second `if !class.original.is_empty() {`) not found")
    if flush_found:
        toks = cf._toks()
        from vf.rustlex import match_close
        i = next(ix for ix, t in enumerate(toks) if t[1] == mfl[-1].end() - 1)
        fb = toks[match_close(cf.orig, toks, i)][2]
        r4 = Fragment(u, cf.file, mp.src, cf.start + mfl[-1].start(), cf.start + fb, "region", "final-flush")
        r4.qualname = "%s[final-flush]" % cf.qualname
        r4.contracted = True
        r4.props_all = ["C04", "C02"]
        r4.props_safety = ["C13"]
        r4.insert_at(0, "proof { axiom_key_models(); }\n        broadcast use group_hash_axioms;\n        ")
        u.emit(r4, prefix="""fn region_mapper_final_flush<'s>(classes: &mut HashMap<&'s str, ClassMapping<'s>>, class: ClassMapping<'s>)
        ensures
            /*@L:last_class_is_stored_like_every_other_one_last_definition_wins:C04,C02*/ final(classes)@
                == (if class.original@.len() > 0 { old(classes)@.insert(class.obfuscated, class) } else { old(classes)@ }),
    {
    """, suffix="\n}\n")

    if whole:
        # ---------------- U13: the whole builder: loop plumbing + the four regions above called in place ----------------
        u.raw(contract("peek_model.rs"), "peek_model")
        extract_struct_priv(u, mg, "ProguardMapping")
        extract_struct_priv(u, mp, "ProguardMapper")
        u.raw("""#[verifier::external_type_specification]
#[verifier::external_body]
pub struct ExOkRecords<'s>(OkRecords<'s>);
// the Ok items of `mapping.iter()`, in file order (the stream itself is specified in unit u7: records(bytes))
pub uninterp spec fn ok_records<'s>(m: ProguardMapping<'s>) -> Seq<ProguardRecord<'s>>;
#[verifier::external_body]
fn shim_ok_records<'s>(mapping: &ProguardMapping<'s>) -> (r: std::iter::Peekable<OkRecords<'s>>)
    ensures pk_rest(r) == ok_records(*mapping),
{ unimplemented!() /* body in /repo: mapping.iter().filter_map(Result::ok).peekable() */ }
""", "glue")
        u.raw("""
// ---- C02, last clause: line-based answers do not depend on whether the parameter index was requested ----
// (the readers answer line-based queries from `all` and the class fields only: u2)
pub open spec fn same_lines<'s>(a: AClass<'s>, b: AClass<'s>) -> bool {
    a.original == b.original && a.obfuscated == b.obfuscated && a.file_name == b.file_name
    && (forall|k: &'s str| a.members.contains_key(k) == b.members.contains_key(k))
    && (forall|k: &'s str| #[trigger] a.members.contains_key(k) ==> a.members[k].all == b.members[k].all)
}
pub open spec fn same_lines_map<'s>(x: Map<&'s str, AClass<'s>>, y: Map<&'s str, AClass<'s>>) -> bool {
    (forall|k: &'s str| x.contains_key(k) == y.contains_key(k)) && (forall|k: &'s str| #[trigger] x.contains_key(k) ==> same_lines(x[k], y[k]))
}
pub proof fn lemma_flag_independent_run<'s>(recs: Seq<ProguardRecord<'s>>, n: int)
    requires 0 <= n <= recs.len(),
    ensures same_lines(run(recs, true, n).cur, run(recs, false, n).cur), same_lines_map(run(recs, true, n).done, run(recs, false, n).done),
    decreases n
{
    if n > 0 {
        lemma_flag_independent_run(recs, n - 1);
        let a = run(recs, true, n - 1); let b = run(recs, false, n - 1);
        match recs[n - 1] {
            ProguardRecord::Method { ty, original, obfuscated, arguments, original_class, line_mapping } => {
                let a1 = method_step(a.cur, a.seen, true, line_mapping, obfuscated, original, original_class, arguments, next_of(recs, n));
                let b1 = method_step(b.cur, b.seen, false, line_mapping, obfuscated, original, original_class, arguments, next_of(recs, n));
                assert(members_of(a.cur, obfuscated).all == members_of(b.cur, obfuscated).all);
                assert forall|k: &'s str| a1.members.contains_key(k) == b1.members.contains_key(k) by {}
                assert forall|k: &'s str| #[trigger] a1.members.contains_key(k) implies a1.members[k].all == b1.members[k].all by {
                    if k != obfuscated { assert(a.cur.members.contains_key(k)); }
                }
            },
            _ => {},
        }
    }
}
pub proof fn lemma_line_answers_do_not_depend_on_the_parameter_index<'s>(recs: Seq<ProguardRecord<'s>>)
    ensures /*@L:line_based_content_is_the_same_with_and_without_parameter_index:C02*/ same_lines_map(built(recs, true), built(recs, false)),
{
    lemma_flag_independent_run(recs, recs.len() as int);
}
""", "flag independence lemma")
        IMPL = r"impl<'s> ProguardMapper<'s>"
        u.raw(mp.impl_header(IMPL) + "{\n", "glue")
        wf = mp.impl_fn(IMPL, "create_proguard_mapper")
        wf.ret("ret")
        wf.contracted = True
        wf.props_all = ["C01", "C02", "C03", "C04"]
        wf.props_safety = ["C13"]
        # R11: every arm body / the final flush is replaced by a call of the region function verified above (same text, same contract)
        wf.replace_span(ra, end, "region_mapper_method_arm(initialize_param_mapping, line_mapping, &mut class, obfuscated, original, original_class, arguments, &mut unique_methods, shim_peek(&mut records));",
                        "R11", "arm body => call of the region function that was verified from this very text")
        wf.replace_span(a2, b2, """let ghost classes0 = classes@; let ghost class0 = class;
                    class = region_mapper_class_arm(&mut classes, class, &mut unique_methods, original, obfuscated);
                    proof { lemma_abs_insert(classes0, class0.obfuscated, class0); lemma_abs_class_empty(class); }""", "R11")
        wf.replace_span(a3, b3, "region_mapper_header_arm(&mut class, key, value);", "R11")
        if flush_found:
            wf.replace_span(mfl[-1].start(), fb, """let ghost classes0 = classes@; let ghost class0 = class;
        region_mapper_final_flush(&mut classes, class);
        proof { lemma_abs_insert(classes0, class0.obfuscated, class0); }""", "R11")
        mr = re.search(r"let\s+mut\s+(\w+)\s*=\s*(\w+)\.iter\(\)\.filter_map\(Result::ok\)\.peekable\(\)\s*;", wf.orig)
        if not mr:
            raise AnchorLost("create_proguard_mapper: `let mut records = mapping.iter().filter_map(Result::ok).peekable();` not found")
        recs, mpg = mr.group(1), mr.group(2)
        wf.replace_span(mr.start(), mr.end(), "let mut %s = shim_ok_records(&%s);" % (recs, mpg), "R2",
                        "Iterator::filter_map(Result::ok).peekable() behind a shim: ghost view = the Ok records still to come")
        wf.insert_at(mr.end(), """
        let ghost recs = ok_records(%s);
        let ghost init = initialize_param_mapping;
        let ghost mut n: int = 0;
        proof { axiom_key_models(); lemma_abs_empty(); lemma_abs_class_empty(class); assert(recs.skip(0) == recs); }
        broadcast use group_hash_axioms;""" % mpg)
        lp = wf.loops()
        if not lp or lp[0][0] != "while":
            raise AnchorLost("create_proguard_mapper: record loop not found")

        def nxt(expr):
            if expr != "%s.next()" % recs:
                raise AnchorLost("create_proguard_mapper: the loop does not pull from `%s.next()`" % recs)
            return "shim_peek_next(&mut %s)" % recs
        wf.while_let_to_loop(1, scrutinee_map=nxt, spec="""            invariant
                0 <= n <= recs.len(), pk_rest(%s) == recs.skip(n), init == initialize_param_mapping,
                /*@L:state_after_n_records_is_the_abstract_run:C01,C02,C03,C04*/ abs_classes(classes@) == run(recs, init, n).done
                    && abs_class(class) == run(recs, init, n).cur && unique_methods@ == run(recs, init, n).seen,
            ensures n == recs.len(),
            decreases recs.len() - n,""" % recs,
                             after_next="""            proof {
                assert(record == recs[n]);
                assert(recs.skip(n).drop_first() == recs.skip(n + 1));
                n = n + 1;
                assert(pk_rest(%s).len() > 0 ==> pk_rest(%s)[0] == recs[n]);
            }
""" % (recs, recs))
        wf.contract("""    ensures
        /*@L:mapper_is_the_abstract_build_of_the_record_stream:C01,C02,C03,C04*/ abs_classes(ret.classes@) == built(ok_records(mapping), initialize_param_mapping),""")
        u.emit(wf)
        # the two public constructors: which flag they pass on
        for name, flag in (("new", "false"), ("new_with_param_mapping", None)):
            cf = mp.impl_fn(IMPL, name)
            cf.ret("ret")
            cf.contracted = True
            cf.props_all = ["C01", "C02", "C03", "C04"]
            cf.props_safety = ["C13"]
            mm = re.search(r"fn\s+%s\s*\(\s*(\w+)\s*:\s*ProguardMapping<'s>\s*(?:,\s*(\w+)\s*:\s*bool\s*,?\s*)?\)" % name, cf.orig)
            if not mm or (flag is None and not mm.group(2)):
                raise AnchorLost("ProguardMapper::%s: parameters of unknown shape" % name)
            cf.contract("""    ensures
        /*@L:constructor_builds_the_mapper_of_the_record_stream:C01,C02,C03,C04*/ abs_classes(ret.classes@) == built(ok_records(%s), %s),""" % (mm.group(1), flag or mm.group(2)))
            u.emit(cf)
        u.raw("}\n", "glue")
    u.raw(FOOTER, "footer")
    return u
