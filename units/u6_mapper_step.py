"""U6m: one step of the mapper builder (`ProguardMapper::create_proguard_mapper`): what a single Method record does to the class
being built -- the rule of C01/C03 for what is stored -- as an R5 region of the real `Method` arm.

Dropped (still assumed): the surrounding `while let Some(record) = records.next()` / `match record` dispatch, `records.peek()` (the
next record is a parameter of the region), the Class/Header arms' bookkeeping other than what u6c proves.
R10: inside the region `continue` is replaced by `return` (the region is the whole rest of the loop body)."""
import re
from vf.unit import Unit, Fragment, AnchorLost
from .common import HEADER, FOOTER, contract, extract_struct, extract_struct_priv

INTERP = None  # filled from u3


def build():
    from . import u3_interpretation
    u = Unit("u6_mapper_step")
    u.raw(HEADER, "header")
    u.raw("use std::collections::{HashMap, HashSet};\nuse vstd::std_specs::hash::*;\n", "glue")
    u.raw(contract("std_specs.rs"), "std_specs")
    mg = u.source("src/mapping.rs")
    extract_struct(u, mg, "LineMapping", derive="#[derive(Clone, Copy)]")
    extract_struct(u, mg, "ProguardRecord", kind="enum")
    mp = u.source("src/mapper.rs")
    extract_struct_priv(u, mp, "MemberMapping")
    extract_struct_priv(u, mp, "ClassMembers")
    extract_struct_priv(u, mp, "ClassMapping")
    u.raw("""impl<'s> Clone for MemberMapping<'s> {
    #[verifier::external_body] // stands for the compiler-generated #[derive(Clone)] (all fields Copy: field-wise copy)
    fn clone(&self) -> (r: Self) ensures r == *self { unimplemented!() }
}
""", "glue")
    u.raw(u3_interpretation.MODEL, "interp_model")
    u.raw("""
// ---- assumed std contracts: HashMap entry API, HashSet::insert on string keys (content equality) ----
#[verifier::external_body]
pub proof fn axiom_key_models()
    ensures obeys_key_model::<(&str, &str, &str)>(), obeys_key_model::<&str>(), builds_valid_hashers::<std::collections::hash_map::RandomState>(),
{}

// `class.members.entry(k).or_insert_with(|| ClassMembers { all_mappings: Vec::with_capacity(1), mappings_by_params: Default::default() })`
#[verifier::external_body]
fn shim_members_entry<'a, 's>(m: &'a mut HashMap<&'s str, ClassMembers<'s>>, k: &'s str) -> (r: &'a mut ClassMembers<'s>)
    ensures
        old(m)@.contains_key(k) ==> *r == old(m)@[k],
        !old(m)@.contains_key(k) ==> r.all_mappings@ == Seq::<MemberMapping>::empty() && r.mappings_by_params@ == Map::<&str, Vec<MemberMapping>>::empty(),
        final(m)@ == old(m)@.insert(k, *final(r)),
{ unimplemented!() }

// `members.mappings_by_params.entry(k).or_insert_with(|| Vec::with_capacity(1))`
#[verifier::external_body]
fn shim_by_params_entry<'a, 's>(m: &'a mut HashMap<&'s str, Vec<MemberMapping<'s>>>, k: &'s str) -> (r: &'a mut Vec<MemberMapping<'s>>)
    ensures
        old(m)@.contains_key(k) ==> r@ == old(m)@[k]@,
        !old(m)@.contains_key(k) ==> r@ == Seq::<MemberMapping>::empty(),
        final(m)@ == old(m)@.insert(k, *final(r)),
{ unimplemented!() }

pub open spec fn opt_usize(o: Option<int>) -> Option<usize> { match o { Some(x) => Some(x as usize), None => None } }
// the entry stored for a method record (C01): numbers by `interp`, foreign class, original name, the sourceFile header in force
pub open spec fn stored_entry<'s>(lm: Option<LineMapping>, original_class: Option<&'s str>, original: &'s str, file_name: Option<&'s str>) -> MemberMapping<'s> {
    let i = interp(lm);
    MemberMapping { startline: i.start as usize, endline: i.end as usize, original_class, original_file: file_name, original,
                    original_startline: i.orig_start as usize, original_endline: opt_usize(i.orig_end) }
}
pub open spec fn seq_of<'s>(m: Map<&'s str, ClassMembers<'s>>, k: &'s str) -> Seq<MemberMapping<'s>> {
    if m.contains_key(k) { m[k].all_mappings@ } else { Seq::empty() }
}
pub open spec fn bp_of<'s>(m: Map<&'s str, ClassMembers<'s>>, k: &'s str, a: &'s str) -> Seq<MemberMapping<'s>> {
    if m.contains_key(k) && m[k].mappings_by_params@.contains_key(a) { m[k].mappings_by_params@[a]@ } else { Seq::empty() }
}
// C03: an entry is an inlined callee iff the NEXT record is a method whose obfuscated range is identical
pub open spec fn is_inlined_callee(lm: Option<LineMapping>, next: Option<&ProguardRecord>) -> bool {
    match (lm, next) {
        (Some(cur), Some(ProguardRecord::Method { line_mapping: Some(nl), .. })) => cur.startline == nl.startline && cur.endline == nl.endline,
        _ => false,
    }
}
""", "model")

    cf = mp.impl_fn(r"impl<'s> ProguardMapper<'s>", "create_proguard_mapper")
    # the region is the body of the `ProguardRecord::Method { .. } => { .. }` arm
    ra, end = cf.arm_body(r"ProguardRecord::Method\s*\{[^}]*\}")
    r = Fragment(u, cf.file, mp.src, cf.start + ra, cf.start + end, "region", "method-arm")
    r.qualname = "%s[method-arm]" % cf.qualname
    r.contracted = True
    r.props_all = ["C01", "C02", "C03"]
    r.props_safety = ["C13"]
    r.replace_all_re(r"\bcontinue;", "return;", "R10", why="the region is the rest of the loop body: `continue` == return from the region", min_count=0)
    r.replace_all_re(r"records\.peek\(\)", "next", "R5", why="unreachable iterator state `records.peek()` becomes a parameter of the region", min_count=1)
    r.replace_call("class .members .entry(obfuscated) .or_insert_with", "shim_members_entry(&mut class.members, obfuscated)", "R2",
                   why="HashMap entry API behind a shim (assumed contract: existing value or a fresh empty ClassMembers)")
    r.replace_call("members .mappings_by_params .entry(arguments) .or_insert_with", "shim_by_params_entry(&mut members.mappings_by_params, arguments)", "R2")
    for occ, (ptype, rtype) in enumerate([("&LineMapping", "(usize, usize)"), ("LineMapping", "(usize, Option<usize>)")], 1):
        r.closure("|line_mapping|", occ=occ, params="|line_mapping: %s|" % ptype, ret="r: %s" % rtype, spec="ensures r == ({body})")
    r.insert_at(0, "proof { axiom_key_models(); }\n        broadcast use group_hash_axioms;\n        let ghost file0 = class.file_name;\n        ")
    u.emit(r, prefix="""fn region_mapper_method_arm<'s>(initialize_param_mapping: bool, line_mapping: Option<LineMapping>, class: &mut ClassMapping<'s>,
        obfuscated: &'s str, original: &'s str, original_class: Option<&'s str>, arguments: &'s str,
        unique_methods: &mut HashSet<(&'s str, &'s str, &'s str)>, next: Option<&ProguardRecord<'s>>)
    ensures
        /*@L:every_method_record_is_stored_in_file_order:C01,C02*/ seq_of(final(class).members@, obfuscated)
            == seq_of(old(class).members@, obfuscated).push(stored_entry(line_mapping, original_class, original, old(class).file_name)),
        /*@L:by_params_gets_non_inlined_first_occurrences_only:C03,C02*/ bp_of(final(class).members@, obfuscated, arguments)
            == (if initialize_param_mapping && !is_inlined_callee(line_mapping, next) && !old(unique_methods)@.contains((obfuscated, arguments, original)) {
                    bp_of(old(class).members@, obfuscated, arguments).push(stored_entry(line_mapping, original_class, original, old(class).file_name))
                } else { bp_of(old(class).members@, obfuscated, arguments) }),
        /*@L:seen_set_records_only_indexed_candidates:C03*/ final(unique_methods)@
            == (if initialize_param_mapping && !is_inlined_callee(line_mapping, next) { old(unique_methods)@.insert((obfuscated, arguments, original)) } else { old(unique_methods)@ }),
        /*@L:other_methods_and_class_header_untouched:C01,C03*/ final(class).original == old(class).original && final(class).obfuscated == old(class).obfuscated
            && final(class).file_name == old(class).file_name && final(class).members@.remove(obfuscated) == old(class).members@.remove(obfuscated),
{
""", suffix="\n}\n")
    # ---------------- Class arm: finish the previous class, start a fresh one, reset the de-duplication set ----------------
    a2, b2 = cf.arm_body(r"ProguardRecord::Class\s*\{[^}]*\}")
    r2 = Fragment(u, cf.file, mp.src, cf.start + a2, cf.start + b2, "region", "class-arm")
    r2.qualname = "%s[class-arm]" % cf.qualname
    r2.contracted = True
    r2.props_all = ["C03", "C04", "C01"]
    r2.props_safety = ["C13"]
    r2.insert_at(0, "proof { axiom_key_models(); }\n        broadcast use group_hash_axioms;\n        ")
    u.emit(r2, prefix="""fn region_mapper_class_arm<'s>(classes: &mut HashMap<&'s str, ClassMapping<'s>>, class: ClassMapping<'s>, unique_methods: &mut HashSet<(&'s str, &'s str, &'s str)>,
        original: &'s str, obfuscated: &'s str) -> (ret: ClassMapping<'s>)
    ensures
        /*@L:dedup_state_does_not_leak_into_the_next_class:C03*/ final(unique_methods)@ == Set::<(&str, &str, &str)>::empty(),
        /*@L:new_class_starts_empty:C01,C03*/ ret.original == original && ret.obfuscated == obfuscated && ret.file_name is None && ret.members@ == Map::<&str, ClassMembers>::empty(),
        /*@L:finished_class_is_stored_under_its_obfuscated_name_last_one_wins:C04*/ final(classes)@ == (if class.original@.len() > 0 { old(classes)@.insert(class.obfuscated, class) } else { old(classes)@ }),
{
    let mut class = class;
""", suffix="\n    class\n}\n")

    # ---------------- Header arm: the sourceFile header applies to the class being built ----------------
    a3, b3 = cf.arm_body(r"ProguardRecord::Header\s*\{[^}]*\}")
    r3 = Fragment(u, cf.file, mp.src, cf.start + a3, cf.start + b3, "region", "header-arm")
    r3.qualname = "%s[header-arm]" % cf.qualname
    r3.contracted = True
    r3.props_all = ["C01"]
    r3.props_safety = ["C13"]
    r3.insert_at(0, "broadcast use axiom_str_ext;\n        ")
    u.emit(r3, prefix="""fn region_mapper_header_arm<'s>(class: &mut ClassMapping<'s>, key: &'s str, value: Option<&'s str>)
    ensures
        /*@L:source_file_header_sets_the_file_of_the_current_class:C01*/ final(class).file_name == (if key@ == "sourceFile"@ { value } else { old(class).file_name }),
        final(class).original == old(class).original && final(class).obfuscated == old(class).obfuscated && final(class).members == old(class).members,
{
""", suffix="\n}\n")
    # ---------------- final flush after the loop ----------------
    mfl = [m for m in re.finditer(r"if !class\.original\.is_empty\(\) \{", cf.orig)]
    if len(mfl) < 2:
        raise AnchorLost("create_proguard_mapper: final flush (second `if !class.original.is_empty() {`) not found")
    toks = cf._toks()
    from vf.rustlex import match_close
    i = next(ix for ix, t in enumerate(toks) if t[1] == mfl[-1].end() - 1)
    fb = toks[match_close(cf.orig, toks, i)][2]
    r4 = Fragment(u, cf.file, mp.src, cf.start + mfl[-1].start(), cf.start + fb, "region", "final-flush")
    r4.qualname = "%s[final-flush]" % cf.qualname
    r4.contracted = True
    r4.props_all = ["C04", "C02"]
    r4.props_safety = ["C13"]
    r4.insert_at(0, "proof { axiom_key_models(); }\n        broadcast use group_hash_axioms;\n        ")
    u.emit(r4, prefix="""fn region_mapper_final_flush<'s>(classes: &mut HashMap<&'s str, ClassMapping<'s>>, class: ClassMapping<'s>)
    ensures
        /*@L:last_class_is_stored_like_every_other_one_last_definition_wins:C04,C02*/ final(classes)@
            == (if class.original@.len() > 0 { old(classes)@.insert(class.obfuscated, class) } else { old(classes)@ }),
{
""", suffix="\n}\n")
    u.raw(FOOTER, "footer")
    return u
