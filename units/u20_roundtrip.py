"""U20: the reader accepts what the writer emits, and reads back exactly the emitted tables (C09 / C10 / C02: the byte-format round trip).

No function of /repo is verified here: the unit is a pure lemma that connects two specifications which are each proved against the real
code elsewhere -- `canonical(classes, strings)` (what the writer tail emits, unit u8) and `parse_verdict` / `off_*` (what
`ProguardCache::parse` accepts and where it finds the sections, unit u4) -- so that they cannot drift apart unnoticed.
Statement, for every class list `cs` (each with `wf_cip`), string section, and every 8-aligned buffer address: with `b = canonical(cs, strings)`
  * the first 24 bytes decode to `header_of(cs, strings)`;
  * `parse_verdict(addr, |b|, header) is None` (the reader accepts) and `|b|` is exactly the implied length;
  * the class section the reader slices out decodes to the emitted class records, the two member sections to `all_members` / `all_by_params`,
    and the string section is `strings`.
ASSUMED (the Pod round trip of the watto dependency; the layouts are pinned by Kani K1): decoding the byte image of a header / a run of class
records / a run of member records gives the records back.
"""
from vf.unit import Unit
from .common import HEADER, FOOTER, contract, extract_struct, extract_struct_priv, widen
from vf.unit import strip_attrs_and_docs

LEMMA = """
pub open spec fn emitted_classes(cs: Seq<ClassInProgress>, n: int) -> Seq<Class> { Seq::new(n as nat, |i: int| emitted_class(cs, i)) }
// ASSUMED: Pod round trip (as_bytes, then ref_from_prefix / slice_from_prefix on the same bytes)
#[verifier::external_body]
pub proof fn axiom_pod_roundtrip()
    ensures
        forall|h: Header| hdr_of(#[trigger] hdr_bytes(h)) == h,
        forall|cs: Seq<ClassInProgress>, n: int| 0 <= n <= cs.len() ==> classes_of(#[trigger] classes_bytes(cs, n)) == emitted_classes(cs, n),
        forall|ms: Seq<Member>| members_of(#[trigger] members_bytes(ms)) == ms,
{}
// ASSUMED here, proved by Kani K2 on the compiled constants: the magic and its byte-swapped form differ (0x43475250 / 0x50524743)
#[verifier::external_body]
pub proof fn axiom_magic_is_not_its_own_flip()
    ensures PRGCACHE_MAGIC != PRGCACHE_MAGIC_FLIPPED,
{}
pub proof fn lemma_pad8_is_pad_len(a: nat, e: nat)
    requires a % 8 == 0,
    ensures pad8(a + e) == pad_len(e as int),
{ reveal(pad8); }

// the reader's section offsets at an 8-aligned address are the writer's cumulative padded lengths (integers only)
pub open spec fn w_e1() -> int { 24 + pad_len(24) }
pub open spec fn w_e2p(h: Header) -> int { let e2 = w_e1() + 28 * h.num_classes as int; e2 + pad_len(e2) }
pub open spec fn w_e3p(h: Header) -> int { let e3 = w_e2p(h) + 36 * h.num_members as int; e3 + pad_len(e3) }
pub open spec fn w_e4p(h: Header) -> int { let e4 = w_e3p(h) + 36 * h.num_members_by_params as int; e4 + pad_len(e4) }
pub proof fn lemma_offsets_agree(a: nat, h: Header)
    requires a % 8 == 0,
    ensures off_classes(a) == w_e1(), off_members(a, h) == w_e2p(h), off_by_params(a, h) == w_e3p(h), off_strings(a, h) == w_e4p(h),
        w_e1() % 8 == 0, w_e2p(h) % 8 == 0, w_e3p(h) % 8 == 0, w_e4p(h) % 8 == 0,
        implied_len(a, h) == layout_len(h),
{
    reveal(pad8);
}
// the pieces of a five-part concatenation, each found at its cumulative offset; a padded part starts with its content
pub proof fn lemma_five_parts(p1: Seq<u8>, p2: Seq<u8>, p3: Seq<u8>, p4: Seq<u8>, p5: Seq<u8>)
    ensures ({
        let b = p1 + p2 + p3 + p4 + p5; let l1 = p1.len() as int; let l2 = l1 + p2.len(); let l3 = l2 + p3.len(); let l4 = l3 + p4.len();
        b.len() == l4 + p5.len() && b.subrange(0, l1) == p1 && b.subrange(l1, l2) == p2 && b.subrange(l2, l3) == p3 && b.subrange(l3, l4) == p4 && b.subrange(l4, b.len() as int) == p5
    }),
{
    let b = p1 + p2 + p3 + p4 + p5; let l1 = p1.len() as int; let l2 = l1 + p2.len(); let l3 = l2 + p3.len(); let l4 = l3 + p4.len();
    assert(b.subrange(0, l1) =~= p1);
    assert(b.subrange(l1, l2) =~= p2);
    assert(b.subrange(l2, l3) =~= p3);
    assert(b.subrange(l3, l4) =~= p4);
    assert(b.subrange(l4, b.len() as int) =~= p5);
}
pub proof fn lemma_padded_head(b: Seq<u8>, s: int, e: int, c: Seq<u8>)
    requires 0 <= s <= e <= b.len(), b.subrange(s, e) == padded(c),
    ensures s + c.len() <= e, b.subrange(s, s + c.len()) == c,
{
    let p = padded(c);
    assert(p.subrange(0, c.len() as int) =~= c);
    assert(b.subrange(s, s + c.len()) =~= p.subrange(0, c.len() as int));
}

pub proof fn lemma_reader_accepts_what_the_writer_emits(a: nat, cs: Seq<ClassInProgress>, strs: Seq<u8>)
    requires
        a % 8 == 0,
        forall|i: int| 0 <= i < cs.len() ==> wf_cip(#[trigger] cs[i]),
        cs.len() <= u32::MAX, sum_members_len(cs) <= u32::MAX, sum_by_params_len(cs) <= u32::MAX, strs.len() <= u32::MAX,
    ensures ({
        let b = canonical(cs, strs); let h = header_of(cs, strs); let n = cs.len() as int;
        &&& b.len() >= 24
        &&& /*@L:emitted_header_decodes_to_the_header_written:C09,C10*/ hdr_of(b.subrange(0, 24)) == h
        &&& /*@L:reader_accepts_every_emitted_file:C09,C10,C02*/ parse_verdict(a, b.len(), h) is None && b.len() == implied_len(a, h)
        &&& /*@L:class_section_read_back_is_the_class_records_emitted:C09,C10,C02*/ classes_of(b.subrange(off_classes(a) as int, off_classes(a) + 28 * h.num_classes)) == emitted_classes(cs, n)
        &&& /*@L:member_section_read_back_is_the_members_emitted:C09,C10,C02*/ members_of(b.subrange(off_members(a, h) as int, off_members(a, h) + 36 * h.num_members)) == all_members(cs, n)
        &&& /*@L:by_params_section_read_back_is_the_records_emitted:C09,C10,C02*/ members_of(b.subrange(off_by_params(a, h) as int, off_by_params(a, h) + 36 * h.num_members_by_params)) == all_by_params(cs, n)
        &&& /*@L:string_section_read_back_is_the_string_table:C09,C10,C02*/ b.subrange(off_strings(a, h) as int, b.len() as int) == strs
    }),
{
    let b = canonical(cs, strs); let h = header_of(cs, strs); let n = cs.len() as int;
    axiom_record_sizes();
    axiom_pod_roundtrip();
    lemma_canonical_len(cs, strs);
    lemma_classes_len(cs, n);
    lemma_offsets_agree(a, h);
    let hb = hdr_bytes(h); let cb = classes_bytes(cs, n);
    let mb = members_bytes(all_members(cs, n)); let pb = members_bytes(all_by_params(cs, n));
    lemma_five_parts(padded(hb), padded(cb), padded(mb), padded(pb), strs);
    let l1 = padded(hb).len() as int; let l2 = l1 + padded(cb).len(); let l3 = l2 + padded(mb).len(); let l4 = l3 + padded(pb).len();
    assert(l1 == w_e1());
    lemma_pad_len_shift(w_e1(), cb.len() as int);
    assert(l2 == w_e2p(h));
    lemma_pad_len_shift(w_e2p(h), mb.len() as int);
    assert(l3 == w_e3p(h));
    lemma_pad_len_shift(w_e3p(h), pb.len() as int);
    assert(l4 == w_e4p(h));
    lemma_padded_head(b, 0, l1, hb);
    lemma_padded_head(b, l1, l2, cb);
    lemma_padded_head(b, l2, l3, mb);
    lemma_padded_head(b, l3, l4, pb);
    axiom_magic_is_not_its_own_flip();
    assert(h.magic == PRGCACHE_MAGIC && h.version == 1);
    assert(header_verdict(h) is None);
}
// the hypotheses are satisfiable: the empty cache at address 0
pub proof fn lemma_roundtrip_instance()
    ensures canonical(Seq::<ClassInProgress>::empty(), Seq::<u8>::empty()).len() == implied_len(0, header_of(Seq::<ClassInProgress>::empty(), Seq::<u8>::empty())),
{
    assert(sum_members_len(Seq::<ClassInProgress>::empty()) == 0 && sum_by_params_len(Seq::<ClassInProgress>::empty()) == 0);
    lemma_reader_accepts_what_the_writer_emits(0, Seq::<ClassInProgress>::empty(), Seq::<u8>::empty());
}
"""


def build():
    u = Unit("u20_roundtrip")
    u.raw("#![feature(allocator_api)]\n" + HEADER, "header")
    u.raw("use std::collections::{BTreeMap, HashSet};\nuse std::io::{ErrorKind, Write};\n", "glue")
    raw = u.source("src/cache/raw.rs")
    cm = u.source("src/cache/mod.rs")
    k = cm.item("enum", "CacheErrorKind")
    strip_attrs_and_docs(k)
    u.emit(k, prefix="#[derive(Clone, Copy)]\n")
    for cname in ("PRGCACHE_MAGIC_BYTES", "PRGCACHE_MAGIC", "PRGCACHE_MAGIC_FLIPPED"):
        c = raw.item("const", cname)
        widen(c)
        if not c.orig.startswith("pub"):
            c.replace_span(0, 0, "pub ", "R4", "visibility widening")
        u.raw("#[verifier::external_body] // R4: value pinned by the Kani harness K2\n", "glue")
        u.emit(c)
    u.emit(raw.item("const", "PRGCACHE_VERSION"))
    extract_struct(u, raw, "Header")
    extract_struct(u, raw, "Class")
    extract_struct(u, raw, "Member")
    extract_struct_priv(u, raw, "ClassInProgress")
    u.raw("pub mod raw { pub use super::{Header, Class, Member, PRGCACHE_MAGIC, PRGCACHE_MAGIC_FLIPPED, PRGCACHE_VERSION}; }\n", "glue (the `raw::` paths of the reader model)")
    u.raw(contract("writer_model.rs"), "writer_model")
    u.raw(contract("writer_lemmas.rs"), "writer_lemmas")
    u.raw(contract("watto_model.rs"), "watto_model")
    u.raw(LEMMA, "round-trip lemma")
    u.raw(FOOTER, "footer")
    return u
