"""U13: the whole mapper builder `ProguardMapper::create_proguard_mapper` -- the loop plumbing around the arms of unit u6.

The four regions of u6 (Header / Class / Method arm bodies, final flush) are emitted and verified again in this file; in the
whole function each of them is replaced (R11) by a call of the region function generated from that very text, so that the
loop is verified against the regions' contracts. New here: `mapping.iter().filter_map(Result::ok).peekable()` behind a shim
(ghost: the Ok records still to come), `while let` => `loop` (R1), `records.peek()` => `shim_peek`.
Top-level postcondition: `abs_classes(ret.classes@) == built(ok_records(mapping), initialize_param_mapping)` where `built` is the
fold of `astep` (one abstract step per record, with one record of look-ahead) followed by the flush of the last class.
"""


def build():
    from . import u6_mapper_step
    return u6_mapper_step.build(whole=True)
