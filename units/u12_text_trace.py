"""U12: text stack-trace remapping rewrites known lines and passes everything else through (C07), both copies.

Functions under contract (real text, extracted on every run):
  * src/mapper.rs     `format_throwable`, `format_frames`, `format_cause` (shared by both back ends)
  * src/mapper.rs     `ProguardMapper::remap_stacktrace`, `ProguardMapper::remap_throwable`      (which=mapper)
  * src/cache/mod.rs  `ProguardCache::remap_stacktrace`,  `ProguardCache::remap_throwable`       (which=cache)

Top-level postcondition (taken from the property statement): the call succeeds and the returned text is
`out_upto(self, lines_of(input), #lines)`, i.e. the concatenation, in input order, of one `line_out` per input line, where
`line_out` is: the remapped throwable (first line, or behind `Caused by: ` on a later line) when its class is known; one
four-space-indented line per remapped frame when the frame line resolves to at least one frame; the input line otherwise.

Abstract here (signature only, R9): `parse_throwable`, `parse_frame` (uninterpreted functions of the line), `remap_class`,
`remap_frame` (the frames its iterator yields are `pending_frames`, proved against the retrace spec in u1/u2), Display impls
(`display_of`).  Assumed: contracts/text_trace_model.rs (writeln!/lines/Peekable restated).
Rewrites (logged): `writeln!(W, "<lit>{}", x)` => `shim_writeln(W, "<lit>", &x)`; `.lines()`, `.next()`, `.peekable()`,
`.peek().is_none()` behind shims; `for` => `loop` (R1); `stacktrace::` path prefix dropped (single-file extraction).
"""
import re

from vf.unit import Unit, AnchorLost
from .common import HEADER, FOOTER, contract, extract_struct

MODEL = """
pub uninterp spec fn spec_remap_class<'x, M>(m: M, class: Seq<char>) -> Option<&'x str>;
// the frames `remap_frame(f)` yields (its contract is proved in u1/u2; abstract here)
pub uninterp spec fn pending_frames<'x, M>(m: M, f: StackFrame<'x>) -> Seq<StackFrame<'x>>;

// what one input line contributes to the output
pub open spec fn line_out<'a, M>(m: M, first: bool, line: &'a str) -> Seq<char> {
    if first {
        match sp_throwable(line) {
            Some(t) => throwable_text(line, remapped_throwable(spec_remap_class(m, t.class@), t)),
            None => match sp_frame(line) {
                Some(f) => frames_text(line, pending_frames(m, f)),
                None => ""@ + line@ + nl(),
            },
        }
    } else {
        match sp_frame(line) {
            Some(f) => frames_text(line, pending_frames(m, f)),
            None => match sp_after_prefix(line, "Caused by: "@) {
                Some(c) => cause_text(line, remapped_throwable(spec_remap_class(m, c.class@), c)),
                None => ""@ + line@ + nl(),
            },
        }
    }
}
// the output for the first n lines: nothing dropped, duplicated or reordered
pub open spec fn out_upto<'a, M>(m: M, ls: Seq<&'a str>, n: int) -> Seq<char>
    decreases n
{
    if n <= 0 { Seq::empty() } else { out_upto(m, ls, n - 1) + line_out(m, n == 1, ls[n - 1]) }
}
// the input "up to line-terminator normalisation"
pub open spec fn normalised<'a>(ls: Seq<&'a str>, n: int) -> Seq<char>
    decreases n
{
    if n <= 0 { Seq::empty() } else { normalised(ls, n - 1) + (""@ + ls[n - 1]@ + nl()) }
}
// C07, last sentence: a mapping that knows none of the classes (no class remaps, no frame resolves) leaves the text unchanged
pub proof fn lemma_unknown_mapping_is_identity<'a, M>(m: M, ls: Seq<&'a str>, n: int)
    requires
        0 <= n <= ls.len(),
        forall|c: Seq<char>| (#[trigger] spec_remap_class::<M>(m, c)) is None,
        forall|f: StackFrame<'a>| (#[trigger] pending_frames::<M>(m, f)).len() == 0,
    ensures
        /*@L:unknown_mapping_leaves_the_text_unchanged:C07*/ out_upto(m, ls, n) == normalised(ls, n),
    decreases n,
{
    if n > 0 {
        lemma_unknown_mapping_is_identity(m, ls, n - 1);
        let line = ls[n - 1];
        assert(line_out(m, n == 1, line) == ""@ + line@ + nl());
    }
}
"""

RFI_OUTSIDE = {
    "mapper": """pub struct RemappedFrameIter<'a>(std::marker::PhantomData<&'a ()>);
impl<'a> Iterator for RemappedFrameIter<'a> { type Item = StackFrame<'a>; fn next(&mut self) -> Option<StackFrame<'a>> { unimplemented!() } }
""",
    "cache": """pub struct RemappedFrameIter<'r, 'a>(std::marker::PhantomData<&'r &'a ()>);
impl<'r, 'a> Iterator for RemappedFrameIter<'r, 'a> { type Item = StackFrame<'a>; fn next(&mut self) -> Option<StackFrame<'a>> { unimplemented!() } }
""",
}
# Display impls are abstract here (`display_of`): stand-ins so that the `T: Display` bound of the shim is met
DISPLAY_OUTSIDE = """impl std::fmt::Display for Throwable<'_> { fn fmt(&self, f: &mut std::fmt::Formatter<'_>) -> std::fmt::Result { unimplemented!() } }
impl std::fmt::Display for StackFrame<'_> { fn fmt(&self, f: &mut std::fmt::Formatter<'_>) -> std::fmt::Result { unimplemented!() } }
"""
RFI_INSIDE = {
    "mapper": "#[verifier::external_type_specification]\n#[verifier::external_body]\npub struct ExRemappedFrameIter<'a>(RemappedFrameIter<'a>);\n",
    "cache": "#[verifier::external_type_specification]\n#[verifier::external_body]\npub struct ExRemappedFrameIter<'r, 'a>(RemappedFrameIter<'r, 'a>);\n",
}


def writeln_shims(f):
    """`writeln!(W, "<lit>{}", x)` => `shim_writeln(W, "<lit>", &x)` (every occurrence; any other format string => lost anchor)"""
    n = 0
    for m in re.finditer(r"writeln!\(\s*(.*?)\s*,\s*\"((?:[^\"\\]|\\.)*)\"\s*,\s*(\w+)\s*\)", f.orig, re.S):
        fmt = m.group(2)
        if not fmt.endswith("{}") or "{" in fmt[:-2] or "}" in fmt[:-2]:
            raise AnchorLost("%s: writeln! format string %r is not of the form \"<literal>{}\"" % (f.name, fmt))
        f.replace_span(m.start(), m.end(), "shim_writeln(%s, \"%s\", &%s)" % (m.group(1), fmt[:-2], m.group(3)), "R2",
                       "writeln!(W, \"<lit>{}\", x) behind a shim: appends <lit> + Display(x) + newline (assumed contract)")
        n += 1
    if len(re.findall(r"write(ln)?!\(", f.orig)) != n:
        raise AnchorLost("%s: a write!/writeln! invocation of unknown shape" % f.name)
    return n


def build(which="mapper"):
    u = Unit("u12_text_trace." + which)
    u.raw(HEADER.replace("verus! {", RFI_OUTSIDE[which] + DISPLAY_OUTSIDE + "verus! {", 1), "header")
    u.raw("use std::fmt::{Error as FmtError, Write};\n", "glue")
    st = u.source("src/stacktrace.rs")
    mp = u.source("src/mapper.rs")
    extract_struct(u, st, "StackFrame")
    extract_struct(u, st, "Throwable")
    u.raw(RFI_INSIDE[which], "glue")
    u.raw(contract("std_specs.rs"), "std_specs")
    u.raw(contract("peek_model.rs"), "peek_model")
    u.raw(contract("text_trace_model.rs"), "text_trace_model")
    u.raw(MODEL, "model")
    if which == "mapper":
        src = mp
        IMPL = r"impl<'s> ProguardMapper<'s>"
        u.raw("pub struct ProguardMapper<'s> { pub opaque: &'s str }\n", "glue")
    else:
        src = u.source("src/cache/mod.rs")
        IMPL = r"impl<'data> ProguardCache<'data>"
        u.raw("pub struct ProguardCache<'data> { pub opaque: &'data str }\n", "glue")
    PROPS = ["C07"]
    SAFETY = ["C13" if which == "mapper" else "C12"]

    # ---- the line classifiers: signature only ----
    for nm, sp in (("parse_throwable", "sp_throwable"), ("parse_frame", "sp_frame")):
        pf = st.fn(nm)
        pf.replace_all_re(r"pub\(crate\) ", "", "R4", "visibility")
        pf.ret("ret")
        pf.contract("    ensures ret == %s(line),\n" % sp)
        pf.drop_body("%s is a pure function of the line; abstract here (panic-freedom of parse_frame: unit u11)" % nm)
        u.raw("#[verifier::external_body]\n", "glue")
        u.emit(pf)

    # ---- format_throwable / format_cause ----
    for nm, spec in (("format_throwable", "throwable_text"), ("format_cause", "cause_text")):
        f = mp.fn(nm)
        f.replace_all_re(r"pub\(crate\) ", "", "R4", "visibility")
        f.ret("ret")
        f.contracted = True
        f.props_all = PROPS
        f.props_safety = SAFETY
        writeln_shims(f)
        arg = re.search(r"(\w+)\s*:\s*Option<Throwable", f.orig)
        if not arg:
            raise AnchorLost("%s: Option<Throwable> parameter not found" % nm)
        f.contract("""    ensures
        /*@L:%s_prints_the_remapped_throwable_or_the_line:C07*/ ret is Ok && (*final(stacktrace)).text() == (*old(stacktrace)).text() + %s(line, %s),
""" % (nm, spec, arg.group(1)))
        f.body_start("proof { axiom_display_str(line); }\n")
        u.emit(f)

    # ---- format_frames ----
    ff = mp.fn("format_frames")
    ff.replace_all_re(r"pub\(crate\) ", "", "R4", "visibility")
    ff.ret("ret")
    ff.contracted = True
    ff.props_all = PROPS
    ff.props_safety = SAFETY
    writeln_shims(ff)
    ma = re.search(r"(\w+)\s*:\s*impl\s+Iterator<", ff.orig)
    if not ma:
        raise AnchorLost("format_frames: iterator parameter not found")
    itn = ma.group(1)
    ff.method_to_shim("peekable", "shim_peekable", why="Iterator::peekable behind a shim that exposes the pending items as a ghost sequence")
    ff.replace_all_re(r"(\w+)\.peek\(\)\.is_none\(\)", r"shim_peek_is_none(&mut \1)", "R2", why="Peekable::peek().is_none() == nothing pending")
    ff.replace_all_re(r"(\w+)\.peek\(\)\.is_some\(\)", r"shim_peek_is_some(&mut \1)", "R2", why="Peekable::peek().is_some() == something pending")
    ff.contract("""    ensures
        /*@L:format_frames_prints_every_remapped_frame_or_the_line:C07*/ ret is Ok && (*final(stacktrace)).text() == (*old(stacktrace)).text() + frames_text(line, iter_items(%s)),
""" % itn)
    ff.body_start("let ghost fs = iter_items(%s); let ghost text0 = (*stacktrace).text();\n    proof { axiom_display_str(line); }\n" % itn)
    loops = ff.loops()
    if len(loops) != 1 or loops[0][0] != "for":
        raise AnchorLost("format_frames: expected exactly one for-loop")
    ff.insert_at(loops[0][1], "let ghost mut k: int = 0;\n    proof { assert(fs.skip(0) == fs); }\n    ")
    ff.for_to_loop(1, next_map=lambda e: "shim_peek_next(&mut %s)" % e if re.fullmatch(r"\w+", e) else (_ for _ in ()).throw(AnchorLost("format_frames: loop over %r" % e)),
                   spec="""        invariant
            0 <= k <= fs.len(), pk_rest(%s) == fs.skip(k),
            (*stacktrace).text() == text0 + frames_lines(fs, k),
        ensures k == fs.len(),
        decreases fs.len() - k,""" % itn,
                   after_next="""        proof {
            assert(fs.skip(k).drop_first() == fs.skip(k + 1));
            k = k + 1;
        }
        let ghost before = (*stacktrace).text();
""")
    # after the writeln in the loop body: re-establish the invariant
    lb = ff.loops()[0]
    mw = re.search(r"writeln!\([^;]*\)\s*\?\s*;", ff.orig[lb[2]:lb[3]])
    if not mw:
        raise AnchorLost("format_frames: writeln!(..)?; in the loop body not found")
    ff.insert_at(lb[2] + mw.end(), "\n        proof { assert((*stacktrace).text() == text0 + (frames_lines(fs, k - 1) + (\"    \"@ + display_of(fs[k - 1]) + nl()))); }")
    u.emit(ff)

    # ---- the back end ----
    u.raw(src.impl_header(IMPL) + "{\n", "glue")
    rc = src.impl_fn(IMPL, "remap_class")
    rc.ret("ret")
    rc.contract("    ensures ret == spec_remap_class(*self, class@),")
    rc.drop_body("remap_class is proved in unit u1/u2; here only its signature is used, with an abstract result")
    u.raw("#[verifier::external_body]\n", "glue")
    u.emit(rc)

    rfm = src.impl_fn(IMPL, "remap_frame")
    rfm.ret("ret")
    rfm.contract("    ensures iter_items(ret) == pending_frames(*self, *frame),")
    rfm.drop_body("remap_frame and the iterator it returns are proved in unit u1/u2; here: signature only, the frames it will yield are abstract")
    u.raw("    #[verifier::external_body]\n", "glue")
    u.emit(rfm)

    rt = src.impl_fn(IMPL, "remap_throwable")
    rt.ret("ret")
    rt.contracted = True
    rt.props_all = PROPS
    rt.props_safety = SAFETY
    rt.closure("|class|", params="|class: &'a str|", ret="r: Throwable<'a>",
               spec="ensures r.class == class && r.message == throwable.message")
    rt.contract("""    ensures
        /*@L:throwable_remapped_iff_its_class_is_known:C07*/ ret == remapped_throwable(spec_remap_class(*self, throwable.class@), *throwable),""")
    u.emit(rt)

    rs = src.impl_fn(IMPL, "remap_stacktrace")
    rs.ret("ret")
    rs.contracted = True
    rs.props_all = PROPS
    rs.props_safety = SAFETY
    writeln_shims(rs)
    rs.replace_all_re(r"(?<!and_then\()stacktrace::(parse_\w+)", r"\1", "R2", why="module path prefix dropped (single-file extraction)")
    rs.method_to_shim("lines", "shim_lines", why="str::lines behind a shim (ghost: the lines still to come)")
    rs.replace_all_re(r"(\w+)\s*\.strip_prefix\((\"(?:[^\"\\]|\\.)*\")\)\s*\.and_then\(stacktrace::parse_throwable\)", r"shim_strip_prefix_then_throwable(\1, \2)", "R2",
                      why="strip_prefix(lit).and_then(parse_throwable) behind a shim: an abstract function of the line and the literal")
    ml = re.search(r"let\s+mut\s+(\w+)\s*=\s*(\w+)\.lines\(\)\s*;", rs.orig)
    if not ml:
        raise AnchorLost("remap_stacktrace: `let mut lines = input.lines();` not found")
    lines, inp = ml.group(1), ml.group(2)
    rs.method_to_shim("next", "shim_lines_next", borrow="&mut ", arg_ok=lambda a: a == "", why="Lines::next behind a shim")
    rs.insert_at(ml.end(), "\n        let ghost ls = lines_of(%s);\n        let ghost mut n: int = 0;" % inp)
    loops = rs.loops()
    if len(loops) != 1 or loops[0][0] != "for":
        raise AnchorLost("remap_stacktrace: expected exactly one for-loop")
    # between the first-line `if let` and the loop: how many lines have been consumed
    rs.insert_at(loops[0][1], """proof {
            if ls.len() > 0 { n = 1; assert(ls.drop_first() == ls.skip(1)); reveal_with_fuel(out_upto, 2); } else { assert(ls.skip(0) == ls); }
            /*@L:first_line_is_throwable_else_frame_else_verbatim:C07*/ assert(stacktrace@ == out_upto(*self, ls, n));
        }
        """)
    rs.for_to_loop(1, next_map=lambda e: "shim_lines_next(&mut %s)" % e if e == lines else (_ for _ in ()).throw(AnchorLost("remap_stacktrace: loop over %r" % e)),
                   spec="""            invariant
                0 <= n <= ls.len(), ls.len() > 0 ==> n >= 1, ln_rest(%s) == ls.skip(n),
                /*@L:output_is_the_concatenation_of_the_line_outputs_so_far:C07*/ stacktrace@ == out_upto(*self, ls, n),
            ensures n == ls.len(),
            decreases ls.len() - n,""" % lines,
                   after_next="""            proof {
                assert(line == ls[n]);
                assert(ls.skip(n).drop_first() == ls.skip(n + 1));
                axiom_display_str(line);
                n = n + 1;
            }
            let ghost before = stacktrace@;
""")
    lb = rs.loops()[0]
    rs.insert_at(lb[3], """    proof { /*@L:later_line_is_frame_else_cause_else_verbatim:C07*/ assert(stacktrace@ == before + line_out(*self, false, line)); }
        """)
    # the first line
    mi = re.search(r"if\s+let\s+Some\((\w+)\)\s*=\s*%s\.next\(\)\s*\{" % lines, rs.orig)
    if not mi:
        raise AnchorLost("remap_stacktrace: `if let Some(line) = lines.next() {` not found")
    rs.insert_at(mi.end(), "\n            proof { axiom_display_str(%s); assert(%s == ls[0]); }" % (mi.group(1), mi.group(1)))
    rs.contract("""    ensures
        /*@L:remapping_succeeds:C07*/ ret is Ok,
        /*@L:output_is_the_line_by_line_concatenation:C07*/ ret is Ok ==> ret->Ok_0@ == out_upto(*self, lines_of(input), lines_of(input).len() as int),""")
    u.emit(rs)
    u.raw("}\n", "glue")
    u.raw(FOOTER, "footer")
    return u
