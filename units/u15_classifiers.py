"""U15: what the two line classifiers of the text remapper return (C07: "a throwable on the first line", "a frame line").

Functions under contract (real text): src/stacktrace.rs `parse_throwable`, `parse_frame`.
Contracts, over the byte view `sb(..)` of contracts/text_model.rs and `t = trim(line)`:
  * parse_throwable: the class is everything before the FIRST `": "` of t (the whole t when there is none), the message everything
    after it -- all of it, so that `class ++ ": " ++ message == t`; the result is None exactly when the class contains a space.
  * parse_frame: Some(f) only if `t == "at " ++ class ++ "." ++ method ++ "(" ++ file ++ ":" ++ digits ++ ")"` with no `(` in
    class.method, no `.` in method, no `:` in file and `parse(digits) == f.line`; None when t lacks the `"at "` prefix or the `)` suffix.
In unit u12 the classifiers are abstract functions of the line; this unit pins what those functions are.
Assumed: the functional str contracts of contracts/text_model.rs (split_once / rsplit_once split at the first / last delimiter,
splitn(2, pat) / split(pat) by first occurrences, contains, trim abstract).
"""
import re

from vf.unit import Unit, AnchorLost
from .common import HEADER, FOOTER, contract, extract_struct
from .u11_text_safety import str_shims, lit_axioms, INDEX_SHIMS


SPEC_TEXT = """
pub open spec fn lit_colon_space() -> Seq<u8> { seq![58u8, 32u8] }
pub open spec fn lit_at() -> Seq<u8> { seq![97u8, 116u8, 32u8] }
// where the line-number digits start in "at " class "." method "(" file ":" digits ")"
pub open spec fn digits_start(f: StackFrame) -> int { 3 + sb(f.class).len() as int + 1 + sb(f.method).len() as int + 1 + sb(f.file->0).len() as int + 1 }
// the specification of parse_throwable on the trimmed line t
// the reference parser of frame lines: `at ` CLASS `.` METHOD `(` FILE `:` DIGITS `)` on the trimmed line t
pub struct FrameParts { pub class: Seq<u8>, pub method: Seq<u8>, pub file: Seq<u8>, pub line: usize }
pub open spec fn frame_spec(t: Seq<u8>) -> Option<FrameParts> {
    if !(has_prefix8(t, lit_at()) && t.len() >= 1 && t[t.len() - 1] == 41u8) { None } else {
        match split_first(t.subrange(3, t.len() - 1), 40u8) { None => None, Some((ms, fs)) =>
        match split_last(ms, 46u8) { None => None, Some((c, m)) =>
        match split_first(fs, 58u8) { None => None, Some((f, d)) =>
        match spec_parse_usize(d) { None => None, Some(n) => Some(FrameParts { class: c, method: m, file: f, line: n }) } } } }
    }
}
pub proof fn lemma_frame_reassemble(t: Seq<u8>, c: Seq<u8>, m: Seq<u8>, f: Seq<u8>, d: Seq<u8>)
    requires t.len() >= 4, t.subrange(0, 3) == lit_at(), t[t.len() - 1] == 41u8,
        t.subrange(3, t.len() - 1) == ((c + seq![46u8] + m) + seq![40u8]) + (f + seq![58u8] + d),
    ensures
        t == lit_at() + c + seq![46u8] + m + seq![40u8] + f + seq![58u8] + d + seq![41u8],
        t.len() == 3 + c.len() + 1 + m.len() + 1 + f.len() + 1 + d.len() + 1,
        t.subrange(3 + c.len() as int + 1 + m.len() as int + 1 + f.len() as int + 1, t.len() - 1) == d,
{
    let mid = t.subrange(3, t.len() - 1);
    assert(t =~= t.subrange(0, 3) + mid + seq![41u8]);
    assert(mid.len() == c.len() + 1 + m.len() + 1 + f.len() + 1 + d.len());
    assert(t =~= lit_at() + c + seq![46u8] + m + seq![40u8] + f + seq![58u8] + d + seq![41u8]);
    assert(t.subrange(3 + c.len() as int + 1 + m.len() as int + 1 + f.len() as int + 1, t.len() - 1) =~= d);
}
pub proof fn lemma_parts_do_not_contain(whole: Seq<u8>, a: Seq<u8>, sep: u8, b: Seq<u8>, x: u8)
    requires whole == a + seq![sep] + b, !whole.contains(x),
    ensures !a.contains(x), !b.contains(x),
{
    if a.contains(x) { let i = choose|i: int| 0 <= i < a.len() && a[i] == x; assert(whole[i] == x); }
    if b.contains(x) { let i = choose|i: int| 0 <= i < b.len() && b[i] == x; assert(whole[a.len() + 1 + i] == x); }
}
pub open spec fn throwable_class(t: Seq<u8>) -> Seq<u8> { match first_occ(t, lit_colon_space()) { Some(i) => t.subrange(0, i), None => t } }
pub open spec fn throwable_message(t: Seq<u8>) -> Option<Seq<u8>> { match first_occ(t, lit_colon_space()) { Some(i) => Some(t.subrange(i + 2, t.len() as int)), None => None } }
"""


def build():
    u = Unit("u15_classifiers")
    u.raw(HEADER, "header")
    st = u.source("src/stacktrace.rs")
    extract_struct(u, st, "StackFrame")
    extract_struct(u, st, "Throwable")
    u.raw(contract("text_model.rs"), "text_model")

    pt = st.fn("parse_throwable")
    pf = st.fn("parse_frame")
    # literal bytes: every string literal in the two functions (starts_with / splitn / split patterns)
    lits = []
    for f in (pt, pf):
        for m in re.finditer(r'"((?:[^"\\]|\\.)*)"', f.orig):
            if m.group(0) not in lits:
                lits.append(m.group(0))
    ax = []
    for i, lit in enumerate(lits):
        val = bytes(lit[1:-1], "utf-8").decode("unicode_escape").encode("utf-8")
        ax.append("#[verifier::external_body]\npub proof fn axiom_lit_%d() ensures sb(%s) == seq![%s] {}\n" % (i, lit, ", ".join("%du8" % b for b in val)))
    u.raw("".join(ax), "literal axioms (generated from the literals in the extracted text)")
    ax_calls = " ".join("axiom_lit_%d();" % i for i in range(len(lits)))
    u.raw(SPEC_TEXT, "model")

    # ---- parse_throwable ----
    pt.replace_all_re(r"pub\(crate\) ", "", "R4", "visibility")
    pt.ret("ret")
    pt.contracted = True
    pt.props_all = ["C07", "C17"]
    pt.props_safety = ["C13"]
    str_shims(pt)
    n1 = pt.method_to_shim("splitn", "shim_str_splitn", why="str::splitn(n, pat) behind a shim (pieces by first occurrences; only n == 2 is modelled)")
    n2 = pt.method_to_shim("split", "shim_str_split", arg_ok=lambda a: a.startswith('"'), why="str::split(pat) behind a shim (all pieces)")
    n3 = pt.method_to_shim("split", "shim_str_split_char", arg_ok=lambda a: a.startswith("'"), why="str::split(char) behind a shim (all pieces)")
    mv = re.search(r"let\s+mut\s+(\w+)\s*=\s*\w+\.split", pt.orig)
    pv = mv.group(1) if mv else "class_split"
    if mv:
        pt.after_stmt(mv.group(0), """
    let ghost ps0 = %s.rest@; let ghost t_ = sb(line);
    proof { assert(pieces_bytes(ps0).len() == ps0.len()); assert(forall|i: int| 0 <= i < ps0.len() ==> pieces_bytes(ps0)[i] == sb(#[trigger] ps0[i])); }""" % pv)
    nexts = [m for m in re.finditer(r"let\s+(\w+)\s*=\s*%s\.next\(\)\??;" % pv, pt.orig)]
    if len(nexts) == 2:
        # hint after the second `next()`: which piece is which (only when the code has the shape `let class = it.next()?; let message = it.next();`)
        pt.insert_at(nexts[1].end(), """
    proof {
        assert(ps0.drop_first().len() == ps0.len() - 1);
        if ps0.len() >= 2 { assert(ps0.drop_first()[0] == ps0[1]); }
    }""")
    pt.method_to_shim("next", "shim_pieces_next", borrow="&mut ", arg_ok=lambda a: a == "", why="iterator over the pieces: next piece")
    # str::contains(char) is rewritten by str_shims (STR_SHIMS of u11) like the other str methods
    pt.contract("""    ensures
        /*@L:throwable_class_is_the_text_before_the_first_colon_space:C07,C17*/ ret is Some ==> sb(ret->0.class) == throwable_class(spec_trim(sb(line))),
        /*@L:throwable_message_is_everything_after_the_first_colon_space:C07,C17*/ ret is Some ==> match throwable_message(spec_trim(sb(line))) {
            Some(m) => ret->0.message is Some && sb(ret->0.message->0) == m,
            None => ret->0.message is None,
        },
        /*@L:a_throwable_line_is_one_whose_class_has_no_space:C07,C17*/ (ret is Some) == !throwable_class(spec_trim(sb(line))).contains(32u8),
""")
    pt.body_start("proof { %s axiom_first_occ(spec_trim(sb(line)), lit_colon_space()); axiom_split_all(spec_trim(sb(line)), lit_colon_space()); assert(lit_colon_space().len() == 2); }\n" % ax_calls)
    u.emit(pt)

    # ---- parse_frame ----
    pf.replace_all_re(r"pub\(crate\) ", "", "R4", "visibility")
    pf.ret("ret")
    pf.contracted = True
    pf.props_all = ["C07", "C17"]
    pf.props_safety = ["C13"]
    str_shims(pf)
    pf.replace_all_re(r"(\w+)\.parse\(\)\.ok\(\)", r"shim_str_parse_usize(\1)", "R2", why="str::parse::<usize>().ok() behind a shim (abstract function of the bytes)", min_count=0)
    pf.replace_all_re(r"(\w+)\.parse::<usize>\(\)\.ok\(\)", r"shim_str_parse_usize(\1)", "R2", why="str::parse::<usize>().ok() behind a shim", min_count=0)
    pf.replace_all_re(r"(\w+)\.parse::<u32>\(\)\.ok\(\)", r"shim_str_parse_u32(\1)", "R2", why="str::parse::<u32>().ok() behind a shim (the unsigned parsers accept the same strings; the narrower one fails on values that do not fit)", min_count=0)
    m = re.search(r"return None;\s*\}", pf.orig)
    if not m:
        raise AnchorLost("parse_frame: early return not found")
    pf.insert_at(m.end(), "\n    proof { axiom_str_boundaries(line); %s }" % ax_calls)
    pf.body_start("proof { %s }\n" % ax_calls)
    mtr = re.search(r"let\s+(\w+)\s*=\s*\w+\.trim\(\)\s*;", pf.orig)
    msp = re.search(r"let\s+\((\w+),\s*(\w+)\)\s*=\s*(\w+)\.split_once\(':'\)\?;", pf.orig)
    mcm = re.search(r"let\s+\((\w+),\s*(\w+)\)\s*=\s*(\w+)\.rsplit_once\('\.'\)\?;", pf.orig)
    if mtr and msp and mcm:
        # proof hints (only for the shape `trim; [3..len-1].split_once('('); rsplit_once('.'); split_once(':'); parse`): name the pieces and reassemble
        pf.insert_at(mtr.end(), "\n    let ghost t_ = sb(%s);" % mtr.group(1))
        pf.insert_at(msp.end(), "\n    let ghost c_ = sb(%s); let ghost m_ = sb(%s); let ghost f_ = sb(%s); let ghost d_ = sb(%s); let ghost ms_ = sb(%s); let ghost fs_ = sb(%s);\n"
                                "    proof { lemma_frame_reassemble(t_, c_, m_, f_, d_); lemma_parts_do_not_contain(ms_, c_, 46u8, m_, 40u8); }"
                     % (mcm.group(1), mcm.group(2), msp.group(1), msp.group(2), mcm.group(3), msp.group(3)))
    pf.contract("""    ensures
        /*@L:a_frame_line_reassembles_to_at_class_dot_method_paren_file_colon_line_paren:C07*/ ret is Some ==> ({
            let t = spec_trim(sb(line)); let f = ret->0;
            f.file is Some && f.parameters is None
            && t.len() >= digits_start(f) + 1
            && t == lit_at() + sb(f.class) + seq![46u8] + sb(f.method) + seq![40u8] + sb(f.file->0) + seq![58u8]
                    + t.subrange(digits_start(f), t.len() - 1) + seq![41u8]
            && spec_parse_usize(t.subrange(digits_start(f), t.len() - 1)) == Some(f.line)
        }),
        /*@L:frame_line_is_accepted_iff_the_reference_parser_accepts_it:C07,C17*/ match ret {
            Some(f) => f.file is Some && f.parameters is None
                && frame_spec(spec_trim(sb(line))) == Some(FrameParts { class: sb(f.class), method: sb(f.method), file: sb(f.file->0), line: f.line }),
            None => frame_spec(spec_trim(sb(line))) is None,
        },
        /*@L:method_has_no_dot_class_and_method_no_paren_file_no_colon:C07*/ ret is Some ==> !sb(ret->0.method).contains(46u8) && !sb(ret->0.class).contains(40u8)
            && !sb(ret->0.method).contains(40u8) && !sb(ret->0.file->0).contains(58u8),
""")
    u.emit(pf)
    # ---- the public entry points StackFrame::try_parse / Throwable::try_parse: from_utf8, then the parser above ----
    u.raw("""
#[verifier::external_type_specification]
#[verifier::external_body]
pub struct ExUtf8Error(std::str::Utf8Error);
pub uninterp spec fn is_utf8(b: Seq<u8>) -> bool;
pub assume_specification<'a> [std::str::from_utf8] (v: &'a [u8]) -> (r: Result<&'a str, std::str::Utf8Error>)
    ensures match r { Ok(s) => is_utf8(v@) && sb(s) == v@, Err(_) => !is_utf8(v@) };
""", "from_utf8 model")
    SF = "impl<'s> StackFrame<'s>"
    tf = st.impl_fn(SF, "try_parse")
    tf.ret("ret")
    tf.contracted = True
    tf.props_all = ["C17"]
    tf.props_safety = ["C13"]
    mtf = re.search(r"fn\s+try_parse\s*\(\s*(\w+)\s*:\s*&'s\s*\[u8\]\s*\)", tf.orig)
    if not mtf:
        raise AnchorLost("StackFrame::try_parse: parameter not found")
    tf.contract("""    ensures
        /*@L:frame_try_parse_is_the_reference_parser_on_valid_utf8:C17*/ match ret {
            Some(f) => is_utf8(%(l)s@) && f.file is Some && f.parameters is None
                && frame_spec(spec_trim(%(l)s@)) == Some(FrameParts { class: sb(f.class), method: sb(f.method), file: sb(f.file->0), line: f.line }),
            None => !is_utf8(%(l)s@) || frame_spec(spec_trim(%(l)s@)) is None,
        },
""" % dict(l=mtf.group(1)))
    str_shims(tf)
    u.raw(st.impl_header(SF) + "{\n", "glue")
    u.emit(tf)
    u.raw("}\n", "glue")
    TH = "impl<'s> Throwable<'s>"
    tt = st.impl_fn(TH, "try_parse")
    tt.ret("ret")
    tt.contracted = True
    tt.props_all = ["C17"]
    tt.props_safety = ["C13"]
    mtt = re.search(r"fn\s+try_parse\s*\(\s*(\w+)\s*:\s*&'s\s*\[u8\]\s*\)", tt.orig)
    if not mtt:
        raise AnchorLost("Throwable::try_parse: parameter not found")
    mfi = re.search(r"\.and_then\(\s*(parse_throwable)\s*\)", tt.orig)
    if mfi:
        tt.replace_span(mfi.start(1), mfi.end(1), """|l: &'s str| -> (o: Option<Throwable<'s>>)
            ensures o is Some ==> sb(o->0.class) == throwable_class(spec_trim(sb(l))),
                o is Some ==> match throwable_message(spec_trim(sb(l))) { Some(m) => o->0.message is Some && sb(o->0.message->0) == m, None => o->0.message is None },
                (o is Some) == !throwable_class(spec_trim(sb(l))).contains(32u8),
            { parse_throwable(l) }""", "R3", "a fn item passed to Option::and_then is eta-expanded into a closure that carries the item's contract")
    tt.contract("""    ensures
        /*@L:throwable_try_parse_is_the_reference_parser_on_valid_utf8:C17*/ match ret {
            Some(t) => is_utf8(%(l)s@) && sb(t.class) == throwable_class(spec_trim(%(l)s@)) && !throwable_class(spec_trim(%(l)s@)).contains(32u8)
                && match throwable_message(spec_trim(%(l)s@)) { Some(m) => t.message is Some && sb(t.message->0) == m, None => t.message is None },
            None => !is_utf8(%(l)s@) || throwable_class(spec_trim(%(l)s@)).contains(32u8),
        },
""" % dict(l=mtt.group(1)))
    u.raw(st.impl_header(TH) + "{\n", "glue")
    u.emit(tt)
    u.raw("}\n", "glue")

    # ---- extract_class_name: the two textual copies against ONE specification ----
    u.raw("""
// the simple name of the outermost class: after the last '.', before the first '$'
pub open spec fn osn(s: Seq<u8>) -> Seq<u8> { split_all(split_all(s, seq![46u8]).last(), seq![36u8])[0] }
""", "model")
    for k, (srcf, qual) in enumerate((("src/mapper.rs", "mapper"), ("src/cache/mod.rs", "cache"))):
        sf = u.source(srcf)
        ec = sf.fn("extract_class_name")
        ec.name = "extract_class_name_%s" % qual
        ec.qualname = "extract_class_name[%s]" % qual   # two copies, one per file: distinct names for obligations and vacuity canaries
        ec.ret("ret")
        ec.contracted = True
        ec.props_all = ["C01", "C02"]
        ec.props_safety = ["C13" if qual == "mapper" else "C12"]
        ec.replace_re(r"fn extract_class_name", "fn extract_class_name_%s" % qual, "R4", why="two functions of the same name in one file: suffixed by their module")
        str_shims(ec)
        ec.method_to_shim("split", "shim_str_split_char", arg_ok=lambda a: a.startswith("'"), why="str::split(char) behind a shim (all pieces)")
        ec.method_to_shim("split", "shim_str_split", arg_ok=lambda a: a.startswith('"'), why="str::split(pat) behind a shim (all pieces)")
        ec.method_to_shim("last", "shim_pieces_last", arg_ok=lambda a: a == "", why="Iterator::last on the pieces")
        ec.method_to_shim("next", "shim_pieces_next", borrow="&mut ", arg_ok=lambda a: a == "", why="iterator over the pieces: next piece")
        ec.contract("""    ensures
        /*@L:outer_simple_name_is_after_the_last_dot_before_the_first_dollar:C01,C02*/ ret is Some && sb(ret->0) == osn(sb(full_path)),
""")
        ec.body_start("""proof {
        axiom_split_all(sb(full_path), seq![46u8]);
        assert forall|x: Seq<u8>| (#[trigger] split_all(x, seq![36u8])).len() >= 1 by { axiom_split_all(x, seq![36u8]); }
        assert forall|ps: Seq<&str>| pieces_bytes(ps).len() == ps.len() by {}
        assert forall|ps: Seq<&str>, i: int| 0 <= i < ps.len() implies pieces_bytes(ps)[i] == sb(#[trigger] ps[i]) by {}
    }
""")
        u.emit(ec)
    u.raw(FOOTER, "footer")
    return u
