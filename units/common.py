import os
import re

VERIF = os.path.dirname(os.path.dirname(os.path.abspath(__file__)))


def contract(name):
    return open(os.path.join(VERIF, "contracts", name), encoding="utf-8").read()


HEADER = """// GENERATED on every run by /verif/check from /repo's working tree -- do not edit.
// Text between `verus!{` and `}` is: assumed std/dependency contracts + spec library (hand written, /verif/contracts)
// + items extracted mechanically from /repo (see the .diff file next to this one for every inserted/rewritten character).
#![allow(unused_imports, dead_code, unused_variables, unused_mut, unused_assignments, unreachable_code)]
use vstd::prelude::*;
use vstd::std_specs::iter::IteratorSpec;
use std::cmp::Ordering;
verus! {
// assumption: 64-bit target (usize == u64); machine integers are NOT idealised beyond this
global size_of usize == 8;
"""

FOOTER = """
} // verus!
fn main() {}
"""


def widen(frag):
    """R4: pub(crate)/private struct fields => pub (no run-time meaning)."""
    frag.replace_all_re(r"pub\(crate\) ", "pub ", "R4", "visibility widening")
    return frag


def emit_type_aliases(unit, src, frag, _visiting=None):
    """A struct whose field types go through a `type X<..> = ..;` alias of the same file needs the alias: emit it first (once per unit,
    see Unit.emit). The alias text is taken from /repo like everything else."""
    import re
    visiting = _visiting if _visiting is not None else set()
    done = unit.__dict__.setdefault("_aliases_emitted", set())
    for it in src.items:
        if it.kind != "type" or (src.rel, it.name) in done or it.name in visiting or it.name == getattr(frag, "name", None):
            continue
        if re.search(r"\b%s\b" % re.escape(it.name), frag.orig):
            al = src.item("type", it.name)
            visiting.add(it.name)
            emit_type_aliases(unit, src, al, visiting)   # aliases of aliases
            unit.emit(al)


def extract_struct(unit, src, name, derive=None, kind="struct"):
    from vf.unit import strip_attrs_and_docs
    f = src.item(kind, name)
    strip_attrs_and_docs(f)
    widen(f)
    emit_type_aliases(unit, src, f)
    unit.emit(f, prefix=(derive + "\n") if derive else "")
    return f


def widen_private_fields(frag):
    """R4: private struct fields => pub."""
    import re
    body_from = frag.orig.index("{")
    for m in re.finditer(r"(?m)^(\s+)([a-z_][a-z0-9_]*)\s*:(?!:)", frag.orig):
        if m.start() > body_from:
            frag.replace_span(m.start(2), m.start(2), "pub ", "R4", "visibility widening")
    return frag


def extract_struct_priv(unit, src, name, derive=None, kind="struct"):
    from vf.unit import strip_attrs_and_docs
    f = src.item(kind, name)
    strip_attrs_and_docs(f)
    widen_private_fields(f)
    if not f.orig.startswith("pub"):
        f.replace_span(0, 0, "pub ", "R4", "visibility widening")
    emit_type_aliases(unit, src, f)
    unit.emit(f, prefix=(derive + "\n") if derive else "")
    return f

# inserted at the start of every function body that compares strings (assumed str order axioms, see std_specs.rs)
STR_ORD = "broadcast use axiom_str_cmp;\n        proof { axiom_str_obeys(); }\n"


# `#[derive(Clone)]` on a struct whose fields are all `Copy`: the compiler-generated impl is a field-wise copy.
# Verus gives derived Clone impls no specification unless the type is Copy, so the documented behaviour is assumed.
CLONE_STACKFRAME = """impl<'s> Clone for StackFrame<'s> {
    #[verifier::external_body] // stands for the compiler-generated #[derive(Clone)] (assumed: field-wise copy)
    fn clone(&self) -> (r: Self) ensures r == *self { unimplemented!() }
}
"""


def label_helper_lemmas(text, prop):
    """Every proof function of the lemma text whose statement carries no label gets one (named after the function, charged to `prop`):
    a step of the refinement that fails is a failed obligation of that property, not an anonymous event."""
    out, pos = [], 0
    for m in re.finditer(r"(?m)^pub proof fn (\w+)", text):
        body = text.find("\n{", m.end())
        hdr = text[m.end():body if body >= 0 else len(text)]
        if "/*@L:" in hdr or "ensures" not in hdr:
            continue
        e = text.index("ensures", m.end())
        out.append(text[pos:e + len("ensures")] + " /*@L:%s:%s*/" % (m.group(1), prop))
        pos = e + len("ensures")
    out.append(text[pos:])
    return "".join(out)
