"""U3: the two record-interpretation blocks (how a method record's optional LineMapping becomes the numbers stored in an entry):
mapper.rs (inside create_proguard_mapper) and cache/raw.rs (inside ProguardCache::write), as R5 regions.

Both are proved against ONE spec function `interp` written from the property text (C01: range-to-range, identity when the original
range is missing, 0 / no range when there is no line mapping), which gives (a) the part of C02 "the writer and the mapper store the
same abstract entry" that is not container plumbing, and (b) the builder invariant `entry_in_domain` that the readers' functional
contracts assume, from the parser's guarantee "a line mapping has both obfuscated numbers positive" (proved in u5).
Dropped: everything around the two statements (the collection loops)."""
from vf.unit import Unit, Fragment
from .common import HEADER, FOOTER, contract, extract_struct

MODEL = """
// what a method record's optional line mapping means (C01), independent of representation
pub struct Interp { pub start: int, pub end: int, pub orig_start: int, pub orig_end: Option<int> }
pub open spec fn interp(lm: Option<LineMapping>) -> Interp {
    match lm {
        None => Interp { start: 0, end: 0, orig_start: 0, orig_end: None },                       // no usable range: line 0
        Some(m) => match m.original_startline {
            Some(os) => Interp { start: m.startline as int, end: m.endline as int, orig_start: os as int,
                                 orig_end: match m.original_endline { Some(x) => Some(x as int), None => None } },   // call-site line when no end
            None => Interp { start: m.startline as int, end: m.endline as int, orig_start: m.startline as int, orig_end: Some(m.endline as int) },  // identity
        },
    }
}
// domain of the properties (numbers < 2^32-1) and the parser's guarantee (u5: line mapping present iff both numbers positive)
pub open spec fn lm_in_domain(lm: Option<LineMapping>) -> bool {
    match lm {
        None => true,
        Some(m) => 0 < m.startline < 0xffff_ffff && 0 < m.endline < 0xffff_ffff
            && (match m.original_startline { Some(x) => x < 0xffff_ffff, None => true })
            && (match m.original_endline { Some(x) => x < 0xffff_ffff, None => true }),
    }
}
// the builder invariant the readers' functional contracts assume (model.rs::entry_in_domain, numeric part)
pub open spec fn interp_in_domain(i: Interp) -> bool {
    0 <= i.start < 0xffff_ffff && 0 <= i.end < 0xffff_ffff && 0 <= i.orig_start < 0xffff_ffff
    && (match i.orig_end { Some(x) => 0 <= x < 0xffff_ffff, None => true })
    && (i.end == 0 ==> i.orig_end is None)
}
pub proof fn lemma_interp_domain(lm: Option<LineMapping>)
    requires lm_in_domain(lm),
    ensures interp_in_domain(interp(lm)),
{}
pub open spec fn absent() -> u32 { 0xffff_ffffu32 }
"""


def region(u, src, fn_frag, name):
    a = fn_frag._find("let (startline, endline) =")
    b = fn_frag._find("let (original_startline, original_endline) =")
    end = fn_frag.stmt_extent(b.start())[1]
    f = Fragment(u, fn_frag.file, src.src, fn_frag.start + a.start(), fn_frag.start + end, "region", name)
    f.qualname = "%s[%s]" % (fn_frag.qualname, name)
    f.contracted = True
    f.props_all = ["C02", "C01"]
    return f


def build():
    u = Unit("u3_interpretation")
    u.raw(HEADER, "header")
    u.raw(contract("std_specs.rs"), "std_specs")
    mp = u.source("src/mapping.rs")
    extract_struct(u, mp, "LineMapping", derive="#[derive(Clone, Copy)]")
    u.raw(MODEL, "model")

    # ---- mapper.rs ----
    m = u.source("src/mapper.rs")
    cf = m.impl_fn(r"impl<'s> ProguardMapper<'s>", "create_proguard_mapper")
    r1 = region(u, m, cf, "interpretation")
    r1.props_safety = ["C13"]
    r1.closure("|line_mapping|", occ=1, params="|line_mapping: &LineMapping|", ret="r: (usize, usize)", spec="ensures r == ({body})")
    r1.closure("|line_mapping|", occ=2, params="|line_mapping: LineMapping|", ret="r: (usize, Option<usize>)", spec="ensures r == ({body})")
    u.emit(r1, prefix="""fn region_mapper_interpretation(line_mapping: Option<LineMapping>) -> (ret: (usize, usize, usize, Option<usize>))
    ensures
        /*@L:mapper_stores_the_interpretation:C02,C01*/ ({ let i = interp(line_mapping);
            ret.0 as int == i.start && ret.1 as int == i.end && ret.2 as int == i.orig_start
            && (match ret.3 { Some(x) => Some(x as int), None => None::<int> }) == i.orig_end }),
{
""", suffix="""
    (startline, endline, original_startline, original_endline)
}
""")

    # ---- cache/raw.rs ----
    raw = u.source("src/cache/raw.rs")
    wf = raw.impl_fn(r"impl<'data> ProguardCache<'data>", "write")
    r2 = region(u, raw, wf, "interpretation")
    r2.props_safety = ["C13"]
    r2.closure("|line_mapping|", occ=1, params="|line_mapping: LineMapping|", ret="r: (u32, u32)", spec="ensures r == ({body})")
    r2.closure("|line_mapping|", occ=2, params="|line_mapping: LineMapping|", ret="r: (u32, u32)",
               spec="""ensures r == (match line_mapping.original_startline {
                        Some(os) => (os as u32, match line_mapping.original_endline { Some(l) => l as u32, None => 0xffff_ffffu32 }),
                        None => (line_mapping.startline as u32, line_mapping.endline as u32) })""")
    if "|l|" in r2.orig:
        r2.closure("|l|", params="|l: usize|", ret="r: u32", spec="ensures r == ({body})")
    u.emit(r2, prefix="""fn region_writer_interpretation(line_mapping: Option<LineMapping>) -> (ret: (u32, u32, u32, u32))
    ensures
        // in the representable domain the four stored numbers encode exactly the interpretation (u32::MAX = "no original end")
        /*@L:writer_stores_the_interpretation:C02,C01*/ lm_in_domain(line_mapping) ==> ({ let i = interp(line_mapping);
            ret.0 as int == i.start && ret.1 as int == i.end && ret.2 as int == i.orig_start
            && (if ret.3 == absent() { None::<int> } else { Some(ret.3 as int) }) == i.orig_end }),
{
""", suffix="""
    (startline, endline, original_startline, original_endline)
}
""")
    u.raw(FOOTER, "footer")
    return u
