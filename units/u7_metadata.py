"""U7: file-level metadata answers equal a fold over the complete record stream (C19).

`ProguardRecordIter::next`, `ProguardMapping::iter`, `has_line_info`, `is_valid`, `MappingSummary::new` are verified
on their real text; `parse_proguard_record` is abstract here (signature only, contract = progress + "function of the bytes";
progress is PROVED for the real body in unit u5).
"""
from vf.unit import Unit, AnchorLost
from .common import HEADER, FOOTER, contract, extract_struct, extract_struct_priv

PARSE_RECORD_CONTRACT = """    ensures
        ret.0 == r_of(bytes@), ret.1@ == rest_of(bytes@),
        bytes@.len() > 0 ==> rest_of(bytes@).len() < bytes@.len(),"""

MODEL = """
pub open spec fn is_class(r: Result<ProguardRecord, ParseError>) -> bool { r is Ok && r->Ok_0 is Class }
pub open spec fn is_method(r: Result<ProguardRecord, ParseError>) -> bool { r is Ok && r->Ok_0 is Method }
pub open spec fn is_member(r: Result<ProguardRecord, ParseError>) -> bool { r is Ok && (r->Ok_0 is Field || r->Ok_0 is Method) }
pub open spec fn has_lm(r: Result<ProguardRecord, ParseError>) -> bool {
    r is Ok && r->Ok_0 is Method && r->Ok_0->line_mapping is Some
}
pub open spec fn count_upto(s: Seq<Result<ProguardRecord, ParseError>>, n: int, p: spec_fn(Result<ProguardRecord, ParseError>) -> bool) -> int
    decreases n
{
    if n <= 0 { 0 } else { count_upto(s, n - 1, p) + (if p(s[n - 1]) { 1int } else { 0int }) }
}
pub proof fn lemma_count_bound(s: Seq<Result<ProguardRecord, ParseError>>, n: int, p: spec_fn(Result<ProguardRecord, ParseError>) -> bool)
    requires 0 <= n,
    ensures 0 <= count_upto(s, n, p) <= n,
    decreases n,
{ if n > 0 { lemma_count_bound(s, n - 1, p); } }

pub open spec fn is_header(r: Result<ProguardRecord, ParseError>, key: Seq<char>) -> bool {
    r is Ok && r->Ok_0 is Header && r->Ok_0->key@ == key
}
// value of the LAST header with that key among the first n items (None when there is none)
pub open spec fn last_header<'s>(s: Seq<Result<ProguardRecord<'s>, ParseError<'s>>>, n: int, key: Seq<char>) -> Option<&'s str>
    decreases n
{
    if n <= 0 { None } else if is_header(s[n - 1], key) { s[n - 1]->Ok_0->value } else { last_header(s, n - 1, key) }
}
pub uninterp spec fn spec_parse_u32(s: Seq<char>) -> Option<u32>;
pub open spec fn last_min_api(s: Seq<Result<ProguardRecord, ParseError>>, n: int) -> Option<u32>
    decreases n
{
    if n <= 0 { None } else if is_header(s[n - 1], "min_api"@) {
        match s[n - 1]->Ok_0->value { Some(v) => spec_parse_u32(v@), None => None }
    } else { last_min_api(s, n - 1) }
}

#[verifier::external_trait_specification]
pub trait ExFromStr: Sized {
    type ExternalTraitSpecificationFor: std::str::FromStr;
    type Err;
}
#[verifier::external_type_specification]
#[verifier::external_body]
pub struct ExParseIntError(std::num::ParseIntError);

#[verifier::external_body]
fn shim_parse_u32(x: &str) -> (r: Option<u32>) ensures r == spec_parse_u32(x@) { x.parse().ok() }
"""


def build():
    u = Unit("u7_metadata")
    u.raw(HEADER, "header")
    u.raw("use std::str;\n", "glue")
    mp = u.source("src/mapping.rs")
    extract_struct_priv(u, mp, "ParseError")
    extract_struct(u, mp, "ParseErrorKind", kind="enum")
    extract_struct(u, mp, "LineMapping")
    extract_struct(u, mp, "ProguardRecord", kind="enum")
    extract_struct_priv(u, mp, "ProguardMapping")
    extract_struct_priv(u, mp, "ProguardRecordIter")
    extract_struct_priv(u, mp, "MappingSummary")
    u.raw(contract("std_specs.rs"), "std_specs")
    u.raw(contract("records_model.rs"), "records_model")
    u.raw(MODEL, "model")

    pr = mp.fn("parse_proguard_record")
    pr.ret("ret")
    pr.contract(PARSE_RECORD_CONTRACT)
    pr.drop_body("parse_proguard_record is verified in unit u5 (progress); here it is abstract: its results are named r_of / rest_of")
    u.raw("#[verifier::external_body]\n", "glue")
    u.emit(pr)

    # helper of the parser that `iter` / `next` might call: signature only (R9), contract proved in u5
    cl = mp.fn("consume_leading_newlines")
    cl.ret("ret")
    cl.contract("    ensures ret@ == skip_nl(bytes@),")
    # the only stub of a /repo function in this unit that carries a semantic clause: it must be, textually, the clause unit u5 proves for the body
    import inspect
    from . import u5_parser
    if "ret@ == skip_nl(bytes@)," not in inspect.getsource(u5_parser):
        raise AnchorLost("consume_leading_newlines: the contract assumed here is not the one unit u5 proves")
    cl.drop_body("consume_leading_newlines is verified in unit u5; here only its signature and contract are used")
    u.raw("""pub open spec fn spec_is_newline(b: u8) -> bool { b == 13u8 || b == 10u8 }
pub open spec fn skip_nl(b: Seq<u8>) -> Seq<u8>
    decreases b.len()
{ if b.len() > 0 && spec_is_newline(b[0]) { skip_nl(b.subrange(1, b.len() as int)) } else { b } }
pub proof fn lemma_skip_nl_len(b: Seq<u8>)
    ensures skip_nl(b).len() <= b.len(), skip_nl(skip_nl(b)) == skip_nl(b),
    decreases b.len()
{ if b.len() > 0 && spec_is_newline(b[0]) { lemma_skip_nl_len(b.subrange(1, b.len() as int)); } }
#[verifier::external_body]
""", "glue")
    u.emit(cl)
    u.raw("""impl<'s> vstd::std_specs::iter::IteratorSpecImpl for ProguardRecordIter<'s> {
    open spec fn obeys_prophetic_iter_laws(&self) -> bool { true }
    open spec fn remaining(&self) -> Seq<Result<ProguardRecord<'s>, ParseError<'s>>> { records(self.slice@) }
    open spec fn will_return_none(&self) -> bool { true }
    open spec fn decrease(&self) -> Option<nat> { Some(self.slice@.len()) }
    open spec fn peek(&self, i: int) -> Option<Result<ProguardRecord<'s>, ParseError<'s>>> { if 0 <= i < records(self.slice@).len() { Some(records(self.slice@)[i]) } else { None } }
}
""", "glue")
    ITI = r"impl<'s> Iterator for ProguardRecordIter<'s>"
    u.raw(mp.impl_header(ITI) + "{\n    type Item = Result<ProguardRecord<'s>, ParseError<'s>>;\n", "glue")
    nx = mp.impl_fn(ITI, "next")
    nx.props_all = ["C19", "C06"]
    nx.props_safety = ["C13"]
    nx.contracted = True  # the contract is the prophetic iterator laws of the trait (remaining() == records(slice))
    nx.body_start("proof { lemma_skip_nl_len(self.slice@); }\n")
    u.emit(nx)
    u.raw("}\n", "glue")

    PM = r"impl<'s> ProguardMapping<'s>"
    u.raw(mp.impl_header(PM) + "{\n", "glue")
    it = mp.impl_fn(PM, "iter")
    it.ret("r")
    it.props_all = ["C19"]
    # the iterator yields the item stream of the source: whether `iter` already skips leading line terminators (they carry no item) is not pinned
    it.contract("    ensures /*@L:iter_yields_the_item_stream_of_the_source:C19*/ records(r.slice@) == records(self.source@), r.slice@.len() <= self.source@.len(),")
    it.body_start("proof { lemma_skip_nl_len(self.source@); }\n")
    u.emit(it)

    h = mp.impl_fn(PM, "has_line_info")
    h.ret("ret")
    h.props_all = ["C19"]
    h.props_safety = ["C13"]
    h.contract("""    ensures
        /*@L:has_line_info_iff_some_mapped_method:C19*/ ret == exists|i: int| 0 <= i < records(self.source@).len() && has_lm(#[trigger] records(self.source@)[i]),""")
    h.for_iter_name(1, "it")
    h.loop_spec(1, """            invariant
                it.seq() == records(self.source@),
                forall|i: int| 0 <= i < it.index@ ==> !has_lm(#[trigger] records(self.source@)[i]),""")
    u.emit(h)

    v = mp.impl_fn(PM, "is_valid")
    v.ret("ret")
    v.props_all = ["C19"]
    v.props_safety = ["C13"]
    v.contract("""    ensures
        /*@L:is_valid_iff_class_then_member_in_first_50:C19*/ ret == exists|i: int, j: int| 0 <= i < j < 50 && j < records(self.source@).len()
            && is_class(#[trigger] records(self.source@)[i]) && is_member(#[trigger] records(self.source@)[j]),""")
    # R6: split `P1 | P2 if G => B` into two arms (Verus: or-pattern with guard unsupported)
    import re as _re
    _m = _re.search(r"Ok\(ProguardRecord::Field \{ \.\. \}\) \| Ok\(ProguardRecord::Method \{ \.\. \}\)\s*if (?P<g>[^=]+?)=>\s*(?P<b>\{[^{}]*\})", v.orig)
    if _m:
        # guard and body are taken from the text, whatever they are
        v.replace_span(_m.start(), _m.end(),
                       "Ok(ProguardRecord::Field { .. }) if %s => %s\n                Ok(ProguardRecord::Method { .. }) if %s => %s" % (_m.group("g").strip(), _m.group("b"), _m.group("g").strip(), _m.group("b")),
                       "R6", "or-pattern with a guard split into two arms with the same guard and body")
    v.for_iter_name(1, "it")
    v.loop_spec(1, """            invariant
                it.seq() == records(self.source@).take(50) || (records(self.source@).len() < 50 && it.seq() == records(self.source@)),
                it.seq().len() <= 50, it.seq().len() <= records(self.source@).len(),
                forall|k: int| 0 <= k < it.seq().len() ==> it.seq()[k] == records(self.source@)[k],
                has_class_line == exists|i: int| 0 <= i < it.index@ && is_class(#[trigger] records(self.source@)[i]),
                forall|i: int, j: int| 0 <= i < j < it.index@ ==> !(is_class(#[trigger] records(self.source@)[i]) && is_member(#[trigger] records(self.source@)[j])),""")
    u.emit(v)
    u.raw("}\n", "glue")

    MS = r"impl<'s> MappingSummary<'s>"
    u.raw(mp.impl_header(MS) + "{\n", "glue")
    n = mp.impl_fn(MS, "new")
    n.ret("ret")
    n.props_all = ["C19"]
    n.props_safety = ["C13"]
    n.replace("value.and_then(|x| x.parse().ok())", "value.and_then(|x: &'s str| -> (r: Option<u32>) ensures r == spec_parse_u32(x@) { shim_parse_u32(x) })",
              "R2", why="str::parse::<u32>().ok() behind a shim with an abstract result (FromStr is outside Verus' reach)")
    n.contract("""    ensures ({ let recs = records(mapping.source@); let n = recs.len() as int;
        &&& /*@L:class_count:C19*/ ret.class_count == count_upto(recs, n, |r| is_class(r))
        &&& /*@L:method_count:C19*/ ret.method_count == count_upto(recs, n, |r| is_method(r))
        &&& /*@L:compiler_is_last_header:C19*/ ret.compiler == last_header(recs, n, "compiler"@)
        &&& /*@L:compiler_version_is_last_header:C19*/ ret.compiler_version == last_header(recs, n, "compiler_version"@)
        &&& /*@L:min_api_is_last_header:C19*/ ret.min_api == last_min_api(recs, n)
    }),""")
    n.for_iter_name(1, "it")
    n.loop_spec(1, """            invariant
                it.seq() == records(mapping.source@),
                it.seq().len() <= usize::MAX,
                class_count == count_upto(it.seq(), it.index@ as int, |r| is_class(r)),
                method_count == count_upto(it.seq(), it.index@ as int, |r| is_method(r)),
                compiler == last_header(it.seq(), it.index@ as int, "compiler"@),
                compiler_version == last_header(it.seq(), it.index@ as int, "compiler_version"@),
                min_api == last_min_api(it.seq(), it.index@ as int),""")
    n.loop_body_start(1, """            broadcast use axiom_str_ext;
            proof {
                reveal_strlit("compiler"); reveal_strlit("compiler_version"); reveal_strlit("min_api");
                assert("compiler"@.len() == 8 && "compiler_version"@.len() == 16 && "min_api"@.len() == 7);
                lemma_count_bound(it.seq(), it.index@ as int, |r| is_class(r));
                lemma_count_bound(it.seq(), it.index@ as int, |r| is_method(r));
            }
""")
    n.insert_before("for record in mapping.iter()", "proof { lemma_records_len(mapping.source@); }\n        let ghost _len_bound = mapping.source.len();\n        ")
    u.emit(n)
    # the accessors: each returns its own field (a swapped pair would still type-check: compiler / compiler_version, class_count / method_count)
    for name in ("compiler", "compiler_version", "min_api", "class_count", "method_count"):
        g = mp.impl_fn(MS, name)
        g.ret("ret")
        g.contracted = True
        g.props_all = ["C19"]
        g.props_safety = ["C13"]
        g.contract("    ensures /*@L:accessor_%s_returns_its_field:C19*/ ret == self.%s," % (name, name))
        u.emit(g)
    u.raw("}\n", "glue")
    # ProguardMapping::summary is MappingSummary::new of the same mapping
    u.raw(mp.impl_header(PM) + "{\n", "glue")
    sm = mp.impl_fn(PM, "summary")
    sm.ret("ret")
    sm.contracted = True
    sm.props_all = ["C19"]
    sm.props_safety = ["C13"]
    sm.contract("""    ensures ({ let recs = records(self.source@); let n = recs.len() as int;
        &&& /*@L:summary_is_the_summary_of_this_mapping:C19*/ ret.class_count == count_upto(recs, n, |r| is_class(r)) && ret.method_count == count_upto(recs, n, |r| is_method(r))
        &&& ret.compiler == last_header(recs, n, "compiler"@) && ret.compiler_version == last_header(recs, n, "compiler_version"@) && ret.min_api == last_min_api(recs, n)
    }),""")
    u.emit(sm)
    nw = mp.impl_fn(PM, "new")
    nw.ret("ret")
    nw.contracted = True
    nw.props_all = ["C19", "C06"]
    nw.props_safety = ["C13"]
    import re as _re
    mnw = _re.search(r"fn\s+new\s*\(\s*(\w+)\s*:", nw.orig)
    nw.contract("    ensures /*@L:mapping_is_exactly_the_given_bytes:C19,C06*/ ret.source == %s," % (mnw.group(1) if mnw else "source"))
    u.emit(nw)
    u.raw("}\n", "glue")
    u.raw(FOOTER, "footer")
    return u
