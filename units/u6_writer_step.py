"""U6w: one step of the cache writer's collection loop (`ProguardCache::write`): what a single Header / Class / Method record does
to the class in progress, as R5 regions of the three real match arms.  Same indexing rule as the mapper (u6_mapper_step), numbers by
`interp` (u3), string offsets by the assumed string-table model, and the invariant `wf_cip` that the writer tail (u8) assumes is
shown to be established by the Class arm and preserved by the Method arm.

Dropped (still assumed): the `while let` / `match record` dispatch, `records.peek()` (parameter `next`), the flush of the last class.
R10: `continue` => `return` inside a region that is the rest of the loop body."""
import re
from vf.unit import Unit, Fragment, AnchorLost

ABS = r"""
// ---- abstract view of the writer's collection state: per-key sequences instead of BTreeMaps of Vecs ----
pub struct ACip<'d> {
    pub name: &'d str, pub class: Class,
    pub members: spec_fn(&'d str) -> Seq<Member>, pub by: spec_fn((&'d str, &'d str)) -> Seq<Member>,
    pub seen: Set<(&'d str, &'d str, &'d str)>,
}
pub struct AWState<'d> { pub done: Map<&'d str, ACip<'d>>, pub cur: ACip<'d> }
pub open spec fn abs_cip<'d>(c: ClassInProgress<'d>) -> ACip<'d> {
    ACip { name: c.name, class: c.class, members: |k: &'d str| vec_at(c.members, k), by: |k: (&'d str, &'d str)| vec_at(c.members_by_params, k), seen: c.unique_methods@ }
}
pub open spec fn abs_done<'d>(m: Map<&'d str, ClassInProgress<'d>>) -> Map<&'d str, ACip<'d>> { m.map_values(|c: ClassInProgress<'d>| abs_cip(c)) }
pub open spec fn off32(t: StringTable, s: Seq<char>) -> u32 { offset_of(t, s)->0 as u32 }
pub open spec fn inc(x: u32) -> u32 { (x + 1) as u32 }
pub open spec fn fresh_cip<'d>() -> ACip<'d> {
    ACip { name: "", class: Class { obfuscated_name_offset: absent(), original_name_offset: absent(), file_name_offset: absent(),
                members_offset: absent(), members_len: 0, members_by_params_offset: absent(), members_by_params_len: 0 },
           members: |k: &'d str| Seq::<Member>::empty(), by: |k: (&'d str, &'d str)| Seq::<Member>::empty(), seen: Set::empty() }
}
// In the three step functions `tf` is the string table AFTER the record was processed: offsets are whatever the table assigned
// (the order of interning is not specified), they only have to be the offsets of the record's strings in `tf`.
// a `sourceFile` header sets the file of the class in progress; WITHOUT a value it clears it -- exactly what the mapper builder does
// (`class.file_name = value`), so that cache and mapper agree (C02)
pub open spec fn w_header<'d>(tf: StringTable, cur: ACip<'d>, key: &'d str, value: Option<&'d str>) -> ACip<'d> {
    if key@ == "sourceFile"@ { ACip { class: Class { file_name_offset: match value { Some(file_name) => off32(tf, file_name@), None => absent() }, ..cur.class }, ..cur } } else { cur }
}
pub open spec fn w_class<'d>(tf: StringTable, original: &'d str, obfuscated: &'d str) -> ACip<'d> {
    ACip { name: obfuscated, class: Class { original_name_offset: off32(tf, original@), obfuscated_name_offset: off32(tf, obfuscated@), ..fresh_cip::<'d>().class }, ..fresh_cip() }
}
// the strings of a record are in the table after it was processed, and nothing that was in the table moved
pub open spec fn table_grew(t0: StringTable, tf: StringTable, ss: Seq<Seq<char>>) -> bool {
    (forall|i: int| 0 <= i < ss.len() ==> offset_of(tf, #[trigger] ss[i]) is Some)
    && (forall|x: Seq<char>| #[trigger] offset_of(t0, x) is Some ==> offset_of(tf, x) == offset_of(t0, x))
}
pub open spec fn w_method<'d>(tf: StringTable, cur: ACip<'d>, lm: Option<LineMapping>, obfuscated: &'d str, original: &'d str, original_class: Option<&'d str>,
        arguments: &'d str, next: Option<&ProguardRecord<'d>>) -> ACip<'d> {
    let m = stored_member(lm, tf, obfuscated, original, original_class, arguments, cur.class.file_name_offset);
    let indexed = !is_inlined_callee(lm, next);
    let fresh = indexed && !cur.seen.contains((obfuscated, arguments, original));
    ACip {
        class: Class { members_len: inc(cur.class.members_len), members_by_params_len: if fresh { inc(cur.class.members_by_params_len) } else { cur.class.members_by_params_len }, ..cur.class },
        members: |k: &'d str| if k == obfuscated { (cur.members)(k).push(m) } else { (cur.members)(k) },
        by: |k: (&'d str, &'d str)| if fresh && k == (obfuscated, arguments) { (cur.by)(k).push(m) } else { (cur.by)(k) },
        seen: if indexed { cur.seen.insert((obfuscated, arguments, original)) } else { cur.seen },
        ..cur
    }
}
pub open spec fn w_flush<'d>(done: Map<&'d str, ACip<'d>>, cur: ACip<'d>) -> Map<&'d str, ACip<'d>> {
    if cur.name@.len() > 0 { done.insert(cur.name, cur) } else { done }
}
pub open spec fn w_step<'d>(s: AWState<'d>, tf: StringTable, rec: ProguardRecord<'d>, next: Option<&ProguardRecord<'d>>) -> AWState<'d> {
    match rec {
        ProguardRecord::Header { key, value } => AWState { cur: w_header(tf, s.cur, key, value), ..s },
        ProguardRecord::Class { original, obfuscated } => AWState { done: w_flush(s.done, s.cur), cur: w_class(tf, original, obfuscated) },
        ProguardRecord::Method { ty, original, obfuscated, arguments, original_class, line_mapping } =>
            AWState { cur: w_method(tf, s.cur, line_mapping, obfuscated, original, original_class, arguments, next), ..s },
        _ => s,
    }
}
// the strings a record interns
pub open spec fn strings_of<'d>(rec: ProguardRecord<'d>) -> Seq<Seq<char>> {
    match rec {
        ProguardRecord::Header { key, value: Some(file_name) } => if key@ == "sourceFile"@ { seq![file_name@] } else { Seq::empty() },
        ProguardRecord::Class { original, obfuscated } => seq![obfuscated@, original@],
        ProguardRecord::Method { ty, original, obfuscated, arguments, original_class, line_mapping } =>
            match original_class { Some(c) => seq![obfuscated@, original@, arguments@, c@], None => seq![obfuscated@, original@, arguments@] },
        _ => Seq::empty(),
    }
}
pub open spec fn next_of<'d>(recs: Seq<ProguardRecord<'d>>, n: int) -> Option<&ProguardRecord<'d>> { if 0 <= n < recs.len() { Some(&recs[n]) } else { None } }
// the collection state after the first n records; ts[i] is the string table after i records
pub open spec fn w_run<'d>(ts: Seq<StringTable>, recs: Seq<ProguardRecord<'d>>, n: int) -> AWState<'d>
    decreases n
{
    if n <= 0 { AWState { done: Map::empty(), cur: fresh_cip() } } else { w_step(w_run(ts, recs, n - 1), ts[n], recs[n - 1], next_of(recs, n)) }
}
pub open spec fn tables_ok<'d>(ts: Seq<StringTable>, recs: Seq<ProguardRecord<'d>>, n: int) -> bool {
    ts.len() == n + 1 && forall|i: int| 1 <= i <= n ==> table_grew(#[trigger] ts[i - 1], ts[i], strings_of(recs[i - 1]))
}
pub proof fn lemma_run_prefix<'d>(ts: Seq<StringTable>, t: StringTable, recs: Seq<ProguardRecord<'d>>, k: int)
    requires 0 <= k < ts.len(),
    ensures w_run(ts.push(t), recs, k) == w_run(ts, recs, k),
    decreases k,
{ if k > 0 { lemma_run_prefix(ts, t, recs, k - 1); assert(ts.push(t)[k] == ts[k]); } }
pub proof fn lemma_tables_push<'d>(ts: Seq<StringTable>, t: StringTable, recs: Seq<ProguardRecord<'d>>, n: int)
    requires n >= 1, tables_ok(ts, recs, n - 1), table_grew(ts[n - 1], t, strings_of(recs[n - 1])),
    ensures tables_ok(ts.push(t), recs, n),
{
    let ts2 = ts.push(t);
    assert forall|i: int| 1 <= i <= n implies table_grew(#[trigger] ts2[i - 1], ts2[i], strings_of(recs[i - 1])) by {
        if i < n { assert(ts2[i - 1] == ts[i - 1] && ts2[i] == ts[i]); } else { assert(ts2[i - 1] == ts[n - 1] && ts2[i] == t); }
    }
}
pub proof fn lemma_acip_ext<'d>(a: ACip<'d>, b: ACip<'d>)
    requires
        /*@L:class_record_and_counters_are_the_abstract_step:C09,C02*/ a.name == b.name && a.class == b.class,
        /*@L:seen_set_is_the_abstract_step:C03,C02*/ a.seen == b.seen,
        /*@L:member_sequences_are_the_abstract_step:C01,C02,C09*/ forall|k: &'d str| #[trigger] (a.members)(k) == (b.members)(k),
        /*@L:by_params_sequences_are_the_abstract_step:C03,C02*/ forall|k: (&'d str, &'d str)| #[trigger] (a.by)(k) == (b.by)(k),
    ensures a == b,
{ assert(a.members =~= b.members); assert(a.by =~= b.by); }
pub proof fn lemma_abs_done_insert<'d>(m: Map<&'d str, ClassInProgress<'d>>, k: &'d str, c: ClassInProgress<'d>)
    ensures abs_done(m.insert(k, c)) == abs_done(m).insert(k, abs_cip(c)),
{ assert(abs_done(m.insert(k, c)) =~= abs_done(m).insert(k, abs_cip(c))); }
pub proof fn lemma_abs_done_empty<'d>()
    ensures abs_done(Map::<&'d str, ClassInProgress<'d>>::empty()) == Map::<&'d str, ACip<'d>>::empty(),
{ assert(abs_done(Map::<&'d str, ClassInProgress<'d>>::empty()) =~= Map::<&'d str, ACip<'d>>::empty()); }
"""

from .common import HEADER, FOOTER, contract, extract_struct, extract_struct_priv


def build(whole=False):
    from . import u3_interpretation
    u = Unit("u14_writer_builder" if whole else "u6_writer_step")
    OUTSIDE = """// stand-in for the inner iterator of `mapping.iter().filter_map(Result::ok).peekable()` (unit u14 only; never executed)
pub struct OkRecords<'s>(std::marker::PhantomData<&'s ()>);
impl<'s> Iterator for OkRecords<'s> { type Item = ProguardRecord<'s>; fn next(&mut self) -> Option<ProguardRecord<'s>> { unimplemented!() } }
"""
    u.raw("#![feature(allocator_api)]\n" + (HEADER.replace("verus! {", OUTSIDE + "verus! {", 1) if whole else HEADER), "header")
    u.raw("use std::collections::{BTreeMap, HashSet};\nuse vstd::std_specs::hash::*;\n", "glue")
    u.raw(contract("std_specs.rs"), "std_specs")
    mg = u.source("src/mapping.rs")
    extract_struct(u, mg, "LineMapping", derive="#[derive(Clone, Copy)]")
    extract_struct(u, mg, "ProguardRecord", kind="enum")
    raw = u.source("src/cache/raw.rs")
    extract_struct(u, raw, "Class")
    extract_struct(u, raw, "Member")
    extract_struct_priv(u, raw, "ClassInProgress")
    u.raw(u3_interpretation.MODEL, "interp_model")
    # Class::default is real code: extracted and verified (it fixes the "absent" sentinels of a fresh class record)
    d = raw.impl_fn(r"impl Default for Class", "default")
    d.ret("r")
    d.props_all = ["C09", "C10"]
    d.contract("""    ensures /*@L:fresh_class_record_has_absent_sentinels_and_zero_counts:C09,C10*/ r == (Class { obfuscated_name_offset: absent(), original_name_offset: absent(),
        file_name_offset: absent(), members_offset: absent(), members_len: 0, members_by_params_offset: absent(), members_by_params_len: 0 }),""")
    u.raw("impl Default for Class {\n", "glue")
    u.emit(d)
    u.raw("}\n", "glue")
    u.raw("""
impl Clone for Member {
    #[verifier::external_body] // stands for the compiler-generated #[derive(Clone)] (all fields Copy: field-wise copy)
    fn clone(&self) -> (r: Self) ensures r == *self { unimplemented!() }
}
// ---- assumed models: watto::StringTable (interning, stable offsets), BTreeMap entry API, HashSet::insert ----
pub struct StringTable { pub opaque: u8 }
// offset at which string s is stored in table t (None: not interned)
pub uninterp spec fn offset_of(t: StringTable, s: Seq<char>) -> Option<usize>;
impl StringTable {
    #[verifier::external_body]
    pub fn insert(&mut self, s: &str) -> (r: usize)
        ensures offset_of(*final(self), s@) == Some(r),
            forall|x: Seq<char>| #[trigger] offset_of(*old(self), x) is Some ==> offset_of(*final(self), x) == offset_of(*old(self), x),
    { unimplemented!() }
}
#[verifier::external_body]
fn shim_insert_opt(t: &mut StringTable, o: Option<&str>) -> (r: u32)
    ensures
        match o { Some(c) => offset_of(*final(t), c@) is Some && r == offset_of(*final(t), c@)->0 as u32, None => r == absent() && *final(t) == *old(t) },
        forall|x: Seq<char>| #[trigger] offset_of(*old(t), x) is Some ==> offset_of(*final(t), x) == offset_of(*old(t), x),
{ unimplemented!() }
#[verifier::external_body]
pub proof fn axiom_key_models()
    ensures obeys_key_model::<(&str, &str, &str)>(), builds_valid_hashers::<std::collections::hash_map::RandomState>(),
{}
// map view of a BTreeMap and its values in ascending key order
pub uninterp spec fn bmap<K, V>(m: BTreeMap<K, V>) -> Map<K, V>;
pub uninterp spec fn vals<K, V>(m: BTreeMap<K, V>) -> Seq<V>;
pub open spec fn flat<T>(s: Seq<Vec<T>>) -> Seq<T>
    decreases s.len()
{ if s.len() == 0 { Seq::empty() } else { flat(s.drop_last()) + s.last()@ } }
pub open spec fn vec_at<K>(m: BTreeMap<K, Vec<Member>>, k: K) -> Seq<Member> { if bmap(m).contains_key(k) { bmap(m)[k]@ } else { Seq::empty() } }

// `map.entry(k).or_default().push(v)`
#[verifier::external_body]
fn shim_btree_push<K>(m: &mut BTreeMap<K, Vec<Member>>, k: K, v: Member)
    ensures
        vec_at(*final(m), k) == vec_at(*old(m), k).push(v),
        forall|k2: K| k2 != k ==> vec_at(*final(m), k2) == vec_at(*old(m), k2),
        flat(vals(*final(m))).len() == flat(vals(*old(m))).len() + 1,
{ unimplemented!() }
#[verifier::external_body]
fn shim_btree_insert<'d>(m: &mut BTreeMap<&'d str, ClassInProgress<'d>>, k: &'d str, v: ClassInProgress<'d>)
    ensures bmap(*final(m)) == bmap(*old(m)).insert(k, v),
{ unimplemented!() }
// `map.entry(k).or_insert(v)`: keeps an existing value
#[verifier::external_body]
fn shim_btree_or_insert<'d>(m: &mut BTreeMap<&'d str, ClassInProgress<'d>>, k: &'d str, v: ClassInProgress<'d>)
    ensures bmap(*final(m)) == (if bmap(*old(m)).contains_key(k) { bmap(*old(m)) } else { bmap(*old(m)).insert(k, v) }),
{ unimplemented!() }
// `..Default::default()` of the derived Default for ClassInProgress: empty name / maps / set and a default class record
#[verifier::external_body]
fn shim_default_cip<'d>() -> (r: ClassInProgress<'d>)
    ensures r.name@.len() == 0, r.name == "", r.class == (Class { obfuscated_name_offset: absent(), original_name_offset: absent(), file_name_offset: absent(),
                members_offset: absent(), members_len: 0, members_by_params_offset: absent(), members_by_params_len: 0 }),
            bmap(r.members) == Map::<&str, Vec<Member>>::empty(), bmap(r.members_by_params) == Map::<(&str, &str), Vec<Member>>::empty(),
            flat(vals(r.members)).len() == 0, flat(vals(r.members_by_params)).len() == 0,
            r.unique_methods@ == Set::<(&str, &str, &str)>::empty(),
{ unimplemented!() }

pub open spec fn wf_cip(c: ClassInProgress) -> bool {
    c.class.members_len as int == flat(vals(c.members)).len() && c.class.members_by_params_len as int == flat(vals(c.members_by_params)).len()
}
pub open spec fn is_inlined_callee(lm: Option<LineMapping>, next: Option<&ProguardRecord>) -> bool {
    match (lm, next) {
        (Some(cur), Some(ProguardRecord::Method { line_mapping: Some(nl), .. })) => cur.startline == nl.startline && cur.endline == nl.endline,
        _ => false,
    }
}
// the member record stored for a method record (C01/C09): numbers = the four `as u32` of interp (u32::MAX = no original end),
// string references = offsets of the strings in the table, the sourceFile offset in force for the class
pub open spec fn stored_member(lm: Option<LineMapping>, t: StringTable, obfuscated: &str, original: &str, original_class: Option<&str>, arguments: &str, file_off: u32) -> Member {
    let i = interp(lm);
    Member {
        obfuscated_name_offset: offset_of(t, obfuscated@)->0 as u32,
        startline: i.start as u32, endline: i.end as u32,
        original_class_offset: match original_class { Some(c) => offset_of(t, c@)->0 as u32, None => absent() },
        original_file_offset: file_off,
        original_name_offset: offset_of(t, original@)->0 as u32,
        original_startline: i.orig_start as u32,
        original_endline: match i.orig_end { Some(x) => x as u32, None => absent() },
        params_offset: offset_of(t, arguments@)->0 as u32,
    }
}
""" + ABS, "model")

    wf = raw.impl_fn(r"impl<'data> ProguardCache<'data>", "write")
    # ---------------- Method arm ----------------
    ra, rb = wf.arm_body(r"ProguardRecord::Method\s*\{[^}]*\}")
    r = Fragment(u, wf.file, raw.src, wf.start + ra, wf.start + rb, "region", "method-arm")
    r.qualname = "%s[method-arm]" % wf.qualname
    r.contracted = True
    r.props_all = ["C02", "C03", "C09", "C01"]
    r.props_safety = ["C13"]
    MABS = "proof { lemma_acip_ext(abs_cip(*current_class), w_method(*string_table, abs_cip(cc0_), line_mapping, obfuscated, original, original_class, arguments, next)); }"
    r.replace_all_re(r"\bcontinue;", MABS + " return;", "R10", why="the region is the rest of the loop body: `continue` == return from the region", min_count=0)
    r.replace_all_re(r"records\.peek\(\)", "next", "R5", why="unreachable iterator state `records.peek()` becomes a parameter of the region", min_count=0)
    r.replace_all_re(r"current_class\s*\.members\s*\.entry\(obfuscated\)\s*\.or_default\(\)\s*\.push\((.+?)\);", r"shim_btree_push(&mut current_class.members, obfuscated, \1);", "R2",
                     why="BTreeMap entry API behind a shim (assumed: appends to the key's vector, creating it if absent)", min_count=0)
    r.replace_all_re(r"current_class\s*\.members_by_params\s*\.entry\(\(obfuscated, arguments\)\)\s*\.or_default\(\)\s*\.push\((.+?)\);", r"shim_btree_push(&mut current_class.members_by_params, (obfuscated, arguments), \1);", "R2", min_count=0)
    r.closure("|line_mapping|", occ=1, params="|line_mapping: LineMapping|", ret="r: (u32, u32)", spec="ensures r == ({body})")
    r.closure("|line_mapping|", occ=2, params="|line_mapping: LineMapping|", ret="r: (u32, u32)",
              spec="""ensures r == (match line_mapping.original_startline {
                        Some(os) => (os as u32, match line_mapping.original_endline { Some(l) => l as u32, None => 0xffff_ffffu32 }),
                        None => (line_mapping.startline as u32, line_mapping.endline as u32) })""")
    if "|l|" in r.orig:
        r.closure("|l|", params="|l: usize|", ret="r: u32", spec="ensures r == ({body})")
    r.replace_all_re(r"original_class\.map_or\(u32::MAX, \|class_name\| \{\s*string_table\.insert\(class_name\) as u32\s*\}\)", "shim_insert_opt(string_table, original_class)", "R2",
                     why="closure capturing `&mut string_table` (unsupported by Verus): Option::map_or(u32::MAX, |c| string_table.insert(c) as u32) behind a shim", min_count=0)
    r.insert_at(0, "proof { axiom_key_models(); }\n        broadcast use group_hash_axioms;\n        let ghost t0_ = *string_table; let ghost cc0_ = *current_class;\n        ")
    u.emit(r, prefix="""fn region_writer_method_arm<'d>(line_mapping: Option<LineMapping>, string_table: &mut StringTable, current_class: &mut ClassInProgress<'d>,
        obfuscated: &'d str, original: &'d str, original_class: Option<&'d str>, arguments: &'d str, next: Option<&ProguardRecord<'d>>)
    requires
        // representable domain: the u32 counters do not overflow
        old(current_class).class.members_len < u32::MAX, old(current_class).class.members_by_params_len < u32::MAX,
    ensures
        /*@L:member_count_matches_records_after_every_method:C09,C02*/ wf_cip(*old(current_class)) ==> wf_cip(*final(current_class)),
        /*@L:seen_set_records_only_indexed_candidates:C03*/ final(current_class).unique_methods@
            == (if !is_inlined_callee(line_mapping, next) { old(current_class).unique_methods@.insert((obfuscated, arguments, original)) } else { old(current_class).unique_methods@ }),
        /*@L:by_params_count_grows_only_for_non_inlined_first_occurrences:C03,C02*/ final(current_class).class.members_by_params_len as int
            == old(current_class).class.members_by_params_len + (if !is_inlined_callee(line_mapping, next) && !old(current_class).unique_methods@.contains((obfuscated, arguments, original)) { 1int } else { 0int }),
        /*@L:member_record_encodes_the_method_record:C02,C01,C09*/ vec_at(final(current_class).members, obfuscated)
            == vec_at(old(current_class).members, obfuscated).push(stored_member(line_mapping, *final(string_table), obfuscated, original, original_class, arguments, old(current_class).class.file_name_offset)),
        /*@L:by_params_gets_the_same_record_when_indexed:C03,C02*/ (!is_inlined_callee(line_mapping, next) && !old(current_class).unique_methods@.contains((obfuscated, arguments, original)))
            ==> vec_at(final(current_class).members_by_params, (obfuscated, arguments))
                == vec_at(old(current_class).members_by_params, (obfuscated, arguments)).push(stored_member(line_mapping, *final(string_table), obfuscated, original, original_class, arguments, old(current_class).class.file_name_offset)),
        /*@L:strings_already_in_the_table_keep_their_offsets:C09*/ forall|x: Seq<char>| #[trigger] offset_of(*old(string_table), x) is Some ==> offset_of(*final(string_table), x) == offset_of(*old(string_table), x),
        /*@L:every_method_record_counts_once:C09*/ final(current_class).class.members_len == old(current_class).class.members_len + 1,
        /*@L:class_header_fields_untouched:C09*/ final(current_class).name == old(current_class).name
            && final(current_class).class.obfuscated_name_offset == old(current_class).class.obfuscated_name_offset
            && final(current_class).class.original_name_offset == old(current_class).class.original_name_offset
            && final(current_class).class.file_name_offset == old(current_class).class.file_name_offset,
        /*@L:method_record_is_one_step_of_the_abstract_writer:C02*/ abs_cip(*final(current_class))
            == w_method(*final(string_table), abs_cip(*old(current_class)), line_mapping, obfuscated, original, original_class, arguments, next),
        /*@L:method_strings_are_interned:C09*/ offset_of(*final(string_table), obfuscated@) is Some && offset_of(*final(string_table), original@) is Some
            && offset_of(*final(string_table), arguments@) is Some && (original_class is Some ==> offset_of(*final(string_table), original_class->0@) is Some),
{
""", suffix="\n        " + MABS + "\n}\n")
    # ---------------- Class arm ----------------
    a2, b2 = wf.arm_body(r"ProguardRecord::Class\s*\{[^}]*\}")
    r2 = Fragment(u, wf.file, raw.src, wf.start + a2, wf.start + b2, "region", "class-arm")
    r2.qualname = "%s[class-arm]" % wf.qualname
    r2.contracted = True
    r2.props_all = ["C03", "C04", "C09"]
    r2.props_safety = ["C13"]
    r2.replace_all_re(r"classes\.insert\(current_class\.name, current_class\);", "shim_btree_insert(classes, current_class.name, current_class);", "R2",
                      why="BTreeMap::insert behind a shim (map view: last insert for a key wins)", min_count=0)
    # `..Default::default()`: the inner one is Class::default() (real code, verified above), the outer one the derived Default of ClassInProgress (assumed stub)
    dflt = list(re.finditer(r"\.\.Default::default\(\)", r2.orig))
    for k, m in enumerate(dflt):
        # the first (inner) one completes the `Class { .. }` literal, the last (outer) one the `ClassInProgress { .. }` literal
        repl = "..Class::default()" if (k == 0 and len(dflt) > 1) else "..shim_default_cip()"
        r2.replace_span(m.start(), m.end(), repl, "R2", "struct update from Default::default(): spelled out per type (Class::default is verified real code; the derived Default of ClassInProgress is an assumed stub)")
    r2.insert_at(0, "proof { axiom_key_models(); }\n        broadcast use group_hash_axioms;\n        ")
    u.emit(r2, prefix="""fn region_writer_class_arm<'d>(classes: &mut BTreeMap<&'d str, ClassInProgress<'d>>, current_class: ClassInProgress<'d>, string_table: &mut StringTable,
        original: &'d str, obfuscated: &'d str) -> (ret: ClassInProgress<'d>)
    ensures
        /*@L:dedup_state_does_not_leak_into_the_next_class:C03*/ ret.unique_methods@ == Set::<(&str, &str, &str)>::empty(),
        /*@L:new_class_in_progress_is_empty_and_well_formed:C09,C03*/ ret.name == obfuscated && wf_cip(ret) && ret.class.members_len == 0 && ret.class.members_by_params_len == 0
            && bmap(ret.members) == Map::<&str, Vec<Member>>::empty() && bmap(ret.members_by_params) == Map::<(&str, &str), Vec<Member>>::empty()
            && ret.class.file_name_offset == absent(),
        /*@L:class_record_refers_to_its_two_names:C09*/ offset_of(*final(string_table), obfuscated@) is Some && ret.class.obfuscated_name_offset == offset_of(*final(string_table), obfuscated@)->0 as u32
            && offset_of(*final(string_table), original@) is Some && ret.class.original_name_offset == offset_of(*final(string_table), original@)->0 as u32,
        /*@L:finished_class_is_stored_under_its_obfuscated_name_last_one_wins:C04,C09*/ bmap(*final(classes))
            == (if current_class.name@.len() > 0 { bmap(*old(classes)).insert(current_class.name, current_class) } else { bmap(*old(classes)) }),
        /*@L:class_record_is_one_step_of_the_abstract_writer:C02*/ abs_cip(ret) == w_class(*final(string_table), original, obfuscated),
        forall|x: Seq<char>| #[trigger] offset_of(*old(string_table), x) is Some ==> offset_of(*final(string_table), x) == offset_of(*old(string_table), x),
{
    let ghost t0_ = *string_table;
    let mut current_class = current_class;
""", suffix="\n    proof { lemma_acip_ext(abs_cip(current_class), w_class(*string_table, original, obfuscated)); }\n    current_class\n}\n")

    # ---------------- Header arm ----------------
    a3, b3 = wf.arm_body(r"ProguardRecord::Header\s*\{[^}]*\}")
    r3 = Fragment(u, wf.file, raw.src, wf.start + a3, wf.start + b3, "region", "header-arm")
    r3.qualname = "%s[header-arm]" % wf.qualname
    r3.contracted = True
    r3.props_all = ["C01", "C09"]
    r3.props_safety = ["C13"]
    r3.insert_at(0, "broadcast use axiom_str_ext;\n        ")
    # two shapes of the arm pattern: `Header { key, value }` (value-less sourceFile headers handled in the arm) or
    # `Header { key, value: Some(file_name) }` (value-less headers fall through to the catch-all arm)
    import re as _re
    _hm = _re.search(r"ProguardRecord::Header\s*\{\s*(\w+)\s*,\s*value\s*(?::\s*Some\(\s*(\w+)\s*\))?\s*,?\s*\}", wf.orig)
    if not _hm:
        raise AnchorLost("write: pattern of the Header arm of unknown shape")
    HKEY = _hm.group(1)
    if _hm.group(2):
        HPARAM, HVAL, HARG = "%s: &'d str" % _hm.group(2), "Some(%s)" % _hm.group(2), _hm.group(2)
    else:
        HPARAM, HVAL, HARG = "value: Option<&'d str>", "value", "value"
    u.emit(r3, prefix="""fn region_writer_header_arm<'d>(current_class: &mut ClassInProgress<'d>, string_table: &mut StringTable, %(key)s: &'d str, %(param)s)
    ensures
        /*@L:source_file_header_sets_or_clears_the_file_of_the_current_class:C01,C09,C02*/ if %(key)s@ == "sourceFile"@ {
                match %(val)s {
                    Some(f) => offset_of(*final(string_table), f@) is Some && final(current_class).class.file_name_offset == offset_of(*final(string_table), f@)->0 as u32,
                    None => final(current_class).class.file_name_offset == absent() && *final(string_table) == *old(string_table),
                }
            } else { final(current_class).class.file_name_offset == old(current_class).class.file_name_offset && *final(string_table) == *old(string_table) },
        wf_cip(*old(current_class)) ==> wf_cip(*final(current_class)),
        final(current_class).name == old(current_class).name && final(current_class).unique_methods == old(current_class).unique_methods,
        final(current_class).class.members_len == old(current_class).class.members_len && final(current_class).class.members_by_params_len == old(current_class).class.members_by_params_len,
        /*@L:header_record_is_one_step_of_the_abstract_writer:C02*/ abs_cip(*final(current_class)) == w_header(*final(string_table), abs_cip(*old(current_class)), %(key)s, %(val)s),
        forall|x: Seq<char>| #[trigger] offset_of(*old(string_table), x) is Some ==> offset_of(*final(string_table), x) == offset_of(*old(string_table), x),
{
    let ghost t0_ = *string_table; let ghost cc0_ = *current_class;
""" % dict(key=HKEY, param=HPARAM, val=HVAL), suffix="\n    proof { lemma_acip_ext(abs_cip(*current_class), w_header(*string_table, abs_cip(cc0_), %s, %s)); }\n}\n" % (HKEY, HVAL))
    # ---------------- final flush after the loop: the last class is stored like every other one ----------------
    # the final flush = the first `if .. {` statement after the record loop (structural anchor: any condition text)
    _lp = wf.loops()
    _after = _lp[0][3] + 1 if _lp else 0
    mfl = [m for m in re.finditer(r"(?m)^[ \t]*(if\s[^{;]*\{)", wf.orig) if m.start(1) >= _after][:1]
    mfl = [re.compile(r"if\s[^{;]*\{").match(wf.orig, m.start(1)) for m in mfl]
    flush_found = len(mfl) >= 1
    if not flush_found and not whole:
        raise AnchorLost("write: final flush `if !current_class.name.is_empty() {` (second occurrence) not found")
    if flush_found:
        fa = mfl[-1].start()
        toks = wf._toks()
        from vf.rustlex import match_close
        i = next(ix for ix, t in enumerate(toks) if t[1] == mfl[-1].end() - 1)
        fb = toks[match_close(wf.orig, toks, i)][2]
        r4 = Fragment(u, wf.file, raw.src, wf.start + fa, wf.start + fb, "region", "final-flush")
        r4.qualname = "%s[final-flush]" % wf.qualname
        r4.contracted = True
        r4.props_all = ["C04", "C02", "C09"]
        r4.props_safety = ["C13"]
        r4.replace_all_re(r"classes\.insert\(current_class\.name, current_class\);", "shim_btree_insert(classes, current_class.name, current_class);", "R2", min_count=0)
        r4.replace_all_re(r"classes\.entry\(current_class\.name\)\.or_insert\(current_class\);", "shim_btree_or_insert(classes, current_class.name, current_class);", "R2",
                          why="BTreeMap entry API (or_insert keeps an existing value) behind a shim", min_count=0)
        u.emit(r4, prefix="""fn region_writer_final_flush<'d>(classes: &mut BTreeMap<&'d str, ClassInProgress<'d>>, current_class: ClassInProgress<'d>)
        ensures
            /*@L:last_class_is_stored_like_every_other_one_last_definition_wins:C04,C02,C09*/ bmap(*final(classes))
                == (if current_class.name@.len() > 0 { bmap(*old(classes)).insert(current_class.name, current_class) } else { bmap(*old(classes)) }),
    {
    """, suffix="\n}\n")

    if whole:
        # ---------------- U14: the whole collection loop of `write`: plumbing + the four regions above called in place ----------------
        u.raw(contract("peek_model.rs"), "peek_model")
        extract_struct_priv(u, mg, "ProguardMapping")
        u.raw("""#[verifier::external_type_specification]
#[verifier::external_body]
pub struct ExOkRecords<'s>(OkRecords<'s>);
// the Ok items of `mapping.iter()`, in file order (the stream itself is specified in unit u7: records(bytes))
pub uninterp spec fn ok_records<'s>(m: ProguardMapping<'s>) -> Seq<ProguardRecord<'s>>;
#[verifier::external_body]
fn shim_ok_records<'s>(mapping: &ProguardMapping<'s>) -> (r: std::iter::Peekable<OkRecords<'s>>)
    ensures pk_rest(r) == ok_records(*mapping),
{ unimplemented!() /* body in /repo: mapping.iter().filter_map(Result::ok).peekable() */ }
#[verifier::external_body]
fn shim_btree_new<'d>() -> (r: BTreeMap<&'d str, ClassInProgress<'d>>) ensures bmap(r) == Map::<&'d str, ClassInProgress<'d>>::empty() { BTreeMap::new() }
#[verifier::external_body]
fn shim_string_table_new() -> (r: StringTable) { unimplemented!() /* StringTable::new() */ }
// the values of a BTreeMap (ascending key order) are exactly the values of its map view
#[verifier::external_body]
pub proof fn axiom_vals_in_bmap<'d>(m: BTreeMap<&'d str, ClassInProgress<'d>>)
    ensures forall|i: int| 0 <= i < vals(m).len() ==> exists|k: &'d str| bmap(m).contains_key(k) && bmap(m)[k] == #[trigger] vals(m)[i],
{}
pub open spec fn all_wf<'d>(m: Map<&'d str, ClassInProgress<'d>>) -> bool { forall|k: &'d str| m.contains_key(k) ==> wf_cip(#[trigger] m[k]) }
""", "glue")
        start_m = re.search(r"let\s+mut\s+string_table\s*=\s*StringTable::new\(\)\s*;", wf.orig)
        end_m = re.search(r"let\s+mut\s+writer\s*=\s*PaddedWriter::new\(", wf.orig)
        if not start_m or not end_m:
            raise AnchorLost("write: start / end of the collection part not found")
        ce = fb if flush_found else end_m.start()
        cw = Fragment(u, wf.file, raw.src, wf.start + start_m.start(), wf.start + ce, "region", "collect")
        cw.qualname = "%s[collect]" % wf.qualname
        cw.contracted = True
        cw.props_all = ["C09", "C02", "C03", "C04"]
        cw.props_safety = ["C13"]
        off = start_m.start()
        # R11: arm bodies / final flush => calls of the region functions verified above
        cw.replace_span(ra - off, rb - off, "region_writer_method_arm(line_mapping, &mut string_table, &mut current_class, obfuscated, original, original_class, arguments, shim_peek(&mut records));",
                        "R11", "arm body => call of the region function that was verified from this very text")
        cw.replace_span(a2 - off, b2 - off, "current_class = region_writer_class_arm(&mut classes, current_class, &mut string_table, original, obfuscated);", "R11")
        cw.replace_span(a3 - off, b3 - off, "region_writer_header_arm(&mut current_class, &mut string_table, %s, %s);" % (HKEY, HARG), "R11")
        if flush_found:
            cw.replace_span(fa - off, fb - off, """let ghost classes0 = bmap(classes); let ghost cc0 = current_class;
        region_writer_final_flush(&mut classes, current_class);
        proof { if cc0.name@.len() > 0 { lemma_abs_done_insert(classes0, cc0.name, cc0); } }""", "R11")
        cw.replace_all_re(r"StringTable::new\(\)", "shim_string_table_new()", "R2", why="watto::StringTable::new behind a shim (abstract table)")
        cw.replace_all_re(r"BTreeMap::new\(\)", "shim_btree_new()", "R2", why="BTreeMap::new: empty map view")
        cw.replace_all_re(r"ClassInProgress::default\(\)", "shim_default_cip()", "R2", why="derived Default for ClassInProgress (same shim as `..Default::default()` in the Class arm)")
        mr = re.search(r"let\s+mut\s+(\w+)\s*=\s*(\w+)\.iter\(\)\.filter_map\(Result::ok\)\.peekable\(\)\s*;", cw.orig)
        if not mr:
            raise AnchorLost("write: `let mut records = mapping.iter().filter_map(Result::ok).peekable();` not found")
        recs, mpg = mr.group(1), mr.group(2)
        cw.replace_span(mr.start(), mr.end(), "let mut %s = shim_ok_records(%s);" % (recs, mpg), "R2",
                        "Iterator::filter_map(Result::ok).peekable() behind a shim: ghost view = the Ok records still to come")
        cw.insert_at(mr.end(), """
        let ghost recs = ok_records(*%s);
        let ghost mut n: int = 0;
        let ghost mut ts: Seq<StringTable> = seq![string_table];
        proof { assert(recs.skip(0) == recs); lemma_abs_done_empty(); lemma_acip_ext(abs_cip(current_class), fresh_cip()); }""" % mpg)
        lp = cw.loops()
        if not lp or lp[0][0] != "while":
            raise AnchorLost("write: record loop not found")

        def nxt(expr):
            if expr != "%s.next()" % recs:
                raise AnchorLost("write: the loop does not pull from `%s.next()`" % recs)
            return "shim_peek_next(&mut %s)" % recs
        cw.while_let_to_loop(1, scrutinee_map=nxt, spec="""            invariant
                0 <= n <= recs.len(), recs.len() < u32::MAX, pk_rest(%s) == recs.skip(n),
                /*@L:every_finished_class_has_counts_equal_to_its_records:C09,C02*/ all_wf(bmap(classes)) && wf_cip(current_class),
                current_class.class.members_len <= n, current_class.class.members_by_params_len <= n,
                tables_ok(ts, recs, n), ts[n] == string_table,
                /*@L:state_after_n_records_is_the_abstract_run:C02,C03,C04,C09*/ abs_done(bmap(classes)) == w_run(ts, recs, n).done && abs_cip(current_class) == w_run(ts, recs, n).cur,
            ensures n == recs.len(),
            decreases recs.len() - n,""" % recs,
                             after_next="""            proof {
                assert(record == recs[n]);
                assert(recs.skip(n).drop_first() == recs.skip(n + 1));
                n = n + 1;
                assert(pk_rest(%s).len() > 0 ==> pk_rest(%s)[0] == recs[n]);
            }
            let ghost t_before = string_table; let ghost classes0 = bmap(classes); let ghost cc0 = current_class;
""" % (recs, recs))
        # end of the loop body: record the table, re-establish the abstract invariant
        lb = cw.loops()[0]
        cw.insert_at(lb[3], """    proof {
                if cc0.name@.len() > 0 { lemma_abs_done_insert(classes0, cc0.name, cc0); }
                assert(table_grew(t_before, string_table, strings_of(record)));
                lemma_tables_push(ts, string_table, recs, n);
                lemma_run_prefix(ts, string_table, recs, n - 1);
                ts = ts.push(string_table);
            }
        """)
        u.emit(cw, prefix="""fn region_write_collect<'d>(mapping: &ProguardMapping<'d>) -> (ret: (StringTable, BTreeMap<&'d str, ClassInProgress<'d>>, Ghost<Seq<StringTable>>))
    requires
        // representable domain: fewer than 2^32 records (the per-class u32 counters cannot overflow)
        ok_records(*mapping).len() < u32::MAX,
    ensures
        /*@L:every_class_handed_to_the_tail_has_counts_equal_to_its_records:C09,C02*/ forall|i: int| 0 <= i < vals(ret.1).len() ==> wf_cip(#[trigger] vals(ret.1)[i]),
        // ret.2: the string table after 0, 1, .., #records records (ghost); every record's strings are interned when it is processed and never move
        tables_ok(ret.2@, ok_records(*mapping), ok_records(*mapping).len() as int) && ret.2@.last() == ret.0,
        /*@L:collected_classes_are_the_abstract_fold_of_the_record_stream:C02,C03,C04,C09*/ ({ let recs = ok_records(*mapping); let s = w_run(ret.2@, recs, recs.len() as int);
            abs_done(bmap(ret.1)) == w_flush(s.done, s.cur) }),
{
""", suffix="""
    proof { axiom_vals_in_bmap(classes); }
    (string_table, classes, Ghost(ts))
}
""")
    u.raw(FOOTER, "footer")
    return u
