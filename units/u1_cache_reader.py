"""U1: the cache reader (src/cache/mod.rs) under contract.

profile = "functional": representation invariant of writer-produced files assumed (C01-C04, C10), full
                        functional postconditions against the shared model.
profile = "safety":     NO precondition on any field value (C12); only Verus' implicit obligations
                        (overflow, bounds, callee preconditions, termination).
"""
from vf.unit import Unit
from .common import CLONE_STACKFRAME, HEADER, FOOTER, STR_ORD, contract, extract_struct, widen

FUNC_PROPS = ["C01", "C02"]


def build(profile="functional"):
    fun = profile == "functional"
    u = Unit("u1_cache_reader." + profile)
    u.raw(HEADER, "header")
    u.raw(contract("std_specs.rs"), "std_specs")

    st = u.source("src/stacktrace.rs")
    extract_struct(u, st, "StackFrame")
    u.raw(CLONE_STACKFRAME, "glue")

    raw = u.source("src/cache/raw.rs")
    u.raw("""pub struct ReadStringError;
// stand-in for the watto dependency (unverified; only its signature is used, behind read_string's assumed contract)
pub struct StringTable;
impl StringTable {
    // ASSUMED (dependency): a total function of (bytes, offset) that fails past the end; `tbl` names it for offsets that fit in u32
    #[verifier::external_body]
    pub fn read<'a>(bytes: &'a [u8], offset: usize) -> (r: Result<&'a str, ReadStringError>)
        ensures
            offset <= u32::MAX ==> (match r { Ok(s) => tbl(bytes@, offset as u32) == Some(s@), Err(_) => tbl(bytes@, offset as u32) is None }),
            offset >= bytes@.len() ==> r is Err,
    { unimplemented!() }
}
pub mod raw {
use super::*;
""", "glue")
    extract_struct(u, raw, "Header")
    extract_struct(u, raw, "Class")
    extract_struct(u, raw, "Member")
    pc = extract_struct(u, raw, "ProguardCache")
    # read_string: one call into the watto dependency; the body is verified against the stand-in's assumed contract (which offset is passed on)
    rs = raw.impl_fn(r"impl<'data> ProguardCache<'data>", "read_string")
    rs.replace("watto::ReadStringError", "ReadStringError", "R4", why="dependency error type replaced by an opaque unit struct")
    rs.replace("pub(crate) fn", "pub fn", "R4")
    rs.ret("r")
    rs.contract("""    ensures
        match r { Ok(s) => tbl(self.string_bytes@, offset) == Some(s@), Err(_) => tbl(self.string_bytes@, offset) is None },
        (offset as int >= self.string_bytes@.len()) ==> r is Err,""")
    rs.contracted = True
    rs.props_all = ["C01", "C02", "C03", "C04"]
    rs.props_safety = ["C12"]
    u.raw("impl<'data> ProguardCache<'data> {\n", "glue")
    u.emit(rs)
    u.raw("}\n} // mod raw\nuse raw::ProguardCache;\n", "glue")

    u.raw(contract("model.rs"), "model")
    u.raw(contract("cache_model.rs"), "cache_model")

    cm = u.source("src/cache/mod.rs")

    # extract_class_name: str::split -- out of reach; assumed contract against the abstract function
    ecn = cm.fn("extract_class_name")
    ecn.ret("r")
    ecn.contract("""    ensures match r { Some(x) => outer_simple_name(full_path@) == Some(x@), None => outer_simple_name(full_path@) is None },""")
    ecn.contracted = False
    u.raw("#[verifier::external_body]\n", "glue")
    u.emit(ecn)

    # ---------------- iterate_with_lines ----------------
    f = cm.fn("iterate_with_lines")
    f.ret("ret")
    f.props_safety = ["C12", "C13"]
    sel = "applies(abs_member(cache.string_bytes@, *rem0[j]), old(frame).line as int) && readable(cache.string_bytes@, *rem0[j])"
    if fun:
        f.props_all = ["C01", "C02"]
        f.contract("""    requires
        (*old(members)).obeys_prophetic_iter_laws(),
        (*old(members)).decrease() is Some,
        wf_members(cache.string_bytes@, (*old(members)).remaining()),
        old(frame).line < 0xffff_ffff,
    ensures
        /*@L:frame_unchanged:C01,C02*/ *final(frame) == *old(frame),
        /*@L:first_applicable:C01,C02*/ ({ let rem0 = (*old(members)).remaining(); let sb = cache.string_bytes@; let line = old(frame).line as int;
          match ret {
            Some(fr) => exists|k: int| 0 <= k < rem0.len()
                && (forall|j: int| 0 <= j < k ==> !applies(abs_member(sb, *#[trigger] rem0[j]), line))
                && applies(abs_member(sb, *rem0[k]), line)
                && aframe(fr) == entry_out(abs_member(sb, *rem0[k]), aframe(*old(frame)))
                && (*final(members)).remaining() == rem0.skip(k + 1),
            None => forall|j: int| 0 <= j < rem0.len() ==> !applies(abs_member(sb, *#[trigger] rem0[j]), line),
          } }),
        /*@L:step_of_retrace:C01,C02*/ ({ let es = abs_members(cache.string_bytes@, (*old(members)).remaining()); let f = aframe(*old(frame));
          match ret {
            Some(fr) => retrace(es, f).len() > 0 && aframe(fr) == retrace(es, f)[0]
                && retrace(abs_members(cache.string_bytes@, (*final(members)).remaining()), f) == retrace(es, f).drop_first(),
            None => retrace(es, f).len() == 0 && (*final(members)).remaining().len() == 0,
          } }),
        (*final(members)).obeys_prophetic_iter_laws(), (*final(members)).decrease() is Some,
        wf_members(cache.string_bytes@, (*final(members)).remaining()),""")
        f.insert_before("return Some(StackFrame", """proof {
            let sb = cache.string_bytes@;
            let es = abs_members(sb, rem0);
            assert forall|j: int| 0 <= j < n - 1 implies !applies(#[trigger] es[j], frame.line as int) by { assert(es[j] == abs_member(sb, *rem0[j])); }
            assert(es[n - 1] == abs_member(sb, *rem0[n - 1]));
            lemma_retrace_first(es, aframe(*frame), n - 1);
            assert(abs_members(sb, rem0.skip(n)) == es.skip(n));
        }
        """)
        f.before_tail("""proof {
        let sb = cache.string_bytes@;
        let es = abs_members(sb, rem0);
        assert forall|j: int| 0 <= j < es.len() implies !applies(#[trigger] es[j], frame.line as int) by { assert(es[j] == abs_member(sb, *rem0[j])); }
        lemma_retrace_none(es, aframe(*frame));
    }
    """)
        inv_extra = """            wf_members(cache.string_bytes@, rem0),
            frame.line < 0xffff_ffff,
            forall|j: int| 0 <= j < n ==> !applies(abs_member(cache.string_bytes@, *#[trigger] rem0[j]), frame.line as int),"""
    else:
        f.props_all = ["C12"]
        f.contract("""    requires
        (*old(members)).obeys_prophetic_iter_laws(),
        (*old(members)).decrease() is Some,
    ensures
        /*@L:frame_unchanged:C12*/ *final(frame) == *old(frame),
        (*final(members)).obeys_prophetic_iter_laws(), (*final(members)).decrease() is Some,""")
        inv_extra = ""
    f.body_start("let ghost mut n: int = 0;\n    let ghost rem0 = members.remaining();\n    proof { assert(rem0.skip(0) == rem0); }\n")
    f.for_to_loop(
        1,
        spec="""        invariant
            members.obeys_prophetic_iter_laws(),
            members.decrease() is Some,
            *frame == *old(frame),
            rem0 == (*old(members)).remaining(),
            0 <= n <= rem0.len(),
            rem0.skip(n) == members.remaining(),
%s
        ensures n == rem0.len(),
        decreases members.decrease()->0,""" % inv_extra,
        before_next="let ghost rem_before = members.remaining();\n",
        on_none="proof { assert(rem_before.len() == 0); }",
        after_next="""        proof {
            assert(rem_before.len() > 0);
            assert(member == rem0[n]);
            assert(rem0.skip(n).drop_first() == rem0.skip(n + 1));
            n = n + 1;
        }
""")
    u.emit(f)

    # ---------------- iterate_without_lines ----------------
    g = cm.fn("iterate_without_lines")
    g.ret("ret")
    g.props_safety = ["C12", "C13"]
    if fun:
        g.props_all = ["C03", "C02"]
        g.contract("""    requires
        (*old(members)).obeys_prophetic_iter_laws(),
        wf_members(cache.string_bytes@, (*old(members)).remaining()),
    ensures
        /*@L:frame_unchanged:C03,C02*/ *final(frame) == *old(frame),
        /*@L:next_by_params:C03,C02*/ ({ let rem0 = (*old(members)).remaining(); let sb = cache.string_bytes@;
          match ret {
            Some(fr) => rem0.len() > 0
                && aframe(fr) == entry_out_params(abs_member(sb, *rem0[0]), aframe(*old(frame)))
                && (*final(members)).remaining() == rem0.skip(1),
            None => rem0.len() == 0,
          } }),
        (*final(members)).obeys_prophetic_iter_laws() == (*old(members)).obeys_prophetic_iter_laws(),
        (*final(members)).decrease() is Some == (*old(members)).decrease() is Some,
        wf_members(cache.string_bytes@, (*final(members)).remaining()),""")
        g.body_start("let ghost rem0 = members.remaining();\n")
        g.insert_after("let member = members.next()?;", "\n    proof { assert(rem0.drop_first() == rem0.skip(1)); assert(wf_member(cache.string_bytes@, *rem0[0])); }")
    else:
        g.props_all = ["C12"]
        g.contract("""    requires
        (*old(members)).obeys_prophetic_iter_laws(), (*old(members)).decrease() is Some,
    ensures
        /*@L:frame_unchanged:C12*/ *final(frame) == *old(frame),
        (*final(members)).obeys_prophetic_iter_laws(), (*final(members)).decrease() is Some,""")
    u.emit(g)

    # =================== impl ProguardCache (lookup side) ===================
    IMPL = r"impl<'data> ProguardCache<'data>"
    u.raw("impl<'data> ProguardCache<'data> {\n", "glue")

    # ---------------- get_class_members / get_class_members_by_params ----------------
    for fname, sect, off, ln in (("get_class_members", "members", "members_offset", "members_len"),
                                  ("get_class_members_by_params", "members_by_params", "members_by_params_offset", "members_by_params_len")):
        h = cm.impl_fn(IMPL, fname)
        h.ret("ret")
        h.props_safety = ["C12", "C13"]
        h.props_all = ["C01", "C02", "C03", "C10"] if fun else ["C12"]
        if fun:
            h.contract("""    ensures
        /*@L:class_range:C01,C02,C03,C10*/ ({ let a = class.%s as int; let b = a + class.%s as int;
          if b <= self.%s@.len() { ret is Some && ret->0@ == self.%s@.subrange(a, b) } else { ret is None } }),""" % (off, ln, sect, sect))
        else:
            h.contract("    ensures true,")
        u.emit(h)

    # ---------------- find_range_by_binary_search ----------------
    fr = cm.impl_fn(IMPL, "find_range_by_binary_search")
    fr.ret("ret")
    fr.props_safety = ["C12", "C13"]
    fr.props_all = ["C01", "C02", "C03", "C04"] if fun else ["C12"]
    # R2: iterator searches behind shims (generic in the method name so that position<->rposition swaps are *verified*, not lost)
    fr.replace_all_re(r"(members\[[^\]]*\])\s*\.iter\(\)\s*\.(r?position)\(", r"shim_slice_\2(&\1, ", "R2",
                      "slice.iter().(r)position(p) behind an external_body shim with the documented contract", min_count=2)
    # R3: closure contracts
    fr.closure("|m: &raw::Member|", ret="b: bool",
               spec="ensures exists|o: Ordering| #[trigger] call_ensures(&f, (m,), o) && b == (o != Ordering::Equal)")
    fr.closure("|idx|", occ=1, params="|idx: usize|", ret="r: usize", spec="requires 0 <= ({body}) <= usize::MAX ensures r == ({body})")
    fr.closure("|idx|", occ=2, params="|idx: usize|", ret="r: usize", spec="requires 0 <= ({body}) <= usize::MAX ensures r == ({body})")
    if fun:
        fr.contract("""    requires forall|m: &raw::Member| f.requires((m,)),
    ensures
        /*@L:equal_block:C01,C02,C03,C04*/ cmp_mono(members@, &f) && cmp_deterministic(&f) ==> (match ret {
            Some(r) => exists|p: int, q: int| 0 <= p < q <= members@.len() && #[trigger] members@.subrange(p, q) == r@
                && (forall|i: int| p <= i < q ==> call_ensures(&f, (&#[trigger] members@[i],), Ordering::Equal))
                && (forall|i: int| (0 <= i < p || q <= i < members@.len()) ==> cmp_ne(&f, &#[trigger] members@[i])),
            None => forall|i: int| 0 <= i < members@.len() ==> cmp_ne(&f, &#[trigger] members@[i]),
        }),""")
        fr.insert_before("members.get(start..end)", """proof {
            if cmp_mono(members@, &f) && cmp_deterministic(&f) {
                let s = members@;
                let m = mid as int;
                let lo = s.subrange(0, m);
                let hi = s.subrange(m, s.len() as int);
                assert(call_ensures(&f, (&s[m],), Ordering::Equal));
                assert(forall|i: int| 0 <= i < m ==> lo[i] == s[i]);
                assert(forall|i: int| 0 <= i < s.len() - m ==> hi[i] == s[i + m]);
                assert(start <= m < end);
                assert forall|i: int| start <= i < end implies call_ensures(&f, (&#[trigger] s[i],), Ordering::Equal) by {
                    if i < m { assert(call_ensures(matches_not, (&lo[i],), false)); }
                    else { assert(call_ensures(matches_not, (&hi[i - m],), false)); }
                }
                assert forall|i: int| (0 <= i < start || end <= i < s.len()) implies cmp_ne(&f, &#[trigger] s[i]) by {
                    axiom_call_total(&f, &s[i]);
                    if i < start {
                        assert(call_ensures(matches_not, (&lo[start - 1],), true));
                        let o = choose|o: Ordering| #[trigger] call_ensures(&f, (&lo[start - 1],), o) && o != Ordering::Equal;
                        assert(call_ensures(&f, (&s[start - 1],), o));
                    } else {
                        assert(call_ensures(matches_not, (&hi[end - m],), true));
                        let o = choose|o: Ordering| #[trigger] call_ensures(&f, (&hi[end - m],), o) && o != Ordering::Equal;
                        assert(call_ensures(&f, (&s[end as int],), o));
                    }
                }
                assert(s.subrange(start as int, end as int) == s.subrange(start as int, end as int));
            }
        }
        """)
    else:
        fr.contract("    requires forall|m: &raw::Member| f.requires((m,)),")
    u.emit(fr)

    # ---------------- get_class ----------------
    gc = cm.impl_fn(IMPL, "get_class")
    gc.ret("ret")
    gc.props_safety = ["C12", "C13"]
    gc.props_all = ["C04", "C01", "C02"] if fun else ["C12"]
    gc.closure("|c|", params="|c: &raw::Class|", ret="o: Ordering",
               spec="ensures o == class_cmp(self.string_bytes@, *c, name@)" if fun else "")
    gc.replace_all_re(r"(\w+)\.trim_end_matches\(('(?:[^'\\]|\\.)')\)", r"shim_trim_end_matches_char(\1, \2)", "R2",
                      why="str::trim_end_matches(char) behind a shim (documented contract over the char view)", min_count=0)
    gc.body_start(STR_ORD)
    if fun:
        gc.contract("""    requires classes_sorted(self.string_bytes@, self.classes@),
    ensures
        /*@L:class_exact:C04,C01,C02*/ ({ let sb = self.string_bytes@; let cs = self.classes@;
          match ret {
            Some(c) => exists|i: int| 0 <= i < cs.len() && *c == #[trigger] cs[i] && tbl(sb, c.obfuscated_name_offset) == Some(name@),
            None => forall|i: int| 0 <= i < cs.len() ==> tbl(sb, (#[trigger] cs[i]).obfuscated_name_offset) != Some(name@),
          } }),""")
        gc.body_start("""        proof {
            let sb = self.string_bytes@; let cs = self.classes@;
            assert forall|i: int, j: int| 0 <= i < j < cs.len() implies
                ord_rank(#[trigger] class_cmp(sb, cs[i], name@)) <= ord_rank(#[trigger] class_cmp(sb, cs[j], name@)) by {
                let ni = tbl(sb, cs[i].obfuscated_name_offset).unwrap();
                let nj = tbl(sb, cs[j].obfuscated_name_offset).unwrap();
                axiom_seq_cmp_total(nj, name@);
                axiom_seq_cmp_total(ni, name@);
                if seq_cmp(nj, name@) != Ordering::Greater { axiom_seq_cmp_trans(ni, nj, name@); }
            }
            assert forall|i: int| 0 <= i < cs.len() implies
                ((#[trigger] class_cmp(sb, cs[i], name@) == Ordering::Equal) <==> tbl(sb, cs[i].obfuscated_name_offset) == Some(name@)) by {
                axiom_seq_cmp_total(tbl(sb, cs[i].obfuscated_name_offset).unwrap(), name@);
            }
        }
""")
    else:
        gc.contract("    ensures true,")
    u.emit(gc)

    # ---------------- remap_class ----------------
    rc = cm.impl_fn(IMPL, "remap_class")
    rc.ret("ret")
    rc.props_safety = ["C12", "C13"]
    rc.props_all = ["C04", "C02"] if fun else ["C12"]
    if fun:
        rc.contract("""    requires wf_cache(*self),
    ensures
        /*@L:remap_class_exact:C04,C02*/ match ret {
            Some(s) => exists|i: int| #[trigger] has_class(*self, i, class@) && tbl(self.string_bytes@, self.classes@[i].original_name_offset) == Some(s@),
            None => no_class(*self, class@),
        },""")
        rc.body_start("let ghost name0 = class@;\n")
        rc.after_stmt("let class = self.get_class(", """        proof {
            let i = choose|i: int| 0 <= i < self.classes@.len() && *class == #[trigger] self.classes@[i];
            assert(has_class(*self, i, name0));
            assert(wf_class(*self, self.classes@[i]));
        }
""")
    else:
        rc.contract("    ensures true,")
    u.emit(rc)

    # ---------------- remap_frame ----------------
    rf = cm.impl_fn(IMPL, "remap_frame")
    rf.ret("ret")
    rf.props_safety = ["C12", "C13"]
    rf.props_all = ["C01", "C02", "C03"] if fun else ["C12"]
    rf.closure("|m|", occ=1, params="|m: &raw::Member|", ret="o: Ordering",
               spec="ensures o == member_cmp2(self.string_bytes@, *m, frame.method@, frame_params@)" if fun else "")
    rf.closure("|m|", occ=2, params="|m: &raw::Member|", ret="o: Ordering",
               spec="ensures o == member_cmp(self.string_bytes@, *m, frame.method@)" if fun else "")
    rf.body_start(STR_ORD + "        broadcast use axiom_default_str;\n")
    if fun:
        rf.contract("""    requires wf_cache(*self), frame.line < 0xffff_ffff,
    ensures
        it_wf(ret),
        /*@L:unknown_class_no_frames:C01,C02,C03*/ no_class(*self, frame.class@) ==> ret.inner is None,
        /*@L:exact_entry_block:C01,C02,C03*/ forall|i: int| #[trigger] has_class(*self, i, frame.class@) ==> ({
            let cl = self.classes@[i]; let sb = self.string_bytes@;
            &&& (ret.inner is Some ==> *(ret.inner.unwrap().0) == *self
                    && aframe(ret.inner.unwrap().1) == (AFrame { class: tbl(sb, cl.original_name_offset).unwrap(), ..aframe(*frame) }))
            &&& match frame.parameters {
                    None => exists|p: int, q: int| is_block(sb, class_members(*self, cl), p, q, frame.method@)
                                && #[trigger] class_members(*self, cl).subrange(p, q) == it_members(ret),
                    Some(ps) => exists|p: int, q: int| is_block2(sb, class_members_by_params(*self, cl), p, q, frame.method@, ps@)
                                && #[trigger] class_members_by_params(*self, cl).subrange(p, q) == it_members(ret),
                }
        }),""")
        rf.body_start("let ghost frame0 = *frame;\n        let ghost sb = self.string_bytes@;\n        let ghost mut i0: int = 0;\n")
        rf.after_stmt("let Some(class) = self.get_class(", """        proof {
            i0 = choose|i: int| 0 <= i < self.classes@.len() && *class == #[trigger] self.classes@[i];
            assert(has_class(*self, i0, frame0.class@));
            assert forall|i: int| #[trigger] has_class(*self, i, frame0.class@) implies i == i0 by { lemma_class_unique(*self, i, i0, frame0.class@); }
            assert(wf_class(*self, self.classes@[i0]));
        }
""")
        # by-params branch
        rf.after_stmt("let Some(members) = self.get_class_members", occ=1, text="""            proof {
                assert(members@ == class_members_by_params(*self, *class));
                lemma_member_cmp2(sb, members@, frame.method@, frame_params@);
            }
            let ghost ms = members@;
""")
        rf.insert_before("return RemappedFrameIter::empty();", "proof { assert(ms.subrange(0, 0) == Seq::<raw::Member>::empty()); assert(is_block2(sb, ms, 0, 0, frame.method@, frame_params@)); }\n", occ=4)
        rf.insert_before("RemappedFrameIter::members(self, frame, members.iter())", """proof {
                let (p, q) = choose|p: int, q: int| 0 <= p < q <= ms.len() && #[trigger] ms.subrange(p, q) == members@
                    && (forall|k: int| p <= k < q ==> member_cmp2(sb, #[trigger] ms[k], frame.method@, frame_params@) == Ordering::Equal)
                    && (forall|k: int| (0 <= k < p || q <= k < ms.len()) ==> member_cmp2(sb, #[trigger] ms[k], frame.method@, frame_params@) != Ordering::Equal);
                assert(is_block2(sb, ms, p, q, frame.method@, frame_params@));
                let rem = members@.as_ref();
                assert(deref_members(rem) == ms.subrange(p, q));
                assert forall|j: int| 0 <= j < rem.len() implies wf_member(sb, *#[trigger] rem[j]) by {
                    assert(*rem[j] == ms[p + j]);
                }
            }
            """, occ=1)
        # line branch
        rf.after_stmt("let Some(members) = self.get_class_members", occ=2, text="""            proof {
                assert(members@ == class_members(*self, *class));
                lemma_member_cmp(sb, members@, frame.method@);
            }
            let ghost ms = members@;
""")
        rf.insert_before("return RemappedFrameIter::empty();", "proof { assert(ms.subrange(0, 0) == Seq::<raw::Member>::empty()); assert(is_block(sb, ms, 0, 0, frame.method@)); }\n", occ=6)
        rf.insert_before("RemappedFrameIter::members(self, frame, members.iter())", """proof {
                let (p, q) = choose|p: int, q: int| 0 <= p < q <= ms.len() && #[trigger] ms.subrange(p, q) == members@
                    && (forall|k: int| p <= k < q ==> member_cmp(sb, #[trigger] ms[k], frame.method@) == Ordering::Equal)
                    && (forall|k: int| (0 <= k < p || q <= k < ms.len()) ==> member_cmp(sb, #[trigger] ms[k], frame.method@) != Ordering::Equal);
                assert(is_block(sb, ms, p, q, frame.method@));
                let rem = members@.as_ref();
                assert(deref_members(rem) == ms.subrange(p, q));
                assert forall|j: int| 0 <= j < rem.len() implies wf_member(sb, *#[trigger] rem[j]) by {
                    assert(*rem[j] == ms[p + j]);
                }
            }
            """, occ=2)
    else:
        rf.contract("""    ensures match ret.inner { None => true, Some((cache, frame, members)) => members.obeys_prophetic_iter_laws() && members.decrease() is Some },""")
    u.emit(rf)

    # ---------------- remap_method ----------------
    rm = cm.impl_fn(IMPL, "remap_method")
    rm.ret("ret")
    rm.props_safety = ["C12", "C13"]
    rm.props_all = ["C04", "C02"] if fun else ["C12"]
    rm.closure("|m|", params="|m: &raw::Member|", ret="o: Ordering",
               spec="ensures o == member_cmp(self.string_bytes@, *m, method@)" if fun else "")
    if "|member|" in rm.orig:
        rm.closure("|member|", params="|member: &raw::Member|", ret="b: bool", spec="ensures b == ({body})")
    rm.body_start(STR_ORD)
    if fun:
        rm.contract("""    requires wf_cache(*self),
    ensures
        /*@L:method_iff_unanimous:C04,C02*/ ({ let sb = self.string_bytes@;
          match ret {
            Some((oc, om)) => exists|i: int| #[trigger] has_class(*self, i, class@) && tbl(sb, self.classes@[i].original_name_offset) == Some(oc@)
                && ({ let ms = class_members(*self, self.classes@[i]);
                      (exists|k: int| 0 <= k < ms.len() && tbl(sb, (#[trigger] ms[k]).obfuscated_name_offset) == Some(method@))
                      && (forall|k: int| 0 <= k < ms.len() && tbl(sb, (#[trigger] ms[k]).obfuscated_name_offset) == Some(method@)
                            ==> tbl(sb, ms[k].original_name_offset) == Some(om@)) }),
            None => no_class(*self, class@) || (exists|i: int| #[trigger] has_class(*self, i, class@)
                && ({ let ms = class_members(*self, self.classes@[i]);
                      (forall|k: int| 0 <= k < ms.len() ==> tbl(sb, (#[trigger] ms[k]).obfuscated_name_offset) != Some(method@))
                      || (exists|k1: int, k2: int| 0 <= k1 < ms.len() && 0 <= k2 < ms.len()
                            && tbl(sb, (#[trigger] ms[k1]).obfuscated_name_offset) == Some(method@) && tbl(sb, (#[trigger] ms[k2]).obfuscated_name_offset) == Some(method@)
                            && tbl(sb, ms[k1].original_name_offset) != tbl(sb, ms[k2].original_name_offset)) })),
          } }),""")
        rm.body_start("let ghost cname = class@;\n        let ghost sb = self.string_bytes@;\n        let ghost mut i0: int = 0;\n        let ghost mut p: int = 0; let ghost mut q: int = 0;\n")
        rm.after_stmt("let class = self.get_class(", """        proof {
            i0 = choose|i: int| 0 <= i < self.classes@.len() && *class == #[trigger] self.classes@[i];
            assert(has_class(*self, i0, cname));
            assert(wf_class(*self, self.classes@[i0]));
        }
""")
        rm.after_stmt("let members = self.get_class_members", """        let ghost ms = members@;
        proof {
            assert(ms == class_members(*self, self.classes@[i0]));
            lemma_member_cmp(sb, ms, method@);
        }
""")
        rm.after_stmt("let matching_members = Self::find_range_by_binary_search(", """        proof {
            let pq = choose|p: int, q: int| 0 <= p < q <= ms.len() && #[trigger] ms.subrange(p, q) == matching_members@
                    && (forall|k: int| p <= k < q ==> member_cmp(sb, #[trigger] ms[k], method@) == Ordering::Equal)
                    && (forall|k: int| (0 <= k < p || q <= k < ms.len()) ==> member_cmp(sb, #[trigger] ms[k], method@) != Ordering::Equal);
            p = pq.0; q = pq.1;
            assert(is_block(sb, ms, p, q, method@));
            assert(matching_members@[0] == ms[p]);
        }
""")
        # optional hint (only when the code has the shape `let first = <it>.next()...`): ties the iterator to the block
        import re as _re2
        mfirst = _re2.search(r"let first = (\w+)\.next\(\)", rm.orig)
        if mfirst:
            itn = mfirst.group(1)
            rm.insert_at(rm.stmt_extent(mfirst.start())[1], """
        proof { assert(*first == ms[p]); assert(forall|j: int| 0 <= j < %s.remaining().len() ==> *#[trigger] %s.remaining()[j] == ms[p + 1 + j]); }
        let ghost rem1 = %s.remaining();
        proof { assert(rem1.len() == q - p - 1); }""" % (itn, itn, itn))
            mall = _re2.search(r"let all_matching\s*=", rm.orig)
            if mall:
                rm.insert_at(rm.stmt_extent(mall.start())[1], """
        proof {
            if all_matching {
                assert forall|k: int| p <= k < q implies (#[trigger] ms[k]).original_name_offset == ms[p].original_name_offset by {
                    if k > p { assert(*rem1[k - p - 1] == ms[k]); }
                }
            } else {
                let idx = rem1.len() - %s.remaining().len() - 1;
                assert(*rem1[idx] == ms[p + 1 + idx]);
                assert(ms[p + 1 + idx].original_name_offset != ms[p].original_name_offset);
            }
        }""" % itn)
        rm.after_stmt("let all_matching =", """        proof {
            /*@L:agreement_check_covers_every_entry_of_the_block:C04,C02*/ assert(*first == ms[p] && (all_matching <==>
                forall|k: int| p <= k < q ==> (#[trigger] ms[k]).original_name_offset == ms[p].original_name_offset));
        }
""")
        rm.insert_before("return None;", """proof {
                let k = choose|k: int| p <= k < q && (#[trigger] ms[k]).original_name_offset != ms[p].original_name_offset;
                assert(tbl(sb, ms[k].obfuscated_name_offset) == Some(method@));
                assert(tbl(sb, ms[p].obfuscated_name_offset) == Some(method@));
                assert(tbl(sb, ms[k].original_name_offset) != tbl(sb, ms[p].original_name_offset));
            }
            """)
        rm.before_tail("""proof {
            assert(tbl(sb, ms[p].obfuscated_name_offset) == Some(method@));
            assert forall|k: int| 0 <= k < ms.len() && tbl(sb, (#[trigger] ms[k]).obfuscated_name_offset) == Some(method@)
                implies tbl(sb, ms[k].original_name_offset) == Some(original_method@) by { }
        }
        """)
    else:
        rm.contract("    ensures true,")
    u.emit(rm)

    u.raw("} // impl ProguardCache\n", "glue")
    # =================== RemappedFrameIter ===================
    from .common import extract_struct_priv
    extract_struct_priv(u, cm, "RemappedFrameIter")
    IT = r"impl<'data> RemappedFrameIter<'_, 'data>"
    u.raw(cm.impl_header(IT) + "{\n", "glue")
    e = cm.impl_fn(IT, "empty")
    e.ret("ret")
    e.props_all = ["C01", "C02", "C03"] if fun else ["C12"]
    e.contract("    ensures /*@L:empty_iter:C01,C02,C03,C12*/ ret.inner is None,")
    u.emit(e)
    mfn = cm.impl_fn(IT, "members")
    mfn.ret("ret")
    mfn.props_all = ["C01", "C02", "C03"] if fun else ["C12"]
    mfn.contract("    ensures /*@L:members_iter:C01,C02,C03,C12*/ ret.inner == Some((cache, frame, members)),")
    u.emit(mfn)
    u.raw("}\n", "glue")

    ITI = r"impl<'data> Iterator for RemappedFrameIter<'_, 'data>"
    # R8: Verus forbids `requires` on trait-method implementations, so `Iterator::next` is verified as an inherent
    # method with the same body (`Self::Item` spelled out); the trait-impl header is what is dropped.
    u.raw("impl<'data> RemappedFrameIter<'_, 'data> {\n", "glue")
    nx = cm.impl_fn(ITI, "next")
    nx.replace("Self::Item", "StackFrame<'data>", "R8", why="trait method verified as inherent method: associated type spelled out")
    nx.ret("ret")
    nx.props_safety = ["C12", "C13"]
    nx.props_all = ["C01", "C02", "C03"] if fun else ["C12"]
    if fun:
        nx.contract("""    requires it_wf(*old(self)),
    ensures
        it_wf(*final(self)),
        /*@L:next_is_head_of_answers:C01,C02,C03*/ match ret {
            Some(fr) => it_answers(*old(self)).len() > 0 && aframe(fr) == it_answers(*old(self))[0]
                && it_answers(*final(self)) == it_answers(*old(self)).drop_first(),
            None => it_answers(*old(self)).len() == 0,
        },""")
    else:
        nx.contract("""    requires match old(self).inner { None => true, Some((cache, frame, members)) => members.obeys_prophetic_iter_laws() && members.decrease() is Some },
    ensures match final(self).inner { None => true, Some((cache, frame, members)) => members.obeys_prophetic_iter_laws() && members.decrease() is Some },""")
    u.emit(nx)
    u.raw("}\n", "glue")

    u.raw(FOOTER, "footer")
    return u
