"""U1: the cache reader (src/cache/mod.rs) under contract.

profile = "functional": representation invariant of writer-produced files assumed (C01-C04, C10), full
                        functional postconditions against the shared model.
profile = "safety":     NO precondition on any field value (C12); only Verus' implicit obligations
                        (overflow, bounds, callee preconditions, termination).
"""
from vf.unit import Unit
from .common import HEADER, FOOTER, contract, extract_struct, widen

FUNC_PROPS = ["C01", "C02"]


def build(profile="functional"):
    fun = profile == "functional"
    u = Unit("u1_cache_reader." + profile)
    u.raw(HEADER, "header")
    u.raw(contract("std_specs.rs"), "std_specs")

    st = u.source("src/stacktrace.rs")
    extract_struct(u, st, "StackFrame", derive="#[derive(Clone)]")

    raw = u.source("src/cache/raw.rs")
    u.raw("""pub struct ReadStringError;
// stand-in for the watto dependency (unverified; only its signature is used, behind read_string's assumed contract)
pub struct StringTable;
impl StringTable {
    #[verifier::external_body]
    pub fn read<'a>(bytes: &'a [u8], offset: usize) -> Result<&'a str, ReadStringError> { unimplemented!() }
}
pub mod raw {
use super::*;
""", "glue")
    extract_struct(u, raw, "Header")
    extract_struct(u, raw, "Class")
    extract_struct(u, raw, "Member")
    pc = extract_struct(u, raw, "ProguardCache")
    # read_string: body is one call into the watto dependency -> assumed contract (trusted)
    rs = raw.impl_fn(r"impl<'data> ProguardCache<'data>", "read_string")
    rs.replace("watto::ReadStringError", "ReadStringError", "R4", why="dependency error type replaced by an opaque unit struct")
    rs.replace("pub(crate) fn", "pub fn", "R4")
    rs.ret("r")
    rs.contract("""    ensures
        match r { Ok(s) => tbl(self.string_bytes@, offset) == Some(s@), Err(_) => tbl(self.string_bytes@, offset) is None },
        (offset as int >= self.string_bytes@.len()) ==> r is Err,""")
    rs.contracted = False  # external_body: nothing is verified about it
    u.raw("impl<'data> ProguardCache<'data> {\n#[verifier::external_body]\n", "glue")
    u.emit(rs)
    u.raw("}\n} // mod raw\nuse raw::ProguardCache;\n", "glue")

    u.raw(contract("model.rs"), "model")
    u.raw(contract("cache_model.rs"), "cache_model")

    cm = u.source("src/cache/mod.rs")

    # extract_class_name: str::split -- out of reach; assumed contract against the abstract function
    ecn = cm.fn("extract_class_name")
    ecn.ret("r")
    ecn.contract("""    ensures match r { Some(x) => outer_simple_name(full_path@) == Some(x@), None => outer_simple_name(full_path@) is None },""")
    ecn.contracted = False
    u.raw("#[verifier::external_body]\n", "glue")
    u.emit(ecn)

    # ---------------- iterate_with_lines ----------------
    f = cm.fn("iterate_with_lines")
    f.ret("ret")
    f.props_safety = ["C12"]
    sel = "applies(abs_member(cache.string_bytes@, *rem0[j]), old(frame).line as int) && readable(cache.string_bytes@, *rem0[j])"
    if fun:
        f.props_all = ["C01", "C02"]
        f.contract("""    requires
        (*old(members)).obeys_prophetic_iter_laws(),
        (*old(members)).decrease() is Some,
        wf_members(cache.string_bytes@, (*old(members)).remaining()),
        old(frame).line < 0xffff_ffff,
    ensures
        /*@L:frame_unchanged:C01,C02*/ *final(frame) == *old(frame),
        /*@L:first_applicable:C01,C02*/ ({ let rem0 = (*old(members)).remaining(); let sb = cache.string_bytes@; let line = old(frame).line as int;
          match ret {
            Some(fr) => exists|k: int| 0 <= k < rem0.len()
                && (forall|j: int| 0 <= j < k ==> !applies(abs_member(sb, *#[trigger] rem0[j]), line))
                && applies(abs_member(sb, *rem0[k]), line)
                && aframe(fr) == entry_out(abs_member(sb, *rem0[k]), aframe(*old(frame)))
                && (*final(members)).remaining() == rem0.skip(k + 1),
            None => forall|j: int| 0 <= j < rem0.len() ==> !applies(abs_member(sb, *#[trigger] rem0[j]), line),
          } }),""")
        inv_extra = """            wf_members(cache.string_bytes@, rem0),
            frame.line < 0xffff_ffff,
            forall|j: int| 0 <= j < n ==> !applies(abs_member(cache.string_bytes@, *#[trigger] rem0[j]), frame.line as int),"""
    else:
        f.props_all = ["C12"]
        f.contract("""    requires
        (*old(members)).obeys_prophetic_iter_laws(),
        (*old(members)).decrease() is Some,
    ensures
        /*@L:frame_unchanged:C12*/ *final(frame) == *old(frame),""")
        inv_extra = ""
    f.body_start("let ghost mut n: int = 0;\n    let ghost rem0 = members.remaining();\n    proof { assert(rem0.skip(0) == rem0); }\n")
    f.for_to_loop(
        1,
        spec="""        invariant
            members.obeys_prophetic_iter_laws(),
            members.decrease() is Some,
            *frame == *old(frame),
            rem0 == (*old(members)).remaining(),
            0 <= n <= rem0.len(),
            rem0.skip(n) == members.remaining(),
%s
        ensures n == rem0.len(),
        decreases members.decrease()->0,""" % inv_extra,
        before_next="let ghost rem_before = members.remaining();\n",
        on_none="proof { assert(rem_before.len() == 0); }",
        after_next="""        proof {
            assert(rem_before.len() > 0);
            assert(member == rem0[n]);
            assert(rem0.skip(n).drop_first() == rem0.skip(n + 1));
            n = n + 1;
        }
""")
    u.emit(f)

    # ---------------- iterate_without_lines ----------------
    g = cm.fn("iterate_without_lines")
    g.ret("ret")
    g.props_safety = ["C12"]
    if fun:
        g.props_all = ["C03", "C02"]
        g.contract("""    requires
        (*old(members)).obeys_prophetic_iter_laws(),
        wf_members(cache.string_bytes@, (*old(members)).remaining()),
    ensures
        /*@L:frame_unchanged:C03,C02*/ *final(frame) == *old(frame),
        /*@L:next_by_params:C03,C02*/ ({ let rem0 = (*old(members)).remaining(); let sb = cache.string_bytes@;
          match ret {
            Some(fr) => rem0.len() > 0
                && aframe(fr) == entry_out_params(abs_member(sb, *rem0[0]), aframe(*old(frame)))
                && (*final(members)).remaining() == rem0.skip(1),
            None => rem0.len() == 0,
          } }),""")
        g.body_start("let ghost rem0 = members.remaining();\n")
        g.insert_after("let member = members.next()?;", "\n    proof { assert(rem0.drop_first() == rem0.skip(1)); assert(wf_member(cache.string_bytes@, *rem0[0])); }")
    else:
        g.props_all = ["C12"]
        g.contract("""    requires
        (*old(members)).obeys_prophetic_iter_laws(),
    ensures
        /*@L:frame_unchanged:C12*/ *final(frame) == *old(frame),""")
    u.emit(g)

    u.raw(FOOTER, "footer")
    return u
