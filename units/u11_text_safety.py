"""U11: panic-freedom of the byte-index arithmetic and `str` slicing in the trace / signature text parsers (C13).

Functions under contract (real text, extracted on every run):
  * src/stacktrace.rs  `parse_frame`                          -- `line[3..line.len() - 1]` after `starts_with("at ")` / `ends_with(')')`
  * src/java.rs        `parse_obfuscated_bytecode_signature`  -- `char_indices` scan with `first_idx..last_idx + 1` windows
  * src/java.rs        `java_base_types`                      -- total match (its table is pinned by Kani K3)

What the proof shows, for EVERY input string: no `usize` overflow / underflow in the index arithmetic, every range-index
expression satisfies std's documented panic conditions (start <= end <= len, both on char boundaries), both loops terminate.
There is no functional postcondition here: C13 only asks for the absence of panics.

Rewrites (logged): every `str` method call goes behind a shim with an ASSUMED contract (contracts/text_model.rs) that restates
the std documentation over an uninterpreted byte view `sb(s)`; total operations (`get`, `split_once`, ...) have no precondition,
range indexing has std's panic condition as its precondition. `while let` / `for .. in it.by_ref()` => `loop` + `let-else` (R1).
"""
import re

from vf.unit import Unit, AnchorLost
from .common import HEADER, FOOTER, contract, extract_struct

STR_SHIMS = [
    # (method, shim, predicate on the argument text)
    ("trim", "shim_str_trim", lambda a: a == ""),
    ("len", "shim_str_len", lambda a: a == ""),
    ("is_empty", "shim_str_is_empty", lambda a: a == ""),
    ("starts_with", "shim_str_starts_with", lambda a: a.startswith('"')),
    ("ends_with", "shim_str_ends_with_char", lambda a: a.startswith("'")),
    ("ends_with", "shim_str_ends_with_chars", lambda a: a.startswith("[")),
    ("contains", "shim_str_contains_char", lambda a: a.startswith("'")),
    ("split_once", "shim_str_split_once_char", lambda a: a.startswith("'")),
    ("split_once", "shim_str_split_once_str", lambda a: a.startswith('"')),
    ("rsplit_once", "shim_str_rsplit_once_char", lambda a: a.startswith("'")),
    ("strip_prefix", "shim_str_strip_prefix_char", lambda a: a.startswith("'")),
    ("char_indices", "shim_char_indices", lambda a: a == ""),
]
INDEX_SHIMS = {"excl": "shim_str_slice", "incl": "shim_str_slice_incl", "from": "shim_str_slice_from", "to": "shim_str_slice_to"}


def lit_axioms(frags):
    """For every string literal used as a `starts_with` pattern: an (assumed, mechanically generated) fact giving its bytes."""
    lits = []
    for f in frags:
        for m in re.finditer(r'\.starts_with\(\s*("(?:[^"\\]|\\.)*")\s*\)', f.orig):
            if m.group(1) not in lits:
                lits.append(m.group(1))
    out = []
    for i, lit in enumerate(lits):
        val = bytes(lit[1:-1], "utf-8").decode("unicode_escape").encode("utf-8")
        out.append("""#[verifier::external_body]
pub proof fn axiom_lit_bytes_%d() ensures sb(%s) == seq![%s] {}
""" % (i, lit, ", ".join("%du8" % b for b in val)))
    calls = " ".join("axiom_lit_bytes_%d();" % i for i in range(len(lits)))
    return "".join(out), calls


def str_shims(f, skip=()):
    """`skip`: method names the caller has already put behind its own (stronger) shims"""
    for meth, shim, ok in STR_SHIMS:
        if meth in skip:
            continue
        f.method_to_shim(meth, shim, why="str::%s behind a shim (assumed contract: contracts/text_model.rs)" % meth, arg_ok=ok)
    # `.get(a..b)` / `.get(a..=b)` (total)
    if "get" not in skip:
        f.method_to_shim("get", lambda a: "shim_str_get_incl" if "..=" in a else "shim_str_get", arg_ok=lambda a: ".." in a,
                         why="str::get(range) behind a shim (total: no precondition)")
        # the range argument `a..b` inside the (now) shim call: `..` => `,`
        for m in re.finditer(r"\.get\(([^()]*?)(\.\.=?)", f.orig):
            f.replace_span(m.start(2), m.end(2), ", ", "R2", "range argument passed as two integers")
    f.index_range_to_shim(INDEX_SHIMS)


def build():
    u = Unit("u11_text_safety")
    u.raw(HEADER, "header")
    st = u.source("src/stacktrace.rs")
    jv = u.source("src/java.rs")
    extract_struct(u, st, "StackFrame")
    u.raw(contract("text_model.rs"), "text_model")

    pf = st.fn("parse_frame")
    ps = jv.fn("parse_obfuscated_bytecode_signature")
    jb = jv.fn("java_base_types")
    ax, ax_calls = lit_axioms([pf, ps])
    u.raw(ax, "literal axioms (generated from the literals in the extracted text)")

    # ---- java_base_types: total ----
    jb.contracted = True
    jb.props_all = ["C13"]
    jb.props_safety = ["C13"]
    jb.ret("r")
    jb.contract("    ensures r is Some ==> is_ascii_char(encoded_ty),")
    u.emit(jb)

    # ---- parse_frame ----
    pf.contracted = True
    pf.props_all = ["C13"]
    pf.props_safety = ["C13"]
    pf.replace_all_re(r"pub\(crate\) ", "", "R4", "visibility")
    str_shims(pf)
    pf.replace_all_re(r"(\w+)\.parse\(\)\.ok\(\)", r"shim_str_parse_usize(\1)", "R2", why="str::parse::<usize>().ok() behind a shim (total)", min_count=0)
    pf.replace_all_re(r"(\w+)\.parse::<usize>\(\)\.ok\(\)", r"shim_str_parse_usize(\1)", "R2", why="str::parse::<usize>().ok() behind a shim", min_count=0)
    pf.replace_all_re(r"(\w+)\.parse::<u32>\(\)\.ok\(\)", r"shim_str_parse_u32(\1)", "R2", why="str::parse::<u32>().ok() behind a shim (the unsigned parsers accept the same strings; the narrower one fails on values that do not fit)", min_count=0)
    # the facts about the trimmed line are needed right after the early return
    m = re.search(r"return None;\s*\}", pf.orig)
    if not m:
        raise AnchorLost("parse_frame: early return not found")
    pf.insert_at(m.end(), "\n    proof { axiom_str_boundaries(line); %s }" % ax_calls)
    u.emit(pf)

    # ---- parse_obfuscated_bytecode_signature ----
    ps.contracted = True
    ps.props_all = ["C13"]
    ps.props_safety = ["C13"]
    str_shims(ps)
    loops = ps.loops()
    if len(loops) != 2 or loops[0][0] != "while" or loops[1][0] != "for":
        raise AnchorLost("parse_obfuscated_bytecode_signature: expected `while let` with one inner `for`, found %r" % [l[0] for l in loops])
    mi = re.search(r"let\s+mut\s+(\w+)\s*=\s*(\w+)\.char_indices\(\)\s*;", ps.orig)
    if not mi:
        raise AnchorLost("parse_obfuscated_bytecode_signature: char_indices binding not found")
    it, src = mi.group(1), mi.group(2)
    mf = re.search(r"let\s+mut\s+(\w+)\s*=\s*\d+\s*;", ps.orig)
    if not mf:
        raise AnchorLost("parse_obfuscated_bytecode_signature: window start binding not found")
    first = mf.group(1)
    ps.insert_at(mi.end(), "\n    proof { axiom_str_boundaries(%s); }" % src)
    INV = """        invariant
            ci_len({it}) == sb({src}).len(), 0 <= ci_pos({it}) <= ci_len({it}), ci_len({it}) <= usize::MAX,
            forall|i: int| #[trigger] ci_cb({it}, i) == is_cb({src}, i), is_cb({src}, ci_pos({it})),
            is_cb({src}, {first} as int), {first} <= ci_pos({it}),
""".format(it=it, src=src, first=first)

    def next_of(expr):
        if re.fullmatch(r"%s\.next\(\)" % it, expr) or re.fullmatch(r"%s(\.by_ref\(\))?" % it, expr):
            return "shim_ci_next(&mut %s)" % it
        raise AnchorLost("unexpected iterator expression %r" % expr)
    ps.while_let_to_loop(1, spec=INV + "        decreases ci_len({it}) - ci_pos({it}),".format(it=it), scrutinee_map=next_of,
                         before_next="let ghost pos0 = ci_pos(%s);\n" % it)
    # inner loop: every index it yields is < len; `last_idx` is one of them (or idx)
    mw = re.search(r"while\s+let\s+Some\(\((\w+),\s*(\w+)\)\)", ps.orig)
    ml = re.search(r"let\s+mut\s+(\w+)\s*=\s*%s\s*;" % (mw.group(1) if mw else "idx"), ps.orig)
    if not mw or not ml:
        raise AnchorLost("parse_obfuscated_bytecode_signature: idx / last_idx bindings not found")
    last = ml.group(1)
    ps.for_to_loop(2, spec=INV + "            {last} < ci_pos({it}), pos0 < ci_pos({it}),\n        decreases ci_len({it}) - ci_pos({it}),".format(last=last, src=src, it=it),
                   next_map=next_of)
    u.emit(ps)
    u.raw(FOOTER, "footer")
    return u
