"""Units: mechanical extraction of items from /repo + annotation by a closed set of edit operations.

Every edit is expressed against the ORIGINAL text of the extracted item:
  * insertions (contracts, ghost code, proof blocks, type ascriptions) never remove a character;
  * replacements carry a rule id (R0..R7, see DESIGN.md 3.2) and are logged with before/after text.
The original text is therefore always recoverable, and `Fragment.check_roundtrip()` re-derives it and compares
it with the bytes on disk.
"""
import hashlib
import os
import re

from .rustlex import LexError, code_tokens, find_items, find_one, match_close

REPO = os.environ.get("VERIF_REPO", "/repo")


class AnchorLost(Exception):
    pass


def _anchor_regex(anchor):
    parts = anchor.split()
    return re.compile(r"\s+".join(re.escape(p) for p in parts))


class Fragment:
    """An extracted item (or statement region) plus pending edits."""

    def __init__(self, unit, file, src, start, end, kind, name, item=None):
        self.unit, self.file, self.src = unit, file, src
        self.start, self.end = start, end
        self.kind, self.name = kind, name
        self.item = item
        self.orig = src[start:end]
        self.edits = []  # (off_a, off_b, order, kind, text, meta)   offsets relative to self.orig
        self._n = 0
        self.props_safety = []  # property ids charged with implicit obligations (overflow, bounds, ...)
        self.props_all = []  # property ids this function serves (for unlabelled failures)
        self.contracted = False
        self.rewrites = []  # log
        self.dropped = []  # log of dropped attribute/doc text
        self.canary_sites = []  # offsets (relative) where vacuity canaries go
        self.qualname = name

    # ---- helpers -------------------------------------------------------------------------
    def _find(self, anchor, occ=1, lo=0, hi=None):
        rx = _anchor_regex(anchor)
        hi = len(self.orig) if hi is None else hi
        ms = [m for m in rx.finditer(self.orig) if lo <= m.start() and m.end() <= hi]
        # drop matches that sit inside comments / strings unless the anchor itself starts there
        if len(ms) < occ or occ < 1:
            raise AnchorLost("%s::%s: anchor %r (occurrence %d) not found (found %d)"
                             % (self.file, self.name, anchor, occ, len(ms)))
        return ms[occ - 1]

    def _add(self, a, b, kind, text, meta=None):
        self._n += 1
        self.edits.append((a, b, self._n, kind, text, meta or {}))

    # ---- generic edit ops ----------------------------------------------------------------
    def insert_at(self, off, text, label=None, prio=0):
        """Insert `text` at offset `off`. Among insertions at the same offset, higher `prio` comes first (used for the opening text of
        nested call shims: the outermost call must open first)."""
        self._add(off, off, "ins", text, {"label": label, "prio": prio})
        return self

    def insert_before(self, anchor, text, occ=1):
        m = self._find(anchor, occ)
        return self.insert_at(m.start(), text)

    def insert_after(self, anchor, text, occ=1):
        m = self._find(anchor, occ)
        return self.insert_at(m.end(), text)

    def arm_body(self, pattern_re, occ=1):
        """(start, end) of the inside of the block of the match arm whose pattern matches `pattern_re` (regex ending before `=>`)."""
        ms = list(re.finditer(pattern_re + r"\s*=>\s*\{", self.orig, re.S))
        if len(ms) < occ:
            raise AnchorLost("%s: match arm %r not found" % (self.name, pattern_re))
        m = ms[occ - 1]
        toks = self._toks()
        i = next(ix for ix, t in enumerate(toks) if t[1] == m.end() - 1)
        c = toks[match_close(self.orig, toks, i)][1]
        inner = self.orig[m.end():c]
        a = m.end() + (len(inner) - len(inner.lstrip()))
        b = m.end() + len(inner.rstrip())
        return (a, b)

    def enclosing_block(self, off):
        """(open, close) offsets of the innermost `{ .. }` block that contains offset `off`."""
        toks = self._toks()
        i = next((ix for ix, t in enumerate(toks) if t[1] >= off), None)
        depth = 0
        j = i - 1
        while j >= 0:
            k, s_, e_ = toks[j]
            ch = self.orig[s_:e_]
            if k == "punct" and ch in ")]}":
                depth += 1
            elif k == "punct" and ch in "([{":
                if depth == 0:
                    if ch != "{":
                        raise AnchorLost("%s: offset %d is inside (..) or [..]" % (self.name, off))
                    return (s_, toks[match_close(self.orig, toks, j)][1])
                depth -= 1
            j -= 1
        raise AnchorLost("%s: no enclosing block at %d" % (self.name, off))

    def stmt_extent(self, off):
        """(start, end) of the statement that starts at offset `off`: up to and including its depth-0 `;`."""
        toks = self._toks()
        i = next((ix for ix, t in enumerate(toks) if t[1] >= off), None)
        j = i
        while j is not None and j < len(toks):
            k, s_, e_ = toks[j]
            ch = self.orig[s_:e_]
            if k == "punct" and ch in "([{":
                j = match_close(self.orig, toks, j) + 1
                continue
            if k == "punct" and ch == ";":
                return (toks[i][1], e_)
            if k == "punct" and ch in ")]}":
                break
            j += 1
        raise AnchorLost("%s: statement at %d has no end" % (self.name, off))

    def after_stmt(self, anchor, text, occ=1):
        """Insert after the end (the depth-0 `;`) of the statement that starts with / contains `anchor`."""
        m = self._find(anchor, occ)
        toks = self._toks()
        i = next((ix for ix, t in enumerate(toks) if t[1] >= m.start()), None)
        j = i
        while j is not None and j < len(toks):
            k, s_, e_ = toks[j]
            ch = self.orig[s_:e_]
            if k == "punct" and ch in "([{":
                j = match_close(self.orig, toks, j) + 1
                continue
            if k == "punct" and ch == ";":
                return self.insert_at(e_, "\n" + text)
            if k == "punct" and ch in ")]}":
                break
            j += 1
        raise AnchorLost("%s: end of statement after %r not found" % (self.name, anchor))

    def wrap_arm(self, pattern_anchor, proof_text, occ=1):
        """Match arm `PATTERN => EXPR,` (anchor = pattern text incl. `=>`): EXPR becomes `{ proof_text EXPR }`; insertion only."""
        m = self._find(pattern_anchor, occ)
        toks = self._toks()
        i = next((ix for ix, t in enumerate(toks) if t[1] >= m.end()), None)
        if i is None:
            raise AnchorLost("%s: arm body after %r not found" % (self.name, pattern_anchor))
        start = toks[i][1]
        j = i
        end = None
        while j < len(toks):
            k, s_, e_ = toks[j]
            ch = self.orig[s_:e_]
            if k == "punct" and ch in "([{":
                j = match_close(self.orig, toks, j) + 1
                continue
            if k == "punct" and ch in ",}":
                end = toks[j - 1][2]
                break
            j += 1
        if end is None:
            raise AnchorLost("%s: end of arm after %r not found" % (self.name, pattern_anchor))
        self.insert_at(start, "{ " + proof_text + " ")
        return self.insert_at(end, " }")

    def replace_call(self, anchor, new, rule, occ=1, why=""):
        """Replace the expression that starts at `anchor` and ends with the `)` matching the first `(` at or after
        the end of the anchor (e.g. a method-call chain `a.b().c(|x| ..)` anchored at `a` with anchor ending in `.c`)."""
        m = self._find(anchor, occ)
        toks = self._toks()
        i = next((ix for ix, t in enumerate(toks) if t[1] >= m.end() - 1 and self.orig[t[1]:t[2]] == "("), None)
        if i is None:
            raise AnchorLost("%s: no call after %r" % (self.name, anchor))
        c = match_close(self.orig, toks, i)
        return self.replace_span(m.start(), toks[c][2], new, rule, why)

    def _receiver_start(self, toks, dot_ix):
        """toks[dot_ix] is the `.` of a method call; return the offset where its receiver (a postfix chain:
        idents, literals, `::`, `.`, `?`, and bracket groups) starts."""
        j = dot_ix - 1
        start = None
        expect_operand = True
        while j >= 0:
            k, s_, e_ = toks[j]
            ch = self.orig[s_:e_]
            if k == "punct" and ch in ")]":
                # walk back to the matching opener
                depth = 0
                while j >= 0:
                    kk, ss, ee = toks[j]
                    c2 = self.orig[ss:ee]
                    if kk == "punct" and c2 in ")]}":
                        depth += 1
                    elif kk == "punct" and c2 in "([{":
                        depth -= 1
                        if depth == 0:
                            break
                    j -= 1
                start = toks[j][1]
                j -= 1
                expect_operand = False  # a group may be call args / index of a preceding operand
                # is there an operand (ident) directly before the group?  e.g. f(x) or a[i]
                if j >= 0 and toks[j][0] == "ident" and self.orig[toks[j][1]:toks[j][2]] not in ("return", "in", "if", "match", "else", "let", "mut"):
                    continue
                if j >= 0 and toks[j][0] == "punct" and self.orig[toks[j][1]:toks[j][2]] in ")]?":
                    continue
                break
            if k in ("ident", "num", "str", "char"):
                if k == "ident" and ch in ("return", "in", "if", "match", "else", "let", "mut", "as"):
                    break
                start = s_
                j -= 1
                # continue through `.` / `::` separators
                if j >= 0 and toks[j][0] == "punct" and self.orig[toks[j][1]:toks[j][2]] == ".":
                    j -= 1
                    continue
                if j >= 1 and self.orig[toks[j - 1][1]:toks[j][2]] == "::":
                    j -= 2
                    continue
                break
            if k == "punct" and ch == "?":
                j -= 1
                continue
            break
        if start is None:
            raise AnchorLost("%s: cannot delimit the receiver of a method call" % self.name)
        return start

    def method_to_shim(self, method, shim, rule="R2", why="", arg_ok=None, borrow=""):
        """R2 (general form): every `RECV.method(ARGS)` => `shim(RECV, ARGS)`, done with three small edits so that rewrites
        inside RECV / ARGS still apply. `arg_ok(args_text)` can restrict which calls are rewritten. Returns the number rewritten."""
        toks = self._toks()
        n = 0
        for i, (k, s_, e_) in enumerate(toks):
            if k != "ident" or self.orig[s_:e_] != method or i == 0 or i + 1 >= len(toks):
                continue
            if self.orig[toks[i - 1][1]:toks[i - 1][2]] != "." or self.orig[toks[i + 1][1]:toks[i + 1][2]] != "(":
                continue
            c = match_close(self.orig, toks, i + 1)
            args = self.orig[toks[i + 1][2]:toks[c][1]]
            if arg_ok and not arg_ok(args.strip()):
                continue
            rs = self._receiver_start(toks, i - 1)
            sh = shim(args.strip()) if callable(shim) else shim
            self.insert_at(rs, "%s(%s" % (sh, borrow), prio=toks[i - 1][1])
            self.replace_span(toks[i - 1][1], toks[i + 1][2], ", " if args.strip() else "", rule,
                              why or "method call behind a shim (receiver and arguments untouched)")
            n += 1
        return n

    def index_range_to_shim(self, shims, rule="R2", why=""):
        """R2: every `X[A..B]` / `X[A..=B]` / `X[A..]` / `X[..B]` (optionally `&`-prefixed) => `shim(X, A, B)`; A and B untouched.
        `shims` = dict with keys 'excl', 'incl', 'from', 'to'. Returns the number rewritten."""
        toks = self._toks()
        n = 0
        for i, (k, s_, e_) in enumerate(toks):
            if k != "punct" or self.orig[s_:e_] != "[" or i == 0:
                continue
            pk, ps, pe = toks[i - 1]
            if not (pk == "ident" or (pk == "punct" and self.orig[ps:pe] in ")]")):
                continue
            if pk == "ident" and self.orig[ps:pe] in ("return", "in", "if", "match", "else", "let", "mut", "as"):
                continue
            c = match_close(self.orig, toks, i)
            # depth-0 `..`
            j = i + 1
            dd = None
            while j < c:
                kk, ss, ee = toks[j]
                ch = self.orig[ss:ee]
                if kk == "punct" and ch in "([{":
                    j = match_close(self.orig, toks, j) + 1
                    continue
                if self.orig[ss:ss + 2] == ".." and kk == "punct":
                    dd = ss
                    break
                j += 1
            if dd is None:
                continue
            incl = self.orig[dd + 2:dd + 3] == "="
            dend = dd + (3 if incl else 2)
            a_txt = self.orig[toks[i][2]:dd].strip()
            b_txt = self.orig[dend:toks[c][1]].strip()
            kind = "incl" if incl else ("excl" if a_txt and b_txt else ("from" if a_txt else "to"))
            if kind not in shims or (not a_txt and not b_txt):
                raise AnchorLost("%s: unsupported range index %r" % (self.name, self.orig[toks[i][1]:toks[c][2]]))
            rs = self._receiver_start(toks, i) if pk != "ident" else None
            if rs is None:
                # receiver = postfix chain ending at the ident before `[`
                rs = self._receiver_start(toks, i)
            amp = rs > 0 and self.orig[:rs].rstrip().endswith("&")
            if amp:
                a0 = self.orig[:rs].rstrip()
                self.replace_span(len(a0) - 1, len(a0), "", rule, "the shim returns the reference")
            self.insert_at(rs, "%s(" % shims[kind], prio=toks[i][1])
            self.replace_span(toks[i][1], toks[i][2], ", ", rule, why or "str range indexing behind a shim whose precondition is std's panic condition")
            self.replace_span(dd, dend, ", " if (a_txt and b_txt) else "", rule)
            self.replace_span(toks[c][1], toks[c][2], ")", rule)
            n += 1
        return n

    def replace(self, anchor, new, rule, occ=1, why=""):
        m = self._find(anchor, occ)
        return self.replace_span(m.start(), m.end(), new, rule, why)

    def replace_span(self, a, b, new, rule, why=""):
        self._add(a, b, "rep", new, {"rule": rule})
        self.rewrites.append({"rule": rule, "site": "%s:%d" % (self.file, self.line_of_rel(a)),
                              "before": self.orig[a:b], "after": new, "why": why})
        return self

    def replace_re(self, pattern, repl, rule, occ=1, why=""):
        ms = list(re.finditer(pattern, self.orig, re.S))
        if len(ms) < occ:
            raise AnchorLost("%s::%s: pattern %r (occurrence %d) not found" % (self.file, self.name, pattern, occ))
        m = ms[occ - 1]
        return self.replace_span(m.start(), m.end(), m.expand(repl), rule, why)

    def replace_all_re(self, pattern, repl, rule, why="", min_count=0):
        ms = list(re.finditer(pattern, self.orig, re.S))
        if len(ms) < min_count:
            raise AnchorLost("%s::%s: pattern %r found %d times, expected >= %d"
                             % (self.file, self.name, pattern, len(ms), min_count))
        for m in ms:
            self.replace_span(m.start(), m.end(), m.expand(repl), rule, why)
        return self

    def line_of_rel(self, off):
        return self.src.count("\n", 0, self.start + off) + 1

    # ---- function-specific ops -----------------------------------------------------------
    def _toks(self):
        return code_tokens(self.orig)

    def question_let_to_match(self, conv="e_.into()"):
        """R13: `let PAT = EXPR?;`  =>  `let PAT = match EXPR { Ok(v_) => v_, Err(e_) => return Err(<conv>) };` -- the documented desugaring of `?`
        on a Result (Try::branch + From::from), spelled out so that the conversion of the error value is a visible call with a contract.
        Returns the number of statements rewritten."""
        toks = self._toks()
        n = 0
        for ix, (k, s, e) in enumerate(toks):
            if k != "punct" or self.orig[s:e] != "?":
                continue
            if ix + 1 >= len(toks) or self.orig[toks[ix + 1][1]:toks[ix + 1][2]] != ";":
                continue
            # walk back to the start of the statement (depth 0 relative to the `?`)
            j, depth = ix - 1, 0
            start = None
            while j >= 0:
                kk, ss, ee = toks[j]
                ch = self.orig[ss:ee]
                if kk == "punct" and ch == "}" and depth == 0:
                    start = j + 1      # a block statement ends here
                    break
                if kk == "punct" and ch in ")]}":
                    depth += 1
                elif kk == "punct" and ch in "([{":
                    if depth == 0:
                        start = j + 1
                        break
                    depth -= 1
                elif kk == "punct" and ch == ";" and depth == 0:
                    start = j + 1
                    break
                j -= 1
            if start is None or self.orig[toks[start][1]:toks[start][2]] != "let":
                continue
            # the first depth-0 `=` of the statement
            j, depth, eq = start, 0, None
            while j < ix:
                kk, ss, ee = toks[j]
                ch = self.orig[ss:ee]
                if kk == "punct" and ch in "([{":
                    depth += 1
                elif kk == "punct" and ch in ")]}":
                    depth -= 1
                elif kk == "punct" and ch == "=" and depth == 0 and self.orig[toks[j + 1][1]:toks[j + 1][2]] != "=":
                    eq = j
                    break
                j += 1
            if eq is None:
                continue
            self.insert_at(toks[eq][2], " match", prio=-5)
            self.replace_span(s, e, " { Ok(v_) => v_, Err(e_) => return Err(%s) }" % conv, "R13",
                              "`?` spelled out as its documented desugaring (match on the Result, error converted with From/Into, early return)")
            n += 1
        return n

    def plain_closures(self):
        """Offsets (in the original text) of closure heads that no rewrite covers. Verus accepts a closure without `ensures` and then knows
        nothing about its result, so an obligation that fails next to a closure the unit description does not know is undecided, not refuted."""
        toks = self._toks()
        out = []
        for ix, (k, s, e) in enumerate(toks):
            if k != "punct" or self.orig[s:e] != "|":
                continue
            if ix == 0:
                continue
            pk, ps, pe = toks[ix - 1]
            prev = self.orig[ps:pe]
            starts = (pk == "punct" and prev in ("(", ",", "=", "{", ";", "[")) or (pk == "ident" and prev in ("move", "return"))
            if not starts:
                continue
            if any((a <= s < b) or (a == s and kind == "rep") for (a, b, _n, kind, _t, _m) in self.edits if b > a):
                continue
            out.append(s)
        return out

    def _body_open_rel(self):
        if self.item is None or self.item.body_open is None:
            raise AnchorLost("%s has no body" % self.name)
        return self.item.body_open - self.start

    def _body_close_rel(self):
        return self.item.body_close - self.start

    def ret(self, name="ret"):
        """R0: name the return value."""
        toks = self._toks()
        bo = self._body_open_rel()
        # find `->` at bracket depth 0 between the parameter list and the body
        depth = 0
        arrow = None
        i = 0
        while i < len(toks) and toks[i][1] < bo:
            k, s, e = toks[i]
            ch = self.orig[s:e]
            if k == "punct" and ch in "([":
                i = match_close(self.orig, toks, i) + 1
                continue
            if k == "punct" and ch == "-" and self.orig[s:s + 2] == "->":
                arrow = s
                break
            i += 1
        if arrow is None:
            raise AnchorLost("%s: no return type" % self.name)
        # the type extends to `where` (depth 0) or the body brace
        j = i + 2
        tend = bo
        while j < len(toks) and toks[j][1] < bo:
            k, s, e = toks[j]
            ch = self.orig[s:e]
            if k == "punct" and ch in "([":
                j = match_close(self.orig, toks, j) + 1
                continue
            if k == "ident" and ch == "where":
                tend = s
                break
            j += 1
        tstart = arrow + 2
        ty = self.orig[tstart:tend]
        tr = tstart + len(ty.rstrip())
        tl = tstart + (len(ty) - len(ty.lstrip()))
        self.insert_at(tl, "(%s: " % name)
        self.insert_at(tr, ")")
        self.rewrites.append({"rule": "R0", "site": "%s:%d" % (self.file, self.line_of_rel(tstart)),
                              "before": "->" + ty, "after": "-> (%s: %s)" % (name, ty.strip()), "why": "name the return value"})
        return self

    def contract(self, text, props=None):
        """Insert requires/ensures/decreases text right before the body `{`."""
        self.contracted = True
        self.insert_at(self._body_open_rel(), "\n" + text.rstrip() + "\n")
        if props:
            self.props_all = list(props)
        return self

    def drop_body(self, why="callee kept abstract in this unit (its contract is proved elsewhere or assumed)"):
        """Keep only the signature: the body is replaced by `unimplemented!()`; the function must be external_body."""
        bo, bc = self._body_open_rel(), self._body_close_rel()
        self.contracted = False
        return self.replace_span(bo + 1, bc, " unimplemented!() ", "R9", why)

    def body_start(self, text):
        return self.insert_at(self._body_open_rel() + 1, "\n" + text)

    def body_end(self, text):
        """Insert before the closing brace of the function (after the tail expression) -- rarely useful."""
        return self.insert_at(self._body_close_rel(), text)

    def before_tail(self, text):
        """Insert before the function's tail expression when it is a simple expression that follows a `;` or a block."""
        toks = self._toks()
        bo, bc = self._body_open_rel(), self._body_close_rel()
        i = next(ix for ix, t in enumerate(toks) if t[1] == bo)
        j = i + 1
        last_boundary = bo + 1
        while j < len(toks) and toks[j][1] < bc:
            k, s_, e_ = toks[j]
            ch = self.orig[s_:e_]
            if k == "punct" and ch in "([":
                j = match_close(self.orig, toks, j) + 1
                continue
            if k == "punct" and ch == "{":
                j = match_close(self.orig, toks, j)
                last_boundary = toks[j][2]
                j += 1
                continue
            if k == "punct" and ch == ";":
                last_boundary = e_
            j += 1
        rest = self.orig[last_boundary:bc]
        if not rest.strip():
            raise AnchorLost("%s: no simple tail expression" % self.name)
        off = last_boundary + (len(rest) - len(rest.lstrip()))
        return self.insert_at(off, text)

    def loops(self):
        """Return list of (kw, kw_off, body_open_off, body_close_off) for each loop in token order."""
        toks = self._toks()
        res = []
        for i, (k, s, e) in enumerate(toks):
            if k == "ident" and self.orig[s:e] in ("for", "while", "loop") and s > (self._body_open_rel() if self.item is not None else -1):
                # skip `for<'a>` HRTB
                if self.orig[s:e] == "for" and i + 1 < len(toks) and self.orig[toks[i + 1][1]] == "<":
                    continue
                # find the body `{` : first `{` at depth 0 after the header
                j = i + 1
                while j < len(toks):
                    kk, ss, ee = toks[j]
                    ch = self.orig[ss:ee]
                    if kk == "punct" and ch in "([":
                        j = match_close(self.orig, toks, j) + 1
                        continue
                    if kk == "punct" and ch == "{":
                        c = match_close(self.orig, toks, j)
                        res.append((self.orig[s:e], s, ss, toks[c][1]))
                        break
                    j += 1
        return res

    def loop_spec(self, k, text):
        """Insert invariant/decreases text before the body `{` of the k-th loop (1-based)."""
        ls = self.loops()
        if len(ls) < k:
            raise AnchorLost("%s: loop #%d not found (%d loops)" % (self.name, k, len(ls)))
        return self.insert_at(ls[k - 1][2], "\n" + text.rstrip() + "\n")

    def loop_body_start(self, k, text):
        ls = self.loops()
        if len(ls) < k:
            raise AnchorLost("%s: loop #%d not found" % (self.name, k))
        return self.insert_at(ls[k - 1][2] + 1, "\n" + text)

    def for_iter_name(self, k, name="it"):
        """`for x in EXPR` => `for x in it: EXPR` (Verus ghost iterator name); insertion only."""
        ls = self.loops()
        if len(ls) < k or ls[k - 1][0] != "for":
            raise AnchorLost("%s: for-loop #%d not found" % (self.name, k))
        kw, s, bo, bc = ls[k - 1]
        m = re.compile(r"\bin\s+").search(self.orig, s, bo)
        if not m:
            raise AnchorLost("%s: `in` of for-loop #%d not found" % (self.name, k))
        return self.insert_at(m.end(), "%s: " % name)

    def while_let_to_loop(self, k, spec="", before_next="", on_none="", after_next="", scrutinee_map=None, attrs=""):
        """R1: `while let PAT = EXPR {` => `loop SPEC { before; let PAT = EXPR' else { on_none break; }; after`
        (EXPR' = scrutinee_map(EXPR) when given, e.g. a method call put behind a shim)."""
        ls = self.loops()
        if len(ls) < k or ls[k - 1][0] != "while":
            raise AnchorLost("%s: while-loop #%d not found" % (self.name, k))
        kw, s, bo, bc = ls[k - 1]
        hdr = self.orig[s:bo]
        m = re.match(r"while\s+let\s+(.*?)\s*=\s*(.*?)\s*$", hdr, re.S)
        if not m:
            raise AnchorLost("%s: cannot parse while-let header %r" % (self.name, hdr))
        pat, expr = m.group(1), m.group(2)
        if scrutinee_map:
            expr = scrutinee_map(expr)
        new = "%sloop\n%s\n{\n%s let %s = %s else { %s break; };\n%s" % (attrs, spec.rstrip(), before_next, pat, expr, on_none, after_next)
        return self.replace_span(s, bo + 1, new, "R1", "while-let -> loop + let-else (same control flow; Verus has no while-let)")

    def for_to_loop(self, k, spec="", before_next="", on_none="", after_next="", it_name=None, iter_expr=None, after_decl="", next_map=None):
        """R1: `for PAT in EXPR {` => `loop SPEC { before; let Some(PAT) = EXPR.next() else { on_none break; }; after`.
        If it_name is given: `let mut it_name = IntoIterator::into_iter(EXPR);` is emitted before the loop."""
        ls = self.loops()
        if len(ls) < k or ls[k - 1][0] != "for":
            raise AnchorLost("%s: for-loop #%d not found" % (self.name, k))
        kw, s, bo, bc = ls[k - 1]
        hdr = self.orig[s:bo]
        m = re.match(r"for\s+(.*?)\s+in\s+(.*?)\s*$", hdr, re.S)
        if not m:
            raise AnchorLost("%s: cannot parse for header %r" % (self.name, hdr))
        pat, expr = m.group(1), m.group(2)
        pre = ""
        nxt = expr
        if it_name:
            pre = "let mut %s = %s;\n%s" % (it_name, iter_expr.replace("{expr}", expr) if iter_expr else "IntoIterator::into_iter(%s)" % expr, after_decl)
            nxt = it_name
        nxt_call = next_map(nxt) if next_map else "%s.next()" % nxt
        new = "%sloop\n%s\n{\n%s let Some(%s) = %s else { %s break; };\n%s" % (
            pre, spec.rstrip(), before_next, pat, nxt_call, on_none, after_next)
        return self.replace_span(s, bo + 1, new, "R1", "for -> loop (Verus: for-loops do not support continue)")

    def closure(self, prefix, occ=1, params=None, ret=None, spec="", rule="R3", body_tpl=None, spec_map=()):
        """R3: annotate a closure. `prefix` is the closure head text e.g. `|idx|`.
        Expression-bodied closures get braces; block-bodied ones keep theirs.
        In `spec`, `{body}` is replaced by the closure's body expression text (expression-bodied only)."""
        m = self._find(prefix, occ)
        toks = self._toks()
        # first token at/after m.end()
        i = next((ix for ix, t in enumerate(toks) if t[1] >= m.end()), None)
        if i is None:
            raise AnchorLost("closure body not found")
        k, s, e = toks[i]
        head = params if params is not None else self.orig[m.start():m.end()]
        rtxt = " -> (%s)" % ret if ret else ""
        if self.orig[s] == "{":
            c = match_close(self.orig, toks, i)
            inner = self.orig[s + 1:toks[c][1]].strip()
            specbody = inner
            for pat, rep in spec_map:
                specbody = re.sub(pat, rep, specbody)
            sp = spec.replace("{body}", inner).replace("{specbody}", specbody)
            self.replace_span(m.start(), m.end(), head, rule, "closure parameter types") if head != self.orig[m.start():m.end()] else None
            self.insert_at(s, "%s %s " % (rtxt, sp))
            return self
        # expression body: runs until a depth-0 `,` `)` `;` or `}`
        j = i
        end = None
        while j < len(toks):
            kk, ss, ee = toks[j]
            ch = self.orig[ss:ee]
            if kk == "punct" and ch in "([{":
                j = match_close(self.orig, toks, j) + 1
                continue
            if kk == "punct" and ch in ",);}":
                end = ss
                break
            j += 1
        if end is None:
            raise AnchorLost("closure body end not found")
        body = self.orig[s:end].rstrip()
        end = s + len(body)
        specbody = body
        for pat, rep in spec_map:
            specbody = re.sub(pat, rep, specbody)
        sp = spec.replace("{body}", body).replace("{specbody}", specbody)
        self.replace_span(m.start(), m.end(), "%s%s %s { " % (head, rtxt, sp), rule,
                          "closure contract (types, named return, clauses, braces; body expression unchanged)")
        return self.insert_at(end, " }")

    # ---- rendering -----------------------------------------------------------------------
    def render(self):
        """Return (text, segs) where segs = list of (gen_off_a, gen_off_b, kind, orig_a, orig_b, meta)."""
        edits = sorted(self.edits, key=lambda e: (e[0], 0 if e[0] == e[1] else 1, -(e[5].get("prio", 0) or 0), e[2]))
        # check replacements do not overlap
        last_end = -1
        for a, b, n, kind, text, meta in edits:
            if kind == "rep":
                if a < last_end:
                    raise AnchorLost("%s: overlapping rewrites at %d" % (self.name, a))
                last_end = b
        out, segs = [], []
        pos, gen = 0, 0

        def emit(txt, kind, oa, ob, meta):
            nonlocal gen
            if txt == "" and kind != "rep":
                return
            out.append(txt)
            segs.append((gen, gen + len(txt), kind, oa, ob, meta))
            gen += len(txt)

        for a, b, n, kind, text, meta in edits:
            if a < pos:
                if kind == "ins" and a >= 0 and a < pos:
                    raise AnchorLost("%s: insertion inside a rewritten span at %d" % (self.name, a))
                raise AnchorLost("%s: edit order conflict" % self.name)
            emit(self.orig[pos:a], "orig", pos, a, None)
            pos = a
            if kind == "ins":
                emit(text, "ins", a, a, meta)
            else:
                emit(text, "rep", a, b, meta)
                pos = b
        emit(self.orig[pos:], "orig", pos, len(self.orig), None)
        return "".join(out), segs

    def check_roundtrip(self):
        """Re-derive the original text from the segment list and compare with the file on disk."""
        text, segs = self.render()
        rebuilt = []
        for ga, gb, kind, oa, ob, meta in segs:
            if kind == "orig":
                rebuilt.append(text[ga:gb])
            elif kind == "rep":
                rebuilt.append(self.orig[oa:ob])
        disk = open(os.path.join(REPO, self.file), encoding="utf-8").read() if not os.path.isabs(self.file) else open(self.file, encoding="utf-8").read()
        if "".join(rebuilt) != disk[self.start:self.end]:
            raise AnchorLost("%s::%s: extracted text does not round-trip to the file on disk" % (self.file, self.name))

    def sha(self):
        return hashlib.sha256(self.orig.encode()).hexdigest()[:16]


def strip_attrs_and_docs(frag):
    """Drop `#[...]` attributes and doc comments INSIDE the fragment (e.g. on struct fields); logged."""
    for m in re.finditer(r"(?m)^[ \t]*///.*\n", frag.orig):
        frag._add(m.start(), m.end(), "rep", "", {"rule": "drop-doc"})
    for m in re.finditer(r"(?m)^[ \t]*#\[[^\]]*\]\s*\n", frag.orig):
        frag._add(m.start(), m.end(), "rep", "", {"rule": "drop-attr"})
        frag.dropped.append(frag.orig[m.start():m.end()].strip())
    return frag


class Source:
    def __init__(self, unit, relpath, abspath=None):
        self.unit, self.rel = unit, relpath
        self.path = abspath or os.path.join(REPO, relpath)
        try:
            self.src = open(self.path, encoding="utf-8").read()
        except OSError as e:
            raise AnchorLost("cannot read %s: %s" % (self.path, e))
        try:
            self.items = find_items(relpath, self.src)
        except LexError as e:
            raise AnchorLost("cannot tokenize %s: %s" % (relpath, e))

    def _frag(self, it, qual=None):
        f = Fragment(self.unit, self.rel if not os.path.isabs(self.rel) else self.rel, self.src, it.start, it.end, it.kind, it.name, it)
        f.qualname = qual or it.name
        if os.path.isabs(self.path) and not self.path.startswith(REPO):
            f.file = self.path
        return f

    def fn(self, name):
        try:
            return self._frag(find_one(self.items, "fn", name, what="in " + self.rel))
        except LexError as e:
            raise AnchorLost(str(e))

    def item(self, kind, name):
        try:
            return self._frag(find_one(self.items, kind, name, what="in " + self.rel))
        except LexError as e:
            raise AnchorLost(str(e))

    def impl(self, header_re, nth=1):
        c = [i for i in self.items if i.kind == "impl" and re.search(header_re, i.name)]
        if len(c) < nth:
            raise AnchorLost("impl matching %r not found in %s" % (header_re, self.rel))
        return c[nth - 1]

    def impl_fn(self, header_re, name, nth=1):
        im = self.impl(header_re, nth)
        try:
            inner = find_items(self.rel, self.src, im.body_open + 1, im.body_close)
            it = find_one(inner, "fn", name, what="in impl %s" % im.name)
        except LexError as e:
            raise AnchorLost(str(e))
        return self._frag(it, qual="%s::%s" % (im.name, name))

    def impl_header(self, header_re, nth=1):
        im = self.impl(header_re, nth)
        return self.src[im.kw:im.body_open]

    def region(self, fn_frag, start_anchor, end_anchor, name, start_occ=1, end_occ=1):
        """R5: a contiguous statement range of a function (from the start of start_anchor to the end of
        end_anchor), as a fragment of its own."""
        ms = fn_frag._find(start_anchor, start_occ)
        me = fn_frag._find(end_anchor, end_occ, lo=ms.start())
        a, b = fn_frag.start + ms.start(), fn_frag.start + me.end()
        f = Fragment(self.unit, fn_frag.file, self.src, a, b, "region", name)
        f.qualname = "%s[%s]" % (fn_frag.qualname, name)
        return f


class Unit:
    def __init__(self, name, title=""):
        self.name, self.title = name, title
        self.chunks = []  # ("raw", text, meta) | ("frag", Fragment)
        self.frags = []
        self.assumptions = []  # human-written notes attached to trusted items
        self.verus_args = []

    def source(self, relpath, abspath=None):
        return Source(self, relpath, abspath)

    def raw(self, text, name="prelude"):
        self.chunks.append(("raw", text if text.endswith("\n") else text + "\n", {"name": name}))
        return self

    def emit(self, frag, prefix="", suffix=""):
        if frag.kind == "type":
            # a `type X = ..;` alias is emitted once per unit (explicitly by the unit, or because an extracted struct mentions it)
            done = self.__dict__.setdefault("_aliases_emitted", set())
            if (frag.file, frag.name) in done:
                return frag
            done.add((frag.file, frag.name))
        if prefix:
            self.raw(prefix, "glue")
            self.chunks[-1][2]["owner"] = frag      # hand-written header of a region: belongs to that region
        self.chunks.append(("frag", frag, {}))
        self.frags.append(frag)
        if suffix:
            self.raw(suffix, "glue")
            self.chunks[-1][2]["owner"] = frag      # ... and so does its hand-written tail
        return frag

    def build(self, canaries=False):
        """Return (text, genmap). genmap entries: (gen_a, gen_b, kind, frag|None, orig_a, orig_b, meta)."""
        out, genmap = [], []
        gen = 0
        for ch in self.chunks:
            if ch[0] == "raw":
                t = ch[1]
                out.append(t)
                genmap.append((gen, gen + len(t), "raw", None, 0, 0, ch[2]))
                gen += len(t)
            else:
                f = ch[1]
                f.check_roundtrip()
                if canaries and f.contracted and f.kind in ("fn", "region"):
                    f2 = _with_canary(f)
                    text, segs = f2.render()
                else:
                    text, segs = f.render()
                for ga, gb, kind, oa, ob, meta in segs:
                    genmap.append((gen + ga, gen + gb, kind, f, oa, ob, meta))
                out.append(text)
                out.append("\n")
                gen += len(text) + 1
                genmap.append((gen - 1, gen, "raw", None, 0, 0, {"name": "nl"}))
        return "".join(out), genmap


def _with_canary(f):
    import copy
    g = copy.copy(f)
    g.edits = list(f.edits)
    g._n = f._n + 1000
    if f.kind == "fn":
        g._add(f._body_open_rel() + 1, f._body_open_rel() + 1, "ins",
               "\n/*@CANARY:%s*/ assert(false);\n" % f.qualname, {"canary": True})
    else:
        g._add(0, 0, "ins", "/*@CANARY:%s*/ assert(false);\n" % f.qualname, {"canary": True})
    return g
