"""./check <PROPERTY-ID> [--tier quick|thorough] [--replay FILE]

exit 0: every obligation charged to the property was discharged on /repo's current working tree
exit 1: a discharged-before obligation fails; prints `VIOLATION property=<id> replay=<path>[ no-failing-input-found]`
exit 2: undecided (lost anchor, construct rejected by the verifier's front end, rlimit, vacuous contract) -- never an alarm
"""
import argparse
import concurrent.futures as cf
import json
import os
import re
import sys
import time

from . import engine
from .engine import VERIF, failure_name, failure_props, verify_unit

sys.path.insert(0, VERIF)


def norm(s):
    return " ".join((s or "").split())


def load_known():
    p = os.path.join(VERIF, "known_findings.json")
    if not os.path.exists(p):
        return []
    return json.load(open(p)).get("findings", [])


def match_known(pid, name, c, known):
    for k in known:
        if k.get("status") != "open" or k.get("property") != pid:
            continue
        if k.get("obligation_kind") and k["obligation_kind"] != c["kind"]:
            continue
        fr = c["frag"]
        if k.get("function") and (fr is None or k["function"] != fr.qualname):
            continue
        if k.get("file") and (fr is None or k["file"] != fr.file):
            continue
        if k.get("expr") and norm(k["expr"]) not in norm(c.get("orig_text")):
            continue
        if k.get("label") and k["label"] != c.get("label"):
            continue
        return k
    return None


def run_units(specs, tier, seed):
    """specs: list of (modname, kwargs). Run in parallel; return list of UnitResult."""
    results = [None] * len(specs)
    with cf.ThreadPoolExecutor(max_workers=min(6, max(1, len(specs)))) as ex:
        futs = {}
        for i, (mod, kw) in enumerate(specs):
            futs[ex.submit(verify_unit, mod, tier, seed, None, True, "-".join(str(v) for v in kw.values()), **kw)] = i
        for f in cf.as_completed(futs):
            results[futs[f]] = f.result()
    return results


def main(argv=None):
    ap = argparse.ArgumentParser()
    ap.add_argument("pid")
    ap.add_argument("--tier", default=os.environ.get("VERIF_TIER", "quick"))
    ap.add_argument("--replay")
    a = ap.parse_args(argv)
    seed = int(os.environ.get("VERIF_SEED", "0") or 0)
    import props
    if a.pid not in props.PROPS:
        print("unknown or not-applicable property", a.pid)
        return 2
    cfg = props.PROPS[a.pid]
    # one build directory per property, so that checks of different properties can run side by side
    if not os.environ.get("VERIF_BUILD"):
        engine.BUILD = os.path.join(VERIF, "build", a.pid)
    if a.replay:
        return replay(a.pid, a.replay)
    t0 = time.time()
    tier = a.tier
    specs = list(cfg["units"])
    seeds = [None] if tier == "quick" else [None, 1 + seed, 7 + seed]
    all_results = []
    for sd in seeds:
        rs = run_units(specs, tier, sd)
        for r in rs:
            r.seed = sd
        all_results.append(rs)
    base = all_results[0]
    unstable = []
    if len(all_results) > 1:
        for k, rs in enumerate(all_results[1:], 1):
            for r0, r in zip(base, rs):
                if r0.status == "ok" and r.status != "ok":
                    unstable.append("%s flips to %s under smt.random_seed=%s (%s)" % (r.name, r.status, r.seed, r.undecided_reason or [failure_name(r.name, c) for c in r.failures]))

    # thorough: mutation self-test of the machinery (a surviving mutant is a weakness of the check, not a violation of the property)
    selftest = None
    if tier == "thorough":
        selftest = mutation_selftest(specs)

    # Kani jobs
    kani_results = []
    if cfg.get("kani"):
        from . import kani
        kani_results = kani.run_jobs(cfg["kani"], tier)

    known = load_known()
    violations, known_hits, foreign = [], [], []
    undecided = []
    for r in base:
        if r.status == "undecided":
            undecided.append("%s: %s" % (r.name, r.undecided_reason))
        for c in r.failures:
            name = failure_name(r.name, c)
            ps = failure_props(c)
            if a.pid not in ps:
                foreign.append({"obligation": name, "charged_to": ps, "site": c["site"]})
                continue
            k = match_known(a.pid, name, c, known)
            if k:
                known_hits.append((k, name, c))
            else:
                violations.append((name, c, r))
    for kr in kani_results:
        if kr["status"] == "undecided":
            undecided.append("kani %s: %s" % (kr["harness"], kr.get("reason")))
        elif kr["status"] == "failed":
            c = {"kind": "kani", "frag": None, "label": kr["harness"], "site": kr.get("site"), "message": kr.get("failed_checks", ""),
                 "orig_text": kr.get("failed_checks", ""), "rendered": kr.get("output_tail", ""), "kani": kr}
            name = "kani::%s" % kr["harness"]
            k = None
            for kk in known:
                if kk.get("status") == "open" and kk.get("property") == a.pid and kk.get("obligation") == name:
                    k = kk
            if k:
                known_hits.append((k, name, c))
            else:
                violations.append((name, c, None))

    # ---- evidence -------------------------------------------------------------------------
    ev = build_evidence(a.pid, cfg, tier, seed, base, kani_results, violations, known_hits, foreign, undecided, unstable, time.time() - t0)
    if selftest is not None:
        ev["coverage"]["mutation_self_test"] = selftest
        if selftest["survivors"]:
            print("WARNING mutation self-test: %d of %d hand-made property-breaking edits were not detected: %s" % (
                len(selftest["survivors"]), selftest["total"], "; ".join(x["new"][:60] for x in selftest["survivors"][:5])))
    os.makedirs(os.path.join(VERIF, "evidence"), exist_ok=True)
    with open(os.path.join(VERIF, "evidence", a.pid + ".json"), "w") as fh:
        json.dump(ev, fh, indent=1)

    # counterexample search: for an arithmetic obligation of a function that has a Kani kernel, ask CBMC for concrete values
    cx_for = {}
    try:
        from . import kani as _kani
        wanted = {}
        for name, c, r in violations:
            fr = c.get("frag")
            if c["kind"] == "overflow" and fr is not None:
                h = _kani.CX_KERNELS.get((fr.file, fr.name))
                if h:
                    wanted.setdefault(h, []).append(name)
        if wanted:
            for kr in _kani.run_jobs(sorted(wanted), tier, playback=True):
                if kr["status"] == "failed" and kr.get("concrete"):
                    for name in wanted[kr["harness"]]:
                        cx_for[name] = {"harness": kr["harness"], "failed_checks": kr.get("failed_checks"), "playback_unit_test": kr["concrete"], "cmd": kr.get("cmd")}
    except Exception as e:  # noqa: the counterexample search is best effort
        print("note: counterexample search skipped: %r" % (e,))

    for k, name, c in known_hits:
        print("KNOWN-FINDING: property=%s %s" % (a.pid, k.get("what", name)))
    rc = 0
    if violations:
        os.makedirs(os.path.join(VERIF, "replay"), exist_ok=True)
        seen = set()
        for i, (name, c, r) in enumerate(violations):
            if name in seen:
                continue
            seen.add(name)
            safe = re.sub(r"[^A-Za-z0-9_.-]+", "_", name)[:120]
            rp = os.path.join(VERIF, "replay", "%s-%s.json" % (a.pid, safe))
            cx = c.get("kani", {}).get("concrete") if c.get("kani") else None
            if cx is None and name in cx_for:
                cx = cx_for[name]
            doc = {
                "property": a.pid, "obligation": name, "kind": c["kind"], "repo_site": c["site"],
                "offending_source_text": c.get("orig_text"), "message": c["message"],
                "verifier_output": c.get("rendered"), "unit": r.name if r else None,
                "generated_file": r.gen_path if r else None, "checker_cmd": r.cmd if r else (c.get("kani") or {}).get("cmd"),
                "failing_input": cx,
                "replay_cmd": "./check %s --replay %s" % (a.pid, os.path.relpath(rp, VERIF)),
            }
            with open(rp, "w") as fh:
                json.dump(doc, fh, indent=1)
            print("VIOLATION property=%s replay=%s%s" % (a.pid, rp, "" if cx else " no-failing-input-found"))
            print("  obligation %s failed at %s: %s" % (name, c["site"], c["message"]))
        rc = 1
    elif undecided:
        for uu in undecided:
            print("UNDECIDED property=%s %s" % (a.pid, uu))
        rc = 2
    for w in unstable:
        print("WARNING unstable:", w)
    if rc == 0:
        print("OK property=%s tier=%s obligations=%d discharged=%d wall=%.1fs" % (
            a.pid, tier, ev["coverage"]["obligations"], ev["coverage"]["discharged"], time.time() - t0))
    return rc


def mutation_selftest(specs):
    """Apply each committed hand-made edit (mutants.json) for the property's units to a scratch copy of /repo/src and require the
    unit to report a failed obligation."""
    import shutil
    import subprocess
    import tempfile
    path = os.path.join(VERIF, "mutants.json")
    if not os.path.exists(path):
        return None
    allm = json.load(open(path))["mutants"]
    wanted = [(m, kw) for (m, kw) in specs]
    todo = [x for x in allm if any(x["unit"] == m and x.get("kwargs", {}) == kw for m, kw in wanted)]
    repo = os.environ.get("VERIF_REPO", "/repo")

    def one(x):
        d = tempfile.mkdtemp(prefix="verif-mut-", dir="/var/tmp")
        try:
            shutil.copytree(os.path.join(repo, "src"), os.path.join(d, "src"))
            fp = os.path.join(d, x["file"])
            txt = open(fp, encoding="utf-8").read()
            if x["old"] not in txt:
                return (x, "site-not-found")
            open(fp, "w", encoding="utf-8").write(txt.replace(x["old"], x["new"], 1))
            env = dict(os.environ, VERIF_REPO=d)
            args = [sys.executable, "-m", "vf.devtool", x["unit"], "--no-canary"] + ["%s=%s" % kv for kv in x.get("kwargs", {}).items()]
            # separate build dir per mutant so that parallel runs do not collide
            env["VERIF_BUILD"] = os.path.join(d, "build")
            p = subprocess.run(args, cwd=VERIF, env=env, stdout=subprocess.PIPE, stderr=subprocess.STDOUT, timeout=1500)
            out = p.stdout.decode("utf-8", "replace")
            st = "failed" if " status failed" in out else ("undecided" if " status undecided" in out else ("ok" if " status ok" in out else "error"))
            return (x, st)
        except Exception as e:  # noqa
            return (x, "error: %r" % (e,))
        finally:
            shutil.rmtree(d, ignore_errors=True)

    res = []
    with cf.ThreadPoolExecutor(max_workers=4) as ex:
        for x, st in ex.map(one, todo):
            res.append((x, st))
    killed = [x for x, st in res if st == "failed"]
    return {"total": len(res), "killed": len(killed),
            "undecided": [{"unit": x["unit"], "new": x["new"][:120]} for x, st in res if st == "undecided"],
            "site_not_found": [{"unit": x["unit"], "old": x["old"][:120]} for x, st in res if st == "site-not-found"],
            "survivors": [{"unit": x["unit"], "file": x["file"], "old": x["old"][:200], "new": x["new"][:200]} for x, st in res if st in ("ok",) or st.startswith("error")]}


def build_evidence(pid, cfg, tier, seed, results, kani_results, violations, known_hits, foreign, undecided, unstable, wall):
    functions, obligations, samples, trusted, rewrites, backends = [], [], [], [], [], []
    n_obl = n_dis = 0
    smt_ms = 0
    failing_names = set(n for n, c, r in violations) | set(n for k, n, c in known_hits)
    cmds = []
    for r in results:
        smt_ms += r.smt_ms
        cmds.append(r.cmd)
        failed_by_frag = {}
        for c in r.failures:
            if pid in failure_props(c):
                failed_by_frag.setdefault(c["frag"].qualname if c["frag"] else "?", []).append(failure_name(r.name, c))
        for f in r.functions:
            if f["kind"] in ("fn", "region") and pid in f.get("serves", []):
                functions.append({"unit": r.name, **f})
        # labelled clauses charged to this property
        labs = [(l, ps) for (l, ps) in r.labels if pid in ps]
        failed_labels = set(c.get("label") for c in r.failures if pid in failure_props(c))
        for l, ps in labs:
            n_obl += 1
            ok = l not in failed_labels and r.status != "undecided"
            n_dis += 1 if ok else 0
            obligations.append({"name": "%s::%s" % (r.name, l), "backend": "verus/z3", "discharged": ok})
        # implicit obligations: one bucket per contracted function that this unit verifies for this property
        for f in r.functions:
            if f.get("contracted") and pid in f.get("serves", []):
                n_obl += 1
                bad = [x for x in failed_by_frag.get(f["name"], []) if "::post:" not in x]
                ok = not bad and r.status != "undecided"
                n_dis += 1 if ok else 0
                obligations.append({"name": "%s::%s::implicit(overflow,bounds,callee-pre,termination,inv)" % (r.name, f["name"]),
                                    "backend": "verus/z3", "discharged": ok})
        for t in r.trusted:
            if t not in trusted:
                trusted.append(t)
        rewrites += [{"unit": r.name, **w} for w in r.rewrites if w["rule"] not in ("R0", "R4")]
    for kr in kani_results:
        n_obl += 1
        n_dis += 1 if kr["status"] == "ok" else 0
        obligations.append({"name": "kani::%s" % kr["harness"], "backend": "kani/cbmc", "discharged": kr["status"] == "ok",
                            "checks": kr.get("checks"), "bounded": kr.get("bounded"), "wall_s": kr.get("wall_s")})
        cmds.append(kr.get("cmd", ""))
    samples = [o["name"] for o in obligations][:12]
    ev = {
        "property_id": pid, "tier": tier, "seed": seed, "level": "proof",
        "coverage": {
            "obligations": n_obl, "discharged": n_dis,
            "checker_cmd": " ; ".join(c for c in cmds if c)[:4000],
            "trusted_base": trusted + cfg.get("assumed", []),
            "samples": samples,
            "functions_under_contract": functions,
            "obligation_list": obligations,
            "rewrites_applied": rewrites,
            "rewrite_rule_counts": _count_rules(results),
            "smt_time_ms": smt_ms,
            "units": [{"name": r.name, "status": r.status, "verified_functions": r.verified_fns, "smt_ms": r.smt_ms,
                       "wall_s": round(r.wall_s, 2), "vacuity_canaries": {"inserted": r.canaries_expected, "rejected_as_required": r.canaries_failed},
                       "undecided_reason": r.undecided_reason, "generated_file": r.gen_path, "function_times": r.fn_times} for r in results],
            "kani": kani_results,
            "bounded_parts": cfg.get("bounded", []),
            "not_decided": cfg.get("not_decided", []),
            "failures_charged_to_other_properties": foreign,
            "unstable": unstable,
            "undecided": undecided,
            "known_findings_hit": [k.get("what") for k, n, c in known_hits],
            "explanation": cfg.get("explanation", ""),
        },
        "assumptions": cfg.get("assumed", []) + ["64-bit target (global size_of usize == 8)", "Verus 0.2026.09.13 / Z3 / rustc are sound",
                                               "outer attributes and doc comments of extracted items are not part of the verified text"],
        "wall_s": round(wall, 2),
        "violations": len(set(n for n, c, r in violations)),
    }
    return ev


def _count_rules(results):
    d = {}
    for r in results:
        for w in r.rewrites:
            d[w["rule"]] = d.get(w["rule"], 0) + 1
    return d


def replay(pid, path):
    p = path if os.path.isabs(path) else os.path.join(VERIF, path)
    doc = json.load(open(p))
    print("replaying obligation", doc["obligation"], "of property", pid)
    if doc.get("failing_input"):
        from . import kani
        return kani.replay(doc)
    import props
    cfg = props.PROPS[pid]
    for mod, kw in cfg["units"]:
        r = verify_unit(mod, "quick", None, None, False, "-".join(str(v) for v in kw.values()), **kw)
        if r.name != doc.get("unit"):
            continue
        for c in r.failures:
            if failure_name(r.name, c) == doc["obligation"]:
                print("obligation still fails on /repo's working tree at", c["site"])
                print(c["rendered"])
                return 1
        print("obligation is discharged on /repo's working tree now (status %s)" % r.status)
        return 0
    print("unit not found")
    return 2


if __name__ == "__main__":
    sys.exit(main())
