"""Run Verus on a generated unit file and turn its diagnostics into named obligations."""
import json
import os
import re
import subprocess
import time

VERUS = os.environ.get("VERUS", "verus")
LABEL_RE = re.compile(r"/\*@L:([A-Za-z0-9_\-\.#]+)(?::([A-Z0-9,]*))?\*/")
CANARY_RE = re.compile(r"/\*@CANARY:([^*]+)\*/")


class Diag:
    def __init__(self, d):
        self.level = d.get("level")
        self.message = d.get("message", "")
        self.spans = d.get("spans", [])
        self.rendered = d.get("rendered", "")
        self.children = d.get("children", [])

    def primary(self):
        for s in self.spans:
            if s.get("is_primary"):
                return s
        return self.spans[0] if self.spans else None


def run_verus(path, rlimit=30, seed=None, multiple_errors=8, timeout=900, extra=()):
    cmd = [VERUS, path, "--output-json", "--time-expanded", "--rlimit", str(rlimit),
           "--multiple-errors", str(multiple_errors), "--triggers-mode", "silent", "--num-threads", "8"]
    if seed is not None:
        cmd += ["--smt-option", "smt.random_seed=%d" % int(seed)]
    cmd += list(extra)
    cmd += ["--", "--error-format=json"]
    t0 = time.time()
    import signal
    proc = subprocess.Popen(cmd, stdout=subprocess.PIPE, stderr=subprocess.PIPE, cwd=os.path.dirname(path) or ".", start_new_session=True)
    try:
        o, e = proc.communicate(timeout=timeout)
        out, err, rc = o.decode("utf-8", "replace"), e.decode("utf-8", "replace"), proc.returncode
    except subprocess.TimeoutExpired:
        try:
            os.killpg(proc.pid, signal.SIGKILL)   # also the z3 children
        except OSError:
            pass
        proc.communicate()
        return {"cmd": " ".join(cmd), "rc": None, "timeout": True, "wall_s": time.time() - t0,
                "diags": [], "json": None, "stderr": "timeout"}
    diags = []
    other = []
    for line in err.splitlines():
        line = line.strip()
        if line.startswith("{"):
            try:
                d = json.loads(line)
                if d.get("$message_type") == "diagnostic" or "message" in d:
                    diags.append(Diag(d))
                    continue
            except ValueError:
                pass
        if line:
            other.append(line)
    js = None
    try:
        js = json.loads(out[out.index("{"):]) if "{" in out else None
    except ValueError:
        js = None
    return {"cmd": " ".join(cmd), "rc": rc, "timeout": False, "wall_s": time.time() - t0,
            "diags": diags, "json": js, "stderr": "\n".join(other)}


def locate(genmap, off):
    for e in genmap:
        if e[0] <= off < e[1]:
            return e
    return None


def label_before(text, off, lo=0):
    """The /*@L:..*/ marker that immediately precedes offset `off` (only whitespace in between)."""
    best = None
    for m in LABEL_RE.finditer(text, max(lo, off - 400), min(len(text), off + 1)):
        if m.end() <= off and text[m.end():off].strip() == "":
            best = m
    return best


def frag_of(genmap, off):
    e = locate(genmap, off)
    if e is None:
        return None
    if e[3] is not None:
        return e[3]
    return None


def enclosing_frag(genmap, text, off):
    """The fragment whose generated extent contains `off` (raw glue between a region's prefix and suffix
    counts as belonging to that fragment)."""
    e = locate(genmap, off)
    if e is not None and e[3] is not None:
        return e[3]
    if e is not None and isinstance(e[6], dict) and e[6].get("owner") is not None:
        return e[6]["owner"]
    # look left/right for the nearest fragment; glue prefix belongs to the following fragment,
    idx = genmap.index(e) if e in genmap else None
    if idx is None:
        return None
    if e[6].get("name") == "glue":
        for j in range(idx + 1, len(genmap)):
            if genmap[j][3] is not None:
                return genmap[j][3]
            if genmap[j][6].get("name") not in ("glue", "nl"):
                break
        for j in range(idx - 1, -1, -1):
            if genmap[j][3] is not None:
                return genmap[j][3]
            if genmap[j][6].get("name") not in ("glue", "nl"):
                break
    return None


FRONTEND_HINTS = ("not supported", "unsupported", "cannot find", "mismatched types", "expected", "unresolved",
                  "no method named", "the trait bound", "borrow", "cannot use", "Verus does not", "not yet",
                  "cannot call function", "is not allowed", "failed to resolve", "cannot infer")


def classify(diag, text, genmap, byte_of_char=None):
    """Return dict(kind, frag, site, label, props, detail) for an error-level diagnostic."""
    msg = diag.message
    p = diag.primary()
    # a contract that lives in another file (vstd's trait specification for `Iterator::next`, say) puts the primary span there: offsets are only
    # meaningful in the generated file, so the span that points into it ("at the end of the function body" / "at this exit") locates the failure
    foreign = lambda sp: any(t in (sp.get("file_name") or "") for t in ("std_specs/", "vstd/", "/opt/veriftools/")) or (sp.get("file_name") or "").startswith("vstd")
    if p is not None and foreign(p):
        own = [sp for sp in diag.spans if not foreign(sp)]
        p = own[0] if own else None
    res = {"message": msg, "kind": "other", "frag": None, "label": None, "label_props": None,
           "site": None, "gen_line": p["line_start"] if p else None, "orig_text": None}
    if p is None:
        return res

    def char_off(span, key="byte_start"):
        b = span[key]
        return byte_of_char(b) if byte_of_char else b

    off = char_off(p)
    res["gen_off"] = off
    res["frag"] = enclosing_frag(genmap, text, off)
    e = locate(genmap, off)
    if e is not None and e[3] is not None:
        f = e[3]
        if e[2] == "orig":
            rel = e[4] + (off - e[0])
            res["site"] = "%s:%d" % (f.file, f.line_of_rel(rel))
        elif e[2] == "rep":
            res["site"] = "%s:%d" % (f.file, f.line_of_rel(e[4]))
        else:
            res["site"] = "%s:%d(+inserted)" % (f.file, f.line_of_rel(e[4]))
    if p.get("text"):
        res["orig_text"] = " ".join(t["text"].strip() for t in p["text"])[:300]

    # which labelled clause?
    def lab_of_span(s):
        o = char_off(s)
        m = label_before(text, o, max(0, o - 4000))
        if m:
            # the label must be on the same clause: no other clause terminator between? keep simple: nearest
            return m.group(1), (m.group(2) or "")
        return None, ""

    low = msg.lower()
    if "postcondition not satisfied" in low or "post-condition of closure" in low:
        res["kind"] = "post"
        for s in diag.spans:
            if s.get("label") and "failed this postcondition" in s["label"]:
                res["label"], pr = lab_of_span(s)
                res["label_props"] = [x for x in pr.split(",") if x]
                fr = enclosing_frag(genmap, text, char_off(s))
                if fr is not None:
                    res["frag"] = fr
    elif "precondition not satisfied" in low:
        res["kind"] = "pre"
        for s in diag.spans:
            if s.get("label") and "failed precondition" in s["label"]:
                lab, pr = lab_of_span(s)
                res["label"] = "pre-of:%s" % (lab or "callee")
                # a labelled precondition (e.g. of a proof-carrying identity function) is charged to the properties of its label
                res["label_props"] = ([x for x in pr.split(",") if x] or None) if lab else None
    elif "arithmetic underflow/overflow" in low:
        res["kind"] = "overflow"
    elif "invariant not satisfied" in low:
        res["kind"] = "inv"
        lab, pr = lab_of_span(p)
        res["label"] = lab
        res["label_props"] = [x for x in pr.split(",") if x] or None
    elif "assertion failed" in low or "assertion not satisfied" in low:
        res["kind"] = "assert"
        lab, pr = lab_of_span(p)
        # only trust the label if it is on the same line as the assert
        line_start = text.rfind("\n", 0, off) + 1
        m = label_before(text, off, line_start)
        if m:
            res["label"] = m.group(1)
            res["label_props"] = [x for x in (m.group(2) or "").split(",") if x] or None
        mc = CANARY_RE.search(text, line_start, off + 1)
        if mc:
            res["kind"] = "canary"
            res["label"] = mc.group(1)
    elif "cannot be sent between threads safely" in low or "cannot be shared between threads safely" in low:
        # rustc's trait solver refuses a `T: Send + Sync` obligation that a unit states about a type extracted from /repo: a failed
        # obligation (the type lost an auto trait), not a construct the front end cannot handle
        res["kind"] = "autotrait"
        line_start = text.rfind("\n", 0, off) + 1
        m = None
        for m_ in LABEL_RE.finditer(text, line_start, off + 1):
            m = m_      # the marker on the same line as the obligation
        if m:
            res["label"] = m.group(1)
            res["label_props"] = [x for x in (m.group(2) or "").split(",") if x] or None
        # site: the extracted type definition the trait solver points into ("required because it appears within the type ..")
        for ch in (diag.children or []):
            for sp in ch.get("spans") or []:
                o2 = char_off(sp)
                e2 = locate(genmap, o2)
                if e2 is not None and e2[3] is not None and res["site"] is None:
                    f2 = e2[3]
                    res["frag"] = f2
                    res["site"] = "%s:%d" % (f2.file, f2.line_of_rel(e2[4] + (o2 - e2[0]) if e2[2] == "orig" else e2[4]))
    elif "must have a decreases clause" in low or "decreases clause" in low and "must" in low:
        # a missing annotation (new recursion / loop the unit does not know), not a failed termination proof
        res["kind"] = "frontend"
    elif "decreases" in low or "termination" in low:
        res["kind"] = "decreases"
    elif "index out of bounds" in low or "out of bounds" in low or "index in bounds" in low:
        res["kind"] = "bounds"
    elif "resource limit" in low or "rlimit" in low:
        res["kind"] = "rlimit"
    elif "recommendation not met" in low or "recommends" in low:
        res["kind"] = "recommends"
    elif any(h in low for h in ("while loop: not all errors may have been reported", "not all errors may have been reported")):
        res["kind"] = "note"
    elif "division by zero" in low or "shift" in low:
        res["kind"] = "overflow"
    else:
        res["kind"] = "frontend"
    return res


def enclosing_lemma_labels(text, off):
    """For a failure inside a hand-written proof function of the spec library (no /repo fragment around it): the labels of that
    function's own `requires` / `ensures` clauses. A failed step inside a lemma means the lemma is not established, so the failure is
    charged to the properties its statement is labelled with. Returns (fn name, [label], [props])."""
    hdr = None
    for m in re.finditer(r"(?m)^\s*(?:pub\s+)?(?:broadcast\s+)?proof\s+fn\s+(\w+)", text[:off]):
        hdr = m
    if hdr is None:
        return None, [], []
    body = re.compile(r"\n\{").search(text, hdr.end())
    if body is None or body.start() > off:
        # the failure is in the header itself (a requires / ensures clause): labels up to the failure's line end
        end = text.find("\n{", hdr.end())
        end = end if end >= 0 else off
    else:
        end = body.start()
    labs, props = [], []
    for m in LABEL_RE.finditer(text, hdr.end(), end):
        labs.append(m.group(1))
        for x in (m.group(2) or "").split(","):
            if x and x not in props:
                props.append(x)
    return hdr.group(1), labs, props
