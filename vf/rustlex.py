"""Minimal Rust tokenizer + item locator used by the extractor.

It only needs to be good enough to (a) skip comments / string / char literals when matching braces
and (b) find `fn`, `struct`, `enum`, `impl`, `const` items by name.  Anything it cannot make sense of
raises LexError, which the caller turns into exit 2 (undecided), never into an alarm.
"""
import re


class LexError(Exception):
    pass


IDENT_RE = re.compile(r"[A-Za-z_][A-Za-z0-9_]*")
NUM_RE = re.compile(r"[0-9][0-9A-Za-z_\.]*")


def tokenize(src):
    """Yield (kind, start, end) with kind in: ws, lcomment, bcomment, str, char, lifetime, ident, num, punct."""
    i, n = 0, len(src)
    out = []
    while i < n:
        c = src[i]
        if c.isspace():
            j = i + 1
            while j < n and src[j].isspace():
                j += 1
            out.append(("ws", i, j))
            i = j
            continue
        if src.startswith("//", i):
            j = src.find("\n", i)
            j = n if j < 0 else j
            out.append(("lcomment", i, j))
            i = j
            continue
        if src.startswith("/*", i):
            depth, j = 1, i + 2
            while j < n and depth:
                if src.startswith("/*", j):
                    depth += 1
                    j += 2
                elif src.startswith("*/", j):
                    depth -= 1
                    j += 2
                else:
                    j += 1
            if depth:
                raise LexError("unterminated block comment at %d" % i)
            out.append(("bcomment", i, j))
            i = j
            continue
        # raw strings r"..", r#".."#, br#".."#
        m = re.compile(r"b?r(#*)\"").match(src, i)
        if m:
            hashes = m.group(1)
            close = '"' + hashes
            j = src.find(close, m.end())
            if j < 0:
                raise LexError("unterminated raw string at %d" % i)
            j += len(close)
            out.append(("str", i, j))
            i = j
            continue
        if c == '"' or (c == "b" and i + 1 < n and src[i + 1] == '"'):
            j = i + (2 if c == "b" else 1)
            while j < n and src[j] != '"':
                j += 2 if src[j] == "\\" else 1
            if j >= n:
                raise LexError("unterminated string at %d" % i)
            out.append(("str", i, j + 1))
            i = j + 1
            continue
        if c == "'" or (c == "b" and i + 1 < n and src[i + 1] == "'"):
            k = i + (1 if c == "b" else 0)
            # char literal: 'x' or '\..' ; lifetime: 'ident not followed by '
            if k + 1 < n and src[k + 1] == "\\":
                j = src.find("'", k + 3)
                if j < 0:
                    raise LexError("unterminated char at %d" % i)
                out.append(("char", i, j + 1))
                i = j + 1
                continue
            if k + 2 < n and src[k + 2] == "'":
                out.append(("char", i, k + 3))
                i = k + 3
                continue
            # multi-byte char literal like '’'
            m2 = re.compile(r"'[^'\\\n]'").match(src, k)
            if m2:
                out.append(("char", i, m2.end()))
                i = m2.end()
                continue
            m3 = IDENT_RE.match(src, k + 1)
            if c == "'" and m3:
                out.append(("lifetime", i, m3.end()))
                i = m3.end()
                continue
            raise LexError("bad quote at %d" % i)
        m = IDENT_RE.match(src, i)
        if m:
            out.append(("ident", i, m.end()))
            i = m.end()
            continue
        m = NUM_RE.match(src, i)
        if m:
            # do not swallow `..` of ranges: 0..5
            end = m.end()
            txt = src[i:end]
            dd = txt.find("..")
            if dd >= 0:
                end = i + dd
            elif txt.endswith(".") and not txt[:-1].isdigit():
                pass
            out.append(("num", i, end))
            i = end
            continue
        out.append(("punct", i, i + 1))
        i += 1
    return out


def code_tokens(src):
    return [t for t in tokenize(src) if t[0] not in ("ws", "lcomment", "bcomment")]


OPEN = {"{": "}", "(": ")", "[": "]"}
CLOSE = {v: k for k, v in OPEN.items()}


def match_close(src, toks, idx):
    """toks[idx] is an opening bracket token; return index of its matching closer."""
    stack = []
    for j in range(idx, len(toks)):
        k, s, e = toks[j]
        if k != "punct":
            continue
        ch = src[s]
        if ch in OPEN:
            stack.append(ch)
        elif ch in CLOSE:
            if not stack or stack[-1] != CLOSE[ch]:
                raise LexError("unbalanced %r at %d" % (ch, s))
            stack.pop()
            if not stack:
                return j
    raise LexError("no matching close for token at %d" % toks[idx][1])


def _item_end(src, toks, i):
    """From token index i (at keyword), find the end offset of the item: matching `}` of first
    top-level `{`, or the first top-level `;` (whichever comes first)."""
    depth_paren = 0
    j = i
    while j < len(toks):
        k, s, e = toks[j]
        if k == "punct":
            ch = src[s]
            if ch in "([":
                j = match_close(src, toks, j)
            elif ch == "{":
                c = match_close(src, toks, j)
                return toks[c][2], j, c
            elif ch == ";":
                return e, None, None
        j += 1
    raise LexError("item without end")


class Item:
    def __init__(self, file, src, start, end, kind, name, body_open=None, body_close=None, kw=None):
        self.file, self.src = file, src
        self.start, self.end = start, end  # byte offsets (python str offsets) in src
        self.kind, self.name = kind, name
        self.body_open, self.body_close = body_open, body_close  # absolute offsets of { and }
        self.kw = kw  # offset of the keyword (after attributes/visibility)

    @property
    def text(self):
        return self.src[self.start:self.end]

    def line_of(self, off):
        return self.src.count("\n", 0, off) + 1


def find_items(file, src, lo=0, hi=None):
    """Return the list of items that sit directly in src[lo:hi] (module level, or an impl body)."""
    hi = len(src) if hi is None else hi
    toks = [t for t in code_tokens(src) if lo <= t[1] and t[2] <= hi]
    items = []
    j = 0
    KW = ("fn", "struct", "enum", "impl", "const", "mod", "trait", "type", "use", "static", "unsafe")
    while j < len(toks):
        k, s, e = toks[j]
        txt = src[s:e]
        if k == "punct" and txt == "#":
            # attribute: skip `#[...]` / `#![...]`
            jj = j + 1
            if jj < len(toks) and src[toks[jj][1]] == "!":
                jj += 1
            if jj < len(toks) and src[toks[jj][1]] == "[":
                j = match_close(src, toks, jj) + 1
                continue
        if k == "ident" and txt in KW:
            start_tok = j
            kw = txt
            # `unsafe impl`, `const fn` etc.
            if kw == "unsafe" and j + 1 < len(toks) and src[toks[j + 1][1]:toks[j + 1][2]] in ("impl", "fn"):
                j += 1
                kw = src[toks[j][1]:toks[j][2]]
            if kw == "const" and j + 1 < len(toks) and src[toks[j + 1][1]:toks[j + 1][2]] == "fn":
                j += 1
                kw = "fn"
            # name
            name = None
            if kw == "impl":
                # header text up to body
                end, bo, bc = _item_end(src, toks, j)
                name = " ".join(src[toks[j][1]:toks[bo][1]].split()) if bo is not None else "impl"
            else:
                if j + 1 < len(toks) and toks[j + 1][0] == "ident":
                    name = src[toks[j + 1][1]:toks[j + 1][2]]
                end, bo, bc = _item_end(src, toks, j)
            # extend start backwards over `pub`, `pub(crate)`
            st = start_tok
            while st > 0:
                pk, ps, pe = toks[st - 1]
                ptxt = src[ps:pe]
                if ptxt == "pub":
                    st -= 1
                    continue
                if ptxt == ")" and st >= 4 and src[toks[st - 4][1]:toks[st - 4][2]] == "pub":
                    st -= 4
                    continue
                break
            it = Item(file, src, toks[st][1], end, kw, name,
                      toks[bo][1] if bo is not None else None,
                      toks[bc][1] if bc is not None else None,
                      kw=toks[j][1])
            items.append(it)
            # advance past the item
            while j < len(toks) and toks[j][1] < end:
                j += 1
            continue
        j += 1
    return items


def find_one(items, kind, name=None, pred=None, what=""):
    c = [i for i in items if i.kind == kind and (name is None or i.name == name) and (pred is None or pred(i))]
    if len(c) != 1:
        raise LexError("anchor lost: expected exactly one %s %s %s, found %d" % (kind, name or "", what, len(c)))
    return c[0]
