"""Developer helper: python3 -m vf.devtool <unit> [key=value ...]  -- build + verify one unit, print result."""
import sys

from .engine import failure_name, failure_props, verify_unit


def main():
    mod = sys.argv[1]
    kw = dict(a.split("=", 1) for a in sys.argv[2:] if "=" in a and not a.startswith("--"))
    canaries = "--no-canary" not in sys.argv
    r = verify_unit(mod, canaries=canaries, tag="-".join(str(v) for v in kw.values()), **kw)
    print("unit", r.name, "status", r.status, "verified_fns", r.verified_fns, "smt_ms", r.smt_ms, "wall %.1fs" % r.wall_s)
    if r.undecided_reason:
        print("UNDECIDED:", r.undecided_reason)
    for n in r.notes:
        print("note:", n[:3000])
    for c in r.failures:
        print("FAIL", failure_name(r.name, c), "props", failure_props(c), "site", c["site"], "|", c["message"], "|", c["orig_text"])
        if "--verbose" in sys.argv:
            print(c["rendered"])
    print("canaries: expected %d failed-as-they-must %d vacuous %s" % (r.canaries_expected, r.canaries_failed, r.vacuous))
    print("labels:", len(r.labels), "trusted:", len(r.trusted), "rewrites:", len(r.rewrites))
    if "--trusted" in sys.argv:
        for t in r.trusted:
            print("  ", t)


main()
