"""Build a unit from /repo's working tree, verify it, run the vacuity pass, scan the trusted base."""
import difflib
import hashlib
import importlib
import json
import os
import re
import shutil
import time

from .unit import AnchorLost, Unit
from .verus import LABEL_RE, CANARY_RE, classify, run_verus

VERIF = os.path.dirname(os.path.dirname(os.path.abspath(__file__)))
BUILD = os.environ.get("VERIF_BUILD") or os.path.join(VERIF, "build")

TRUST_PATTERNS = [
    ("external_body", re.compile(r"#\[verifier::external_body\]\s*(?:#\[[^\]]*\]\s*)*(?:pub\s+)?(?:(?:open|closed|uninterp)\s+)?(?:spec\s+|proof\s+|exec\s+)?(fn|struct|const)\s+([A-Za-z0-9_]+)")),
    ("assume_specification", re.compile(r"assume_specification\s*(?:<[^\[]*>)?\s*\[\s*([^\]]+?)\s*\]")),
    ("uninterp", re.compile(r"uninterp\s+spec\s+fn\s+([A-Za-z0-9_]+)")),
    ("assume", re.compile(r"\bassume\s*\(([^;]{0,120})")),
    ("admit", re.compile(r"\badmit\s*\(\s*\)")),
    ("external_type_specification", re.compile(r"#\[verifier::external_type_specification\]\s*(?:#\[[^\]]*\]\s*)*pub\s+struct\s+([A-Za-z0-9_]+)")),
    ("external_trait_specification", re.compile(r"#\[verifier::external_trait_specification\]\s*(?:#\[[^\]]*\]\s*)*pub\s+trait\s+([A-Za-z0-9_]+)")),
    ("axiom", re.compile(r"\baxiom\s+fn\s+([A-Za-z0-9_]+)")),
]


def scan_trusted(text):
    out = []
    # strip comments first so that commented-out text is not listed
    code = re.sub(r"//[^\n]*", "", text)
    for kind, rx in TRUST_PATTERNS:
        for m in rx.finditer(code):
            name = m.group(m.lastindex) if m.lastindex else ""
            out.append("%s %s" % (kind, " ".join(name.split())[:100]))
    seen, res = set(), []
    for x in out:
        if x not in seen:
            seen.add(x)
            res.append(x)
    return res


class UnitResult:
    def __init__(self, name):
        self.name = name
        self.status = "ok"  # ok | failed | undecided
        self.undecided_reason = None
        self.failures = []  # classified dicts
        self.functions = []  # dicts: name,file,lines,sha,contracted
        self.labels = []  # (label, props, frag qualname)
        self.rewrites = []
        self.dropped = []
        self.trusted = []
        self.smt_ms = 0
        self.wall_s = 0.0
        self.verified_fns = 0
        self.canaries_expected = 0
        self.canaries_failed = 0
        self.vacuous = []
        self.cmd = ""
        self.gen_path = None
        self.fn_times = []
        self.notes = []


def _byte_to_char_fn(text):
    b = text.encode("utf-8")
    if len(b) == len(text):
        return lambda x: x
    # prefix table every char
    offs = []
    acc = 0
    # map byte offset -> char index through incremental decode
    table = {}
    pos = 0
    for i, ch in enumerate(text):
        table[pos] = i
        pos += len(ch.encode("utf-8"))
    table[pos] = len(text)

    def f(x):
        while x not in table and x > 0:
            x -= 1
        return table.get(x, 0)
    return f


def _atomic_write(path, text):
    tmp = "%s.%d.tmp" % (path, os.getpid())
    with open(tmp, "w", encoding="utf-8") as fh:
        fh.write(text)
    os.replace(tmp, path)


def load_unit(modname, **kw):
    mod = importlib.import_module("units." + modname)
    importlib.reload(mod)
    return mod.build(**kw)


def verify_unit(modname, tier="quick", seed=None, rlimit=None, canaries=True, tag="", **kw):
    res = UnitResult(modname + (("." + tag) if tag else ""))
    t0 = time.time()
    os.makedirs(BUILD, exist_ok=True)
    try:
        unit = load_unit(modname, **kw)
        text, genmap = unit.build(canaries=False)
    except AnchorLost as e:
        res.status = "undecided"
        res.undecided_reason = "lost anchor: %s" % e
        res.wall_s = time.time() - t0
        return res
    except Exception as e:  # a bug in the unit description must never look like a verdict about /repo
        res.status = "undecided"
        res.undecided_reason = "unit description error: %r" % (e,)
        res.wall_s = time.time() - t0
        return res
    base = res.name.replace(".", "_")
    path = os.path.join(BUILD, base + ".rs")
    _atomic_write(path, text)
    res.gen_path = path
    # audit diff: original text -> verified text, per fragment
    with open(os.path.join(BUILD, base + ".diff"), "w", encoding="utf-8") as fh:
        for f in unit.frags:
            t, _ = f.render()
            fh.write("".join(difflib.unified_diff(f.orig.splitlines(True), t.splitlines(True),
                                                  "%s::%s (repo)" % (f.file, f.qualname), "verified text")))
            fh.write("\n")
    for f in unit.frags:
        res.functions.append({"name": f.qualname, "kind": f.kind, "file": f.file,
                              "lines": "%d-%d" % (f.line_of_rel(0), f.line_of_rel(len(f.orig))),
                              "sha256_16": f.sha(), "contracted": f.contracted,
                              "serves": sorted(set(f.props_all) | set(f.props_safety))})
        res.rewrites += f.rewrites
        res.dropped += f.dropped
    for m in LABEL_RE.finditer(text):
        res.labels.append((m.group(1), [x for x in (m.group(2) or "").split(",") if x]))
    res.trusted = scan_trusted(text)
    rl = rlimit or max(getattr(unit, "rlimit", 0), (30 if tier == "quick" else 60))
    r = run_verus(path, rlimit=rl, seed=seed, extra=unit.verus_args)
    res.cmd = r["cmd"]
    b2c = _byte_to_char_fn(text)
    _digest(res, r, text, genmap, b2c)
    # the vacuity pass guards a *pass*; a unit that already reports failed obligations does not need it
    if res.status == "ok" and canaries:
        ctext, cgenmap = unit.build(canaries=True)
        cpath = os.path.join(BUILD, base + "_canary.rs")
        _atomic_write(cpath, ctext)
        expected = [m.group(1) for m in CANARY_RE.finditer(ctext)]
        res.canaries_expected = len(expected)
        rc = run_verus(cpath, rlimit=rl, seed=seed, multiple_errors=0, extra=unit.verus_args)
        cb2c = _byte_to_char_fn(ctext)
        hit = set()
        cfront = [d for d in rc["diags"] if d.level == "error" and classify(d, ctext, cgenmap, cb2c)["kind"] == "frontend"
                  and not d.message.startswith("aborting due to")]
        if (cfront or rc["json"] is None) and not rc["timeout"]:
            res.status = "undecided"
            res.undecided_reason = "vacuity pass did not run: %s" % (cfront[0].message[:200] if cfront else rc["stderr"][:200])
            res.wall_s = time.time() - t0
            return res
        for d in rc["diags"]:
            if d.level != "error":
                continue
            c = classify(d, ctext, cgenmap, cb2c)
            if c["kind"] == "canary":
                hit.add(c["label"])
        res.canaries_failed = len(hit)
        res.vacuous = [x for x in expected if x not in hit]
        if rc["timeout"]:
            res.notes.append("vacuity pass timed out")
            res.vacuous = []
            res.canaries_failed = 0
        if res.vacuous and res.status == "ok":
            res.status = "undecided"
            res.undecided_reason = "vacuous contract(s): assert(false) verified in %s" % ", ".join(res.vacuous)
    res.wall_s = time.time() - t0
    return res


def _digest(res, r, text, genmap, b2c):
    if r["timeout"]:
        res.status = "undecided"
        res.undecided_reason = "verus timeout"
        return
    js = r["json"]
    if js:
        vr = js.get("verification-results", {})
        res.verified_fns = vr.get("verified", 0)
        tm = js.get("times-ms", {})
        smt = tm.get("smt", {})
        res.smt_ms = smt.get("total", 0)
        for mt in smt.get("smt-run-module-times", []):
            for fb in mt.get("function-breakdown", []):
                res.fn_times.append({"function": fb.get("function"), "ms": fb.get("time"), "success": fb.get("success")})
    errs = [d for d in r["diags"] if d.level == "error"]
    fails, frontend, rlim = [], [], []
    vr0 = (js or {}).get("verification-results", {})
    # verification ran to completion iff Verus reports counts and no VIR/rustc error: then every error is a proof failure
    ran = js is not None and not vr0.get("encountered-vir-error", True) and (vr0.get("verified", 0) + vr0.get("errors", 0)) > 0
    for d in errs:
        if d.message.startswith("aborting due to"):
            continue
        c = classify(d, text, genmap, b2c)
        c["rendered"] = d.rendered
        if c["kind"] == "frontend" and ran:
            c["kind"] = "proof"
        if c["kind"] == "frontend":
            frontend.append(c)
        elif c["kind"] == "rlimit":
            rlim.append(c)
        elif c["kind"] in ("note", "recommends"):
            continue
        else:
            fails.append(c)
    if frontend:
        res.status = "undecided"
        res.undecided_reason = "front-end error: " + frontend[0]["message"][:300] + (" @ " + str(frontend[0]["site"]) if frontend[0]["site"] else " @gen line %s" % frontend[0]["gen_line"])
        res.failures = fails
        res.notes += [f["rendered"] for f in frontend[:3]]
        return
    if js is None or (r["rc"] not in (0, 1)):
        res.status = "undecided"
        res.undecided_reason = "verus did not produce a result (rc=%s): %s" % (r["rc"], r["stderr"][:400])
        return
    res.failures = fails
    if rlim and not fails:
        res.status = "undecided"
        res.undecided_reason = "rlimit exceeded in %s" % ", ".join(str(x["frag"].qualname if x["frag"] else "?") for x in rlim)
        return
    if rlim:
        res.notes.append("rlimit exceeded in some function (reported separately)")
    if fails:
        res.status = "failed"
    elif js and not js.get("verification-results", {}).get("success", False):
        res.status = "undecided"
        res.undecided_reason = "verus reported failure without a classified error: " + r["stderr"][:300]


def failure_name(unitname, c):
    fr = c["frag"]
    fn = fr.qualname if fr is not None else "?"
    k = c["kind"]
    if c.get("label"):
        return "%s::%s::%s:%s" % (unitname, fn, k, c["label"])
    return "%s::%s::%s" % (unitname, fn, k)


def failure_props(c):
    if c.get("label_props"):
        return list(c["label_props"])
    fr = c["frag"]
    if fr is None:
        return []
    if c["kind"] in ("overflow", "bounds", "decreases") and fr.props_safety:
        return list(fr.props_safety)
    if c["kind"] == "pre":
        # a failed callee precondition is a safety obligation when the callee is code (index, slice, shim with std's panic condition)
        # and a proof obligation when the callee is a lemma / axiom call inserted by the unit (then it says nothing about panics)
        txt = (c.get("orig_text") or "") + " " + (c.get("message") or "")
        import re as _re
        if _re.search(r"\b(lemma_|axiom_)\w*\s*(::<[^>]*>)?\s*\(", txt) and not _re.search(r"\bshim_\w+\s*\(", txt):
            return list(fr.props_all or fr.props_safety)
        return sorted(set(fr.props_safety) | set(fr.props_all))
    return list(fr.props_all or fr.props_safety)
