"""Kani companions: complete proofs of loop-free functions over their full input domain, and labelled bounded stand-ins.

A scratch copy of the crate is made under $VERIF_SCRATCH (default /var/tmp/verif-kani.<pid>), /repo's sources are copied
verbatim, harness modules from /verif/kani_harnesses/*.rs are APPENDED under #[cfg(kani)] (add-only, checked), the
Cargo.lock of /repo is copied, and `cargo kani` runs offline.  The copy is removed afterwards.
"""
import json
import os
import re
import shutil
import subprocess
import tempfile
import time

from .engine import VERIF

REPO = os.environ.get("VERIF_REPO", "/repo")
HARNESS_DIR = os.path.join(VERIF, "kani_harnesses")

# harness file -> source file it is appended to
TARGETS = {
    "raw_layout.rs": "src/cache/raw.rs",
    "java_tables.rs": "src/java.rs",
    "cache_cx.rs": "src/cache/mod.rs",
    "mapper_cx.rs": "src/mapper.rs",
}

# counterexample kernels: (source file, function) -> harness; they are EXPECTED to pass on a correct tree and are only run when
# a Verus arithmetic obligation of that function failed, to obtain concrete values
CX_KERNELS = {
    ("src/cache/mod.rs", "iterate_with_lines"): "cx_cache_iterate_with_lines",
    ("src/mapper.rs", "iterate_with_lines"): "cx_mapper_iterate_with_lines",
}

# harness name -> (file, bounded-note or None)
HARNESSES = {
    "k1_header_layout": ("raw_layout.rs", None),
    "k1_class_layout": ("raw_layout.rs", None),
    "k1_member_layout": ("raw_layout.rs", None),
    "k2_format_constants": ("raw_layout.rs", None),
    "k9_parse_error_kinds_le96": ("raw_layout.rs", "buffer length <= 96 bytes (contents and all six header fields fully symbolic)"),
    "k3_java_base_types": ("java_tables.rs", None),
    "cx_cache_iterate_with_lines": ("cache_cx.rs", None),
    "cx_mapper_iterate_with_lines": ("mapper_cx.rs", None),
}


def make_scratch():
    base = os.environ.get("VERIF_SCRATCH") or tempfile.mkdtemp(prefix="verif-kani-", dir="/var/tmp")
    os.makedirs(base, exist_ok=True)
    d = os.path.join(base, "crate")
    if os.path.exists(d):
        shutil.rmtree(d)
    os.makedirs(d)
    shutil.copytree(os.path.join(REPO, "src"), os.path.join(d, "src"))
    for f in ("Cargo.toml", "Cargo.lock"):
        shutil.copy(os.path.join(REPO, f), os.path.join(d, f))
    # benches are declared in Cargo.toml; create empty stand-ins so cargo metadata does not fail
    os.makedirs(os.path.join(d, "benches"), exist_ok=True)
    for m in re.finditer(r'\[\[bench\]\]\s*name\s*=\s*"([^"]+)"', open(os.path.join(d, "Cargo.toml")).read()):
        open(os.path.join(d, "benches", m.group(1) + ".rs"), "w").write("fn main() {}\n")
    os.makedirs(os.path.join(d, ".cargo"), exist_ok=True)
    open(os.path.join(d, ".cargo", "config.toml"), "w").write("[net]\noffline = true\n")
    appended = []
    for hf, target in TARGETS.items():
        hp = os.path.join(HARNESS_DIR, hf)
        if not os.path.exists(hp):
            continue
        tp = os.path.join(d, target)
        orig = open(tp, encoding="utf-8").read()
        new = orig + "\n\n#[cfg(kani)]\nmod verif_kani_%s {\n    use super::*;\n%s\n}\n" % (hf[:-3], open(hp, encoding="utf-8").read())
        assert new.startswith(orig)  # add-only
        open(tp, "w", encoding="utf-8").write(new)
        appended.append(target)
    return base, d, appended


def run_jobs(names, tier="quick", timeout=420, playback=False):
    names = [n for n in names if n in HARNESSES]
    if not names:
        return []
    t0 = time.time()
    base = None
    results = []
    try:
        base, d, appended = make_scratch()
        cmd = ["cargo", "kani", "-Z", "function-contracts", "-Z", "stubbing", "--output-format", "terse"]
        if playback:
            cmd += ["-Z", "concrete-playback", "--concrete-playback=print"]
        for n in names:
            cmd += ["--harness", n]
        env = dict(os.environ, CARGO_NET_OFFLINE="true", CARGO_TARGET_DIR=os.path.join(base, "target"))
        # own process group, so that a timeout also kills the cbmc / goto-* grandchildren
        import signal
        proc = subprocess.Popen(cmd, cwd=d, env=env, stdout=subprocess.PIPE, stderr=subprocess.STDOUT, start_new_session=True)
        try:
            o, _ = proc.communicate(timeout=timeout)
            out = o.decode("utf-8", "replace")
            rc = proc.returncode
        except subprocess.TimeoutExpired:
            try:
                os.killpg(proc.pid, signal.SIGKILL)
            except OSError:
                pass
            o, _ = proc.communicate()
            out = (o or b"").decode("utf-8", "replace")
            rc = None
        wall = time.time() - t0
        # per-harness verdicts
        blocks = re.split(r"(?m)^Checking harness ", out)
        seen = {}
        for b in blocks[1:]:
            hname = b.split("...")[0].strip().split("::")[-1]
            ok = "VERIFICATION:- SUCCESSFUL" in b
            failed = "VERIFICATION:- FAILED" in b
            m = re.search(r"\*\* (\d+) of (\d+) failed", b)
            nf, nc = (int(m.group(1)), int(m.group(2))) if m else (0 if ok else 1, 1)
            fails = re.findall(r"(?m)^Failed Checks: (.*)$", b)
            vt = re.search(r"Verification Time: ([0-9.]+)s", b)
            pb = re.search(r"Concrete playback unit test for.*?```\s*(.*?)```", b, re.S)
            seen[hname] = {"ok": ok, "failed": failed, "checks": nc, "nfailed": nf, "failed_checks": "; ".join(fails)[:600],
                           "cbmc_s": float(vt.group(1)) if vt else None, "tail": b[-1500:], "playback": pb.group(1).strip() if pb else None}
        for n in names:
            s = seen.get(n)
            bounded = HARNESSES[n][1]
            r = {"harness": n, "cmd": "CARGO_NET_OFFLINE=true " + " ".join(cmd), "wall_s": round(wall, 1), "bounded": bounded,
                 "appended_to": TARGETS[HARNESSES[n][0]]}
            if s is None:
                r.update(status="undecided", reason="no verdict from cargo kani (rc=%s): %s" % (rc, out[-600:]))
            elif s["ok"]:
                r.update(status="ok", checks=s["checks"], failed=0, cbmc_s=s["cbmc_s"])
            elif s["failed"]:
                r.update(status="failed", checks=s["checks"], failed=s["nfailed"], failed_checks=s["failed_checks"],
                         output_tail=s["tail"], cbmc_s=s["cbmc_s"], site=TARGETS[HARNESSES[n][0]], concrete=s.get("playback"))
            else:
                r.update(status="undecided", reason="kani produced neither SUCCESSFUL nor FAILED: " + s["tail"][-400:])
            results.append(r)
    except Exception as e:  # noqa
        for n in names:
            results.append({"harness": n, "status": "undecided", "reason": "kani runner error: %r" % (e,), "bounded": HARNESSES[n][1]})
    finally:
        if base and not os.environ.get("VERIF_SCRATCH"):
            shutil.rmtree(base, ignore_errors=True)
    return results


def replay(doc):
    print("kani replay: re-running harness", doc.get("obligation"))
    name = doc["obligation"].split("::")[-1]
    rs = run_jobs([name])
    for r in rs:
        print(json.dumps({k: v for k, v in r.items() if k != "output_tail"}, indent=1))
        if r["status"] == "failed":
            print(r.get("output_tail", ""))
            return 1
    return 0
