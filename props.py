"""Which units / Kani jobs decide which property, and what stays assumed (hand-written notes; the scanned
trusted base is added by the machinery on every run)."""

U1F = ("u1_cache_reader", {"profile": "functional"})
U1S = ("u1_cache_reader", {"profile": "safety"})
U2F = ("u2_mapper_reader", {"profile": "functional"})
U2S = ("u2_mapper_reader", {"profile": "safety"})

U10M = ("u10_typed_trace", {"which": "mapper"})
U10C = ("u10_typed_trace", {"which": "cache"})

U5 = ("u5_parser", {})
U6M = ("u6_mapper_step", {})
U6W = ("u6_writer_step", {})
U8 = ("u8_writer_tail", {})
U9 = ("u9_selftest", {})
U11 = ("u11_text_safety", {})
U13 = ("u13_mapper_builder", {})
U14 = ("u14_writer_builder", {})
U15 = ("u15_classifiers", {})
U16 = ("u16_print_parse", {})
U17 = ("u17_signature", {})
U18 = ("u18_values", {})
U19 = ("u19_parse_trace", {})
U20 = ("u20_roundtrip", {})
U21 = ("u21_autotraits", {})
U22 = ("u22_uuid", {})
U23 = ("u23_same_entry", {})
U24 = ("u24_text_vs_typed", {})
U12M = ("u12_text_trace", {"which": "mapper"})
U12C = ("u12_text_trace", {"which": "cache"})
U3 = ("u3_interpretation", {})
U4 = ("u4_cache_parse", {})
U7 = ("u7_metadata", {})

BUILDERS_ASSUMED = ("builders: both are verified as wholes -- the loop plumbing around the arm regions of u6, which are called in place (R11). "
                    "ProguardMapper::create_proguard_mapper (u13): abs(ret.classes) == built(ok_records(mapping), flag), the fold of one abstract step per record with one "
                    "record of look-ahead, then the flush. Collection loop of ProguardCache::write (u14): abs(classes) == flush(w_run(tables, ok_records(mapping))), the same fold "
                    "with member records expressed through the offsets the string table assigned (interning order left open: ghost sequence of tables, each a growth of the "
                    "previous one containing the record's strings), and wf_cip for every class handed to the tail. ASSUMED in both: "
                    "`mapping.iter().filter_map(Result::ok).peekable()` behind a shim (ghost: ok_records(mapping), the Ok items of the stream of unit u7), "
                    "HashMap/BTreeMap entry API, HashSet::insert, Peekable::{next,peek}, watto::StringTable::insert (offsets are stable, the inserted string is present); "
                    "the refinement between the two abstract folds `built` and `w_run` (same class keys, same abstract entries at the same positions) is proved as a pure lemma in unit u23")

PROPS = {
    "C01": {
        "title": "Line-based retrace returns exactly the recorded call stack",
        "units": [U1F, U2F, U3, U6M, U6W, U13, U15, U18, U23],
        "kani": [],
        "technique": "Verus (Z3) function contracts on mechanically extracted reader code: iterate_with_lines/next == head of spec retrace(); remap_frame == exact entry block",
        "level_text": "Deductive proof, for all field values / slice lengths / iterations, that both readers' frame iterators yield exactly "
                      "retrace(entries, frame) (one frame per applicable entry, in order, with the ProGuard line rule and the file rule), that "
                      "remap_frame hands the iterator exactly the contiguous block of all entries of the class with that obfuscated method "
                      "(cache: given the sortedness invariant; mapper: given the HashMap contract), and that unknown class/method yields no frames. "
                      "Builders (mapping text -> entries) are assumed, so this is a proof about the reader core, not end to end.",
        "assumed": [BUILDERS_ASSUMED,
                    "independence of line endings / noise lines is not decided here (see C06)",
                    "extract_class_name: in u1/u2 its contract is the abstract `outer_simple_name`; unit u15 proves both textual copies against one concrete specification (after the last `.`, before the first `$`) over the str byte model; the link between `outer_simple_name` and that specification is by name"],
        "design_ref": "DESIGN.md 5/C01",
    },
    "C02": {
        "title": "A cache written from a mapping answers every query exactly like the mapper",
        "units": [U1F, U2F, U8, U3, U6M, U6W, U13, U14, U15, U20, U23],
        "kani": [],
        "technique": "refinement: both readers proved (Verus) against the SAME spec functions retrace/by_params/unanimous through abs_member / abs_mm",
        "level_text": "Both readers are verified against one shared abstract model, so equal abstract entries give equal answers for remap_class, "
                      "remap_method, remap_frame (by line and by parameters). That the writer and the mapper builder produce equal abstract "
                      "entries is proved only for the record-interpretation blocks (unit u3) and otherwise assumed.",
        "assumed": [BUILDERS_ASSUMED, "text stack-trace remapping is C07 (both copies against one specification, u12), signature deobfuscation is C16 (both copies against one reference, u17): each is equal for mapper and cache RELATIVE to equal remap_class / remap_frame answers; typed remapping is C08"],
        "design_ref": "DESIGN.md 5/C02",
    },
    "C03": {
        "title": "Parameter-based retrace",
        "units": [U1F, U2F, U8, U6M, U6W, U13, U14, U18, U23],
        "kani": [],
        "technique": "Verus contracts: iterate_without_lines == head of by_params(); remap_frame(by params) == exact (name, params) block",
        "level_text": "Proof that a frame carrying parameters is answered from exactly the entries whose (obfuscated name, params) match, one frame "
                      "per entry in order, with line 0 and no file. De-duplication and inline filtering happen in the builders (assumed).",
        "assumed": [BUILDERS_ASSUMED],
        "design_ref": "DESIGN.md 5/C03",
    },
    "C04": {
        "title": "Class lookup exact; method lookup never guesses",
        "units": [U1F, U2F, U6M, U6W, U13, U14, U18, U23],
        "kani": [],
        "technique": "Verus contracts on get_class / remap_class / remap_method (iff-unanimous postcondition), both readers",
        "level_text": "Proof that remap_class answers iff a class with exactly that obfuscated name exists, and remap_method answers (class, m) iff "
                      "the class is known, the method block is non-empty and every entry in it has original name m.",
        "assumed": ["'last class line wins' is a property of HashMap::insert / BTreeMap::insert inside the builders (assumed)",
                    "cache: StringTable interning (equal strings <=> equal offsets among a class's members) is part of the assumed representation invariant"],
        "design_ref": "DESIGN.md 5/C04",
    },
    "C05": {
        "title": "Well-formed mapping lines parse to exactly their parts; malformed ones error",
        "units": [U5],
        "kani": [],
        "technique": "Verus contracts on the real line parser: each scanning primitive IS one step of a reference parser in spec form (strip / sp_num / sp_word / sp_until), class, header and member lines equal class_spec / header_spec / member_spec in both directions (Ok iff Some, Err iff None)",
        "level_text": "Proof for every byte string: parse_prefix / parse_usize / parse_until(_no_newline) are exactly the reference steps (for every byte class the "
                      "stop predicate is shown to be, via the proof-carrying identity as_kind); a class line is accepted iff class_spec accepts it and yields exactly "
                      "its parts, with two pure lemmas tying class_spec to the documented shape `o -> b:tail` (sound and complete for UTF-8 names); a header parses exactly "
                      "as header_spec does and every line header_spec accepts (with UTF-8 pieces) is accepted; a member line is accepted iff member_spec accepts it "
                      "(`    ` [START:END:] TYPE ` ` NAME [(ARGS)[:OSTART[:OEND]]] ` -> ` OBF), the record is assembled as member_record_ok prescribes (method iff argument "
                      "list, names split at the last dot, line mapping iff both obfuscated numbers positive and carrying exactly the parsed numbers); try_parse accepts only "
                      "when nothing but line terminators remains; errors carry the offending line. A print/parse lemma is NOT claimed.",
        "assumed": ["from_utf8, str::trim (sub-slice), str::parse::<usize> (abstract), rsplitn(2, '.') (split at last dot) and (b as char).is_numeric() (table, validated exhaustively by tools/native/is_numeric_table.rs) have their documented contracts",
                    "contents of byte-string literals (one axiom per literal, generated from the literal text itself)"],
        "not_decided": ["that the reference parsers are THE ProGuard grammar (they are written from the format description, position by position)"],
        "design_ref": "DESIGN.md 5/C05",
    },
    "C06": {
        "title": "Parsing is total and a bad line never affects the lines after it",
        "units": [U5, U7],
        "kani": [],
        "technique": "Verus: every parser function verified with no precondition (totality, termination); line-boundary discipline as postconditions (consumed bytes contain no line terminator; errors consume exactly one line); progress => at most one item per byte",
        "level_text": "Proof for every byte string: no parser function panics or overflows; parse_proguard_record makes progress on non-empty input "
                      "and ProguardRecordIter yields records(bytes) with |records| <= |bytes|; every string placed in a record contains no "
                      "line terminator; an Ok record is taken from within the first line (the bytes it consumes contain no terminator) and an "
                      "Err consumes exactly the first line with one terminator byte; rest is always a suffix of the input. "
                      "NOT decided: that the result depends only on the first line, i.e. the full equation records(A+nl+B) = records(A)++records(B) "
                      "(a 2-safety property; it would follow from reference grammar functions for all three record kinds, which exist for class and header lines only).",
        "assumed": ["same std contracts as C05"],
        "not_decided": ["records(A + newline + B) == records(A) ++ records(B) as an equation"],
        "design_ref": "DESIGN.md 5/C06",
    },
    "C07": {
        "title": "Text trace remapping rewrites known lines and passes everything else through",
        "units": [U12M, U12C, U15],
        "kani": [],
        "technique": "Verus contract on remap_stacktrace (both copies) and on format_throwable / format_frames / format_cause: the returned text equals the in-order concatenation of one specified output per input line",
        "level_text": "Proof, for every input text and every mapping, that remap_stacktrace succeeds and returns out_upto(self, lines(input), #lines): per line, the "
                      "remapped throwable (first line / behind `Caused by: `) when its class is known, one four-space-indented line per remapped frame when the frame "
                      "line resolves, the input line otherwise -- nothing dropped, duplicated or reordered; plus the lemma that a mapping knowing none of the classes "
                      "yields the line-normalised input. The line classifiers and the Display impls are abstract functions; std's lines/writeln!/Peekable are assumed contracts.",
        "assumed": ["in the remapper unit (u12) parse_throwable / parse_frame are abstract functions of the line; WHICH functions they are is pinned in unit u15 over the byte view of contracts/text_model.rs (class = text before the first `: `, message = everything after it; a frame line reassembles to `at class.method(file:line)` with unique delimiters); the link between the two units is by name",
                    "Display impls of Throwable / StackFrame are abstract (display_of); `{}` of a &str prints the string",
                    "contracts/text_trace_model.rs: writeln! into a fmt::Write sink appends prefix + rendering + newline and does not fail; str::lines / Lines::next / Peekable restated over ghost sequences",
                    "remap_frame's iterator yields pending_frames(self, frame) (its relation to the retrace spec is proved in u1/u2); remap_class abstract (u1/u2)",
                    "`lines_of(input)` (how std splits the text into lines, incl. CRLF handling) is uninterpreted"],
        "design_ref": "DESIGN.md 5/C07",
    },
    "C08": {
        "title": "Typed stack-trace remapping keeps every element",
        "units": [U10M, U10C, U18, U16, U24],
        "kani": [],
        "technique": "Verus contract on the whole recursive remap_stacktrace_typed (both copies): exception kept, remapped-or-same, cause depth preserved, frames == the concatenation of every frame's remapped frames (or the frame itself), via a generic fold shim whose steps go through the closure's contract, the closure body verified as a region and called in place",
        "level_text": "Proof (with recursion, decreases on cause depth) that typed remapping never drops the exception of a trace or of any cause, that each throwable is the remapped one or the original, "
                      "that the cause-chain depth is preserved, and that the frames of the result are exactly remapped_frames(self, trace.frames): every input frame, in order, replaced by all the frames "
                      "remap_frame yields for it, or kept unchanged when it yields none. StackTrace's Display body prints exactly exception line, frame lines, `Caused by: ` + cause (unit u16). "
                      "Agreement of the printed typed result with the text API output is not decided.",
        "assumed": ["slice::iter().fold(init, f) is the chain of accumulators acc[i+1] = f(acc[i], &s[i]) (one generic shim; the closure carries its own contract), Peekable::peek / Vec::extend on the iterator remap_frame returns (ghost: the frames still to come)",
                    "remap_frame's iterator yields pending_frames(self, frame) (its relation to the retrace specification is proved in u1 / u2), remap_class abstract (u1 / u2)",
                    "'printing the typed result equals the text API output' is not decided (Display / fmt)",
                    "#[derive(Clone)] on Throwable / StackFrame is a field-wise copy"],
        "design_ref": "DESIGN.md 5/C08",
    },
    "C09": {
        "title": "Written cache files conform to the documented layout and ordering invariants",
        "units": [U8, U9, U6W, U14, U20, U23],
        "kani": ["k1_header_layout", "k1_class_layout", "k1_member_layout", "k2_format_constants"],
        "technique": "Verus proof that the writer tail emits exactly canonical() = the documented v1 layout (header, padded sections, tiling class ranges); Kani (complete, loop-free) for record byte layouts and constants",
        "level_text": "The part of ProguardCache::write after the record-collection loop is proved to deliver exactly canonical(classes, strings): "
                      "header with magic/version and counts taken from the data, class records whose member and by-params ranges start where the "
                      "previous class's ranges end (each in its own section), then members, by-params and strings, each section zero-padded to 8 "
                      "bytes; the byte image of each record (size, alignment, little-endian field order) is proved by Kani for all field values. "
                      "Sortedness of classes/members and the contents of the string section come from BTreeMap iteration order and "
                      "watto::StringTable inside the collection loop and are assumed; `test()` accepting every such file is not decided.",
        "assumed": [BUILDERS_ASSUMED, "BTreeMap::into_values/values iterate in ascending key order (std)",
                    "fewer than 2^32 Ok records in the mapping (representable domain of the u32 counters; under it unit u14 proves wf_cip for every class handed to the tail)",
                    "watto::StringTable::into_bytes / insert (string section contents, interning)",
                    "Pod::as_bytes byte images are abstract in the Verus proof; their layout is what Kani K1 proves"],
        "not_decided": ["strict sortedness of the class section by resolved name and (name, params) order of the by-params section: the ingredients are there (u14: every collected class sits under its own obfuscated name as key and its name offset is that string's offset; u8: classes and members are emitted in BTreeMap order, ascending by std), but the statement `names resolved through the emitted string section are strictly increasing` is not written as an obligation (it needs the string-section model of watto)",
                        "string section validity (watto)",
                        "ProguardCache::test() is proved panic-free on every cache satisfying wf_for_selftest (tiling member ranges + readable strings); that parse(write(m)) satisfies it rests on the assumed Pod cast model (as_bytes / slice_from_prefix inverse) and on watto's string table"],
        "design_ref": "DESIGN.md 5/C09",
    },
    "C15": {
        "title": "Cache writing is independent of sink chunking and propagates sink errors",
        "units": [U8],
        "kani": [],
        "technique": "Verus: io::Write as an external trait contract with ghost `sunk`; PaddedWriter and the writer tail proved: Ok => sunk' == sunk ++ canonical, Err => only a prefix of canonical was delivered",
        "level_text": "For EVERY sink obeying the io::Write contract (write accepts any prefix; write_all delivers all or fails after a prefix): if "
                      "ProguardCache::write's tail returns Ok the sink accepted exactly the canonical bytes, and if any sink call fails the tail "
                      "returns Err having delivered a prefix of the canonical bytes. Quantification over sinks is by the trait contract, not by enumeration.",
        "assumed": ["std's provided Write::write_all implements its documented contract (loop over write, retry Interrupted)",
                    "`impl Write for &mut W` forwards to W (std)", "the collection loop before the tail performs no I/O (it does not: by inspection, no writer use before line 320)"],
        "design_ref": "DESIGN.md 5/C15",
    },
    "C10": {
        "title": "Version-1 cache files mean the same to every release that accepts them",
        "units": [U4, U8, U1F, U20],
        "kani": ["k1_header_layout", "k1_class_layout", "k1_member_layout", "k2_format_constants"],
        "technique": "conformance of the CURRENT reader (parse, lookups) and writer tail to one frozen v1 specification (Verus contracts + Kani layout proofs); histories are not quantified",
        "level_text": "A per-call contract cannot quantify over release pairs. What is proved: the current writer tail emits the frozen v1 layout "
                      "(canonical()), the current parse accepts exactly buffers covering the header-implied v1 layout and rejects other versions "
                      "with WrongVersion, record byte layouts/constants/sentinels are as documented (Kani), and the reader interprets records "
                      "by the shared model (u32::MAX = absent, line rule). Two releases that both satisfy these obligations read each other's files "
                      "identically; a change of layout/sentinel/order without a version bump fails one of these obligations.",
        "assumed": [BUILDERS_ASSUMED, "string encoding (watto)", "the pinned 5.5.0 release is represented by the frozen spec written from its docs and source, not re-verified"],
        "design_ref": "DESIGN.md 5/C10",
    },
    "C11": {
        "title": "Torn, foreign or wrong-version cache files are rejected, never half-read",
        "units": [U4, U8],
        "kani": ["k9_parse_error_kinds_le96", "k2_format_constants"],
        "technique": "Verus contract on ProguardCache::parse against the complete frozen v1 verdict table (which error kind, or acceptance, for every address / length / header) and the section layout + prefix lemmas; the `?` operators are spelled out as their documented desugaring (R13) so that the error conversion is a call with a contract; Kani K9 re-checks the same table on short buffers as an independent (bounded) cross-check",
        "level_text": "Proof, for every buffer and address, that parse returns exactly parse_verdict(address, length, header): InvalidHeader for too-short / misaligned buffers, the endianness / format / "
                      "version error for the corresponding header, InvalidClasses / InvalidMembers when the class / member / by-params section (or its alignment padding) does not fit, "
                      "UnexpectedStringBytes{expected, found} when only the string section is short (found = 0 when even its padding does not fit), Ok exactly when the length covers the header-implied layout; "
                      "and that an accepted buffer's sections are exactly the header-declared sub-slices. Lemmas: the verdict is None iff `accepted`; every strict prefix of a file of exactly the implied length is rejected; "
                      "acceptance depends only on (address, length, header). CacheError::kind returns the stored kind.",
        "assumed": ["watto Pod::ref_from_prefix / slice_from_prefix / align_to follow the address-aware model in contracts/watto_model.rs (they contain the unsafe casts)",
                    "that a writer-produced file has exactly the implied length is proved on the writer tail (unit u8), not here"],
        "bounded": ["kani::k9_parse_error_kinds_le96 (buffer length <= 96 bytes) is a redundant cross-check of the same verdict table on the compiled code; the claim does not rest on it any more"],
        "design_ref": "DESIGN.md 5/C11",
    },
    "C16": {
        "title": "Valid JVM descriptors deobfuscate to the right Java types, invalid ones to none",
        "units": [U17],
        "kani": [],
        "technique": "Verus contracts on the real descriptor tokenizer, the two type renderers, the two assembly functions and DeobfuscatedSignature::{new,return_type,format_signature} against reference functions over UTF-8 bytes (tok / sig_spec / render / deob_spec / fmt_sig_spec), plus grammar lemmas linking the reference tokenizer to JVMS field descriptors",
        "level_text": "Proof for every string: parse_obfuscated_bytecode_signature returns exactly sig_spec (strip `(`, split at the last `)`, non-empty return type, windows of the reference tokenizer tok; "
                      "None iff sig_spec is None); java_base_types accepts exactly ZBCSIJFDV and returns the JVMS keyword of the letter; byte_code_type_to_java_type and its cache copy return exactly "
                      "render(bytes, class mapping, 0) (each `[` appends `[]`, base letter -> keyword, `Lname;` -> dotted name replaced by the mapping's original name when known, None without a "
                      "final `;`), the SAME reference function for both, so mapper and cache agree on every string whenever their remap_class agree (lemma_renderers_agree); "
                      "deobfuscate_bytecode_signature[_cache] return exactly deob_spec (one rendered type per tokenizer window in order, then the return type; None iff the tokenizer or the return type fails); "
                      "format_signature returns `(` params joined by `, ` `)` and `: ` return type unless it is empty or `void`. Pure lemmas for ALL byte strings: a parameter list that is a concatenation "
                      "of JVMS field descriptors is tokenized at exactly the type boundaries (one window per parameter, in order; object names may contain or start with base letters); no `(`, no `)`, "
                      "an empty return type or an unterminated object type give no result.",
        "assumed": ["the std models of this unit: str::{strip_prefix, rsplit_once, get, ends_with, is_empty, chars, char_indices, replace(ASCII char, 1-byte str), to_string}, Chars::{next, next_back, as_str} as a window of bytes "
                    "(an ASCII char is its byte, every byte of a non-ASCII char is >= 0x80), String::{push_str, as_str}, [String]::join, format! (literal pieces and Display renderings in order; Display of &str / String is the string), "
                    "Vec::into_iter().filter(f1).filter_map(f2).collect() = the kept and mapped items in order (one shim, closures carry their contracts)",
                    "string literals denote their UTF-8 bytes (axiom generated from the literals in the extracted text)",
                    "ProguardMapper::remap_class / ProguardCache::remap_class are abstract functions from the dotted name to the original name here (their own contracts: units u2 / u1); that the two agree for a cache written from the same mapping is C07-style refinement, not proved here",
                    "DeobfuscatedSignature::parameters_types (iterator adapter) and its Display impl (`write!` of format_signature) are not under contract (one-line glue)"],
        "not_decided": ["that the class mapping used by the cache equals the mapper's (the statement's `mapper and cache agree` is proved relative to agreement of remap_class)"],
        "design_ref": "DESIGN.md 5/C16",
    },
    "C17": {
        "title": "Printing a stack trace and parsing it back is lossless",
        "units": [U16, U15, U18, U19],
        "kani": [],
        "technique": "Verus contracts on the real Display::fmt bodies of StackFrame, Throwable and StackTrace (what is printed), on parse_frame / parse_throwable (exact reference parsers, unit u15) and on parse_stacktrace (prophetic &mut reasoning against a reference trace parser, unit u19), plus pure round-trip lemmas for single lines",
        "level_text": "Proof that StackFrame's Display appends `at ` class `.` method `(` file `:` decimal line `)`, Throwable's Display appends class [`: ` message], StackTrace's Display appends "
                      "[exception line] + one four-space-indented line per frame in order + [`Caused by: ` + the cause]; that parse_frame / parse_throwable are exactly the reference parsers frame_spec / "
                      "first-`: `-split on the trimmed line (and StackFrame::try_parse / Throwable::try_parse the same on valid UTF-8); that parse_stacktrace / StackTrace::try_parse return exactly the nested "
                      "trace of the reference parser trace_spec over the lines (exception from the first line, frames to the innermost trace, `Caused by: ` opens a new innermost trace, None iff no exception and no frame); "
                      "and, as pure lemmas for ALL byte strings c, m, f and numbers n, that frame_spec(frame_text(c, m, f, n)) == Some((c, m, f, n)) when class.method has no `(`, method no `.`, file no `:`, "
                      "and that the class / message of throwable_text(c, msg) are (c, msg) when the class has no space. The whole-trace round trip is proved STRUCTURALLY (u19: lines of the shape Display lays out for t parse back to t, given that every line is classified as the part it prints, that the top level has an exception or a frame, and that every cause has an exception); that str::lines splits the printed text into these lines, the `{}`-of-nested-value link and trim on the indentation remain hypotheses.",
        "assumed": ["write! appends the literal pieces and the renderings of its arguments in order; `{}` of a &str appends the string, of a usize its decimal digits dec(n), and parse(dec(n)) == n; `{}` of a reference or a Box prints the value behind it",
                    "str::trim is the identity on text without outer white space (needed to compose print and parse; stated as a hypothesis, not proved)",
                    "`{}` of a nested value appends exactly what its Display::fmt appends (links the fmt bodies to display_of in units u12 / u16)",
                    "the str API contracts of contracts/text_model.rs (split_once / rsplit_once as first / last occurrence, starts_with, ends_with, slicing)",
                    "u19: content.lines().peekable() yields an abstract sequence lines_of(content); Peekable::{peek,next}; str::strip_prefix(&str) abstract; Option<Box<T>>::as_deref_mut().unwrap() returns the &mut to the boxed value (prophecy clause); "
                    "parse_frame / parse_throwable are functions of their argument (what they compute is unit u15); std::str::from_utf8 abstract"],
        "not_decided": ["the byte-level glue of the whole-trace round trip: lines_of(to_string(t)) is the sequence of printed lines, `{}` of a nested value is what its fmt appends, trim strips the four-space indentation (the structural part and the single-line round trips are proved)", "print(parse(print(x))) == print(x) follows from parse(print(x)) == x and is not stated separately"],
        "design_ref": "DESIGN.md 5/C17",
    },
    "C20": {
        "title": "Mapper and cache are shareable across threads and answer as if queried alone",
        "units": [U21],
        "kani": [],
        "technique": "one `T: Send + Sync` obligation per public handle / result type, stated on the real type definitions extracted from /repo and discharged by rustc's trait solver (the front end of the verifier); the run-time half is argued from the functional contracts of the query functions, not proved",
        "level_text": "TYPE-LEVEL HALF ONLY. Proved (by the trait solver, for the types as written in /repo, every field included): ProguardMapper, ProguardCache, ProguardMapping, both RemappedFrameIter types, StackFrame, "
                      "Throwable, StackTrace, DeobfuscatedSignature, MappingSummary, ProguardRecordIter, ProguardRecord, ParseError and CacheError are Send + Sync. A field with interior mutability that is not thread-safe (Cell, RefCell, Rc, raw pointer) "
                      "fails the obligation of every type that contains it. NOT proved: the statement about schedules (concurrent queries return what they return alone). It is argued, not decided: the handle types are Sync, every query takes `&self`, "
                      "and every query under contract returns a spec function of the receiver's value and its arguments (units u1 / u2 / u10 / u12 / u17), so in safe Rust no interleaving can change an answer; no contract here quantifies over schedules.",
        "assumed": ["`impl` items are not extracted by this unit: an `unsafe impl Send / Sync` for one of the types would not be noticed",
                    "derive attributes are dropped from the extracted definitions (they do not influence auto traits)",
                    "thread-safe interior mutability (Mutex, atomics) keeps a type Sync; whether a memo table behind a Mutex changes answers is a functional question, covered only as far as the query functions are under contract"],
        "not_decided": ["for every set of queries issued concurrently from many threads, each query returns exactly what it returns when issued alone (a statement about schedules; outside both installed tools)"],
        "design_ref": "DESIGN.md 5/C20",
    },
    "C18": {
        "title": "The mapping UUID is the stable content-derived identifier other tools compute",
        "units": [U22],
        "kani": [],
        "technique": "Verus contract on the real text of ProguardMapping::uuid (extracted regardless of its cfg(feature) gate) over a stand-in for the optional `uuid` dependency whose new_v5 is an uninterpreted function of (namespace, name bytes)",
        "level_text": "PARTIAL. Proved for every byte string: uuid() == v5(v5(NAMESPACE_DNS, the bytes of `guardsquare.com`), exactly self.source) -- the identifier is a function of the source bytes and nothing else "
                      "(no validity check, no trimming, no line-ending normalisation, no lossy UTF-8 conversion) in the namespace the property names. NOT decided: that uuid::Uuid::new_v5 is the RFC 4122 version-5 (SHA-1) "
                      "construction other tools compute (the dependency; it is an uninterpreted function here), and anything about processes or platforms beyond `the result is a spec function of the bytes`.",
        "assumed": ["uuid::Uuid::new_v5(ns, name) is a function of its two arguments (stand-in struct with the items the function uses; NAMESPACE_DNS etc. with their RFC 4122 values)",
                    "R14: lazy_static! { static ref N: T = E; } is replaced by `let N: T = E;` (the memoisation of a pure initialiser is dropped)",
                    "the feature gate #[cfg(feature = \"uuid\")] is dropped from the extracted text (the pinned build does not enable the feature; the contract is about the function as written)",
                    "byte-string literal contents by an axiom generated from the literal in the extracted text"],
        "not_decided": ["agreement with the identifier computed by uploaders / SDK build plugins (needs the SHA-1 based construction inside the dependency)"],
        "design_ref": "DESIGN.md 5/C18",
    },
    "C19": {
        "title": "File-level metadata answers equal a fold over the complete record stream",
        "units": [U7, U5],
        "kani": [],
        "technique": "Verus loop invariants over the prophetic iterator spec of ProguardRecordIter (remaining() == records(bytes)) on the real has_line_info / is_valid / MappingSummary::new",
        "level_text": "Proof for every byte string that has_line_info == exists a method record with a line mapping, is_valid == exists i<j<50 with "
                      "class at i and field/method at j, class/method counts == number of such records, compiler/compiler_version/min_api == "
                      "value of the LAST such header; the record stream is defined from ProguardRecordIter::next, which is verified against the "
                      "prophetic iterator laws.",
        "assumed": ["parse_proguard_record is a function of the byte contents (r_of / rest_of) and makes progress on non-empty input (progress is proved in unit u5)",
                    "str::parse::<u32> is abstract (spec_parse_u32)", "string-literal patterns compare by contents (axiom_str_ext)"],
        "design_ref": "DESIGN.md 5/C19",
    },
    "C12": {
        "title": "No accepted buffer can make a query panic, overflow or read outside",
        "units": [U1S, U4, U10C, U12C, U17],
        "kani": [],
        "technique": "Verus implicit obligations (overflow, bounds, callee preconditions, termination) on the cache reader with NO precondition on field values",
        "level_text": "Every cache reader function is verified with arbitrary u32 field values and arbitrary slice contents: no arithmetic "
                      "overflow, no out-of-bounds index/range, loops terminate.",
        "assumed": ["watto::StringTable::read / leb128 never panic (dependency, unverified)", "watto Pod casts (unsafe) are sound",
                    "text stack-trace remapping (cache copy, u12) and signature deobfuscation through the cache (u17) are verified without preconditions over the str / fmt shims of those units (assumed std contracts, see C07 / C16)"],
        "design_ref": "DESIGN.md 5/C12",
    },
    "C13": {
        "title": "No mapping bytes and no query can make the library panic or overflow",
        "units": [U2S, U5, U7, U10M, U3, U8, U9, U6M, U6W, U1S, U4, U10C, U11, U13, U14, U15, U17, U19, U22],
        "kani": ["k3_java_base_types"],
        "technique": "Verus implicit obligations on the mapper reader with NO precondition on entry values",
        "level_text": "The mapper's reader functions are verified with arbitrary usize entry values and any frame: no overflow, no out-of-bounds, termination.",
        "assumed": ["str API contracts of contracts/text_model.rs (std documentation restated over an uninterpreted byte view) for parse_frame and parse_obfuscated_bytecode_signature",
                    "not covered: DeobfuscatedSignature::parameters_types (iterator adapter), StackTrace::cause (Option::as_deref), StackFrame::full_method, the Debug helpers of cache/debug.rs"],
        "design_ref": "DESIGN.md 5/C13",
    },
}

NOT_APPLICABLE = {
    "C14": "quantifies over processes, hash seeds and threads (a two-run property); a per-call contract can only say that the output is the value of spec functions of its inputs: within one run the collected classes are the abstract fold over the record stream (u14), the tail emits canonical(classes in BTreeMap key order, string bytes) (u8) and the HashSet is used for membership only, but the string-table offsets enter through a ghost table sequence whose interning order is deliberately left open (so that harmless reorderings verify), and watto::StringTable (insert / into_bytes) has no contract that would make the string section a function of the records. The second clause of the statement (`its length equals the length implied by its own header`) IS proved, as obligation file_length_equals_header_implied_length under C09 / C11 (u8), and u20 shows the reader accepts every emitted file",
}

# ---- texts revised after the late units (u13/u14 whole builders, u20 round trip, flag-independence lemma) ----
PROPS["C02"]["technique"] = ("refinement: both readers proved (Verus) against the SAME spec functions retrace/by_params/unanimous through abs_member / abs_mm; both builders "
                             "proved as wholes against abstract folds over one record stream; writer tail == canonical layout; pure lemmas tie the reader's layout to the writer's "
                             "and show the mapper's line-based content independent of the parameter-index flag")
PROPS["C02"]["level_text"] = (
    "Both readers are verified against one shared abstract model, so equal abstract entries give equal answers for remap_class, remap_method, remap_frame (by line and by parameters). "
    "Both builders are verified as wholes against abstract folds over the same record stream (u13: abs(mapper) == built(records, flag); u14: abs(collected classes) == w_flush(w_run(tables, records))), "
    "whose steps store the same interpretation of every record (u3 / u6: interp numbers, u32::MAX <=> absent, same file-header and by-params indexing rules). The writer tail emits canonical(classes, strings) (u8), "
    "and the reader accepts every such file and reads back exactly the emitted tables (u20, pure lemma over the two specifications, modulo the Pod round trip). "
    "Pure lemma (u13): the line-based content of the mapper (class fields and every per-name entry list) is the same with and without the parameter index. "
    "Text remapping and signature deobfuscation are equal for mapper and cache relative to equal remap_class / remap_frame answers (C07, C16). "
    "REFINEMENT (u23, pure lemmas over the definitions cut out of the units that use them): for every mapping in the domain and every table sequence allowed by u14, built(records, true) and the classes the writer collects "
    "have the same class keys and, under every key, related class fields and the same abstract entries at the same positions, per method name and per (method name, arguments) -- by induction over the record stream with one step lemma per record kind "
    "(the Header step is the obligation that exposed defect D7). Together: mapper == built(records) (u13) ~ collected classes (u14, u23) -> canonical bytes (u8) -> parse reads the same tables back (u20) -> both readers answer through one specification (u1 / u2). "
    "The tables read back satisfy the reader's representation invariant wf_cache (u23: strict class order, tiling ranges, member order, by-params order, wf_member, interning), which is the precondition of the reader's functional contracts. "
    "ASSUMED along this chain: the string-table and Pod round trips of watto and BTreeMap iteration order.")
PROPS["C02"]["not_decided"] = ["that watto's string table returns the inserted string for the offset it handed out (offset_of / tbl), that BTreeMap iterates in ascending key order, that the Pod casts invert as_bytes: the three dependency / std facts the closed chain rests on"]
PROPS["C09"]["level_text"] = PROPS["C09"]["level_text"].replace(
    "Sortedness of classes/members and the contents of the string section come from BTreeMap iteration order and watto::StringTable inside the collection loop and are assumed; `test()` accepting every such file is not decided.",
    "The collection loop is verified as a whole (u14). A pure lemma (u20) shows that the reader's layout functions agree with this layout: ProguardCache::parse accepts every canonical file at an 8-aligned address, "
    "its length is the header-implied length, and the four sections it slices out are exactly the emitted class records, members, by-params records and strings (modulo the Pod round trip). "
    "Sortedness of classes/members comes from BTreeMap iteration order and the contents of the string section from watto::StringTable (assumed); `test()` accepting every such file is not decided.")
PROPS["C10"]["level_text"] = PROPS["C10"]["level_text"].replace(
    "and the reader interprets records by the shared model (u32::MAX = absent, line rule).",
    "and the reader interprets records by the shared model (u32::MAX = absent, line rule); the writer's layout and the reader's layout functions are proved to agree (u20).")
for _p in ("C02", "C09", "C10"):
    PROPS[_p].setdefault("assumed", []).append("u20: decoding the byte image of a header / a run of class records / a run of member records gives the records back (Pod round trip of watto; layouts pinned by Kani K1); PRGCACHE_MAGIC differs from its byte-swapped form (Kani K2)")

PROPS["C09"]["not_decided"] = [x for x in PROPS["C09"].get("not_decided", []) if not x.startswith("strict sortedness of the class section")] + [
    "string-section validity (watto); the strict order of the class section by resolved name, the name order of each class's member records and the (name, parameters) order of its by-params records ARE proved for what the writer collects (u23, given BTreeMap's ascending iteration order and the string-table round trip)"]

PROPS["C01"].setdefault("assumed", [])
PROPS["C01"]["assumed"] = [x for x in PROPS["C01"]["assumed"] if not x.startswith("independence of line endings")] + [
    "independence of line endings / blank / unparseable lines is not decided here (see C06); independence of the ORDER of distinctly named class blocks is proved (u23: built(pre ++ b1 ++ b2 ++ post) == built(pre ++ b2 ++ b1 ++ post))"]

PROPS["C09"]["level_text"] = PROPS["C09"]["level_text"].replace("`test()` accepting every such file is not decided.", "`test()` accepts every such file: u9 proves it panic-free under wf_for_selftest and u23 proves wf_for_selftest for every written cache (given the watto / BTreeMap assumptions).")
PROPS["C09"]["not_decided"] = [x for x in PROPS["C09"].get("not_decided", []) if not x.startswith("ProguardCache::test()")]

# ---- after the builders came under contract (u13 / u14) and the fold got its declarative reading (u23) ----
PROPS["C01"]["level_text"] = PROPS["C01"]["level_text"].replace(
    "Builders (mapping text -> entries) are assumed, so this is a proof about the reader core, not end to end.",
    "Builders: ProguardMapper::create_proguard_mapper is proved to build exactly built(records) (u13) and the cache writer's collection loop the related fold (u14, u23). "
    "What built(records) IS, in the terms of the property statement, is a pure lemma (u23, lemma_class_content_is_what_the_records_of_its_last_block_say): under an obfuscated class name the mapper holds the class of "
    "the LAST block with that name, with its original name; its entry list for obfuscated method m is one entry per method record named m, in file order, each carrying the numbers of `interp`, the record's "
    "original class / name and the value of the last `sourceFile` header before it in the block; a method name is known iff the block has such a record; nothing before the block has any influence. "
    "Record stream -> text (which lines give which records) is C05 / C06.")
PROPS["C03"]["level_text"] = PROPS["C03"]["level_text"].replace(
    "De-duplication and inline filtering happen in the builders (assumed).",
    "De-duplication and inline filtering: the builders are proved to build exactly built(records) (u13; writer: u14 + the refinement of u23), and three pure lemmas (u23) read the parameter index of built(records) in the "
    "terms of the property statement: the index of (m, a) in a class is, in file order, the FIRST occurrence of every (m, a, original name) among the method records of the class's last block that are not inlined callees "
    "(the next record does not repeat their obfuscated range) -- so every entry comes from a record that is not an inlined callee, two entries under one (m, a) have different original names, every such record is "
    "represented, and the de-duplication set and the entries depend on the block alone (lemma_block_from_any_state: no state leaks from the class block before). Without the parameter index (ProguardMapper::new) the index is empty.")

# ---- C06 after the reference parser of one item and the concatenation theorem (u5), and defect D8 ----
PROPS["C06"]["technique"] = ("Verus: every parser function verified with no precondition (totality, termination); parse_proguard_record proved EQUAL to a reference parser of one item "
                             "(dispatch over the three line grammars of C05, error = first line with its one terminator byte); pure lemmas: every grammar function is local to the line "
                             "(its result on L ++ T does not depend on T), and by induction over the input the item stream of A + terminator + B is that of A followed by that of B")
PROPS["C06"]["level_text"] = (
    "Proof for every byte string: no parser function panics or overflows; every string placed in a record contains no line terminator; an Ok record is taken from within the first line and an "
    "Err consumes exactly the first line with one terminator byte; rest is a suffix of the input. parse_proguard_record returns EXACTLY parse_spec(bytes): the record and the remainder of the reference parser "
    "(`#` -> header_spec, four spaces -> member_spec, otherwise class_spec; on failure the first line). ProguardRecordIter yields records(bytes) = skip the line terminators, stop if nothing is left, else one item and "
    "continue with its remainder (u7), with |records| <= |bytes|. PURE LEMMAS (u5, for ALL byte strings): each grammar function gives the same parts for L ++ T as for L whenever L has no terminator and T is empty or "
    "starts with one (one lemma per grammar position; a word that ends at the line end is the one place where `end of input` and `terminator` are told apart, and the mandatory literal that follows makes the "
    "line fail either way); the reference parser consumes at least one byte; and, by induction over A, items(A + terminator + B) is items(A) followed by items(B) -- item by item EQUAL, except that an error item "
    "for an unterminated malformed LAST line of A gains the terminator byte in its `line` payload (`ParseError::line` includes the terminator: pinned by the suite's try_parse_iter). Consequently the Ok records of "
    "A + terminator + B are exactly the Ok records of A followed by those of B; input between two line ends that yields no record (blank lines, malformed lines) changes no record; CR, LF and CRLF give the same records. "
    "The equation failed on the tree as found (defect D8: a remainder of line terminators only yielded a phantom error item) and holds after the fix.")
PROPS["C06"]["not_decided"] = []
PROPS["C06"]["assumed"] = PROPS["C06"].get("assumed", []) + [
    "the link between the iterator's stream (u7: r_of / rest_of, the two results of parse_proguard_record as functions of the bytes) and items() of u5 is by name: u5 proves abs_item(ret.0) == parse_spec(bytes).0 and ret.1 == parse_spec(bytes).1 for the function u7 treats as abstract",
    "record contents are compared as byte strings (abs_rec: str_bytes of every &str field, the numbers of the line mapping)"]
PROPS["C01"]["assumed"] = [x for x in PROPS["C01"]["assumed"] if not x.startswith("independence of line endings")] + [
    "independence of line-ending style and of blank / unparseable lines is proved at the level of the record stream (u5: the Ok records of A + terminator + J + terminator + B are those of A and B when J yields none; CR, LF, CRLF give the same records) -- the builders consume exactly the Ok records (`filter_map(Result::ok)`, behind the ok_records shim); independence of the ORDER of distinctly named class blocks is proved (u23: built(pre ++ b1 ++ b2 ++ post) == built(pre ++ b2 ++ b1 ++ post))"]
PROPS["C19"]["level_text"] = PROPS["C19"]["level_text"].replace(
    "the record stream is defined from ProguardRecordIter::next, which is verified against the prophetic iterator laws.",
    "the record stream records(bytes) (skip line terminators; stop when nothing is left; else one item, then the stream of its remainder) is what ProguardRecordIter::next yields, verified against the prophetic iterator laws "
    "(this obligation failed on the tree as found: defect D8).")

# ---- C05: the generative direction for member lines; C04: "last class line wins" at the level of the fold; C13: StackTrace::cause ----
PROPS["C05"]["level_text"] = PROPS["C05"]["level_text"].replace(
    "A print/parse lemma is NOT claimed.",
    "GENERATIVE DIRECTION (pure lemmas, u5): for all parts of the documented shape (type without space that does not start with a digit, name without space or `(`, arguments without `)`, original lines only after an "
    "argument list, everything UTF-8 and free of line terminators; numbers printed in decimal) the printed line `    [S:E:]TYPE NAME[(ARGS)[:OS[:OE]]] -> OBF` followed by nothing or by a line terminator and anything is accepted by "
    "member_spec with exactly these parts, and line_spec gives the record member_arec prescribes -- which the real parser returns (item_and_rest_are_exactly_those_of_the_reference_parser). Class lines: lemma_class_line_accepted. "
    "Header lines: the reference parser header_spec only (key / value up to str::trim, which is abstract).")
PROPS["C05"]["assumed"] = PROPS["C05"].get("assumed", []) + [
    "dec(n): the decimal rendering a printer writes consists of ASCII digits, is not empty, is UTF-8, and str::parse::<usize> reads n back; \"\".parse::<usize>() is an error (two axioms, std documentation)"]
PROPS["C04"]["assumed"] = [x for x in PROPS["C04"].get("assumed", []) if not x.startswith("'last class line wins'")] + [
    "'last class line wins': proved for the abstract fold (u23: under an obfuscated name, built(records) holds the class of the LAST block with that name, with that block's original name) and the builders are proved equal to the fold "
    "(u13, u14); HashMap::insert / BTreeMap::insert overwrite (their contracts) inside the builders are assumed"]
PROPS["C13"]["assumed"] = [x.replace("StackTrace::cause (Option::as_deref), ", "") for x in PROPS["C13"].get("assumed", [])]

# ---- C08: the whole-trace relation (u10) and the structural agreement of the text API with the printed typed result (u24) ----
PROPS["C08"]["level_text"] = PROPS["C08"]["level_text"].replace(
    "Agreement of the printed typed result with the text API output is not decided.",
    "The postcondition is RECURSIVE: typed_rel(self, trace, ret) relates result and input level by level down the cause chain (exception present iff it was, remapped or kept; frames == remapped_frames; a cause iff there was one, "
    "related in the same way) -- the earlier contract only pinned the depth of the result's cause chain, and a change that left the frames of a cause un-remapped verified (found with a hand-made mutant, now committed). "
    "LAST SENTENCE (u24, pure lemma over the definitions cut out of u12 / u10 / u19): if the input lines are a trace t in canonical printed form (shape(t, lines) and every line IS what Display prints for its part), then "
    "out_upto(m, lines, #lines) -- what remap_stacktrace is proved to return (u12) -- equals ptext(typed(m, t)): the exception line, one four-space-indented line per frame of remapped_frames, `Caused by: ` + the cause, of the typed "
    "result. Hypotheses: a top level without exception starts with a frame line that does not read as a throwable, and is not `cause only`. By name, not by proof: Display over chars (u12) vs bytes (u16), ptext vs trace_text, "
    "typed vs typed_rel, and that str::lines yields these lines.")
PROPS["C08"]["assumed"] = [x for x in PROPS["C08"]["assumed"] if not x.startswith("'printing the typed result")] + [
    "u24: `sp_after_prefix(line, lit)` of u12 is `sp_strip(line, lit)` followed by `sp_throwable` (what the body of u12's shim spells out); the char-level `ptext` mirrors u16's byte-level `trace_text`; `lines_of(printed text)` being the printed lines is a hypothesis (`canon` / `shape`)"]
PROPS["C08"]["technique"] = PROPS["C08"]["technique"] + "; the postcondition is the recursive relation typed_rel; pure lemma (u24): text API output on a canonically printed trace == printed typed result"
