"""Which units / Kani jobs decide which property, and what stays assumed (hand-written notes; the scanned
trusted base is added by the machinery)."""

U1F = ("u1_cache_reader", {"profile": "functional"})
U1S = ("u1_cache_reader", {"profile": "safety"})

PROPS = {
    "C12": {
        "units": [U1S],
        "kani": [],
        "assumed": ["watto::StringTable::read never panics and is a function of (bytes, offset) (dependency, unverified)"],
    },
    "C01": {
        "units": [U1F],
        "kani": [],
        "assumed": [],
    },
}
