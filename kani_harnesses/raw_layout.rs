    // K1: documented record layouts (src/cache/mod.rs module docs + field docs of raw.rs): sizes, alignment and
    // little-endian field order of the bytes that `Pod::as_bytes` hands to the writer. Loop-free, all field values symbolic
    // => complete proofs.
    fn le(b: &[u8], i: usize) -> u32 {
        u32::from_le_bytes([b[4 * i], b[4 * i + 1], b[4 * i + 2], b[4 * i + 3]])
    }

    #[kani::proof]
    fn k1_header_layout() {
        let h = Header {
            magic: kani::any(), version: kani::any(), num_classes: kani::any(), num_members: kani::any(),
            num_members_by_params: kani::any(), string_bytes: kani::any(),
        };
        assert!(std::mem::size_of::<Header>() == 24 && std::mem::align_of::<Header>() == 4);
        let b = h.as_bytes();
        assert!(b.len() == 24);
        assert!(le(b, 0) == h.magic && le(b, 1) == h.version && le(b, 2) == h.num_classes);
        assert!(le(b, 3) == h.num_members && le(b, 4) == h.num_members_by_params && le(b, 5) == h.string_bytes);
    }

    #[kani::proof]
    fn k1_class_layout() {
        let c = Class {
            obfuscated_name_offset: kani::any(), original_name_offset: kani::any(), file_name_offset: kani::any(),
            members_offset: kani::any(), members_len: kani::any(), members_by_params_offset: kani::any(),
            members_by_params_len: kani::any(),
        };
        assert!(std::mem::size_of::<Class>() == 28 && std::mem::align_of::<Class>() == 4);
        let b = c.as_bytes();
        assert!(b.len() == 28);
        assert!(le(b, 0) == c.obfuscated_name_offset && le(b, 1) == c.original_name_offset && le(b, 2) == c.file_name_offset);
        assert!(le(b, 3) == c.members_offset && le(b, 4) == c.members_len);
        assert!(le(b, 5) == c.members_by_params_offset && le(b, 6) == c.members_by_params_len);
        // the "absent" sentinel of a default class record
        let d = Class::default();
        assert!(d.file_name_offset == u32::MAX && d.members_len == 0 && d.members_by_params_len == 0);
    }

    #[kani::proof]
    fn k1_member_layout() {
        let m = Member {
            obfuscated_name_offset: kani::any(), startline: kani::any(), endline: kani::any(),
            original_class_offset: kani::any(), original_file_offset: kani::any(), original_name_offset: kani::any(),
            original_startline: kani::any(), original_endline: kani::any(), params_offset: kani::any(),
        };
        assert!(std::mem::size_of::<Member>() == 36 && std::mem::align_of::<Member>() == 4);
        let b = m.as_bytes();
        assert!(b.len() == 36);
        assert!(le(b, 0) == m.obfuscated_name_offset && le(b, 1) == m.startline && le(b, 2) == m.endline);
        assert!(le(b, 3) == m.original_class_offset && le(b, 4) == m.original_file_offset && le(b, 5) == m.original_name_offset);
        assert!(le(b, 6) == m.original_startline && le(b, 7) == m.original_endline && le(b, 8) == m.params_offset);
    }

    // K2: format constants of version 1 (frozen spec): "PRGC" little endian, its byte swap, version 1.
    #[kani::proof]
    fn k2_format_constants() {
        assert!(PRGCACHE_MAGIC == 0x4347_5250);
        assert!(PRGCACHE_MAGIC.to_le_bytes() == *b"PRGC");
        assert!(PRGCACHE_MAGIC_FLIPPED == 0x5052_4743);
        assert!(PRGCACHE_VERSION == 1);
    }

    // K9 (BOUNDED in buffer length only): the error kinds that Verus cannot see through `?` (InvalidHeader,
    // InvalidClasses, InvalidMembers, UnexpectedStringBytes{found: 0}) on every 8-aligned buffer of length 0..=96 with fully
    // symbolic contents.  `parse` is loop-free.
    #[repr(C, align(8))]
    struct Buf([u8; 96]);
    fn kind(r: &Result<ProguardCache, CacheError>) -> Option<CacheErrorKind> {
        match r { Ok(_) => None, Err(e) => Some(e.kind()) }
    }

    #[kani::proof]
    fn k9_parse_error_kinds_le96() {
        let b: Buf = Buf(kani::any());
        let n: usize = kani::any();
        kani::assume(n <= 96);
        let buf = &b.0[..n];
        let r = ProguardCache::parse(buf);
        if n < 24 {
            assert!(kind(&r) == Some(CacheErrorKind::InvalidHeader));
            return;
        }
        let f = |i: usize| u32::from_le_bytes([b.0[4 * i], b.0[4 * i + 1], b.0[4 * i + 2], b.0[4 * i + 3]]);
        let (magic, version, nc, nm, nb, sb) = (f(0), f(1), f(2) as usize, f(3) as usize, f(4) as usize, f(5) as usize);
        if magic == 0x5052_4743 {
            assert!(kind(&r) == Some(CacheErrorKind::WrongEndianness));
        } else if magic != 0x4347_5250 {
            assert!(kind(&r) == Some(CacheErrorKind::WrongFormat));
        } else if version != 1 {
            assert!(kind(&r) == Some(CacheErrorKind::WrongVersion));
        } else {
            let pad = |x: usize| (8 - x % 8) % 8;
            let oc = 24usize;
            let ec = oc.saturating_add(nc.saturating_mul(28));
            if ec > n {
                assert!(kind(&r) == Some(CacheErrorKind::InvalidClasses));
                return;
            }
            let om = ec + pad(ec);
            let em = om.saturating_add(nm.saturating_mul(36));
            if om > n || em > n {
                assert!(kind(&r) == Some(CacheErrorKind::InvalidMembers));
                return;
            }
            let ob = em + pad(em);
            let eb = ob.saturating_add(nb.saturating_mul(36));
            if ob > n || eb > n {
                assert!(kind(&r) == Some(CacheErrorKind::InvalidMembers));
                return;
            }
            let os = eb + pad(eb);
            if os > n {
                assert!(kind(&r) == Some(CacheErrorKind::UnexpectedStringBytes { expected: sb, found: 0 }));
                return;
            }
            if n - os < sb {
                assert!(kind(&r) == Some(CacheErrorKind::UnexpectedStringBytes { expected: sb, found: n - os }));
            } else {
                assert!(r.is_ok());
            }
        }
    }
