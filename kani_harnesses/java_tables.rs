    // K3: java_base_types is total and maps exactly the nine JVM primitive codes (complete over all `char`).
    #[kani::proof]
    fn k3_java_base_types() {
        let c: char = kani::any();
        let r = java_base_types(c);
        let expect = matches!(c, 'Z' | 'B' | 'C' | 'S' | 'I' | 'J' | 'F' | 'D' | 'V');
        assert!(r.is_some() == expect);
    }
