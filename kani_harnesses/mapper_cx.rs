    #[kani::proof]
    #[kani::unwind(3)]
    fn cx_mapper_iterate_with_lines() {
        let ms = [MemberMapping {
            startline: kani::any(), endline: kani::any(), original_class: None, original_file: None, original: "m",
            original_startline: kani::any(), original_endline: if kani::any() { Some(kani::any()) } else { None },
        }];
        let mut frame = StackFrame::new("c.D", "x", kani::any());
        let mut it = ms.iter();
        let _ = iterate_with_lines(&mut frame, &mut it);
    }
