    // Counterexample kernels (run only when a Verus arithmetic obligation of the same function fails): one fully symbolic
    // member record and frame line through the REAL function; CBMC's trace gives concrete field values for replay.
    #[kani::proof]
    #[kani::unwind(3)]
    fn cx_cache_iterate_with_lines() {
        let header = raw::Header { magic: 0, version: 1, num_classes: 0, num_members: 1, num_members_by_params: 0, string_bytes: 0 };
        let members = [raw::Member {
            obfuscated_name_offset: u32::MAX, startline: kani::any(), endline: kani::any(),
            original_class_offset: u32::MAX, original_file_offset: u32::MAX, original_name_offset: u32::MAX,
            original_startline: kani::any(), original_endline: kani::any(), params_offset: u32::MAX,
        }];
        let cache = ProguardCache { header: &header, classes: &[], members: &members, members_by_params: &[], string_bytes: &[] };
        let mut frame = StackFrame::new("c.D", "x", kani::any());
        let mut it = members.iter();
        let _ = iterate_with_lines(&cache, &mut frame, &mut it);
    }
