#!/usr/bin/env python3
"""tools/seed_recheck.py ID C01,C02,.. [--benign]

Re-run some registered quick checks against one stored change (seeded/ID or benign/ID) and MERGE the outcome into its meta.json
(the other checks keep the results of their last run). Applies the patch to /repo, runs, undoes it."""
import concurrent.futures as cf
import json
import os
import sys

VERIF = os.path.dirname(os.path.dirname(os.path.abspath(__file__)))
REPO = os.environ.get("VERIF_REPO", "/repo")   # a scratch worktree can stand in for /repo (the checks read the same variable)
sys.path.insert(0, VERIF)
sys.path.insert(0, os.path.join(VERIF, "tools"))
from seed_eval import sh, run_check  # noqa: E402


def main():
    sid, which = sys.argv[1], sys.argv[2].split(",")
    kind = "benign" if "--benign" in sys.argv else "seeded"
    dest = os.path.join(VERIF, kind, sid)
    meta = json.load(open(os.path.join(dest, "meta.json")))
    rc, o = sh("git -C %s status --porcelain" % REPO)
    if o.strip():
        print("refusing: /repo has uncommitted changes")
        return 2
    rc, o = sh("git -C %s apply %s" % (REPO, os.path.join(dest, "patch.diff")))
    if rc != 0:
        print("patch does not apply to /repo:", o)
        return 2
    results = meta.get("checks_run", {})
    try:
        with cf.ThreadPoolExecutor(max_workers=6) as ex:
            for pid, rc, lines, wall in ex.map(run_check, which):
                results[pid] = {"exit": rc, "wall_s": wall, "lines": lines, "rerun": True}
                print(pid, "exit", rc, wall, "s", "|", " ; ".join(l[:160] for l in lines[:3]))
    finally:
        sh("git -C %s checkout -- ." % REPO)
    meta["checks_run"] = results
    meta["caught_by"] = sorted(p for p, r in results.items() if r["exit"] == 1)
    meta["undecided_in"] = sorted(p for p, r in results.items() if r["exit"] == 2)
    meta["false_alarms"] = meta["caught_by"] if kind == "benign" else []
    json.dump(meta, open(os.path.join(dest, "meta.json"), "w"), indent=1)
    print("caught_by:", meta["caught_by"], "undecided:", meta["undecided_in"])
    return 0


if __name__ == "__main__":
    sys.exit(main())
