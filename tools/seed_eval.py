#!/usr/bin/env python3
"""tools/seed_eval.py ID [--confirm] [--checks C01,C02|all]

Evaluate one seeded change (sub-agent output in /tmp/seed/ID-out, worktree /tmp/seed/ID):
  --confirm : in the scratch worktree, confirm (a) existing tests green with the change, (b) demo fails with it, (c) demo passes without it
  then apply the patch to /repo, run the registered checks, undo the patch, and store everything under /verif/seeded/ID/.
"""
import concurrent.futures as cf
import json
import os
import re
import shutil
import subprocess
import sys
import time

VERIF = os.path.dirname(os.path.dirname(os.path.abspath(__file__)))
REPO = os.environ.get("VERIF_REPO", "/repo")   # a scratch worktree can stand in for /repo (the checks read the same variable)
sys.path.insert(0, VERIF)
import props


def sh(cmd, cwd=None, timeout=1800, env=None):
    p = subprocess.run(cmd, shell=True, cwd=cwd, stdout=subprocess.PIPE, stderr=subprocess.STDOUT, timeout=timeout, env=env)
    return p.returncode, p.stdout.decode("utf-8", "replace")


def confirm(sid, wt, out):
    res = {}
    patch = os.path.join(out, "patch.diff")
    # normalise: make sure the worktree has exactly the patch applied
    sh("git checkout -- . && git clean -fdq tests", cwd=wt)
    rc, o = sh("git apply %s" % patch, cwd=wt)
    res["patch_applies"] = rc == 0
    if rc != 0:
        res["error"] = o[-500:]
        return res
    env = dict(os.environ, CARGO_NET_OFFLINE="true")
    rc, o = sh("cargo test --offline 2>&1 | grep -E '^test result|FAILED|error' | head -20", cwd=wt, env=env)
    res["existing_tests_with_change"] = o.strip().splitlines()
    res["existing_green_with_change"] = bool(o.strip()) and "FAILED" not in o and "error" not in o and all("0 failed" in l for l in o.splitlines() if l.startswith("test result"))
    shutil.copy(os.path.join(out, "demo.rs"), os.path.join(wt, "tests", "demo.rs"))
    rc1, o1 = sh("cargo test --offline --test demo 2>&1 | tail -25", cwd=wt, env=env)
    res["demo_with_change_rc_tail"] = o1[-1200:]
    res["demo_fails_with_change"] = "test result: FAILED" in o1 or "panicked" in o1
    sh("git apply -R %s" % patch, cwd=wt)
    rc2, o2 = sh("cargo test --offline --test demo 2>&1 | tail -8", cwd=wt, env=env)
    res["demo_passes_without_change"] = "test result: ok" in o2 and "FAILED" not in o2
    res["demo_without_change_tail"] = o2[-500:]
    os.remove(os.path.join(wt, "tests", "demo.rs"))
    sh("git apply %s" % patch, cwd=wt)
    return res


def run_check(pid):
    t0 = time.time()
    rc, o = sh("./check %s --tier quick" % pid, cwd=VERIF, timeout=2400)
    lines = [l for l in o.splitlines() if l.startswith(("VIOLATION", "OK ", "UNDECIDED", "KNOWN-FINDING", "  obligation"))]
    return pid, rc, lines, round(time.time() - t0, 1)


def main():
    sid = sys.argv[1]
    base = os.environ.get("SEED_BASE", "/tmp/seed")
    wt, out = "%s/%s" % (base, sid), "%s/%s-out" % (base, sid)
    dest = os.path.join(VERIF, os.environ.get("SEED_DEST", "seeded"), sid + os.environ.get("SEED_SUFFIX", ""))
    os.makedirs(dest, exist_ok=True)
    for f in ("patch.diff", "demo.rs", "notes.md"):
        if os.path.exists(os.path.join(out, f)):
            shutil.copy(os.path.join(out, f), os.path.join(dest, f))
    meta = {"id": sid + os.environ.get("SEED_SUFFIX", ""), "breaks_property": sid.split("-")[0], "source": "independent sub-agent given only the property text and a scratch worktree"}
    if os.environ.get("SEED_DEST", "seeded") != "seeded":
        meta = {"id": sid, "kind": "behaviour-preserving refactoring (no check may report a violation)", "source": "independent sub-agent given only an area of the code and a scratch worktree"}
    if os.path.exists(os.path.join(dest, "meta.json")):
        try:
            meta.update(json.load(open(os.path.join(dest, "meta.json"))))
        except ValueError:
            pass
    if "--confirm" in sys.argv:
        meta["confirmation"] = confirm(sid, wt, out)
        print(json.dumps(meta["confirmation"], indent=1)[:1500])
    which = "all"
    if "--checks" in sys.argv:
        which = sys.argv[sys.argv.index("--checks") + 1]
    pids = sorted(props.PROPS) if which == "all" else which.split(",")
    # apply to /repo, run, undo
    rc, o = sh("git -C %s status --porcelain" % REPO)
    if o.strip():
        print("refusing: /repo has uncommitted changes"); return 2
    rc, o = sh("git -C %s apply %s" % (REPO, os.path.join(dest, "patch.diff")))
    if rc != 0:
        print("patch does not apply to /repo:", o); return 2
    results = {}
    try:
        with cf.ThreadPoolExecutor(max_workers=6) as ex:
            for pid, rc, lines, wall in ex.map(run_check, pids):
                results[pid] = {"exit": rc, "wall_s": wall, "lines": lines}
                print(pid, "exit", rc, wall, "s", "|", " ; ".join(l[:160] for l in lines[:3]))
    finally:
        sh("git -C %s checkout -- ." % REPO)
    meta["checks_run"] = results
    meta["caught_by"] = sorted(p for p, r in results.items() if r["exit"] == 1)
    meta["undecided_in"] = sorted(p for p, r in results.items() if r["exit"] == 2)
    meta["false_alarms"] = meta["caught_by"] if os.environ.get("SEED_DEST", "seeded") != "seeded" else []
    meta["what_was_run"] = "git -C /repo apply seeded/%s/patch.diff; ./check <id> --tier quick for %s; git -C /repo checkout -- ." % (sid, ",".join(pids))
    json.dump(meta, open(os.path.join(dest, "meta.json"), "w"), indent=1)
    print("caught_by:", meta["caught_by"], "undecided:", meta["undecided_in"])
    # restore evidence of the unchanged tree is the caller's job (tools/run_all.sh)
    return 0


if __name__ == "__main__":
    sys.exit(main())
