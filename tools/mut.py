#!/usr/bin/env python3
"""tools/mut.py <file> <old> <new> -- <command...> : run a command against a scratch copy of /repo with one textual edit
(VERIF_REPO points to the copy). The copy lives under /var/tmp and is removed afterwards."""
import os, shutil, subprocess, sys, tempfile
i = sys.argv.index("--")
f, old, new = sys.argv[1:4]
cmd = sys.argv[i + 1:]
d = tempfile.mkdtemp(prefix="verif-mut-", dir="/var/tmp")
try:
    SRC = os.environ.get("MUT_SRC", "/repo"); shutil.copytree(SRC + "/src", d + "/src")
    shutil.copy(SRC + "/Cargo.toml", d); shutil.copy(SRC + "/Cargo.lock", d)
    p = os.path.join(d, f)
    s = open(p).read()
    occ = int(os.environ.get("MUT_OCC", "1"))
    if s.count(old) < occ:
        print("mutation site not found (%d)" % s.count(old)); sys.exit(3)
    idx = -1
    for _ in range(occ):
        idx = s.index(old, idx + 1)
    s = s[:idx] + new + s[idx + len(old):]
    open(p, "w").write(s)
    env = dict(os.environ, VERIF_REPO=d)
    sys.exit(subprocess.call(cmd, env=env))
finally:
    shutil.rmtree(d, ignore_errors=True)
