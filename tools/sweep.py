#!/usr/bin/env python3
"""tools/sweep.py [substring-of-file]  -- automatic mutation sweep (not part of any registered check).

Operator mutants (comparison / boolean / off-by-one / swapped line fields / is_some<->is_none ...) are generated INSIDE the fragments each unit puts under
contract, each is applied to a scratch copy of /repo/src under /var/tmp/sweep/work (never to /repo) and every unit that extracts the fragment is run.
Verdicts: killed (some unit reports a failed obligation), undecided (front-end error = the mutant does not type-check, lost anchor, timeout), SURVIVED
(every unit verifies: either an equivalent mutant or a contract that says too little). Results: /var/tmp/sweep/results.json. About one hour on 16 cores."""
import concurrent.futures as cf
import importlib
import json
import os
import re
import shutil
import subprocess
import sys
import tempfile

sys.path.insert(0, "/verif")
os.environ.setdefault("VERIF_REPO", "/repo")
import props  # noqa

OPS = [
    (r"<=", "<"), (r"(?<![<>=!-])<(?![=<])", "<="), (r">=", ">"), (r"(?<![->=])>(?![=>])", ">="),
    (r"==", "!="), (r"!=", "=="), (r"&&", "||"), (r"\|\|", "&&"),
    (r"\+ 1\b", "+ 0"), (r"- 1\b", "- 0"), (r"\b0\b", "1"), (r"\b1\b", "0"), (r"\b2\b", "1"),
    (r"\.is_some\(\)", ".is_none()"), (r"\.is_none\(\)", ".is_some()"),
    (r"\btrue\b", "false"), (r"\bfalse\b", "true"),
    (r"\bstartline\b", "endline"), (r"\bendline\b", "startline"),
    (r"\boriginal_startline\b", "original_endline"),
    (r"\.min\(", ".max("), (r"\.max\(", ".min("),
    (r"\.first\(\)", ".last()"), (r"\.last\(\)", ".first()"),
    (r"\bu32::MAX\b", "0"), (r"!(?=[a-z(])", ""),
]


def unit_configs():
    seen, out = set(), []
    for k, v in vars(props).items():
        if re.fullmatch(r"U\d+[A-Z]?", k) and isinstance(v, tuple):
            key = (v[0], tuple(sorted(v[1].items())))
            if key not in seen:
                seen.add(key); out.append(v)
    return out


def fragments(cfg):
    mod = importlib.import_module("units." + cfg[0])
    u = mod.build(**cfg[1])
    res = []
    for f in u.frags:
        if f.kind in ("fn", "region", "impl_fn", "method") or getattr(f, "contracted", False):
            res.append((f.file, f.start, f.end, f.qualname))
    return res


def strip_noncode(text):
    """positions that are inside comments / string literals (rough)"""
    mask = [False] * len(text)
    for m in re.finditer(r"//[^\n]*|/\*.*?\*/|b?\"(?:[^\"\\]|\\.)*\"|b?'(?:[^'\\]|\\.)'", text, re.S):
        for i in range(m.start(), m.end()):
            mask[i] = True
    return mask


def gen_mutants():
    muts = {}
    for cfg in unit_configs():
        try:
            frs = fragments(cfg)
        except Exception as e:  # noqa
            print("skip", cfg, e, file=sys.stderr)
            continue
        for (file, a, b, qn) in frs:
            src = open(os.path.join("/repo", file)).read()
            seg = src[a:b]
            mask = strip_noncode(seg)
            for (rx, rep) in OPS:
                for m in re.finditer(rx, seg):
                    if mask[m.start()]:
                        continue
                    # skip generics / arrows / lifetimes for < >
                    if rx.startswith("(?<![<>=!-])<") or rx.startswith("(?<![->=])>"):
                        ctx = seg[max(0, m.start() - 1):m.end() + 1]
                        if not (ctx.startswith(" ") and ctx.endswith(" ")):
                            continue
                    key = (file, a + m.start(), a + m.end(), rep)
                    muts.setdefault(key, {"file": file, "a": a + m.start(), "b": a + m.end(), "new": rep, "old": m.group(0), "line": src.count("\n", 0, a + m.start()) + 1,
                                          "units": []})
                    muts[key]["units"].append({"unit": cfg[0], "kwargs": cfg[1], "frag": qn})
    return list(muts.values())


def run_one(ix, mu, workdir):
    d = tempfile.mkdtemp(prefix="sweep-", dir=workdir)
    try:
        shutil.copytree("/repo/src", d + "/src")
        shutil.copy("/repo/Cargo.toml", d); shutil.copy("/repo/Cargo.lock", d)
        p = os.path.join(d, mu["file"])
        s = open(p).read()
        assert s[mu["a"]:mu["b"]] == mu["old"]
        open(p, "w").write(s[:mu["a"]] + mu["new"] + s[mu["b"]:])
        res = []
        for uc in mu["units"]:
            env = dict(os.environ, VERIF_REPO=d, VERIF_BUILD=os.path.join(d, "build"))
            os.makedirs(env["VERIF_BUILD"], exist_ok=True)
            cmd = [sys.executable, "-m", "vf.devtool", uc["unit"]] + ["%s=%s" % kv for kv in uc["kwargs"].items()] + ["--no-canary"]
            try:
                pr = subprocess.run(cmd, cwd="/verif", env=env, stdout=subprocess.PIPE, stderr=subprocess.STDOUT, timeout=600)
                out = pr.stdout.decode("utf-8", "replace")
            except subprocess.TimeoutExpired:
                out = "unit x status timeout"
            m = re.search(r"status (\w+)", out)
            st = m.group(1) if m else "?"
            und = re.search(r"UNDECIDED: (.*)", out)
            res.append({"unit": uc["unit"], "kwargs": uc["kwargs"], "status": st, "why": und.group(1)[:160] if und else ""})
        return ix, res
    finally:
        shutil.rmtree(d, ignore_errors=True)


def main():
    work = "/var/tmp/sweep/work"
    os.makedirs("/var/tmp/sweep", exist_ok=True)
    os.makedirs(work, exist_ok=True)
    muts = gen_mutants()
    only = sys.argv[1] if len(sys.argv) > 1 else None
    if only:
        muts = [m for m in muts if only in m["file"]]
    print("mutants:", len(muts), flush=True)
    json.dump(muts, open("/var/tmp/sweep/mutants_all.json", "w"), indent=0)
    results = {}
    with cf.ThreadPoolExecutor(max_workers=7) as ex:
        futs = [ex.submit(run_one, i, m, work) for i, m in enumerate(muts)]
        for n, f in enumerate(cf.as_completed(futs)):
            try:
                ix, res = f.result()
            except Exception as e:  # noqa
                print("error", e, flush=True)
                continue
            muts[ix]["results"] = res
            sts = [r["status"] for r in res]
            verdict = "killed" if "failed" in sts else ("SURVIVED" if all(s == "ok" for s in sts) else "undecided")
            muts[ix]["verdict"] = verdict
            print(n, verdict, muts[ix]["file"], muts[ix]["line"], repr(muts[ix]["old"]), "->", repr(muts[ix]["new"]), [(r["unit"], r["status"]) for r in res], flush=True)
            if n % 20 == 0:
                json.dump(muts, open("/var/tmp/sweep/results.json", "w"), indent=0)
    json.dump(muts, open("/var/tmp/sweep/results.json", "w"), indent=0)
    print("DONE")


main()
