#!/bin/sh
# Run every registered quick check on /repo's working tree (rewrites evidence/*.json). Usage: tools/run_all.sh [tier]
cd "$(dirname "$0")/.." || exit 2
tier=${1:-quick}
rc=0
for p in $(python3 -c "import props; print(' '.join(sorted(props.PROPS)))"); do
    ./check "$p" --tier "$tier" || rc=$?
done
exit $rc
