// Exhaustive native check (all 256 byte values) of the std predicate used by mapping.rs::parse_usize:
// `(b as char).is_numeric()`.  Kani cannot decide it (the Unicode skip-search table loops do not unwind; measured: no
// verdict in 900 s), so the table is an ASSUMED std contract that this program validates against the installed std.
fn main() {
    for b in 0..=255u8 {
        let got = (b as char).is_numeric();
        let ascii_digit = b.is_ascii_digit();
        let latin1 = matches!(b, 0xB2 | 0xB3 | 0xB9 | 0xBC | 0xBD | 0xBE);
        assert_eq!(got, ascii_digit || latin1, "byte {:#x}", b);
    }
    println!("is_numeric table ok (256/256)");
    for b in 0..=255u8 {
        let got = (b as char).is_whitespace();
        let want = (9..=13).contains(&b) || b == 32 || b == 0x85 || b == 0xA0;
        assert_eq!(got, want, "byte {:#x}", b);
    }
    println!("is_whitespace table ok (256/256)");
}
