#!/usr/bin/env python3
"""Regenerate closures_baseline.json: for every fragment of every unit, the number of closures in /repo's text that no rewrite of the unit
covers (passed to shims as they are, or left in place). Run on the pinned tree only; the engine compares the current tree against it."""
import json
import os
import sys

VERIF = os.path.dirname(os.path.dirname(os.path.abspath(__file__)))
sys.path.insert(0, VERIF)
import props  # noqa: E402
from vf.engine import load_unit  # noqa: E402

out = {}
seen = set()
for pid, p in sorted(props.PROPS.items()):
    for mod, kw in p.get("units", []):
        key = (mod, tuple(sorted(kw.items())))
        if key in seen:
            continue
        seen.add(key)
        unit = load_unit(mod, **kw)
        unit.build(canaries=False)
        for f in unit.frags:
            n = len(f.plain_closures())
            k = "%s::%s" % (mod, f.qualname)
            if n:
                out[k] = max(out.get(k, 0), n)
with open(os.path.join(VERIF, "closures_baseline.json"), "w", encoding="utf-8") as fh:
    json.dump(out, fh, indent=1, sort_keys=True)
    fh.write("\n")
print("%d fragments with plain closures" % len(out))
