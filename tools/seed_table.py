#!/usr/bin/env python3
"""Regenerate section 9.1 of DESIGN.md (which checks catch which seeded changes) from seeded/*/meta.json."""
import json, os, re, sys
VERIF = os.path.dirname(os.path.dirname(os.path.abspath(__file__)))
rows = []
for sid in sorted(os.listdir(os.path.join(VERIF, "seeded"))):
    mp = os.path.join(VERIF, "seeded", sid, "meta.json")
    if not os.path.exists(mp):
        continue
    m = json.load(open(mp))
    what = m.get("summary", "")
    c = m.get("confirmation", {})
    conf = "yes" if (c.get("existing_green_with_change") and c.get("demo_fails_with_change") and c.get("demo_passes_without_change")) else "partly" if c else "-"
    caught = ", ".join(m.get("caught_by", [])) or "—"
    und = ", ".join(m.get("undecided_in", [])) or "—"
    rows.append("| %s | %s | %s | %s | %s | %s |" % (sid, m.get("breaks_property", ""), what, conf, caught, und))
table = "### 9.1 Outcome per seeded change\n\n| seed | aimed at | change (needs) | confirmed (tests green, demo fails/passes) | caught by (exit 1) | undecided (exit 2) |\n|---|---|---|---|---|---|\n" + "\n".join(rows) + "\n"
p = os.path.join(VERIF, "DESIGN.md")
s = open(p).read()
if "### 9.1 Outcome per seeded change" in s:
    s = s[:s.index("### 9.1 Outcome per seeded change")] + table + s[s.index("## 10. Hooks"):] if "## 10. Hooks" in s[s.index("### 9.1 Outcome per seeded change"):] else s[:s.index("### 9.1 Outcome per seeded change")] + table
else:
    s = s.replace("## 10. Hooks", table + "\n## 10. Hooks")
open(p, "w").write(s)
print(table)
