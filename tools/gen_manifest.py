#!/usr/bin/env python3
"""Regenerate /verif/MANIFEST.json from props.py (single source of truth for what is claimed)."""
import json, os, sys
VERIF = os.path.dirname(os.path.dirname(os.path.abspath(__file__)))
sys.path.insert(0, VERIF)
import props

ALL = ["C%02d" % i for i in range(1, 21)]
checks = []
for pid in ALL:
    if pid not in props.PROPS:
        continue
    c = props.PROPS[pid]
    checks.append({
        "property_id": pid,
        "quick_cmd": "./check %s --tier quick" % pid,
        "thorough_cmd": "./check %s --tier thorough" % pid,
        "evidence_file": "/verif/evidence/%s.json" % pid,
        "replay_cmd_template": "./check %s --replay {path}" % pid,
        "engine": "verus+kani",
        "level_claimed": {"category": "proof", "text": c["level_text"], "design_ref": c.get("design_ref", "DESIGN.md 5")},
        "level_note": "; ".join(c.get("assumed", [])) + "; plus the scanned trusted base (external_body / assume_specification / uninterp / axioms) listed in the evidence file on every run",
        "technique": c["technique"],
    })
na = []
for pid in ALL:
    if pid in props.PROPS:
        continue
    na.append({"property_id": pid, "reason": props.NOT_APPLICABLE.get(pid, "not built yet in this session (planned, see DESIGN.md 5)")})
m = {
    "version": 1,
    "setup_cmd": "./setup.sh",
    "hooks": {
        "guard": "getsentry_rust_proguard_verif",
        "enable": "none needed: Verus runs on text extracted from /repo/src on every run; Kani runs on a scratch copy of the crate with #[cfg(kani)] harness modules appended (add-only)",
        "baseline_off_cmd": "cd /repo && cargo test --workspace --no-fail-fast --offline",
        "source_commits": [],
        "add_only": True,
    },
    "engines": [
        {"name": "verus", "path": "/verif/vf", "serves_properties": [c["property_id"] for c in checks],
         "kind_free_text": "contract-based deductive verification (Verus 0.2026.09.13 / Z3) of functions extracted mechanically from /repo on every run"},
        {"name": "kani", "path": "/verif/vf/kani.py", "serves_properties": [pid for pid in props.PROPS if props.PROPS[pid].get("kani")],
         "kind_free_text": "Kani 0.68 / CBMC: complete proofs of loop-free functions over their full input domain; bounded stand-ins are labelled"},
    ],
    "checks": checks,
    "not_applicable": na,
    "notes": "exit 0 = all obligations charged to the property discharged; exit 1 + VIOLATION line = a named obligation fails; exit 2 = undecided (lost anchor / front end / rlimit / vacuous), never an alarm. Genuine defects found and repaired: see known_findings.json and DESIGN.md 6.",
}
json.dump(m, open(os.path.join(VERIF, "MANIFEST.json"), "w"), indent=1)
print("MANIFEST.json written: %d checks, %d not_applicable" % (len(checks), len(na)))
