// ---- assumed model of the watto dependency's casts (they contain the `unsafe`); address-dependent ----
pub uninterp spec fn addr(b: &[u8]) -> nat;                        // address of the first byte of a slice
pub uninterp spec fn hdr_of(b: Seq<u8>) -> raw::Header;            // 24 bytes -> header   (layout pinned by Kani harness K1)
pub uninterp spec fn classes_of(b: Seq<u8>) -> Seq<raw::Class>;    // 28*n bytes -> n records
pub uninterp spec fn members_of(b: Seq<u8>) -> Seq<raw::Member>;   // 36*n bytes -> n records
#[verifier::opaque]
pub open spec fn pad8(a: nat) -> nat { ((8 - a % 8) % 8) as nat }

// consistency of the model: the padding defined by pad8 does align
pub proof fn lemma_pad8_aligns(a: nat)
    ensures (a + pad8(a)) % 8 == 0, (a + pad8(a)) % 4 == 0, pad8(a) < 8,
{ reveal(pad8); }

pub mod watto {
    use super::*;
    // watto::align_to: `bytes.as_ptr().align_offset(align)` bytes are split off, or None if there are fewer
    #[verifier::external_body]
    pub fn align_to(bytes: &[u8], align: usize) -> (r: Option<(&[u8], &[u8])>)
        requires align == 8,
        ensures match r {
            Some((p, rest)) => pad8(addr(bytes)) <= bytes@.len() && p@ == bytes@.subrange(0, pad8(addr(bytes)) as int)
                && rest@ == bytes@.subrange(pad8(addr(bytes)) as int, bytes@.len() as int) && addr(rest) == addr(bytes) + pad8(addr(bytes))
                && addr(rest) % 8 == 0 && addr(rest) % 4 == 0,
            None => pad8(addr(bytes)) > bytes@.len(),
        }
    { unimplemented!() }
}
// Pod::ref_from_prefix::<Header>: Some iff len >= size_of (24) and 4-aligned
#[verifier::external_body]
pub fn shim_header_ref_from_prefix(bytes: &[u8]) -> (r: Option<(&raw::Header, &[u8])>)
    ensures match r {
        Some((h, rest)) => bytes@.len() >= 24 && addr(bytes) % 4 == 0 && *h == hdr_of(bytes@.subrange(0, 24))
            && rest@ == bytes@.subrange(24, bytes@.len() as int) && addr(rest) == addr(bytes) + 24,
        None => !(bytes@.len() >= 24 && addr(bytes) % 4 == 0),
    }
{ unimplemented!() /* Header::ref_from_prefix(bytes) */ }
// Pod::slice_from_prefix::<Class>(bytes, n): Some iff len >= 28*n (checked_mul) and 4-aligned
#[verifier::external_body]
pub fn shim_class_slice_from_prefix(bytes: &[u8], n: usize) -> (r: Option<(&[raw::Class], &[u8])>)
    ensures match r {
        Some((c, rest)) => bytes@.len() >= 28 * n && addr(bytes) % 4 == 0 && c@ == classes_of(bytes@.subrange(0, 28 * n)) && c@.len() == n
            && rest@ == bytes@.subrange(28 * n, bytes@.len() as int) && addr(rest) == addr(bytes) + 28 * n,
        None => !(bytes@.len() >= 28 * n && addr(bytes) % 4 == 0),
    }
{ unimplemented!() /* Class::slice_from_prefix(bytes, n) */ }
#[verifier::external_body]
pub fn shim_member_slice_from_prefix(bytes: &[u8], n: usize) -> (r: Option<(&[raw::Member], &[u8])>)
    ensures match r {
        Some((c, rest)) => bytes@.len() >= 36 * n && addr(bytes) % 4 == 0 && c@ == members_of(bytes@.subrange(0, 36 * n)) && c@.len() == n
            && rest@ == bytes@.subrange(36 * n, bytes@.len() as int) && addr(rest) == addr(bytes) + 36 * n,
        None => !(bytes@.len() >= 36 * n && addr(bytes) % 4 == 0),
    }
{ unimplemented!() /* Member::slice_from_prefix(bytes, n) */ }

pub open spec fn h_of(buf: &[u8]) -> raw::Header { hdr_of(buf@.subrange(0, 24)) }

// ---- frozen specification of format version 1: error-kind table and section layout (C10, C11) ----
pub open spec fn header_verdict(h: raw::Header) -> Option<CacheErrorKind> {
    if h.magic == raw::PRGCACHE_MAGIC_FLIPPED { Some(CacheErrorKind::WrongEndianness) }
    else if h.magic != raw::PRGCACHE_MAGIC { Some(CacheErrorKind::WrongFormat) }
    else if h.version != 1 { Some(CacheErrorKind::WrongVersion) }
    else { None }
}
// offsets of the four sections after the header in a buffer that starts at address a
pub open spec fn off_classes(a: nat) -> nat { 24 + pad8(a + 24) }
pub open spec fn off_members(a: nat, h: raw::Header) -> nat { let e = off_classes(a) + 28 * h.num_classes as nat; e + pad8(a + e) }
pub open spec fn off_by_params(a: nat, h: raw::Header) -> nat { let e = off_members(a, h) + 36 * h.num_members as nat; e + pad8(a + e) }
pub open spec fn off_strings(a: nat, h: raw::Header) -> nat { let e = off_by_params(a, h) + 36 * h.num_members_by_params as nat; e + pad8(a + e) }
// length the header implies for the whole file
pub open spec fn implied_len(a: nat, h: raw::Header) -> nat { off_strings(a, h) + h.string_bytes as nat }

// "the buffer is accepted": depends only on its address, its LENGTH and its header
pub open spec fn accepted(a: nat, len: nat, h: raw::Header) -> bool {
    a % 4 == 0 && len >= 24 && header_verdict(h) is None && implied_len(a, h) <= len
}

// the complete verdict table of format version 1, in the order the checks are made: which error kind a buffer gets, None = accepted
pub open spec fn parse_verdict(a: nat, len: nat, h: raw::Header) -> Option<CacheErrorKind> {
    if len < 24 || a % 4 != 0 { Some(CacheErrorKind::InvalidHeader) }
    else if header_verdict(h) is Some { header_verdict(h) }
    else if off_classes(a) > len || off_classes(a) + 28 * h.num_classes as nat > len { Some(CacheErrorKind::InvalidClasses) }
    else if off_members(a, h) > len || off_members(a, h) + 36 * h.num_members as nat > len { Some(CacheErrorKind::InvalidMembers) }
    else if off_by_params(a, h) > len || off_by_params(a, h) + 36 * h.num_members_by_params as nat > len { Some(CacheErrorKind::InvalidMembers) }
    else if off_strings(a, h) > len { Some(CacheErrorKind::UnexpectedStringBytes { expected: h.string_bytes as usize, found: 0 }) }
    else if len - off_strings(a, h) < h.string_bytes as nat { Some(CacheErrorKind::UnexpectedStringBytes { expected: h.string_bytes as usize, found: (len - off_strings(a, h)) as usize }) }
    else { None }
}
pub proof fn lemma_verdict_none_iff_accepted(a: nat, len: nat, h: raw::Header)
    ensures (parse_verdict(a, len, h) is None) == accepted(a, len, h),
{ reveal(pad8); }
// C11: every strict prefix of a file whose length is exactly the implied length is rejected;
// any accepted prefix of a longer buffer has the same header and the same section offsets (they are functions of (a, h)).
pub proof fn lemma_strict_prefix_rejected(a: nat, h: raw::Header, plen: nat)
    requires plen < implied_len(a, h),
    ensures !accepted(a, plen, h),
{}
pub proof fn lemma_accept_monotone(a: nat, h: raw::Header, plen: nat, len: nat)
    requires accepted(a, plen, h), plen <= len,
    ensures accepted(a, len, h),
{}
