// ---- Peekable over any iterator: the items still to come, as a ghost sequence (ASSUMED: std restated) ----
pub uninterp spec fn iter_items<I: Iterator>(it: I) -> Seq<I::Item>;
#[verifier::reject_recursive_types(I)]
#[verifier::external_type_specification]
#[verifier::external_body]
pub struct ExPeekable<I: Iterator>(std::iter::Peekable<I>);
pub uninterp spec fn pk_rest<I: Iterator>(p: std::iter::Peekable<I>) -> Seq<I::Item>;
#[verifier::external_body]
fn shim_peekable<I: Iterator>(it: I) -> (r: std::iter::Peekable<I>) ensures pk_rest(r) == iter_items(it) { it.peekable() }
#[verifier::external_body]
fn shim_peek_is_none<I: Iterator>(p: &mut std::iter::Peekable<I>) -> (r: bool)
    ensures r == (pk_rest(*old(p)).len() == 0), pk_rest(*final(p)) == pk_rest(*old(p)),
{ std::iter::Peekable::peek(p).is_none() }
#[verifier::external_body]
fn shim_peek_is_some<I: Iterator>(p: &mut std::iter::Peekable<I>) -> (r: bool)
    ensures r == (pk_rest(*old(p)).len() > 0), pk_rest(*final(p)) == pk_rest(*old(p)),
{ std::iter::Peekable::peek(p).is_some() }
#[verifier::external_body]
fn shim_peek_next<I: Iterator>(p: &mut std::iter::Peekable<I>) -> (r: Option<I::Item>)
    ensures match r {
        Some(x) => pk_rest(*old(p)).len() > 0 && x == pk_rest(*old(p))[0] && pk_rest(*final(p)) == pk_rest(*old(p)).drop_first(),
        None => pk_rest(*old(p)).len() == 0 && pk_rest(*final(p)) == pk_rest(*old(p)),
    },
{ Iterator::next(p) }

#[verifier::external_body]
fn shim_peek<'a, I: Iterator>(p: &'a mut std::iter::Peekable<I>) -> (r: Option<&'a I::Item>)
    ensures
        match r { Some(x) => pk_rest(*old(p)).len() > 0 && *x == pk_rest(*old(p))[0], None => pk_rest(*old(p)).len() == 0 },
        pk_rest(*final(p)) == pk_rest(*old(p)),
{ std::iter::Peekable::peek(p) }
