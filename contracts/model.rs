// ---- shared abstract model of retracing (written from the property statements C01-C04) ----
// One mapping entry of a (class, obfuscated method) group, as both readers see it.
pub struct Entry {
    pub start: int,                       // obfuscated range; end == 0 <=> "no usable range"
    pub end: int,
    pub orig_class: Option<Seq<char>>,    // original class of a foreign (inlined) method
    pub orig_method: Seq<char>,
    pub orig_start: int,
    pub orig_end: Option<int>,            // None <=> not printed (call-site line only)
    pub file_hdr: Option<Seq<char>>,      // sourceFile header in force for the class block
}

pub struct AFrame {
    pub class: Seq<char>,
    pub method: Seq<char>,
    pub line: int,
    pub file: Option<Seq<char>>,
    pub parameters: Option<Seq<char>>,
}

pub open spec fn opt_view(o: Option<&str>) -> Option<Seq<char>> {
    match o { Some(x) => Some(x@), None => None }
}

pub open spec fn aframe(f: StackFrame) -> AFrame {
    AFrame { class: f.class@, method: f.method@, line: f.line as int, file: opt_view(f.file), parameters: opt_view(f.parameters) }
}

// C01: "entries without a usable range always apply", otherwise the obfuscated range must contain the line
pub open spec fn applies(e: Entry, line: int) -> bool {
    e.end == 0 || (e.start <= line && line <= e.end)
}

// C01: the ProGuard line rule: call-site line (no original end), single-line collapse (start == end),
// range-to-range offset otherwise; 0 when there is no range (orig_start is 0 then).
pub open spec fn orig_line(e: Entry, line: int) -> int {
    if e.orig_end is None || e.orig_end == Some(e.orig_start) { e.orig_start } else { e.orig_start + line - e.start }
}

pub open spec fn r8syn() -> Seq<char> { "R8$$SyntheticClass"@ }

// "last `.`-segment up to the first `$`" -- str splitting is out of Verus' reach; the function is abstract and
// both readers are proved against the same abstract function.
pub uninterp spec fn outer_simple_name(s: Seq<char>) -> Option<Seq<char>>;

// C01: sourceFile / synthetic-class / foreign-class rule
pub open spec fn out_file(e: Entry, cls: Seq<char>, frame_file: Option<Seq<char>>) -> Option<Seq<char>> {
    match e.file_hdr {
        Some(x) => if x == r8syn() { outer_simple_name(match e.orig_class { Some(c) => c, None => cls }) } else { Some(x) },
        None => if e.orig_class is Some { None } else { frame_file },
    }
}

// frame produced for entry e and query frame f (f.class already holds the class's original name)
pub open spec fn entry_out(e: Entry, f: AFrame) -> AFrame {
    AFrame {
        class: match e.orig_class { Some(c) => c, None => f.class },
        method: e.orig_method,
        line: orig_line(e, f.line),
        file: out_file(e, f.class, f.file),
        parameters: f.parameters,
    }
}

// C03: parameter-based answer: line 0 and no file
pub open spec fn entry_out_params(e: Entry, f: AFrame) -> AFrame {
    AFrame {
        class: match e.orig_class { Some(c) => c, None => f.class },
        method: e.orig_method,
        line: 0,
        file: None,
        parameters: f.parameters,
    }
}

// C01 as a sequence function: one frame per applicable entry, in order
pub open spec fn retrace(es: Seq<Entry>, f: AFrame) -> Seq<AFrame>
    decreases es.len()
{
    if es.len() == 0 { Seq::empty() }
    else if applies(es[0], f.line) { seq![entry_out(es[0], f)] + retrace(es.drop_first(), f) }
    else { retrace(es.drop_first(), f) }
}

pub open spec fn by_params(es: Seq<Entry>, f: AFrame) -> Seq<AFrame> {
    Seq::new(es.len(), |i: int| entry_out_params(es[i], f))
}

// C04: method lookup answers iff non-empty and all entries agree on the original method
pub open spec fn unanimous_method(es: Seq<Entry>) -> Option<Seq<char>> {
    if es.len() > 0 && (forall|i: int| 0 <= i < es.len() ==> (#[trigger] es[i]).orig_method == es[0].orig_method) {
        Some(es[0].orig_method)
    } else {
        None
    }
}

// domain of the properties: all line numbers below 2^32-1
pub open spec fn entry_in_domain(e: Entry) -> bool {
    0 <= e.start < 0xffff_ffff && 0 <= e.end < 0xffff_ffff && 0 <= e.orig_start < 0xffff_ffff
    && (match e.orig_end { Some(x) => 0 <= x < 0xffff_ffff, None => true })
    // an entry without a usable range has no original range either (builder invariant, proved on the
    // interpretation blocks in unit u3)
    && (e.end == 0 ==> e.orig_end is None)
}

// ---- lemmas: one `next` step of the frame iterator is one step of `retrace` ----
pub proof fn lemma_retrace_none(es: Seq<Entry>, f: AFrame)
    requires forall|j: int| 0 <= j < es.len() ==> !applies(#[trigger] es[j], f.line),
    ensures retrace(es, f).len() == 0,
    decreases es.len(),
{
    if es.len() > 0 {
        assert(!applies(es[0], f.line));
        assert forall|j: int| 0 <= j < es.drop_first().len() implies !applies(#[trigger] es.drop_first()[j], f.line) by {
            assert(es.drop_first()[j] == es[j + 1]);
        }
        lemma_retrace_none(es.drop_first(), f);
    }
}

pub proof fn lemma_retrace_first(es: Seq<Entry>, f: AFrame, k: int)
    requires
        0 <= k < es.len(),
        forall|j: int| 0 <= j < k ==> !applies(#[trigger] es[j], f.line),
        applies(es[k], f.line),
    ensures
        retrace(es, f).len() > 0,
        retrace(es, f)[0] == entry_out(es[k], f),
        retrace(es, f).drop_first() == retrace(es.skip(k + 1), f),
    decreases k,
{
    if k == 0 {
        assert(es.drop_first() == es.skip(1));
        let r = seq![entry_out(es[0], f)] + retrace(es.drop_first(), f);
        assert(retrace(es, f) == r);
        assert(r.drop_first() == retrace(es.drop_first(), f));
    } else {
        assert(!applies(es[0], f.line));
        let t = es.drop_first();
        assert forall|j: int| 0 <= j < k - 1 implies !applies(#[trigger] t[j], f.line) by { assert(t[j] == es[j + 1]); }
        assert(t[k - 1] == es[k]);
        lemma_retrace_first(t, f, k - 1);
        assert(t.skip(k) == es.skip(k + 1));
    }
}

// ---- C04, last clause: whenever method lookup answers, every frame of line-based remapping of that class and method carries that name ----
pub proof fn lemma_all_frames_carry(es: Seq<Entry>, f: AFrame, m: Seq<char>)
    requires forall|i: int| 0 <= i < es.len() ==> (#[trigger] es[i]).orig_method == m,
    ensures forall|k: int| 0 <= k < retrace(es, f).len() ==> (#[trigger] retrace(es, f)[k]).method == m,
    decreases es.len(),
{
    if es.len() > 0 {
        let t = es.drop_first();
        assert forall|i: int| 0 <= i < t.len() implies (#[trigger] t[i]).orig_method == m by { assert(t[i] == es[i + 1]); }
        lemma_all_frames_carry(t, f, m);
        if applies(es[0], f.line) {
            let r = seq![entry_out(es[0], f)] + retrace(t, f);
            assert forall|k: int| 0 <= k < r.len() implies (#[trigger] r[k]).method == m by {
                if k == 0 { assert(es[0].orig_method == m); } else { assert(r[k] == retrace(t, f)[k - 1]); }
            }
        }
    }
}
pub proof fn lemma_method_lookup_agrees_with_line_based_frames(es: Seq<Entry>, f: AFrame)
    requires unanimous_method(es) is Some,
    ensures /*@L:frames_carry_the_looked_up_method_name:C04*/ forall|k: int| 0 <= k < retrace(es, f).len() ==> (#[trigger] retrace(es, f)[k]).method == unanimous_method(es)->0,
{
    lemma_all_frames_carry(es, f, es[0].orig_method);
}
