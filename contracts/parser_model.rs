// ---- byte-level vocabulary of the mapping-line parser (C05, C06, C13) ----
pub uninterp spec fn valid_utf8(b: Seq<u8>) -> bool;
pub open spec fn str_bytes(s: &str) -> Seq<u8> { s.spec_bytes() }

// `<[u8]>::trim_ascii_start` / `trim_ascii_end` / `trim_ascii`: ASCII white space (incl. CR and LF) removed at the ends
pub open spec fn is_ascii_ws(b: u8) -> bool { b == 9u8 || b == 10u8 || b == 12u8 || b == 13u8 || b == 32u8 }
pub open spec fn skip_ws(b: Seq<u8>) -> Seq<u8>
    decreases b.len()
{ if b.len() > 0 && is_ascii_ws(b[0]) { skip_ws(b.subrange(1, b.len() as int)) } else { b } }
pub open spec fn skip_ws_end(b: Seq<u8>) -> Seq<u8>
    decreases b.len()
{ if b.len() > 0 && is_ascii_ws(b[b.len() - 1]) { skip_ws_end(b.subrange(0, b.len() - 1)) } else { b } }
pub assume_specification<'a> [<[u8]>::trim_ascii_start] (s: &'a [u8]) -> (r: &'a [u8]) ensures r@ == skip_ws(s@);
pub assume_specification<'a> [<[u8]>::trim_ascii_end] (s: &'a [u8]) -> (r: &'a [u8]) ensures r@ == skip_ws_end(s@);
pub assume_specification<'a> [<[u8]>::trim_ascii] (s: &'a [u8]) -> (r: &'a [u8]) ensures r@ == skip_ws_end(skip_ws(s@));
pub assume_specification<'a> [std::str::from_utf8] (v: &'a [u8]) -> (r: Result<&'a str, std::str::Utf8Error>)
    ensures match r { Ok(s) => valid_utf8(v@) && str_bytes(s) == v@, Err(_) => !valid_utf8(v@) };

pub open spec fn spec_is_newline(b: u8) -> bool { b == 13u8 || b == 10u8 }
pub open spec fn no_nl(b: Seq<u8>) -> bool { forall|j: int| 0 <= j < b.len() ==> !spec_is_newline(#[trigger] b[j]) }
#[verifier::opaque]
pub open spec fn str_no_nl(s: &str) -> bool { no_nl(str_bytes(s)) }
pub open spec fn opt_no_nl(o: Option<&str>) -> bool { match o { Some(s) => str_no_nl(s), None => true } }

// leading line terminators removed
pub open spec fn skip_nl(b: Seq<u8>) -> Seq<u8>
    decreases b.len()
{
    if b.len() > 0 && spec_is_newline(b[0]) { skip_nl(b.subrange(1, b.len() as int)) } else { b }
}
pub proof fn lemma_skip_nl(b: Seq<u8>, k: int)
    requires 0 <= k <= b.len(), forall|j: int| 0 <= j < k ==> spec_is_newline(#[trigger] b[j]), k < b.len() ==> !spec_is_newline(b[k]),
    ensures skip_nl(b) == b.subrange(k, b.len() as int),
    decreases b.len()
{
    if b.len() > 0 && spec_is_newline(b[0]) {
        let t = b.subrange(1, b.len() as int);
        assert forall|j: int| 0 <= j < k - 1 implies spec_is_newline(#[trigger] t[j]) by { assert(t[j] == b[j + 1]); }
        if k < b.len() { assert(t[k - 1] == b[k]); }
        lemma_skip_nl(t, k - 1);
        assert(t.subrange(k - 1, t.len() as int) =~= b.subrange(k, b.len() as int));
    } else {
        assert(k == 0);
        assert(b.subrange(0, b.len() as int) =~= b);
    }
}
pub proof fn lemma_skip_nl_suffix(b: Seq<u8>)
    ensures exists|k: int| 0 <= k <= b.len() && #[trigger] b.subrange(k, b.len() as int) == skip_nl(b),
        skip_nl(b).len() <= b.len(),
    decreases b.len()
{
    if b.len() > 0 && spec_is_newline(b[0]) {
        let t = b.subrange(1, b.len() as int);
        lemma_skip_nl_suffix(t);
        let k = choose|k: int| 0 <= k <= t.len() && #[trigger] t.subrange(k, t.len() as int) == skip_nl(t);
        assert(b.subrange(k + 1, b.len() as int) =~= t.subrange(k, t.len() as int));
    } else {
        assert(b.subrange(0, b.len() as int) =~= b);
    }
}

// `rest` is what remains of `b` after a record was taken from within its first line: the consumed part [0, k) contains no
// line terminator, and `rest` is the remainder with the terminators that follow removed.  (C06: a record never swallows
// the following line.)
pub open spec fn taken_within_first_line(b: Seq<u8>, rest: Seq<u8>) -> bool {
    exists|k: int| 1 <= k <= b.len() && no_nl(#[trigger] b.subrange(0, k)) && rest == skip_nl(b.subrange(k, b.len() as int))
}
// the whole input was one record: nothing but line terminators follows it
pub open spec fn whole_input_taken(b: Seq<u8>) -> bool {
    exists|k: int| 1 <= k <= b.len() && no_nl(#[trigger] b.subrange(0, k)) && skip_nl(b.subrange(k, b.len() as int)).len() == 0
}
// index just after the first line terminator of b (or b.len() if there is none)
pub open spec fn line_end(b: Seq<u8>) -> int
    decreases b.len()
{
    if b.len() == 0 { 0 } else if spec_is_newline(b[0]) { 1 } else { 1 + line_end(b.subrange(1, b.len() as int)) }
}
pub proof fn lemma_line_end_bounds(b: Seq<u8>)
    ensures 0 <= line_end(b) <= b.len(), b.len() > 0 ==> line_end(b) >= 1,
    decreases b.len()
{ if b.len() > 0 && !spec_is_newline(b[0]) { lemma_line_end_bounds(b.subrange(1, b.len() as int)); } }
pub proof fn lemma_line_end(b: Seq<u8>, p: int)
    requires 0 <= p <= b.len(), forall|j: int| 0 <= j < p ==> !spec_is_newline(#[trigger] b[j]), p < b.len() ==> spec_is_newline(b[p]),
    ensures line_end(b) == (if p < b.len() { p + 1 } else { p }),
    decreases b.len()
{
    if b.len() == 0 { } else if spec_is_newline(b[0]) { assert(p == 0); } else {
        let t = b.subrange(1, b.len() as int);
        assert forall|j: int| 0 <= j < p - 1 implies !spec_is_newline(#[trigger] t[j]) by { assert(t[j] == b[j + 1]); }
        if p < b.len() { assert(t[p - 1] == b[p]); }
        lemma_line_end(t, p - 1);
    }
}

// ---- R2 shims for std calls outside Verus' reach (bodies = the replaced expression) ----
#[verifier::external_body]
fn shim_strip_prefix<'a>(s: &'a [u8], prefix: &[u8]) -> (r: Option<&'a [u8]>)
    ensures match r { Some(t) => prefix@.len() <= s@.len() && s@.subrange(0, prefix@.len() as int) == prefix@ && t@ == s@.subrange(prefix@.len() as int, s@.len() as int),
                      None => !(prefix@.len() <= s@.len() && s@.subrange(0, prefix@.len() as int) == prefix@) }
{ s.strip_prefix(prefix) }

#[verifier::external_body]
fn shim_starts_with(s: &[u8], prefix: &[u8]) -> (r: bool)
    ensures r == (prefix@.len() <= s@.len() && s@.subrange(0, prefix@.len() as int) == prefix@)
{ s.starts_with(prefix) }

#[verifier::external_body]
fn shim_empty_u8<'a>() -> (r: &'a [u8]) ensures r@.len() == 0 { &[] as &[u8] }

#[verifier::external_body]
fn shim_slice_position<'a, T, P: FnMut(&'a T) -> bool>(s: &'a [T], p: P) -> (r: Option<usize>)
    requires forall|i: int| 0 <= i < s@.len() ==> #[trigger] call_requires(p, (&s@[i],)),
    ensures match r {
        Some(k) => k < s@.len() && call_ensures(p, (&s@[k as int],), true)
            && forall|j: int| 0 <= j < k ==> call_ensures(p, (& #[trigger] s@[j],), false),
        None => forall|j: int| 0 <= j < s@.len() ==> call_ensures(p, (& #[trigger] s@[j],), false),
    }
{ s.iter().position(p) }

// `(b as char).is_numeric()`: ASCII digits and six Latin-1 code points (validated exhaustively by tools/native/is_numeric_table.rs)
pub open spec fn spec_byte_is_numeric(b: u8) -> bool {
    (48u8 <= b && b <= 57u8) || b == 0xB2u8 || b == 0xB3u8 || b == 0xB9u8 || b == 0xBCu8 || b == 0xBDu8 || b == 0xBEu8
}
// `(b as char).is_whitespace()`: the ASCII white space plus NEL (0x85) and NBSP (0xA0) (validated by tools/native/is_numeric_table.rs)
pub open spec fn spec_byte_is_whitespace(b: u8) -> bool { (9 <= b && b <= 13) || b == 32 || b == 0x85 || b == 0xA0 }
#[verifier::external_body]
fn shim_byte_is_whitespace(b: u8) -> (r: bool) ensures r == spec_byte_is_whitespace(b) { (b as char).is_whitespace() }
#[verifier::external_body]
fn shim_byte_is_numeric(b: u8) -> (r: bool) ensures r == spec_byte_is_numeric(b) { (b as char).is_numeric() }

// str::parse::<usize>: abstract partial function of the contents
pub uninterp spec fn spec_parse_usize(s: Seq<u8>) -> Option<usize>;
#[verifier::external_body]
fn shim_parse_usize(s: &str) -> (r: Result<usize, ()>)
    ensures match r { Ok(v) => spec_parse_usize(str_bytes(s)) == Some(v), Err(_) => spec_parse_usize(str_bytes(s)) is None }
{ s.parse().map_err(|_| ()) }

// str::trim: a sub-slice of the argument (leading/trailing whitespace removed)
pub uninterp spec fn spec_trim(s: Seq<u8>) -> Seq<u8>;
#[verifier::external_body]
fn shim_trim<'a>(s: &'a str) -> (r: &'a str)
    ensures str_bytes(r) == spec_trim(str_bytes(s)),
        exists|a: int, b: int| 0 <= a <= b <= str_bytes(s).len() && str_bytes(r) == #[trigger] str_bytes(s).subrange(a, b),
{ s.trim() }

pub proof fn lemma_sub_no_nl(s: Seq<u8>, a: int, b: int)
    requires no_nl(s), 0 <= a <= b <= s.len(),
    ensures no_nl(s.subrange(a, b)),
{
    assert forall|j: int| 0 <= j < s.subrange(a, b).len() implies !spec_is_newline(#[trigger] s.subrange(a, b)[j]) by { assert(s.subrange(a, b)[j] == s[a + j]); }
}

// the three `rsplitn(2, '.')` statements of the member-line parser (trusted region): split at the LAST '.'
pub uninterp spec fn spec_last_dot(s: Seq<u8>) -> Option<int>;   // index of the last '.' (46), None if there is none
#[verifier::external_body]
fn shim_rsplit_class<'a>(original: &'a str, n: usize) -> (r: (&'a str, Option<&'a str>))
    requires /*@L:class_is_split_off_with_rsplitn_2:C05*/ n == 2,   // the contract below is what `rsplitn(2, '.')` does; any other count is not covered by it
    ensures ({ let s = str_bytes(original);
        match spec_last_dot(s) {
            Some(d) => 0 <= d < s.len() && s[d] == 46u8 && r.1 is Some && str_bytes(r.1->0) == s.subrange(0, d) && str_bytes(r.0) == s.subrange(d + 1, s.len() as int)
                && (forall|j: int| d < j < s.len() ==> s[j] != 46u8),
            None => r.1 is None && r.0 == original && (forall|j: int| 0 <= j < s.len() ==> s[j] != 46u8),
        } }),
{ let mut split_class = original.rsplitn(n, '.'); let o = split_class.next().unwrap(); (o, split_class.next()) }
