// ---- the record stream of a mapping as a spec sequence (C19, C06) ----
#[verifier::external_type_specification]
#[verifier::external_body]
pub struct ExUtf8Error(std::str::Utf8Error);

// `parse_proguard_record` is a function of the byte contents (no hidden state): its two results are named.
pub uninterp spec fn r_of<'s>(b: Seq<u8>) -> Result<ProguardRecord<'s>, ParseError<'s>>;
pub uninterp spec fn rest_of(b: Seq<u8>) -> Seq<u8>;

pub open spec fn records<'s>(b: Seq<u8>) -> Seq<Result<ProguardRecord<'s>, ParseError<'s>>>
    decreases b.len()
{
    if b.len() == 0 || !(rest_of(b).len() < b.len()) { Seq::empty() } else { seq![r_of(b)] + records(rest_of(b)) }
}

// C06: at most one item per input byte
pub proof fn lemma_records_len<'s>(b: Seq<u8>)
    ensures records(b).len() <= b.len(),
    decreases b.len(),
{
    if b.len() == 0 || !(rest_of(b).len() < b.len()) { } else { lemma_records_len(rest_of(b)); }
}
