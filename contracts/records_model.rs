// ---- the record stream of a mapping as a spec sequence (C19, C06) ----
#[verifier::external_type_specification]
#[verifier::external_body]
pub struct ExUtf8Error(std::str::Utf8Error);

// `parse_proguard_record` is a function of the byte contents (no hidden state): its two results are named.
pub uninterp spec fn r_of<'s>(b: Seq<u8>) -> Result<ProguardRecord<'s>, ParseError<'s>>;
pub uninterp spec fn rest_of(b: Seq<u8>) -> Seq<u8>;

// the item stream of a mapping: line terminators are skipped first (they carry no record -- also at the end of the input), then one item at a time
pub open spec fn records<'s>(b: Seq<u8>) -> Seq<Result<ProguardRecord<'s>, ParseError<'s>>>
    decreases b.len()
{
    let b1 = skip_nl(b);
    if b1.len() == 0 || !(b1.len() <= b.len()) || !(rest_of(b1).len() < b1.len()) { Seq::empty() } else { seq![r_of(b1)] + records(rest_of(b1)) }
}

// C06: at most one item per input byte
pub proof fn lemma_records_len<'s>(b: Seq<u8>)
    ensures records(b).len() <= b.len(),
    decreases b.len(),
{
    let b1 = skip_nl(b);
    if b1.len() == 0 || !(b1.len() <= b.len()) || !(rest_of(b1).len() < b1.len()) { } else { lemma_records_len(rest_of(b1)); }
}
