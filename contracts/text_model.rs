// ---- byte-level model of `&str` for panic-freedom of index arithmetic and slicing (unit u11) ----
// std's documented panics of `str` slicing become PRECONDITIONS of the shims below; the total operations
// (`get`, `split_once`, `strip_prefix`, ...) get no precondition and say nothing (or very little) about their result.
// Everything in this file is ASSUMED (it restates the std documentation); it is listed in the trusted base.
pub uninterp spec fn sb(s: &str) -> Seq<u8>;             // the UTF-8 bytes of s
pub uninterp spec fn is_cb(s: &str, i: int) -> bool;      // str::is_char_boundary
pub open spec fn is_ascii_char(c: char) -> bool { (c as u32) < 128 }
pub uninterp spec fn spec_trim(s: Seq<u8>) -> Seq<u8>;                 // str::trim on the byte view
pub uninterp spec fn spec_parse_usize(s: Seq<u8>) -> Option<usize>;    // str::parse::<usize>().ok() on the byte view
// first occurrence of a non-empty pattern
pub uninterp spec fn first_occ(s: Seq<u8>, pat: Seq<u8>) -> Option<int>;
#[verifier::external_body]
pub proof fn axiom_first_occ(s: Seq<u8>, pat: Seq<u8>)
    requires pat.len() > 0,
    ensures match first_occ(s, pat) {
        Some(i) => 0 <= i && i + pat.len() <= s.len() && s.subrange(i, i + pat.len()) == pat
            && forall|j: int| 0 <= j < i ==> #[trigger] s.subrange(j, j + pat.len()) != pat,
        None => forall|j: int| 0 <= j && j + pat.len() <= s.len() ==> #[trigger] s.subrange(j, j + pat.len()) != pat,
    },
{}

// 0 and len are char boundaries; a position holding an ASCII byte is a boundary and so is the position after it
#[verifier::external_body]
pub proof fn axiom_str_boundaries(s: &str)
    ensures
        is_cb(s, 0), is_cb(s, sb(s).len() as int),
        forall|i: int| 0 <= i < sb(s).len() && #[trigger] sb(s)[i] < 128 ==> is_cb(s, i) && is_cb(s, i + 1),
{}

#[verifier::external_body]
fn shim_str_len(s: &str) -> (r: usize) ensures r == sb(s).len() { s.len() }
#[verifier::external_body]
fn shim_str_is_empty(s: &str) -> (r: bool) ensures r == (sb(s).len() == 0) { s.is_empty() }
#[verifier::external_body]
fn shim_str_trim<'a>(s: &'a str) -> (r: &'a str)
    // a trimmed string neither starts nor ends with a space (U+0020 is White_Space); which bytes are removed is abstract
    ensures sb(r) == spec_trim(sb(s)), sb(r).len() > 0 ==> sb(r)[0] != 32 && sb(r)[sb(r).len() - 1] != 32,
{ s.trim() }
// ---- functional forms: first / last occurrence of a byte, and the two splits built on them ----
pub open spec fn first_byte(s: Seq<u8>, c: u8) -> Option<int>
    decreases s.len()
{
    if s.len() == 0 { None } else if s[0] == c { Some(0int) } else { match first_byte(s.subrange(1, s.len() as int), c) { Some(i) => Some(i + 1), None => None } }
}
pub open spec fn last_byte(s: Seq<u8>, c: u8) -> Option<int>
    decreases s.len()
{
    if s.len() == 0 { None } else if s[s.len() - 1] == c { Some(s.len() - 1) } else { last_byte(s.subrange(0, s.len() - 1), c) }
}
pub open spec fn split_first(s: Seq<u8>, c: u8) -> Option<(Seq<u8>, Seq<u8>)> {
    match first_byte(s, c) { Some(i) => Some((s.subrange(0, i), s.subrange(i + 1, s.len() as int))), None => None }
}
pub open spec fn split_last(s: Seq<u8>, c: u8) -> Option<(Seq<u8>, Seq<u8>)> {
    match last_byte(s, c) { Some(i) => Some((s.subrange(0, i), s.subrange(i + 1, s.len() as int))), None => None }
}
pub open spec fn has_prefix8(s: Seq<u8>, p: Seq<u8>) -> bool { p.len() <= s.len() && s.subrange(0, p.len() as int) == p }
pub proof fn lemma_first_byte(s: Seq<u8>, c: u8)
    ensures match first_byte(s, c) {
        Some(i) => 0 <= i < s.len() && s[i] == c && !s.subrange(0, i).contains(c),
        None => !s.contains(c),
    },
    decreases s.len()
{
    if s.len() == 0 { } else if s[0] == c { assert(s.subrange(0, 0).len() == 0); } else {
        let t = s.subrange(1, s.len() as int);
        lemma_first_byte(t, c);
        match first_byte(t, c) {
            Some(i) => {
                let pre = s.subrange(0, i + 1);
                if pre.contains(c) { let j = choose|j: int| 0 <= j < pre.len() && pre[j] == c; assert(j > 0); assert(t.subrange(0, i)[j - 1] == c); }
            },
            None => { if s.contains(c) { let j = choose|j: int| 0 <= j < s.len() && s[j] == c; assert(t[j - 1] == c); } },
        }
    }
}
pub proof fn lemma_last_byte(s: Seq<u8>, c: u8)
    ensures match last_byte(s, c) {
        Some(i) => 0 <= i < s.len() && s[i] == c && !s.subrange(i + 1, s.len() as int).contains(c),
        None => !s.contains(c),
    },
    decreases s.len()
{
    if s.len() == 0 { } else if s[s.len() - 1] == c { assert(s.subrange(s.len() as int, s.len() as int).len() == 0); } else {
        let t = s.subrange(0, s.len() - 1);
        lemma_last_byte(t, c);
        match last_byte(t, c) {
            Some(i) => {
                let suf = s.subrange(i + 1, s.len() as int);
                if suf.contains(c) { let j = choose|j: int| 0 <= j < suf.len() && suf[j] == c; assert(j < suf.len() - 1); assert(t.subrange(i + 1, t.len() as int)[j] == c); }
            },
            None => { if s.contains(c) { let j = choose|j: int| 0 <= j < s.len() && s[j] == c; assert(t[j] == c); } },
        }
    }
}
// splitting a concatenation `a ++ [c] ++ b` gives back (a, b) when the delimiter does not occur on the relevant side
pub proof fn lemma_split_first_concat(a: Seq<u8>, c: u8, b: Seq<u8>)
    requires !a.contains(c),
    ensures split_first(a + seq![c] + b, c) == Some((a, b)),
    decreases a.len()
{
    let s = a + seq![c] + b;
    if a.len() == 0 { assert(s[0] == c); assert(s.subrange(0, 0) =~= a); assert(s.subrange(1, s.len() as int) =~= b); } else {
        assert(s[0] == a[0]); assert(a.contains(a[0]));
        let a1 = a.subrange(1, a.len() as int);
        if a1.contains(c) { let j = choose|j: int| 0 <= j < a1.len() && a1[j] == c; assert(a[j + 1] == c); }
        assert(s.subrange(1, s.len() as int) =~= a1 + seq![c] + b);
        lemma_split_first_concat(a1, c, b);
        let i = first_byte(a1 + seq![c] + b, c)->0;
        lemma_first_byte(a1 + seq![c] + b, c);
        assert((a1 + seq![c] + b).subrange(0, i) == a1);
        assert((a1 + seq![c] + b).subrange(0, i).len() == i);
        assert(i == a1.len());
        assert(s.subrange(0, i + 1) =~= a); assert(s.subrange(i + 2, s.len() as int) =~= b);
    }
}
pub proof fn lemma_split_last_concat(a: Seq<u8>, c: u8, b: Seq<u8>)
    requires !b.contains(c),
    ensures split_last(a + seq![c] + b, c) == Some((a, b)),
    decreases b.len()
{
    let s = a + seq![c] + b;
    if b.len() == 0 { assert(s[s.len() - 1] == c); assert(s.subrange(0, s.len() - 1) =~= a); assert(s.subrange(s.len() as int, s.len() as int) =~= b); } else {
        let n = b.len() as int;
        assert(s[s.len() - 1] == b[n - 1]); assert(b.contains(b[n - 1]));
        let b1 = b.subrange(0, n - 1);
        if b1.contains(c) { let j = choose|j: int| 0 <= j < b1.len() && b1[j] == c; assert(b[j] == c); }
        assert(s.subrange(0, s.len() - 1) =~= a + seq![c] + b1);
        lemma_split_last_concat(a, c, b1);
        let i = last_byte(a + seq![c] + b1, c)->0;
        lemma_last_byte(a + seq![c] + b1, c);
        assert((a + seq![c] + b1).subrange(0, i) == a);
        assert((a + seq![c] + b1).subrange(0, i).len() == i);
        assert(i == a.len());
        assert(s.subrange(0, i) =~= a); assert(s.subrange(i + 1, s.len() as int) =~= b);
    }
}
// `s.starts_with(p)` for a string pattern
#[verifier::external_body]
fn shim_str_starts_with(s: &str, p: &str) -> (r: bool)
    ensures r == has_prefix8(sb(s), sb(p)), r ==> sb(p).len() <= sb(s).len() && sb(s).subrange(0, sb(p).len() as int) == sb(p) && is_cb(s, sb(p).len() as int),
{ s.starts_with(p) }
// `s.ends_with(c)` for an ASCII char pattern
#[verifier::external_body]
fn shim_str_ends_with_char(s: &str, c: char) -> (r: bool)
    requires is_ascii_char(c),
    ensures r == (sb(s).len() >= 1 && sb(s)[sb(s).len() - 1] == c as u8), r ==> is_cb(s, sb(s).len() - 1),
{ s.ends_with(c) }
#[verifier::external_body]
fn shim_str_ends_with_chars<const N: usize>(s: &str, cs: [char; N]) -> (r: bool) { s.ends_with(cs) }
// `&s[a..b]`: panics unless a <= b <= len and both are char boundaries
#[verifier::external_body]
fn shim_str_slice<'a>(s: &'a str, a: usize, b: usize) -> (r: &'a str)
    requires a <= b <= sb(s).len(), is_cb(s, a as int), is_cb(s, b as int),
    ensures sb(r) == sb(s).subrange(a as int, b as int),
{ &s[a..b] }
// `&s[a..=b]`: panics unless a <= b + 1, b < len and a, b + 1 are char boundaries
#[verifier::external_body]
fn shim_str_slice_incl<'a>(s: &'a str, a: usize, b: usize) -> (r: &'a str)
    requires a <= b + 1, b < sb(s).len(), is_cb(s, a as int), is_cb(s, b + 1),
    ensures sb(r) == sb(s).subrange(a as int, b + 1),
{ &s[a..=b] }
// `&s[a..]`
#[verifier::external_body]
fn shim_str_slice_from<'a>(s: &'a str, a: usize) -> (r: &'a str)
    requires a <= sb(s).len(), is_cb(s, a as int),
    ensures sb(r) == sb(s).subrange(a as int, sb(s).len() as int),
{ &s[a..] }
// `&s[..b]`
#[verifier::external_body]
fn shim_str_slice_to<'a>(s: &'a str, b: usize) -> (r: &'a str)
    requires b <= sb(s).len(), is_cb(s, b as int),
    ensures sb(r) == sb(s).subrange(0, b as int),
{ &s[..b] }
// `s.get(a..b)`: total
#[verifier::external_body]
fn shim_str_get<'a>(s: &'a str, a: usize, b: usize) -> (r: Option<&'a str>)
    ensures r is Some ==> a <= b <= sb(s).len() && is_cb(s, a as int) && is_cb(s, b as int) && sb(r->Some_0) == sb(s).subrange(a as int, b as int),
{ s.get(a..b) }
#[verifier::external_body]
fn shim_str_get_incl<'a>(s: &'a str, a: usize, b: usize) -> (r: Option<&'a str>) { s.get(a..=b) }
#[verifier::external_body]
fn shim_str_split_once_char<'a>(s: &'a str, c: char) -> (r: Option<(&'a str, &'a str)>)
    requires is_ascii_char(c),
    // split at the FIRST occurrence: the left part does not contain the delimiter
    ensures match r { Some((a, b)) => sb(s) == sb(a) + seq![c as u8] + sb(b) && !sb(a).contains(c as u8), None => !sb(s).contains(c as u8) },
        match r { Some((a, b)) => split_first(sb(s), c as u8) == Some((sb(a), sb(b))), None => split_first(sb(s), c as u8) is None },
{ s.split_once(c) }
// `s.split_once(pat)` with a string pattern: split at the first occurrence
#[verifier::external_body]
fn shim_str_split_once_str<'a>(s: &'a str, pat: &str) -> (r: Option<(&'a str, &'a str)>)
    requires sb(pat).len() > 0,
    ensures match (r, first_occ(sb(s), sb(pat))) {
        (Some((a, b)), Some(i)) => sb(a) == sb(s).subrange(0, i) && sb(b) == sb(s).subrange(i + sb(pat).len(), sb(s).len() as int),
        (None, None) => true,
        _ => false,
    },
{ s.split_once(pat) }
#[verifier::external_body]
fn shim_str_rsplit_once_char<'a>(s: &'a str, c: char) -> (r: Option<(&'a str, &'a str)>)
    requires is_ascii_char(c),
    // split at the LAST occurrence: the right part does not contain the delimiter
    ensures match r { Some((a, b)) => sb(s) == sb(a) + seq![c as u8] + sb(b) && !sb(b).contains(c as u8), None => !sb(s).contains(c as u8) },
        match r { Some((a, b)) => split_last(sb(s), c as u8) == Some((sb(a), sb(b))), None => split_last(sb(s), c as u8) is None },
{ s.rsplit_once(c) }
#[verifier::external_body]
fn shim_str_strip_prefix_char<'a>(s: &'a str, c: char) -> (r: Option<&'a str>) { s.strip_prefix(c) }
#[verifier::external_body]
fn shim_str_parse_usize(s: &str) -> (r: Option<usize>) ensures r == spec_parse_usize(sb(s)) { s.parse().ok() }
// `s.parse::<u32>().ok()`: the unsigned parsers accept the same strings; the narrower one fails on values that do not fit (std: FromStr for unsigned integers)
#[verifier::external_body]
fn shim_str_parse_u32(s: &str) -> (r: Option<u32>)
    ensures r == (match spec_parse_usize(sb(s)) { Some(v) => if v <= 0xffff_ffffusize { Some(v as u32) } else { None::<u32> }, None => None::<u32> }),
{ s.parse::<u32>().ok() }
#[verifier::external_body]
fn shim_str_contains_char(s: &str, c: char) -> (r: bool) requires is_ascii_char(c), ensures r == sb(s).contains(c as u8) { s.contains(c) }

// ---- str::splitn(2, pat) / str::split(pat) with a string pattern: the pieces still to come (stand-in for SplitN / Split) ----
pub struct StrPieces<'a> { pub rest: Ghost<Seq<&'a str>> }
pub open spec fn pieces_bytes<'a>(p: Seq<&'a str>) -> Seq<Seq<u8>> { p.map_values(|x: &'a str| sb(x)) }
pub open spec fn splitn2(t: Seq<u8>, pat: Seq<u8>) -> Seq<Seq<u8>> {
    match first_occ(t, pat) { Some(i) => seq![t.subrange(0, i), t.subrange(i + pat.len(), t.len() as int)], None => seq![t] }
}
pub uninterp spec fn split_all(t: Seq<u8>, pat: Seq<u8>) -> Seq<Seq<u8>>;
#[verifier::external_body]
pub proof fn axiom_split_all(t: Seq<u8>, pat: Seq<u8>)
    requires pat.len() > 0,
    ensures split_all(t, pat) == (match first_occ(t, pat) { Some(i) => seq![t.subrange(0, i)] + split_all(t.subrange(i + pat.len(), t.len() as int), pat), None => seq![t] }),
{}
#[verifier::external_body]
fn shim_str_splitn<'a>(s: &'a str, n: usize, pat: &str) -> (r: StrPieces<'a>)
    requires n == 2, sb(pat).len() > 0,   // only the two-piece form is modelled
    ensures pieces_bytes(r.rest@) == splitn2(sb(s), sb(pat)),
{ unimplemented!() /* s.splitn(n, pat) */ }
// `s.split(c)` with a char pattern: pieces by occurrences of the one-byte pattern
#[verifier::external_body]
fn shim_str_split_char<'a>(s: &'a str, c: char) -> (r: StrPieces<'a>)
    requires is_ascii_char(c),
    ensures pieces_bytes(r.rest@) == split_all(sb(s), seq![c as u8]),
{ unimplemented!() /* s.split(c) */ }
#[verifier::external_body]
fn shim_str_split<'a>(s: &'a str, pat: &str) -> (r: StrPieces<'a>)
    requires sb(pat).len() > 0,
    ensures pieces_bytes(r.rest@) == split_all(sb(s), sb(pat)),
{ unimplemented!() /* s.split(pat) */ }
#[verifier::external_body]
fn shim_pieces_last<'a>(p: StrPieces<'a>) -> (r: Option<&'a str>)
    ensures match r { Some(x) => p.rest@.len() > 0 && x == p.rest@.last(), None => p.rest@.len() == 0 },
{ unimplemented!() /* p.last() */ }
#[verifier::external_body]
fn shim_pieces_next<'a>(p: &mut StrPieces<'a>) -> (r: Option<&'a str>)
    ensures match r {
        Some(x) => old(p).rest@.len() > 0 && x == old(p).rest@[0] && final(p).rest@ == old(p).rest@.drop_first(),
        None => old(p).rest@.len() == 0 && final(p).rest@ == old(p).rest@,
    },
{ unimplemented!() /* p.next() */ }

// ---- str::char_indices ----
#[verifier::external_type_specification]
#[verifier::external_body]
pub struct ExCharIndices<'a>(std::str::CharIndices<'a>);
pub uninterp spec fn ci_len(it: std::str::CharIndices) -> int;     // byte length of the underlying string
pub uninterp spec fn ci_pos(it: std::str::CharIndices) -> int;     // byte position of the next char (== len when exhausted)
pub uninterp spec fn ci_cb(it: std::str::CharIndices, i: int) -> bool;   // is_char_boundary of the underlying string
pub uninterp spec fn ci_bytes(it: std::str::CharIndices) -> Seq<u8>;     // the UTF-8 bytes of the underlying string
#[verifier::external_body]
fn shim_char_indices<'a>(s: &'a str) -> (r: std::str::CharIndices<'a>)
    ensures ci_len(r) == sb(s).len(), ci_pos(r) == 0, sb(s).len() <= usize::MAX, forall|i: int| #[trigger] ci_cb(r, i) == is_cb(s, i),
        ci_bytes(r) == sb(s),
{ s.char_indices() }
// CharIndices::next: yields (byte index of the char, char); indices are strictly increasing and < len
#[verifier::external_body]
fn shim_ci_next<'a>(it: &mut std::str::CharIndices<'a>) -> (r: Option<(usize, char)>)
    ensures
        ci_len(*final(it)) == ci_len(*old(it)), ci_bytes(*final(it)) == ci_bytes(*old(it)),
        forall|i: int| #[trigger] ci_cb(*final(it), i) == ci_cb(*old(it), i),
        // UTF-8: an ASCII char is its byte; every byte of a non-ASCII char is >= 0x80
        match r {
            Some((i, c)) => if is_ascii_char(c) { ci_bytes(*old(it))[i as int] == c as u8 }
                            else { forall|j: int| i <= j < ci_pos(*final(it)) ==> #[trigger] ci_bytes(*old(it))[j] >= 128u8 },
            None => true,
        },
        match r {
            // the char starts at a boundary, the next one too; an ASCII char is one byte long
            Some((i, c)) => i == ci_pos(*old(it)) && i < ci_len(*old(it)) && i < ci_pos(*final(it)) <= ci_len(*old(it))
                && ci_cb(*old(it), i as int) && ci_cb(*old(it), ci_pos(*final(it))) && (is_ascii_char(c) ==> ci_pos(*final(it)) == i + 1),
            None => ci_pos(*final(it)) == ci_pos(*old(it)) && ci_pos(*old(it)) == ci_len(*old(it)),
        },
{ it.next() }
