// ---- representation relation: raw cache records -> abstract entries ----
// Abstract string-table function: `tbl(bytes, off)` is what `StringTable::read(bytes, off)` returns.
// (watto dependency, unverified: assumed to be a total function of (bytes, offset) that fails past the end.)
pub uninterp spec fn tbl(bytes: Seq<u8>, offset: u32) -> Option<Seq<char>>;

pub open spec fn absent() -> u32 { 0xffff_ffffu32 }

pub open spec fn abs_member(sb: Seq<u8>, m: raw::Member) -> Entry {
    Entry {
        start: m.startline as int,
        end: m.endline as int,
        orig_class: if m.original_class_offset == absent() { None } else { tbl(sb, m.original_class_offset) },
        orig_method: match tbl(sb, m.original_name_offset) { Some(s) => s, None => Seq::empty() },
        orig_start: m.original_startline as int,
        orig_end: if m.original_endline == absent() { None } else { Some(m.original_endline as int) },
        file_hdr: if m.original_file_offset == absent() { None } else { tbl(sb, m.original_file_offset) },
    }
}

// every string reference of the member is readable or the documented "absent" sentinel
pub open spec fn member_strings_ok(sb: Seq<u8>, m: raw::Member) -> bool {
    tbl(sb, m.obfuscated_name_offset) is Some
    && tbl(sb, m.original_name_offset) is Some
    && (m.original_class_offset != absent() ==> tbl(sb, m.original_class_offset) is Some)
    && (m.original_file_offset != absent() ==> tbl(sb, m.original_file_offset) is Some)
}

// representation invariant of a member written by the cache writer for a mapping in the property's domain
pub open spec fn wf_member(sb: Seq<u8>, m: raw::Member) -> bool {
    member_strings_ok(sb, m) && entry_in_domain(abs_member(sb, m)) && tbl(sb, absent()) is None
}

pub open spec fn wf_members(sb: Seq<u8>, ms: Seq<&raw::Member>) -> bool {
    forall|i: int| 0 <= i < ms.len() ==> wf_member(sb, *#[trigger] ms[i])
}

pub open spec fn abs_members(sb: Seq<u8>, ms: Seq<&raw::Member>) -> Seq<Entry> {
    Seq::new(ms.len(), |i: int| abs_member(sb, *ms[i]))
}

// what the reader does with records of a *corrupt* file: unreadable method / file strings make it skip the record
pub open spec fn readable(sb: Seq<u8>, m: raw::Member) -> bool {
    tbl(sb, m.original_name_offset) is Some
    && (m.original_file_offset != absent() ==> tbl(sb, m.original_file_offset) is Some)
}

// ---- lookup side: comparators and the sortedness part of the representation invariant ----
pub open spec fn class_cmp(sb: Seq<u8>, c: raw::Class, name: Seq<char>) -> Ordering {
    match tbl(sb, c.obfuscated_name_offset) { Some(s) => seq_cmp(s, name), None => Ordering::Greater }
}

// "class entries strictly sorted by obfuscated name" (C09; produced by the writer's BTreeMap -- assumed there)
pub open spec fn classes_sorted(sb: Seq<u8>, cs: Seq<raw::Class>) -> bool {
    (forall|i: int| 0 <= i < cs.len() ==> tbl(sb, (#[trigger] cs[i]).obfuscated_name_offset) is Some)
    && (forall|i: int, j: int| 0 <= i < j < cs.len() ==>
            seq_cmp(tbl(sb, (#[trigger] cs[i]).obfuscated_name_offset).unwrap(), tbl(sb, (#[trigger] cs[j]).obfuscated_name_offset).unwrap()) == Ordering::Less)
}

pub open spec fn member_cmp(sb: Seq<u8>, m: raw::Member, name: Seq<char>) -> Ordering {
    match tbl(sb, m.obfuscated_name_offset) { Some(s) => seq_cmp(s, name), None => Ordering::Greater }
}

pub open spec fn member_name(sb: Seq<u8>, m: raw::Member) -> Seq<char> { tbl(sb, m.obfuscated_name_offset).unwrap() }

// "member entries sorted by obfuscated name within a class"
pub open spec fn members_sorted(sb: Seq<u8>, ms: Seq<raw::Member>) -> bool {
    (forall|i: int| 0 <= i < ms.len() ==> tbl(sb, (#[trigger] ms[i]).obfuscated_name_offset) is Some)
    && (forall|i: int, j: int| 0 <= i < j < ms.len() ==>
            seq_cmp(member_name(sb, #[trigger] ms[i]), member_name(sb, #[trigger] ms[j])) != Ordering::Greater)
}

pub open spec fn member_params(sb: Seq<u8>, m: raw::Member) -> Seq<char> {
    match tbl(sb, m.params_offset) { Some(s) => s, None => Seq::empty() }
}

pub open spec fn lex2(a: Ordering, b: Ordering) -> Ordering { if a != Ordering::Equal { a } else { b } }

pub open spec fn member_cmp2(sb: Seq<u8>, m: raw::Member, name: Seq<char>, params: Seq<char>) -> Ordering {
    match tbl(sb, m.obfuscated_name_offset) {
        Some(s) => lex2(seq_cmp(s, name), seq_cmp(member_params(sb, m), params)),
        None => Ordering::Greater,
    }
}

// "by (name, params) in the by-params section"
pub open spec fn members_sorted2(sb: Seq<u8>, ms: Seq<raw::Member>) -> bool {
    (forall|i: int| 0 <= i < ms.len() ==> tbl(sb, (#[trigger] ms[i]).obfuscated_name_offset) is Some)
    && (forall|i: int, j: int| 0 <= i < j < ms.len() ==>
            lex2(seq_cmp(member_name(sb, #[trigger] ms[i]), member_name(sb, #[trigger] ms[j])),
                 seq_cmp(member_params(sb, ms[i]), member_params(sb, ms[j]))) != Ordering::Greater)
}
