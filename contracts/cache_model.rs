// ---- representation relation: raw cache records -> abstract entries ----
// Abstract string-table function: `tbl(bytes, off)` is what `StringTable::read(bytes, off)` returns.
// (watto dependency, unverified: assumed to be a total function of (bytes, offset) that fails past the end.)
pub uninterp spec fn tbl(bytes: Seq<u8>, offset: u32) -> Option<Seq<char>>;

pub open spec fn absent() -> u32 { 0xffff_ffffu32 }

pub open spec fn abs_member(sb: Seq<u8>, m: raw::Member) -> Entry {
    Entry {
        start: m.startline as int,
        end: m.endline as int,
        orig_class: if m.original_class_offset == absent() { None } else { tbl(sb, m.original_class_offset) },
        orig_method: match tbl(sb, m.original_name_offset) { Some(s) => s, None => Seq::empty() },
        orig_start: m.original_startline as int,
        orig_end: if m.original_endline == absent() { None } else { Some(m.original_endline as int) },
        file_hdr: if m.original_file_offset == absent() { None } else { tbl(sb, m.original_file_offset) },
    }
}

// every string reference of the member is readable or the documented "absent" sentinel
pub open spec fn member_strings_ok(sb: Seq<u8>, m: raw::Member) -> bool {
    tbl(sb, m.obfuscated_name_offset) is Some
    && tbl(sb, m.original_name_offset) is Some
    && (m.original_class_offset != absent() ==> tbl(sb, m.original_class_offset) is Some)
    && (m.original_file_offset != absent() ==> tbl(sb, m.original_file_offset) is Some)
}

// representation invariant of a member written by the cache writer for a mapping in the property's domain
pub open spec fn wf_member(sb: Seq<u8>, m: raw::Member) -> bool {
    member_strings_ok(sb, m) && entry_in_domain(abs_member(sb, m)) && tbl(sb, absent()) is None
}

pub open spec fn wf_members(sb: Seq<u8>, ms: Seq<&raw::Member>) -> bool {
    forall|i: int| 0 <= i < ms.len() ==> wf_member(sb, *#[trigger] ms[i])
}

pub open spec fn abs_members(sb: Seq<u8>, ms: Seq<&raw::Member>) -> Seq<Entry> {
    Seq::new(ms.len(), |i: int| abs_member(sb, *ms[i]))
}

// what the reader does with records of a *corrupt* file: unreadable method / file strings make it skip the record
pub open spec fn readable(sb: Seq<u8>, m: raw::Member) -> bool {
    tbl(sb, m.original_name_offset) is Some
    && (m.original_file_offset != absent() ==> tbl(sb, m.original_file_offset) is Some)
}
