// ---- representation relation: raw cache records -> abstract entries ----
// Abstract string-table function: `tbl(bytes, off)` is what `StringTable::read(bytes, off)` returns.
// (watto dependency, unverified: assumed to be a total function of (bytes, offset) that fails past the end.)
pub uninterp spec fn tbl(bytes: Seq<u8>, offset: u32) -> Option<Seq<char>>;

pub open spec fn absent() -> u32 { 0xffff_ffffu32 }

pub open spec fn abs_member(sb: Seq<u8>, m: raw::Member) -> Entry {
    Entry {
        start: m.startline as int,
        end: m.endline as int,
        orig_class: if m.original_class_offset == absent() { None } else { tbl(sb, m.original_class_offset) },
        orig_method: match tbl(sb, m.original_name_offset) { Some(s) => s, None => Seq::empty() },
        orig_start: m.original_startline as int,
        orig_end: if m.original_endline == absent() { None } else { Some(m.original_endline as int) },
        file_hdr: if m.original_file_offset == absent() { None } else { tbl(sb, m.original_file_offset) },
    }
}

// every string reference of the member is readable or the documented "absent" sentinel
pub open spec fn member_strings_ok(sb: Seq<u8>, m: raw::Member) -> bool {
    tbl(sb, m.obfuscated_name_offset) is Some
    && tbl(sb, m.original_name_offset) is Some
    && (m.original_class_offset != absent() ==> tbl(sb, m.original_class_offset) is Some)
    && (m.original_file_offset != absent() ==> tbl(sb, m.original_file_offset) is Some)
}

// representation invariant of a member written by the cache writer for a mapping in the property's domain
pub open spec fn wf_member(sb: Seq<u8>, m: raw::Member) -> bool {
    member_strings_ok(sb, m) && entry_in_domain(abs_member(sb, m)) && tbl(sb, absent()) is None
}

pub open spec fn wf_members(sb: Seq<u8>, ms: Seq<&raw::Member>) -> bool {
    forall|i: int| 0 <= i < ms.len() ==> wf_member(sb, *#[trigger] ms[i])
}

pub open spec fn abs_members(sb: Seq<u8>, ms: Seq<&raw::Member>) -> Seq<Entry> {
    Seq::new(ms.len(), |i: int| abs_member(sb, *ms[i]))
}

// what the reader does with records of a *corrupt* file: unreadable method / file strings make it skip the record
pub open spec fn readable(sb: Seq<u8>, m: raw::Member) -> bool {
    tbl(sb, m.original_name_offset) is Some
    && (m.original_file_offset != absent() ==> tbl(sb, m.original_file_offset) is Some)
}

// ---- lookup side: comparators and the sortedness part of the representation invariant ----
pub open spec fn class_cmp(sb: Seq<u8>, c: raw::Class, name: Seq<char>) -> Ordering {
    match tbl(sb, c.obfuscated_name_offset) { Some(s) => seq_cmp(s, name), None => Ordering::Greater }
}

// "class entries strictly sorted by obfuscated name" (C09; produced by the writer's BTreeMap -- assumed there)
pub open spec fn classes_sorted(sb: Seq<u8>, cs: Seq<raw::Class>) -> bool {
    (forall|i: int| 0 <= i < cs.len() ==> tbl(sb, (#[trigger] cs[i]).obfuscated_name_offset) is Some)
    && (forall|i: int, j: int| 0 <= i < j < cs.len() ==>
            seq_cmp(tbl(sb, (#[trigger] cs[i]).obfuscated_name_offset).unwrap(), tbl(sb, (#[trigger] cs[j]).obfuscated_name_offset).unwrap()) == Ordering::Less)
}

pub open spec fn member_cmp(sb: Seq<u8>, m: raw::Member, name: Seq<char>) -> Ordering {
    match tbl(sb, m.obfuscated_name_offset) { Some(s) => seq_cmp(s, name), None => Ordering::Greater }
}

pub open spec fn member_name(sb: Seq<u8>, m: raw::Member) -> Seq<char> { tbl(sb, m.obfuscated_name_offset).unwrap() }

// "member entries sorted by obfuscated name within a class"
pub open spec fn members_sorted(sb: Seq<u8>, ms: Seq<raw::Member>) -> bool {
    (forall|i: int| 0 <= i < ms.len() ==> tbl(sb, (#[trigger] ms[i]).obfuscated_name_offset) is Some)
    && (forall|i: int, j: int| 0 <= i < j < ms.len() ==>
            seq_cmp(member_name(sb, #[trigger] ms[i]), member_name(sb, #[trigger] ms[j])) != Ordering::Greater)
}

pub open spec fn member_params(sb: Seq<u8>, m: raw::Member) -> Seq<char> {
    match tbl(sb, m.params_offset) { Some(s) => s, None => Seq::empty() }
}

pub open spec fn lex2(a: Ordering, b: Ordering) -> Ordering { if a != Ordering::Equal { a } else { b } }

pub open spec fn member_cmp2(sb: Seq<u8>, m: raw::Member, name: Seq<char>, params: Seq<char>) -> Ordering {
    match tbl(sb, m.obfuscated_name_offset) {
        Some(s) => lex2(seq_cmp(s, name), seq_cmp(member_params(sb, m), params)),
        None => Ordering::Greater,
    }
}

// "by (name, params) in the by-params section"
pub open spec fn members_sorted2(sb: Seq<u8>, ms: Seq<raw::Member>) -> bool {
    (forall|i: int| 0 <= i < ms.len() ==> tbl(sb, (#[trigger] ms[i]).obfuscated_name_offset) is Some)
    && (forall|i: int, j: int| 0 <= i < j < ms.len() ==>
            lex2(seq_cmp(member_name(sb, #[trigger] ms[i]), member_name(sb, #[trigger] ms[j])),
                 seq_cmp(member_params(sb, ms[i]), member_params(sb, ms[j]))) != Ordering::Greater)
}

// ---- whole-cache representation invariant (what the cache writer establishes for mappings in the properties' domain;
//      sortedness / interning are produced by BTreeMap + StringTable inside ProguardCache::write and are ASSUMED there) ----
pub open spec fn class_members(c: ProguardCache, cl: raw::Class) -> Seq<raw::Member> {
    c.members@.subrange(cl.members_offset as int, cl.members_offset as int + cl.members_len as int)
}
pub open spec fn class_members_by_params(c: ProguardCache, cl: raw::Class) -> Seq<raw::Member> {
    c.members_by_params@.subrange(cl.members_by_params_offset as int, cl.members_by_params_offset as int + cl.members_by_params_len as int)
}
// equal original-method strings are stored at equal offsets (StringTable interning)
pub open spec fn names_interned(sb: Seq<u8>, ms: Seq<raw::Member>) -> bool {
    forall|i: int, j: int| 0 <= i < ms.len() && 0 <= j < ms.len()
        && tbl(sb, (#[trigger] ms[i]).original_name_offset) == tbl(sb, (#[trigger] ms[j]).original_name_offset)
        ==> ms[i].original_name_offset == ms[j].original_name_offset
}
pub open spec fn wf_class(c: ProguardCache, cl: raw::Class) -> bool {
    let sb = c.string_bytes@;
    tbl(sb, cl.original_name_offset) is Some
    && cl.members_offset as int + cl.members_len as int <= c.members@.len()
    && cl.members_by_params_offset as int + cl.members_by_params_len as int <= c.members_by_params@.len()
    && members_sorted(sb, class_members(c, cl))
    && members_sorted2(sb, class_members_by_params(c, cl))
    && (forall|k: int| 0 <= k < class_members(c, cl).len() ==> wf_member(sb, #[trigger] class_members(c, cl)[k]))
    && (forall|k: int| 0 <= k < class_members_by_params(c, cl).len() ==> wf_member(sb, #[trigger] class_members_by_params(c, cl)[k]))
    && names_interned(sb, class_members(c, cl))
}
pub open spec fn wf_cache(c: ProguardCache) -> bool {
    classes_sorted(c.string_bytes@, c.classes@)
    && tbl(c.string_bytes@, absent()) is None
    && (forall|i: int| 0 <= i < c.classes@.len() ==> wf_class(c, #[trigger] c.classes@[i]))
}
// the class with obfuscated name `name`, if any (unique by strict sortedness)
pub open spec fn has_class(c: ProguardCache, i: int, name: Seq<char>) -> bool {
    0 <= i < c.classes@.len() && tbl(c.string_bytes@, c.classes@[i].obfuscated_name_offset) == Some(name)
}
pub open spec fn no_class(c: ProguardCache, name: Seq<char>) -> bool {
    forall|i: int| 0 <= i < c.classes@.len() ==> tbl(c.string_bytes@, (#[trigger] c.classes@[i]).obfuscated_name_offset) != Some(name)
}

// ---- the frame iterator as a ghost value ----
pub open spec fn deref_members(r: Seq<&raw::Member>) -> Seq<raw::Member> { Seq::new(r.len(), |i: int| *r[i]) }

#[verifier::prophetic]
pub open spec fn it_wf(it: RemappedFrameIter) -> bool {
    match it.inner {
        None => true,
        Some((cache, frame, members)) => members.obeys_prophetic_iter_laws() && members.decrease() is Some
            && wf_members(cache.string_bytes@, members.remaining()) && frame.line < 0xffff_ffff,
    }
}
#[verifier::prophetic]
pub open spec fn it_members(it: RemappedFrameIter) -> Seq<raw::Member> {
    match it.inner { None => Seq::empty(), Some((cache, frame, members)) => deref_members(members.remaining()) }
}
#[verifier::prophetic]
pub open spec fn it_answers(it: RemappedFrameIter) -> Seq<AFrame> {
    match it.inner {
        None => Seq::empty(),
        Some((cache, frame, members)) =>
            if frame.parameters is None { retrace(abs_members(cache.string_bytes@, members.remaining()), aframe(frame)) }
            else { by_params(abs_members(cache.string_bytes@, members.remaining()), aframe(frame)) },
    }
}

// ---- lookup lemmas: sortedness makes the comparators monotone; Equal means "same name" ----
pub proof fn lemma_member_cmp(sb: Seq<u8>, ms: Seq<raw::Member>, name: Seq<char>)
    requires members_sorted(sb, ms),
    ensures
        forall|i: int, j: int| 0 <= i < j < ms.len() ==> ord_rank(#[trigger] member_cmp(sb, ms[i], name)) <= ord_rank(#[trigger] member_cmp(sb, ms[j], name)),
        forall|i: int| 0 <= i < ms.len() ==> ((#[trigger] member_cmp(sb, ms[i], name) == Ordering::Equal) <==> tbl(sb, ms[i].obfuscated_name_offset) == Some(name)),
{
    assert forall|i: int, j: int| 0 <= i < j < ms.len() implies ord_rank(#[trigger] member_cmp(sb, ms[i], name)) <= ord_rank(#[trigger] member_cmp(sb, ms[j], name)) by {
        let ni = member_name(sb, ms[i]); let nj = member_name(sb, ms[j]);
        axiom_seq_cmp_total(nj, name); axiom_seq_cmp_total(ni, name); axiom_seq_cmp_total(ni, nj);
        if seq_cmp(nj, name) != Ordering::Greater { axiom_seq_cmp_trans(ni, nj, name); }
    }
    assert forall|i: int| 0 <= i < ms.len() implies ((#[trigger] member_cmp(sb, ms[i], name) == Ordering::Equal) <==> tbl(sb, ms[i].obfuscated_name_offset) == Some(name)) by {
        axiom_seq_cmp_total(member_name(sb, ms[i]), name);
    }
}

pub proof fn lemma_member_cmp2(sb: Seq<u8>, ms: Seq<raw::Member>, name: Seq<char>, params: Seq<char>)
    requires members_sorted2(sb, ms),
    ensures
        forall|i: int, j: int| 0 <= i < j < ms.len() ==> ord_rank(#[trigger] member_cmp2(sb, ms[i], name, params)) <= ord_rank(#[trigger] member_cmp2(sb, ms[j], name, params)),
        forall|i: int| 0 <= i < ms.len() ==> ((#[trigger] member_cmp2(sb, ms[i], name, params) == Ordering::Equal)
            <==> (tbl(sb, ms[i].obfuscated_name_offset) == Some(name) && member_params(sb, ms[i]) == params)),
{
    assert forall|i: int, j: int| 0 <= i < j < ms.len() implies ord_rank(#[trigger] member_cmp2(sb, ms[i], name, params)) <= ord_rank(#[trigger] member_cmp2(sb, ms[j], name, params)) by {
        let ni = member_name(sb, ms[i]); let nj = member_name(sb, ms[j]);
        let pi = member_params(sb, ms[i]); let pj = member_params(sb, ms[j]);
        axiom_seq_cmp_total(nj, name); axiom_seq_cmp_total(ni, name); axiom_seq_cmp_total(ni, nj);
        axiom_seq_cmp_total(pj, params); axiom_seq_cmp_total(pi, params); axiom_seq_cmp_total(pi, pj);
        if seq_cmp(nj, name) != Ordering::Greater { axiom_seq_cmp_trans(ni, nj, name); }
        if seq_cmp(ni, nj) == Ordering::Equal && seq_cmp(pj, params) != Ordering::Greater { axiom_seq_cmp_trans(pi, pj, params); }
    }
    assert forall|i: int| 0 <= i < ms.len() implies ((#[trigger] member_cmp2(sb, ms[i], name, params) == Ordering::Equal)
            <==> (tbl(sb, ms[i].obfuscated_name_offset) == Some(name) && member_params(sb, ms[i]) == params)) by {
        axiom_seq_cmp_total(member_name(sb, ms[i]), name);
        axiom_seq_cmp_total(member_params(sb, ms[i]), params);
    }
}

pub proof fn lemma_class_unique(c: ProguardCache, i: int, j: int, name: Seq<char>)
    requires classes_sorted(c.string_bytes@, c.classes@), has_class(c, i, name), has_class(c, j, name),
    ensures i == j,
{
    axiom_seq_cmp_total(name, name);
}

// [p, q) is exactly the set of members with obfuscated name `name` (C01: "every entry of that class and method")
pub open spec fn is_block(sb: Seq<u8>, ms: Seq<raw::Member>, p: int, q: int, name: Seq<char>) -> bool {
    0 <= p <= q <= ms.len()
    && forall|k: int| 0 <= k < ms.len() ==> ((p <= k < q) <==> tbl(sb, (#[trigger] ms[k]).obfuscated_name_offset) == Some(name))
}
// same for (name, params) in the by-params section (C03)
pub open spec fn is_block2(sb: Seq<u8>, ms: Seq<raw::Member>, p: int, q: int, name: Seq<char>, params: Seq<char>) -> bool {
    0 <= p <= q <= ms.len()
    && forall|k: int| 0 <= k < ms.len() ==> ((p <= k < q) <==>
        (tbl(sb, (#[trigger] ms[k]).obfuscated_name_offset) == Some(name) && member_params(sb, ms[k]) == params))
}
