// ---- representation relation: in-memory mapper entries -> abstract entries ----
pub open spec fn opt_int(o: Option<usize>) -> Option<int> { match o { Some(x) => Some(x as int), None => None } }

pub open spec fn abs_mm(m: MemberMapping) -> Entry {
    Entry {
        start: m.startline as int,
        end: m.endline as int,
        orig_class: opt_view(m.original_class),
        orig_method: m.original@,
        orig_start: m.original_startline as int,
        orig_end: opt_int(m.original_endline),
        file_hdr: opt_view(m.original_file),
    }
}

pub open spec fn wf_mms(ms: Seq<&MemberMapping>) -> bool {
    forall|i: int| 0 <= i < ms.len() ==> entry_in_domain(abs_mm(*#[trigger] ms[i]))
}

pub open spec fn abs_mms(ms: Seq<&MemberMapping>) -> Seq<Entry> {
    Seq::new(ms.len(), |i: int| abs_mm(*ms[i]))
}
