// ---- representation relation: in-memory mapper entries -> abstract entries ----
pub open spec fn opt_int(o: Option<usize>) -> Option<int> { match o { Some(x) => Some(x as int), None => None } }

pub open spec fn abs_mm(m: MemberMapping) -> Entry {
    Entry {
        start: m.startline as int,
        end: m.endline as int,
        orig_class: opt_view(m.original_class),
        orig_method: m.original@,
        orig_start: m.original_startline as int,
        orig_end: opt_int(m.original_endline),
        file_hdr: opt_view(m.original_file),
    }
}

pub open spec fn wf_mms(ms: Seq<&MemberMapping>) -> bool {
    forall|i: int| 0 <= i < ms.len() ==> entry_in_domain(abs_mm(*#[trigger] ms[i]))
}

pub open spec fn abs_mms(ms: Seq<&MemberMapping>) -> Seq<Entry> {
    Seq::new(ms.len(), |i: int| abs_mm(*ms[i]))
}

// ---- the mapper's frame iterator as a ghost value ----
pub open spec fn deref_mms<'a>(r: Seq<&MemberMapping<'a>>) -> Seq<MemberMapping<'a>> { Seq::new(r.len(), |i: int| *r[i]) }

#[verifier::prophetic]
pub open spec fn mit_wf(it: RemappedFrameIter) -> bool {
    match it.inner {
        None => true,
        Some((frame, members)) => members.obeys_prophetic_iter_laws() && members.decrease() is Some
            && wf_mms(members.remaining()) && frame.line < 0xffff_ffff,
    }
}
#[verifier::prophetic]
pub open spec fn mit_members<'m>(it: RemappedFrameIter<'m>) -> Seq<MemberMapping<'m>> {
    match it.inner { None => Seq::empty(), Some((frame, members)) => deref_mms(members.remaining()) }
}
#[verifier::prophetic]
pub open spec fn mit_answers(it: RemappedFrameIter) -> Seq<AFrame> {
    match it.inner {
        None => Seq::empty(),
        Some((frame, members)) =>
            if frame.parameters is None { retrace(abs_mms(members.remaining()), aframe(frame)) }
            else { by_params(abs_mms(members.remaining()), aframe(frame)) },
    }
}

// ---- representation invariant of a mapper built from a mapping in the properties' domain (builder ASSUMED) ----
pub open spec fn wf_vec(v: Seq<MemberMapping>) -> bool {
    forall|i: int| 0 <= i < v.len() ==> entry_in_domain(abs_mm(#[trigger] v[i]))
}
pub open spec fn wf_class_members(cm: ClassMembers) -> bool {
    wf_vec(cm.all_mappings@)
    && forall|pk: &str| #[trigger] cm.mappings_by_params@.contains_key(pk) ==> wf_vec(cm.mappings_by_params@[pk]@)
}
pub open spec fn wf_mapper(m: ProguardMapper) -> bool {
    forall|ck: &str| #[trigger] m.classes@.contains_key(ck) ==>
        forall|mk: &str| #[trigger] m.classes@[ck].members@.contains_key(mk) ==> wf_class_members(m.classes@[ck].members@[mk])
}
pub open spec fn has_key<V>(m: Map<&str, V>, k: &str, q: Seq<char>) -> bool { m.contains_key(k) && k@ == q }
pub open spec fn no_key<V>(m: Map<&str, V>, q: Seq<char>) -> bool { forall|k: &str| #[trigger] m.contains_key(k) ==> k@ != q }
