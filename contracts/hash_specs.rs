// ---- assumed contract of HashMap<&str, V>::get(&str) (std; SipHash/RandomState are out of reach) ----
// vstd specifies `get` through the uninterpreted `contains_borrowed_key` / `maps_borrowed_key_to_value`; for the
// (&str, str) key/borrow pair it ships no axioms, so the documented behaviour ("the value stored under the key equal to
// the query string") is assumed here.
use vstd::std_specs::hash::*;

#[verifier::external_body]
pub proof fn axiom_str_key_model()
    ensures obeys_key_model::<&str>(), builds_valid_hashers::<std::collections::hash_map::RandomState>(),
{}

#[verifier::external_body]
pub broadcast proof fn axiom_str_borrowed_key<'s, V>(m: Map<&'s str, V>, q: &str)
    ensures #[trigger] contains_borrowed_key::<&'s str, V, str>(m, q) <==> (exists|k: &'s str| #[trigger] m.contains_key(k) && k@ == q@),
{}

#[verifier::external_body]
pub broadcast proof fn axiom_str_borrowed_value<'s, V>(m: Map<&'s str, V>, q: &str, v: &V)
    ensures #[trigger] maps_borrowed_key_to_value::<&'s str, V, str>(m, q, *v) <==> (exists|k: &'s str| #[trigger] m.contains_key(k) && k@ == q@ && m[k] == *v),
{}

