// ---- model for the text stack-trace remapper (unit u12, property C07) ----
// ASSUMED in this file: the contracts of the shims (std::fmt / str::lines / Peekable restated), `display_of` for `&str`,
// that writing to a `fmt::Write` sink through `writeln!` appends exactly the rendered text and does not fail.
// The line classifiers (parse_throwable / parse_frame) and the Display impls are ABSTRACT: uninterpreted functions of the line.

#[verifier::external_trait_specification]
#[verifier::external_trait_extension(FmtWriteSpec via FmtWriteSpecImpl)]
pub trait ExFmtWrite {
    type ExternalTraitSpecificationFor: std::fmt::Write;
    // ghost: everything written so far
    spec fn text(&self) -> Seq<char>;
}
impl FmtWriteSpecImpl for String {
    open spec fn text(&self) -> Seq<char> { self@ }
}

// what `{}` prints for a value (Display); for `&str` it is the string itself
pub uninterp spec fn display_of<T>(t: T) -> Seq<char>;
#[verifier::external_body]
pub proof fn axiom_display_str(s: &str) ensures display_of::<&str>(s) == s@ {}

// `writeln!(w, "<prefix>{}", arg)`
#[verifier::external_body]
fn shim_writeln<W: std::fmt::Write, T: std::fmt::Display>(w: &mut W, prefix: &str, arg: &T) -> (r: Result<(), std::fmt::Error>)
    ensures r is Ok, (*final(w)).text() == (*old(w)).text() + prefix@ + display_of(*arg) + seq!['\n'],
{ writeln!(w, "{}{}", prefix, arg) }

// ---- str::lines ----
#[verifier::external_type_specification]
#[verifier::external_body]
pub struct ExLines<'a>(std::str::Lines<'a>);
pub uninterp spec fn lines_of<'a>(s: &'a str) -> Seq<&'a str>;                 // the lines `s.lines()` yields, in order
pub uninterp spec fn ln_rest<'a>(it: std::str::Lines<'a>) -> Seq<&'a str>;     // lines still to come
#[verifier::external_body]
fn shim_lines<'a>(s: &'a str) -> (r: std::str::Lines<'a>) ensures ln_rest(r) == lines_of(s) { s.lines() }
#[verifier::external_body]
fn shim_lines_next<'a>(it: &mut std::str::Lines<'a>) -> (r: Option<&'a str>)
    ensures match r {
        Some(l) => ln_rest(*old(it)).len() > 0 && l == ln_rest(*old(it))[0] && ln_rest(*final(it)) == ln_rest(*old(it)).drop_first(),
        None => ln_rest(*old(it)).len() == 0 && ln_rest(*final(it)) == ln_rest(*old(it)),
    },
{ it.next() }

// ---- the line classifiers, abstract ----
pub uninterp spec fn sp_throwable<'a>(line: &'a str) -> Option<Throwable<'a>>;
pub uninterp spec fn sp_frame<'a>(line: &'a str) -> Option<StackFrame<'a>>;
// `line.strip_prefix(lit).and_then(parse_throwable)`: a function of the line and the literal
pub uninterp spec fn sp_after_prefix<'a>(line: &'a str, lit: Seq<char>) -> Option<Throwable<'a>>;
#[verifier::external_body]
fn shim_strip_prefix_then_throwable<'a>(line: &'a str, lit: &str) -> (r: Option<Throwable<'a>>)
    ensures r == sp_after_prefix(line, lit@),
{ line.strip_prefix(lit).and_then(parse_throwable) }

// ---- the specification of C07 ----
pub open spec fn nl() -> Seq<char> { seq!['\n'] }
// a throwable line (first line): the remapped throwable when its class is known, the input line otherwise
pub open spec fn throwable_text<'a>(line: &'a str, t: Option<Throwable<'a>>) -> Seq<char> {
    match t { Some(t) => ""@ + display_of(t) + nl(), None => ""@ + line@ + nl() }
}
pub open spec fn cause_text<'a>(line: &'a str, t: Option<Throwable<'a>>) -> Seq<char> {
    match t { Some(t) => "Caused by: "@ + display_of(t) + nl(), None => ""@ + line@ + nl() }
}
// one output line per remapped frame, four-space indented
pub open spec fn frames_lines<'a>(fs: Seq<StackFrame<'a>>, n: int) -> Seq<char>
    decreases n
{
    if n <= 0 { Seq::empty() } else { frames_lines(fs, n - 1) + ("    "@ + display_of(fs[n - 1]) + nl()) }
}
pub open spec fn frames_text<'a>(line: &'a str, fs: Seq<StackFrame<'a>>) -> Seq<char> {
    if fs.len() == 0 { ""@ + line@ + nl() } else { frames_lines(fs, fs.len() as int) }
}
pub open spec fn remapped_throwable<'a>(o: Option<&'a str>, t: Throwable<'a>) -> Option<Throwable<'a>> {
    match o { Some(c) => Some(Throwable { class: c, message: t.message }), None => None }
}
