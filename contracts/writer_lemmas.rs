// ---- sequence algebra used by the proof of the writer tail ----
pub open spec fn classes_suffix(cs: Seq<ClassInProgress>, n: int, m: int) -> Seq<u8>
    decreases m - n
{ if m <= n { Seq::empty() } else { classes_suffix(cs, n, m - 1) + class_bytes(emitted_class(cs, m - 1)) } }

pub proof fn lemma_classes_split(cs: Seq<ClassInProgress>, n: int, m: int)
    requires 0 <= n <= m,
    ensures classes_bytes(cs, m) == classes_bytes(cs, n) + classes_suffix(cs, n, m),
    decreases m - n,
{
    if m == n {
        assert(classes_suffix(cs, n, m) =~= Seq::<u8>::empty());
        assert(classes_bytes(cs, m) =~= classes_bytes(cs, n) + classes_suffix(cs, n, m));
    } else {
        lemma_classes_split(cs, n, m - 1);
        assert(classes_bytes(cs, m) =~= classes_bytes(cs, n) + classes_suffix(cs, n, m));
    }
}
pub proof fn lemma_classes_suffix_head(cs: Seq<ClassInProgress>, n: int, m: int)
    requires 0 <= n < m,
    ensures classes_suffix(cs, n, m) == class_bytes(emitted_class(cs, n)) + classes_suffix(cs, n + 1, m),
    decreases m - n,
{
    if m == n + 1 {
        assert(classes_suffix(cs, n, n) =~= Seq::<u8>::empty());
        assert(classes_suffix(cs, n + 1, m) =~= Seq::<u8>::empty());
        assert(classes_suffix(cs, n, m) =~= class_bytes(emitted_class(cs, n)) + classes_suffix(cs, n + 1, m));
    } else {
        lemma_classes_suffix_head(cs, n, m - 1);
        assert(classes_suffix(cs, n, m) =~= class_bytes(emitted_class(cs, n)) + classes_suffix(cs, n + 1, m));
    }
}
pub proof fn lemma_classes_len(cs: Seq<ClassInProgress>, n: int)
    requires 0 <= n,
    ensures classes_bytes(cs, n).len() == 28 * n,
    decreases n,
{ axiom_record_sizes(); if n > 0 { lemma_classes_len(cs, n - 1); } }

pub proof fn lemma_members_before(cs: Seq<ClassInProgress>, n: int)
    requires 0 <= n,
    ensures all_members(cs, n).len() == members_before(cs, n), all_by_params(cs, n).len() == by_params_before(cs, n),
    decreases n,
{ if n > 0 { lemma_members_before(cs, n - 1); } }

// every possible outcome of writing `chunk` after `done` keeps "what was delivered is a prefix of canon"
pub proof fn lemma_step(sunk0: Seq<u8>, done: Seq<u8>, chunk: Seq<u8>, rest: Seq<u8>, canon: Seq<u8>)
    requires canon == done + chunk + rest,
    ensures
        forall|new: Seq<u8>| #[trigger] delivered_prefix(sunk0 + done, new, chunk) ==> delivered_prefix(sunk0, new, canon),
        (sunk0 + done) + chunk == sunk0 + (done + chunk),
{
    reveal(delivered_prefix);
    assert forall|new: Seq<u8>| #[trigger] delivered_prefix(sunk0 + done, new, chunk) implies delivered_prefix(sunk0, new, canon) by {
        let k = new.len() - (sunk0 + done).len();
        assert(canon.subrange(0, done.len() + k) =~= done + chunk.subrange(0, k));
        assert(new =~= sunk0 + canon.subrange(0, new.len() - sunk0.len()));
    }
    assert((sunk0 + done) + chunk =~= sunk0 + (done + chunk));
}
// same for a padding step (pad_to_8 reports its effect element-wise)
pub proof fn lemma_pad_step(sunk0: Seq<u8>, done: Seq<u8>, pad: int, rest: Seq<u8>, canon: Seq<u8>)
    requires pad >= 0, canon == done + zeros(pad) + rest,
    ensures
        forall|new: Seq<u8>, d: int| 0 <= d <= pad && #[trigger] ext_by_zeros(sunk0 + done, new, d) ==> delivered_prefix(sunk0, new, canon),
        forall|new: Seq<u8>| #[trigger] ext_by_zeros(sunk0 + done, new, pad) ==> new == sunk0 + (done + zeros(pad)),
{
    reveal(delivered_prefix); reveal(ext_by_zeros);
    assert forall|new: Seq<u8>, d: int| 0 <= d <= pad && #[trigger] ext_by_zeros(sunk0 + done, new, d) implies delivered_prefix(sunk0, new, canon) by {
        assert(canon.subrange(0, done.len() + d) =~= done + zeros(d));
        assert(new =~= sunk0 + canon.subrange(0, new.len() - sunk0.len()));
    }
    assert forall|new: Seq<u8>| #[trigger] ext_by_zeros(sunk0 + done, new, pad) implies new == sunk0 + (done + zeros(pad)) by {
        assert(new =~= sunk0 + (done + zeros(pad)));
    }
}

// ---- what the canonical bytes mean (C09): counts in the header are the numbers of records written; total length ----
pub proof fn lemma_header_counts(cs: Seq<ClassInProgress>, n: int)
    requires 0 <= n <= cs.len(), forall|i: int| 0 <= i < cs.len() ==> wf_cip(#[trigger] cs[i]),
    ensures
        sum_members_len(cs.take(n)) == all_members(cs, n).len(),
        sum_by_params_len(cs.take(n)) == all_by_params(cs, n).len(),
    decreases n,
{
    if n > 0 {
        lemma_header_counts(cs, n - 1);
        assert(cs.take(n).drop_last() =~= cs.take(n - 1));
        assert(cs.take(n).last() == cs[n - 1]);
    }
}

// generic tracking lemmas: `done` = bytes delivered so far (relative to sunk0)
pub proof fn lemma_track_write(sunk0: Seq<u8>, done: Seq<u8>, chunk: Seq<u8>, canon: Seq<u8>)
    requires is_prefix_of(done + chunk, canon),
    ensures
        forall|new: Seq<u8>| #[trigger] delivered_prefix(sunk0 + done, new, chunk) ==> delivered_prefix(sunk0, new, canon),
        (sunk0 + done) + chunk == sunk0 + (done + chunk),
{
    reveal(is_prefix_of);
    let rest = canon.subrange((done + chunk).len() as int, canon.len() as int);
    assert(canon =~= done + chunk + rest);
    lemma_step(sunk0, done, chunk, rest, canon);
}
pub proof fn lemma_track_pad(sunk0: Seq<u8>, done: Seq<u8>, pad: int, canon: Seq<u8>)
    requires pad >= 0, is_prefix_of(done + zeros(pad), canon),
    ensures
        forall|new: Seq<u8>, d: int| 0 <= d <= pad && #[trigger] ext_by_zeros(sunk0 + done, new, d) ==> delivered_prefix(sunk0, new, canon),
        forall|new: Seq<u8>| #[trigger] ext_by_zeros(sunk0 + done, new, pad) ==> new == sunk0 + (done + zeros(pad)),
{
    reveal(is_prefix_of);
    let rest = canon.subrange((done + zeros(pad)).len() as int, canon.len() as int);
    assert(canon =~= done + zeros(pad) + rest);
    lemma_pad_step(sunk0, done, pad, rest, canon);
}

pub proof fn lemma_prefix_of_concat(a: Seq<u8>, b: Seq<u8>)
    ensures is_prefix_of(a, a + b),
{ reveal(is_prefix_of); assert((a + b).subrange(0, a.len() as int) =~= a); }
pub proof fn lemma_prefix_trans(a: Seq<u8>, b: Seq<u8>, c: Seq<u8>)
    requires is_prefix_of(a, b), is_prefix_of(b, c),
    ensures is_prefix_of(a, c),
{ reveal(is_prefix_of); assert(c.subrange(0, a.len() as int) =~= b.subrange(0, a.len() as int)); }
// all cumulative prefixes of a left-nested nine-fold concatenation are prefixes of the whole
pub proof fn lemma_prefix_chain(c: Seq<u8>, x1: Seq<u8>, x2: Seq<u8>, x3: Seq<u8>, x4: Seq<u8>, x5: Seq<u8>, x6: Seq<u8>, x7: Seq<u8>, x8: Seq<u8>, x9: Seq<u8>)
    requires c == Seq::<u8>::empty() + x1 + x2 + x3 + x4 + x5 + x6 + x7 + x8 + x9,
    ensures ({ let p0 = Seq::<u8>::empty(); let p1 = p0 + x1; let p2 = p1 + x2; let p3 = p2 + x3; let p4 = p3 + x4; let p5 = p4 + x5; let p6 = p5 + x6; let p7 = p6 + x7; let p8 = p7 + x8;
        is_prefix_of(p1, c) && is_prefix_of(p2, c) && is_prefix_of(p3, c) && is_prefix_of(p4, c) && is_prefix_of(p5, c) && is_prefix_of(p6, c) && is_prefix_of(p7, c) && is_prefix_of(p8, c) && is_prefix_of(c, c) }),
{
    reveal(is_prefix_of);
    reveal(is_prefix_of);
    reveal(is_prefix_of);
    let p0 = Seq::<u8>::empty(); let p1 = p0 + x1; let p2 = p1 + x2; let p3 = p2 + x3; let p4 = p3 + x4; let p5 = p4 + x5; let p6 = p5 + x6; let p7 = p6 + x7; let p8 = p7 + x8;
    assert(c.subrange(0, c.len() as int) =~= c);
    lemma_prefix_of_concat(p8, x9);
    lemma_prefix_of_concat(p7, x8); lemma_prefix_trans(p7, p8, c);
    lemma_prefix_of_concat(p6, x7); lemma_prefix_trans(p6, p7, c);
    lemma_prefix_of_concat(p5, x6); lemma_prefix_trans(p5, p6, c);
    lemma_prefix_of_concat(p4, x5); lemma_prefix_trans(p4, p5, c);
    lemma_prefix_of_concat(p3, x4); lemma_prefix_trans(p3, p4, c);
    lemma_prefix_of_concat(p2, x3); lemma_prefix_trans(p2, p3, c);
    lemma_prefix_of_concat(p1, x2); lemma_prefix_trans(p1, p2, c);
}

// the nine chunks of the version-1 layout and their cumulative concatenations
pub open spec fn layout_chunk(k: int, x1: Seq<u8>, x2: Seq<u8>, x3: Seq<u8>, x4: Seq<u8>, x5: Seq<u8>, x6: Seq<u8>, x7: Seq<u8>, x8: Seq<u8>, x9: Seq<u8>) -> Seq<u8> {
    if k == 1 { x1 } else if k == 2 { x2 } else if k == 3 { x3 } else if k == 4 { x4 } else if k == 5 { x5 } else if k == 6 { x6 } else if k == 7 { x7 } else if k == 8 { x8 } else { x9 }
}
pub open spec fn layout_prefix(k: int, x1: Seq<u8>, x2: Seq<u8>, x3: Seq<u8>, x4: Seq<u8>, x5: Seq<u8>, x6: Seq<u8>, x7: Seq<u8>, x8: Seq<u8>, x9: Seq<u8>) -> Seq<u8>
    decreases k
{
    if k <= 0 { Seq::empty() } else { layout_prefix(k - 1, x1, x2, x3, x4, x5, x6, x7, x8, x9) + layout_chunk(k, x1, x2, x3, x4, x5, x6, x7, x8, x9) }
}
pub proof fn lemma_layout_prefixes(c: Seq<u8>, x1: Seq<u8>, x2: Seq<u8>, x3: Seq<u8>, x4: Seq<u8>, x5: Seq<u8>, x6: Seq<u8>, x7: Seq<u8>, x8: Seq<u8>, x9: Seq<u8>)
    requires c == Seq::<u8>::empty() + x1 + x2 + x3 + x4 + x5 + x6 + x7 + x8 + x9,
    ensures
        forall|k: int| 0 <= k <= 9 ==> is_prefix_of(#[trigger] layout_prefix(k, x1, x2, x3, x4, x5, x6, x7, x8, x9), c),
        layout_prefix(9, x1, x2, x3, x4, x5, x6, x7, x8, x9) == c,
        layout_prefix(2, x1, x2, x3, x4, x5, x6, x7, x8, x9) == Seq::<u8>::empty() + x1 + x2,
        layout_prefix(3, x1, x2, x3, x4, x5, x6, x7, x8, x9) == Seq::<u8>::empty() + x1 + x2 + x3,
{
    reveal(is_prefix_of);
    lemma_prefix_chain(c, x1, x2, x3, x4, x5, x6, x7, x8, x9);
    reveal_with_fuel(layout_prefix, 10);
    assert(c.subrange(0, 0) =~= Seq::<u8>::empty());
}

pub proof fn lemma_add_empty(a: Seq<u8>)
    ensures a + Seq::<u8>::empty() == a, Seq::<u8>::empty() + a == a,
{ assert(a + Seq::<u8>::empty() =~= a); assert(Seq::<u8>::empty() + a =~= a); }
pub proof fn lemma_concat_assoc(a: Seq<u8>, b: Seq<u8>, c: Seq<u8>)
    ensures a + (b + c) == (a + b) + c,
{ assert(a + (b + c) =~= (a + b) + c); }
// the canonical bytes as one left-nested concatenation of the nine chunks
pub proof fn lemma_canonical_flat(cs: Seq<ClassInProgress>, strs: Seq<u8>)
    ensures ({ let nn = cs.len() as int; let hb = hdr_bytes(header_of(cs, strs)); let cb = classes_bytes(cs, nn);
        let mb = members_bytes(all_members(cs, nn)); let pb = members_bytes(all_by_params(cs, nn));
        canonical(cs, strs) == Seq::<u8>::empty() + hb + zeros(pad_len(hb.len() as int)) + cb + zeros(pad_len(cb.len() as int))
            + mb + zeros(pad_len(mb.len() as int)) + pb + zeros(pad_len(pb.len() as int)) + strs }),
{
    let nn = cs.len() as int; let hb = hdr_bytes(header_of(cs, strs)); let cb = classes_bytes(cs, nn);
    let mb = members_bytes(all_members(cs, nn)); let pb = members_bytes(all_by_params(cs, nn));
    assert(canonical(cs, strs) =~= Seq::<u8>::empty() + hb + zeros(pad_len(hb.len() as int)) + cb + zeros(pad_len(cb.len() as int))
            + mb + zeros(pad_len(mb.len() as int)) + pb + zeros(pad_len(pb.len() as int)) + strs);
}
// writing the record of class i keeps the delivered bytes a prefix of the canonical bytes
pub proof fn lemma_class_piece_prefix(p2: Seq<u8>, cs: Seq<ClassInProgress>, i: int, nn: int, canon: Seq<u8>)
    requires 0 <= i < nn, is_prefix_of(p2 + classes_bytes(cs, nn), canon),
    ensures
        is_prefix_of((p2 + classes_bytes(cs, i)) + class_bytes(emitted_class(cs, i)), canon),
        (p2 + classes_bytes(cs, i)) + class_bytes(emitted_class(cs, i)) == p2 + classes_bytes(cs, i + 1),
{
    let ck = class_bytes(emitted_class(cs, i));
    lemma_classes_split(cs, i + 1, nn);
    lemma_concat_assoc(p2, classes_bytes(cs, i), ck);
    lemma_concat_assoc(p2, classes_bytes(cs, i + 1), classes_suffix(cs, i + 1, nn));
    lemma_prefix_of_concat(p2 + classes_bytes(cs, i + 1), classes_suffix(cs, i + 1, nn));
    lemma_prefix_trans(p2 + classes_bytes(cs, i + 1), p2 + classes_bytes(cs, nn), canon);
}

// cumulative prefix number k of the canonical layout of (cs, strs); opaque: the regions of `write` only ever see
// tail_prefix(k) as an atom and learn about it through the step lemmas below (keeps every region query small and stable)
#[verifier::opaque]
pub open spec fn tail_prefix(k: int, cs: Seq<ClassInProgress>, strs: Seq<u8>) -> Seq<u8> {
    let nn = cs.len() as int; let hb = hdr_bytes(header_of(cs, strs)); let cb = classes_bytes(cs, nn);
    let mb = members_bytes(all_members(cs, nn)); let pb = members_bytes(all_by_params(cs, nn));
    layout_prefix(k, hb, zeros(pad_len(hb.len() as int)), cb, zeros(pad_len(cb.len() as int)), mb, zeros(pad_len(mb.len() as int)), pb, zeros(pad_len(pb.len() as int)), strs)
}

// chunk number k (1..9) of the canonical layout: header, pad, classes, pad, members, pad, by-params members, pad, strings
pub open spec fn tail_chunk(k: int, cs: Seq<ClassInProgress>, strs: Seq<u8>) -> Seq<u8> {
    let nn = cs.len() as int; let hb = hdr_bytes(header_of(cs, strs)); let cb = classes_bytes(cs, nn);
    let mb = members_bytes(all_members(cs, nn)); let pb = members_bytes(all_by_params(cs, nn));
    layout_chunk(k, hb, zeros(pad_len(hb.len() as int)), cb, zeros(pad_len(cb.len() as int)), mb, zeros(pad_len(mb.len() as int)), pb, zeros(pad_len(pb.len() as int)), strs)
}

pub proof fn lemma_pad_arith(a: int, b: int, off: int)
    requires a >= 0, b >= 0, a % 8 == 0, off == (a + b) % 8,
    ensures pad_len(off) == pad_len(b), (a + b + pad_len(b)) % 8 == 0, 0 <= pad_len(b) < 8,
{}
// every even cumulative prefix of the layout (header+pad, +classes+pad, ...) ends on an 8-byte boundary
pub proof fn lemma_tail_aligned(cs: Seq<ClassInProgress>, strs: Seq<u8>)
    ensures
        tail_prefix(0, cs, strs).len() % 8 == 0, tail_prefix(2, cs, strs).len() % 8 == 0, tail_prefix(4, cs, strs).len() % 8 == 0,
        tail_prefix(6, cs, strs).len() % 8 == 0, tail_prefix(8, cs, strs).len() % 8 == 0,
{
    let nn = cs.len() as int; let hb = hdr_bytes(header_of(cs, strs)); let cb = classes_bytes(cs, nn);
    let mb = members_bytes(all_members(cs, nn)); let pb = members_bytes(all_by_params(cs, nn));
    let z1 = zeros(pad_len(hb.len() as int)); let z2 = zeros(pad_len(cb.len() as int)); let z3 = zeros(pad_len(mb.len() as int)); let z4 = zeros(pad_len(pb.len() as int));
    reveal(tail_prefix);
    reveal_with_fuel(layout_prefix, 10);
    let l0 = layout_prefix(0, hb, z1, cb, z2, mb, z3, pb, z4, strs).len() as int;
    let l2 = layout_prefix(2, hb, z1, cb, z2, mb, z3, pb, z4, strs).len() as int;
    let l4 = layout_prefix(4, hb, z1, cb, z2, mb, z3, pb, z4, strs).len() as int;
    let l6 = layout_prefix(6, hb, z1, cb, z2, mb, z3, pb, z4, strs).len() as int;
    let l8 = layout_prefix(8, hb, z1, cb, z2, mb, z3, pb, z4, strs).len() as int;
    assert(l0 == 0);
    assert(l2 == l0 + hb.len() + pad_len(hb.len() as int));
    lemma_pad_arith(l0, hb.len() as int, (l0 + hb.len()) % 8);
    assert(l4 == l2 + cb.len() + pad_len(cb.len() as int));
    lemma_pad_arith(l2, cb.len() as int, (l2 + cb.len()) % 8);
    assert(l6 == l4 + mb.len() + pad_len(mb.len() as int));
    lemma_pad_arith(l4, mb.len() as int, (l4 + mb.len()) % 8);
    assert(l8 == l6 + pb.len() + pad_len(pb.len() as int));
    lemma_pad_arith(l6, pb.len() as int, (l6 + pb.len()) % 8);
}

// ---- C11 / C14 fragment: the length of what the writer emits is the length implied by its own header ----
// (same formula as contracts/watto_model.rs::implied_len for a buffer at an 8-aligned address)
pub open spec fn layout_len(h: Header) -> int {
    let e1 = 24 + pad_len(24);
    let e2 = e1 + 28 * h.num_classes as int; let e2p = e2 + pad_len(e2);
    let e3 = e2p + 36 * h.num_members as int; let e3p = e3 + pad_len(e3);
    let e4 = e3p + 36 * h.num_members_by_params as int; let e4p = e4 + pad_len(e4);
    e4p + h.string_bytes as int
}
pub proof fn lemma_pad_len_shift(a: int, b: int)
    requires a >= 0, b >= 0, a % 8 == 0,
    ensures pad_len(a + b) == pad_len(b),
{}
pub proof fn lemma_canonical_len(cs: Seq<ClassInProgress>, strs: Seq<u8>)
    requires
        forall|i: int| 0 <= i < cs.len() ==> wf_cip(#[trigger] cs[i]),
        // representable domain: nothing is truncated by the `as u32` casts of the header
        cs.len() <= u32::MAX, sum_members_len(cs) <= u32::MAX, sum_by_params_len(cs) <= u32::MAX, strs.len() <= u32::MAX,
    ensures
        /* the header's counts are the numbers of records written */
        /*@L:header_counts_equal_records_written:C09,C10*/ header_of(cs, strs).num_classes as int == cs.len(),
        header_of(cs, strs).num_members as int == all_members(cs, cs.len() as int).len(),
        header_of(cs, strs).num_members_by_params as int == all_by_params(cs, cs.len() as int).len(),
        header_of(cs, strs).string_bytes as int == strs.len(),
        /* and the file is exactly as long as its header implies */
        /*@L:file_length_equals_header_implied_length:C09,C11*/ canonical(cs, strs).len() == layout_len(header_of(cs, strs)),
{
    let nn = cs.len() as int;
    let h = header_of(cs, strs);
    axiom_record_sizes();
    lemma_classes_len(cs, nn);
    lemma_header_counts(cs, nn);
    assert(cs.take(nn) =~= cs);
    let hb = hdr_bytes(h); let cb = classes_bytes(cs, nn);
    let mb = members_bytes(all_members(cs, nn)); let pb = members_bytes(all_by_params(cs, nn));
    let e1 = 24 + pad_len(24);
    let e2 = e1 + 28 * nn; let e2p = e2 + pad_len(e2);
    let e3 = e2p + mb.len(); let e3p = e3 + pad_len(e3);
    let e4 = e3p + pb.len(); let e4p = e4 + pad_len(e4);
    assert(padded(hb).len() == e1);
    lemma_pad_arith(0, 24, 0);
    lemma_pad_len_shift(e1, cb.len() as int);
    assert(padded(cb).len() == cb.len() + pad_len(e2));
    lemma_pad_arith(e1, cb.len() as int, (e1 + cb.len()) % 8);
    lemma_pad_len_shift(e2p, mb.len() as int);
    lemma_pad_arith(e2p, mb.len() as int, (e2p + mb.len()) % 8);
    lemma_pad_len_shift(e3p, pb.len() as int);
}

pub proof fn lemma_tail_prefix_9(cs: Seq<ClassInProgress>, strs: Seq<u8>)
    ensures tail_prefix(9, cs, strs) == canonical(cs, strs),
{
    reveal(tail_prefix);
    lemma_canonical_flat(cs, strs);
    let nn = cs.len() as int; let hb = hdr_bytes(header_of(cs, strs)); let cb = classes_bytes(cs, nn);
    let mb = members_bytes(all_members(cs, nn)); let pb = members_bytes(all_by_params(cs, nn));
    lemma_layout_prefixes(canonical(cs, strs), hb, zeros(pad_len(hb.len() as int)), cb, zeros(pad_len(cb.len() as int)), mb, zeros(pad_len(mb.len() as int)), pb, zeros(pad_len(pb.len() as int)), strs);
}

// ---- step lemmas: everything a region of `write` needs to know about one writer statement ----
pub proof fn lemma_tail_start(sunk0: Seq<u8>, cs: Seq<ClassInProgress>, strs: Seq<u8>)
    ensures sunk0 + tail_prefix(0, cs, strs) == sunk0, tail_prefix(0, cs, strs).len() == 0,
{
    reveal(tail_prefix);
    assert(sunk0 + Seq::<u8>::empty() =~= sunk0);
}
pub proof fn lemma_tail_step(k: int, cs: Seq<ClassInProgress>, strs: Seq<u8>)
    requires 0 <= k < 9,
    ensures
        tail_prefix(k + 1, cs, strs) == tail_prefix(k, cs, strs) + tail_chunk(k + 1, cs, strs),
        is_prefix_of(tail_prefix(k + 1, cs, strs), canonical(cs, strs)),
        is_prefix_of(tail_prefix(k, cs, strs), canonical(cs, strs)),
{
    reveal(tail_prefix);
    lemma_canonical_flat(cs, strs);
    let nn = cs.len() as int; let hb = hdr_bytes(header_of(cs, strs)); let cb = classes_bytes(cs, nn);
    let mb = members_bytes(all_members(cs, nn)); let pb = members_bytes(all_by_params(cs, nn));
    lemma_layout_prefixes(canonical(cs, strs), hb, zeros(pad_len(hb.len() as int)), cb, zeros(pad_len(cb.len() as int)), mb, zeros(pad_len(mb.len() as int)), pb, zeros(pad_len(pb.len() as int)), strs);
}
// a section write at an even stage k: all of chunk k+1 goes out, or a prefix of it
pub proof fn lemma_tail_write(sunk0: Seq<u8>, k: int, cs: Seq<ClassInProgress>, strs: Seq<u8>)
    requires 0 <= k < 9,
    ensures
        forall|new: Seq<u8>| #[trigger] delivered_prefix(sunk0 + tail_prefix(k, cs, strs), new, tail_chunk(k + 1, cs, strs)) ==> delivered_prefix(sunk0, new, canonical(cs, strs)),
        (sunk0 + tail_prefix(k, cs, strs)) + tail_chunk(k + 1, cs, strs) == sunk0 + tail_prefix(k + 1, cs, strs),
        (tail_prefix(k, cs, strs).len() % 8 + tail_chunk(k + 1, cs, strs).len()) % 8 == tail_prefix(k + 1, cs, strs).len() % 8,
        is_prefix_of(tail_prefix(k, cs, strs) + tail_chunk(k + 1, cs, strs), canonical(cs, strs)),
{
    lemma_tail_step(k, cs, strs);
    lemma_track_write(sunk0, tail_prefix(k, cs, strs), tail_chunk(k + 1, cs, strs), canonical(cs, strs));
}
// the padding after a section (odd stage k, chunk k+1 is the padding of chunk k): the zero bytes the writer computes
// from its running offset are exactly the next chunk, and afterwards the position is 8-aligned
pub proof fn lemma_tail_pad(sunk0: Seq<u8>, k: int, cs: Seq<ClassInProgress>, strs: Seq<u8>, off: int)
    requires 0 <= k < 9, k % 2 == 1, off == tail_prefix(k, cs, strs).len() % 8,
    ensures
        zeros(pad_len(off)) == tail_chunk(k + 1, cs, strs),
        forall|new: Seq<u8>, d: int| 0 <= d <= pad_len(off) && #[trigger] ext_by_zeros(sunk0 + tail_prefix(k, cs, strs), new, d) ==> delivered_prefix(sunk0, new, canonical(cs, strs)),
        forall|new: Seq<u8>| #[trigger] ext_by_zeros(sunk0 + tail_prefix(k, cs, strs), new, pad_len(off)) ==> new == sunk0 + tail_prefix(k + 1, cs, strs),
        tail_prefix(k + 1, cs, strs).len() % 8 == 0,
{
    lemma_tail_step(k - 1, cs, strs);
    lemma_tail_step(k, cs, strs);
    lemma_tail_aligned(cs, strs);
    let a = tail_prefix(k - 1, cs, strs).len() as int;
    let b = tail_chunk(k, cs, strs).len() as int;
    assert(tail_prefix(k, cs, strs).len() == a + b);
    lemma_pad_arith(a, b, off);
    assert(tail_chunk(k + 1, cs, strs) == zeros(pad_len(b)));
    lemma_track_pad(sunk0, tail_prefix(k, cs, strs), pad_len(off), canonical(cs, strs));
}
// a pad_to_8 at an already aligned position (even stage) writes nothing
pub proof fn lemma_tail_pad_noop(sunk0: Seq<u8>, k: int, cs: Seq<ClassInProgress>, strs: Seq<u8>, off: int)
    requires 0 <= k <= 9, k % 2 == 0, off == tail_prefix(k, cs, strs).len() % 8,
    ensures
        pad_len(off) == 0,
        forall|new: Seq<u8>| #[trigger] ext_by_zeros(sunk0 + tail_prefix(k, cs, strs), new, 0) ==> new == sunk0 + tail_prefix(k, cs, strs)
            && delivered_prefix(sunk0, new, canonical(cs, strs)),
{
    lemma_tail_aligned(cs, strs);
    if k < 9 { lemma_tail_step(k, cs, strs); } else { lemma_tail_step(k - 1, cs, strs); }
    lemma_add_empty(tail_prefix(k, cs, strs));
    lemma_track_pad(sunk0, tail_prefix(k, cs, strs), 0, canonical(cs, strs));
}

