// ---- sequence algebra used by the proof of the writer tail ----
pub open spec fn classes_suffix(cs: Seq<ClassInProgress>, n: int, m: int) -> Seq<u8>
    decreases m - n
{ if m <= n { Seq::empty() } else { classes_suffix(cs, n, m - 1) + class_bytes(emitted_class(cs, m - 1)) } }

pub proof fn lemma_classes_split(cs: Seq<ClassInProgress>, n: int, m: int)
    requires 0 <= n <= m,
    ensures classes_bytes(cs, m) == classes_bytes(cs, n) + classes_suffix(cs, n, m),
    decreases m - n,
{
    if m == n {
        assert(classes_suffix(cs, n, m) =~= Seq::<u8>::empty());
        assert(classes_bytes(cs, m) =~= classes_bytes(cs, n) + classes_suffix(cs, n, m));
    } else {
        lemma_classes_split(cs, n, m - 1);
        assert(classes_bytes(cs, m) =~= classes_bytes(cs, n) + classes_suffix(cs, n, m));
    }
}
pub proof fn lemma_classes_suffix_head(cs: Seq<ClassInProgress>, n: int, m: int)
    requires 0 <= n < m,
    ensures classes_suffix(cs, n, m) == class_bytes(emitted_class(cs, n)) + classes_suffix(cs, n + 1, m),
    decreases m - n,
{
    if m == n + 1 {
        assert(classes_suffix(cs, n, n) =~= Seq::<u8>::empty());
        assert(classes_suffix(cs, n + 1, m) =~= Seq::<u8>::empty());
        assert(classes_suffix(cs, n, m) =~= class_bytes(emitted_class(cs, n)) + classes_suffix(cs, n + 1, m));
    } else {
        lemma_classes_suffix_head(cs, n, m - 1);
        assert(classes_suffix(cs, n, m) =~= class_bytes(emitted_class(cs, n)) + classes_suffix(cs, n + 1, m));
    }
}
pub proof fn lemma_classes_len(cs: Seq<ClassInProgress>, n: int)
    requires 0 <= n,
    ensures classes_bytes(cs, n).len() == 28 * n,
    decreases n,
{ axiom_record_sizes(); if n > 0 { lemma_classes_len(cs, n - 1); } }

pub proof fn lemma_members_before(cs: Seq<ClassInProgress>, n: int)
    requires 0 <= n,
    ensures all_members(cs, n).len() == members_before(cs, n), all_by_params(cs, n).len() == by_params_before(cs, n),
    decreases n,
{ if n > 0 { lemma_members_before(cs, n - 1); } }

// every possible outcome of writing `chunk` after `done` keeps "what was delivered is a prefix of canon"
pub proof fn lemma_step(sunk0: Seq<u8>, done: Seq<u8>, chunk: Seq<u8>, rest: Seq<u8>, canon: Seq<u8>)
    requires canon == done + chunk + rest,
    ensures
        forall|new: Seq<u8>| #[trigger] delivered_prefix(sunk0 + done, new, chunk) ==> delivered_prefix(sunk0, new, canon),
        (sunk0 + done) + chunk == sunk0 + (done + chunk),
{
    assert forall|new: Seq<u8>| #[trigger] delivered_prefix(sunk0 + done, new, chunk) implies delivered_prefix(sunk0, new, canon) by {
        let k = new.len() - (sunk0 + done).len();
        assert(canon.subrange(0, done.len() + k) =~= done + chunk.subrange(0, k));
        assert(new =~= sunk0 + canon.subrange(0, new.len() - sunk0.len()));
    }
    assert((sunk0 + done) + chunk =~= sunk0 + (done + chunk));
}
// same for a padding step (pad_to_8 reports its effect element-wise)
pub proof fn lemma_pad_step(sunk0: Seq<u8>, done: Seq<u8>, pad: int, rest: Seq<u8>, canon: Seq<u8>)
    requires pad >= 0, canon == done + zeros(pad) + rest,
    ensures
        forall|new: Seq<u8>, d: int| 0 <= d <= pad && #[trigger] ext_by_zeros(sunk0 + done, new, d) ==> delivered_prefix(sunk0, new, canon),
        forall|new: Seq<u8>| #[trigger] ext_by_zeros(sunk0 + done, new, pad) ==> new == sunk0 + (done + zeros(pad)),
{
    assert forall|new: Seq<u8>, d: int| 0 <= d <= pad && #[trigger] ext_by_zeros(sunk0 + done, new, d) implies delivered_prefix(sunk0, new, canon) by {
        assert(canon.subrange(0, done.len() + d) =~= done + zeros(d));
        assert(new =~= sunk0 + canon.subrange(0, new.len() - sunk0.len()));
    }
    assert forall|new: Seq<u8>| #[trigger] ext_by_zeros(sunk0 + done, new, pad) implies new == sunk0 + (done + zeros(pad)) by {
        assert(new =~= sunk0 + (done + zeros(pad)));
    }
}

// ---- what the canonical bytes mean (C09): counts in the header are the numbers of records written; total length ----
pub proof fn lemma_header_counts(cs: Seq<ClassInProgress>, n: int)
    requires 0 <= n <= cs.len(), forall|i: int| 0 <= i < cs.len() ==> wf_cip(#[trigger] cs[i]),
    ensures
        sum_members_len(cs.take(n)) == all_members(cs, n).len(),
        sum_by_params_len(cs.take(n)) == all_by_params(cs, n).len(),
    decreases n,
{
    if n > 0 {
        lemma_header_counts(cs, n - 1);
        assert(cs.take(n).drop_last() =~= cs.take(n - 1));
        assert(cs.take(n).last() == cs[n - 1]);
    }
}
