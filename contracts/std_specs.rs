// ---- assumed contracts of std functions (documented behaviour; listed in every evidence file) ----

#[verifier::allow(undeclared_external_trait)]
pub assume_specification<T, E> [std::result::Result::<T, E>::unwrap_or] (r: std::result::Result<T, E>, d: T) -> (o: T)
    where E: std::marker::Destruct, T: std::marker::Destruct,
    ensures o == (match r { Ok(v) => v, Err(_) => d });

pub assume_specification [std::cmp::Ordering::is_ne] (o: std::cmp::Ordering) -> (b: bool)
    ensures b == (o != std::cmp::Ordering::Equal);

#[verifier::allow(undeclared_external_trait)]
pub assume_specification<T, U, F> [std::option::Option::<T>::map_or] (o: std::option::Option<T>, d: U, f: F) -> (r: U)
    where F: std::ops::FnOnce(T,) -> U + std::marker::Destruct, U: std::marker::Destruct,
    requires o is Some ==> call_requires(f, (o->0,)),
    ensures match o { Some(v) => call_ensures(f, (v,), r), None => r == d };
