// ---- assumed contracts of std functions (documented behaviour; listed in every evidence file) ----

#[verifier::allow(undeclared_external_trait)]
pub assume_specification<T, E> [std::result::Result::<T, E>::unwrap_or] (r: std::result::Result<T, E>, d: T) -> (o: T)
    where E: std::marker::Destruct, T: std::marker::Destruct,
    ensures o == (match r { Ok(v) => v, Err(_) => d });

pub assume_specification<T> [std::option::Option::<T>::or] (o: std::option::Option<T>, optb: std::option::Option<T>) -> (r: std::option::Option<T>)
    ensures r == (match o { Some(x) => Some(x), None => optb });
pub assume_specification<T, U> [std::option::Option::<T>::and] (o: std::option::Option<T>, optb: std::option::Option<U>) -> (r: std::option::Option<U>)
    ensures r == (match o { Some(_) => optb, None => None::<U> });
pub assume_specification<T> [std::option::Option::<T>::xor] (o: std::option::Option<T>, optb: std::option::Option<T>) -> (r: std::option::Option<T>)
    ensures r == (match (o, optb) { (Some(x), None) => Some(x), (None, Some(y)) => Some(y), _ => None::<T> });

pub assume_specification [std::cmp::Ordering::is_ne] (o: std::cmp::Ordering) -> (b: bool)
    ensures b == (o != std::cmp::Ordering::Equal);

#[verifier::allow(undeclared_external_trait)]
pub assume_specification<T, U, F> [std::option::Option::<T>::map_or] (o: std::option::Option<T>, d: U, f: F) -> (r: U)
    where F: std::ops::FnOnce(T,) -> U + std::marker::Destruct, U: std::marker::Destruct,
    requires o is Some ==> call_requires(f, (o->0,)),
    ensures match o { Some(v) => call_ensures(f, (v,), r), None => r == d };

// value of `Default::default()`; only the `&str` instance is characterised (the empty string)
pub uninterp spec fn default_value<T>() -> T;
#[verifier::external_body]
pub broadcast proof fn axiom_default_str<'a>() ensures (#[trigger] default_value::<&'a str>())@ == Seq::<char>::empty() {}

#[verifier::allow(undeclared_external_trait)]
pub assume_specification<T, E> [std::result::Result::<T, E>::unwrap_or_default] (r: std::result::Result<T, E>) -> (o: T)
    where E: std::marker::Destruct, T: std::default::Default + std::marker::Destruct,
    ensures match r { Ok(v) => o == v, Err(_) => o == default_value::<T>() };

#[verifier::allow(undeclared_external_trait)]
pub assume_specification<T> [bool::then_some] (b: bool, v: T) -> (r: std::option::Option<T>)
    where T: std::marker::Destruct,
    ensures r == (if b { Some(v) } else { None::<T> });


// ---- a batch of small std functions that code under contract may start to use (all ASSUMED: std documentation restated) ----
pub assume_specification [usize::abs_diff] (a: usize, b: usize) -> (r: usize) ensures r == (if a >= b { a - b } else { b - a });
pub assume_specification [u32::abs_diff] (a: u32, b: u32) -> (r: u32) ensures r == (if a >= b { a - b } else { b - a });
pub assume_specification [u8::is_ascii_digit] (b: &u8) -> (r: bool) ensures r == (48 <= *b && *b <= 57);
pub assume_specification [u8::is_ascii_whitespace] (b: &u8) -> (r: bool) ensures r == (*b == 9u8 || *b == 10u8 || *b == 12u8 || *b == 13u8 || *b == 32u8);
pub assume_specification<T, U> [std::option::Option::<T>::zip] (o: std::option::Option<T>, p: std::option::Option<U>) -> (r: std::option::Option<(T, U)>)
    ensures r == (match (o, p) { (Some(x), Some(y)) => Some((x, y)), _ => None::<(T, U)> });
pub assume_specification<T: Copy> [std::option::Option::<&T>::copied] (o: std::option::Option<&T>) -> (r: std::option::Option<T>)
    ensures r == (match o { Some(x) => Some(*x), None => None::<T> });
pub assume_specification<T> [std::option::Option::<std::option::Option<T>>::flatten] (o: std::option::Option<std::option::Option<T>>) -> (r: std::option::Option<T>)
    ensures r == (match o { Some(x) => x, None => None::<T> });
pub assume_specification<'a, T> [<[T]>::split_last] (s: &'a [T]) -> (r: std::option::Option<(&'a T, &'a [T])>)
    ensures match r { Some((x, rest)) => s@.len() > 0 && *x == s@[s@.len() - 1] && rest@ == s@.subrange(0, s@.len() - 1), None => s@.len() == 0 };
pub assume_specification<T: PartialEq> [<[T]>::contains] (s: &[T], x: &T) -> (r: bool);   // (no functional contract: PartialEq is user-defined in general)

// ---- comparator vocabulary -------------------------------------------------------------------------
pub open spec fn ord_rank(o: Ordering) -> int { match o { Ordering::Less => 0, Ordering::Equal => 1, Ordering::Greater => 2 } }

// the comparator's specification allows exactly one answer per element
pub open spec fn cmp_deterministic<'a, T: 'a, F: FnOnce(&'a T) -> Ordering>(f: F) -> bool {
    forall|m: &'a T, o1: Ordering, o2: Ordering| #[trigger] call_ensures(f, (m,), o1) && #[trigger] call_ensures(f, (m,), o2) ==> o1 == o2
}

// the slice is sorted w.r.t. the comparator: Less* Equal* Greater*
pub open spec fn cmp_mono<'a, T: 'a, F: FnOnce(&'a T) -> Ordering>(s: Seq<T>, f: F) -> bool {
    forall|i: int, j: int, oi: Ordering, oj: Ordering| 0 <= i < j < s.len()
        && #[trigger] call_ensures(f, (&s[i],), oi) && #[trigger] call_ensures(f, (&s[j],), oj) ==> ord_rank(oi) <= ord_rank(oj)
}

// "the comparator answers non-Equal for x" in the only form a closure contract supports (positive, relational)
pub open spec fn cmp_ne<'a, T: 'a, F: FnOnce(&'a T) -> Ordering>(f: F, x: &'a T) -> bool {
    exists|o: Ordering| #[trigger] call_ensures(f, (x,), o) && o != Ordering::Equal
}

// modelling assumption: a comparator closure whose precondition holds returns *some* value allowed by its contract
// (exec closures terminate; Verus only axiomatises ensures => clause, not the existence of a result)
#[verifier::external_body]
pub proof fn axiom_call_total<'a, T: 'a, F: Fn(&'a T) -> Ordering>(f: F, x: &'a T)
    requires call_requires(f, (x,)),
    ensures exists|o: Ordering| #[trigger] call_ensures(f, (x,), o),
{}

// documented contract of <[T]>::binary_search_by: a hit is an Equal element; on a slice sorted w.r.t. a
// (deterministic) comparator a miss means there is no Equal element.
#[verifier::allow(undeclared_external_trait)]
pub assume_specification<'a, T, F> [<[T]>::binary_search_by] (s: &'a [T], f: F) -> (r: std::result::Result<usize, usize>)
    where F: std::ops::FnMut(&'a T,) -> std::cmp::Ordering,
    requires forall|i: int| 0 <= i < s@.len() ==> #[trigger] call_requires(f, (&s@[i],)),
    ensures
        match r {
            Ok(i) => i < s@.len() && call_ensures(f, (&s@[i as int],), Ordering::Equal),
            Err(i) => i <= s@.len() && (cmp_mono(s@, f) && cmp_deterministic(f)
                        ==> forall|j: int| 0 <= j < s@.len() ==> cmp_ne(f, &#[trigger] s@[j])),
        };

// R2 shims: the body of each shim is exactly the expression it replaces in the extracted code
#[verifier::external_body]
fn shim_slice_rposition<'a, T, P: FnMut(&'a T) -> bool>(s: &'a [T], p: P) -> (r: Option<usize>)
    requires forall|i: int| 0 <= i < s@.len() ==> #[trigger] call_requires(p, (&s@[i],)),
    ensures match r {
        Some(k) => k < s@.len() && call_ensures(p, (&s@[k as int],), true)
            && forall|j: int| k < j < s@.len() ==> call_ensures(p, (& #[trigger] s@[j],), false),
        None => forall|j: int| 0 <= j < s@.len() ==> call_ensures(p, (& #[trigger] s@[j],), false),
    }
{ s.iter().rposition(p) }

#[verifier::external_body]
fn shim_slice_position<'a, T, P: FnMut(&'a T) -> bool>(s: &'a [T], p: P) -> (r: Option<usize>)
    requires forall|i: int| 0 <= i < s@.len() ==> #[trigger] call_requires(p, (&s@[i],)),
    ensures match r {
        Some(k) => k < s@.len() && call_ensures(p, (&s@[k as int],), true)
            && forall|j: int| 0 <= j < k ==> call_ensures(p, (& #[trigger] s@[j],), false),
        None => forall|j: int| 0 <= j < s@.len() ==> call_ensures(p, (& #[trigger] s@[j],), false),
    }
{ s.iter().position(p) }

// ---- str order (assumed: lexicographic byte order of str is a total order determined by the contents) ----
pub uninterp spec fn seq_cmp(a: Seq<char>, b: Seq<char>) -> Ordering;

#[verifier::external_body]
pub proof fn axiom_str_obeys()
    ensures <str as vstd::std_specs::cmp::OrdSpec>::obeys_cmp_spec(),
{}

#[verifier::external_body]
pub broadcast proof fn axiom_str_cmp(a: &str, b: &str)
    ensures #[trigger] vstd::std_specs::cmp::OrdSpec::cmp_spec(a, b) == seq_cmp(a@, b@),
{}

#[verifier::external_body]
pub proof fn axiom_seq_cmp_total(a: Seq<char>, b: Seq<char>)
    ensures
        (seq_cmp(a, b) == Ordering::Equal) <==> a == b,
        (seq_cmp(a, b) == Ordering::Less) <==> (seq_cmp(b, a) == Ordering::Greater),
{}

#[verifier::external_body]
pub proof fn axiom_seq_cmp_trans(a: Seq<char>, b: Seq<char>, c: Seq<char>)
    requires seq_cmp(a, b) != Ordering::Greater, seq_cmp(b, c) != Ordering::Greater,
    ensures seq_cmp(a, c) != Ordering::Greater,
        (seq_cmp(a, b) == Ordering::Less || seq_cmp(b, c) == Ordering::Less) ==> seq_cmp(a, c) == Ordering::Less,
{}

// two string slices with the same contents are the same spec value
#[verifier::external_body]
pub broadcast proof fn axiom_str_ext(a: &str, b: &str)
    requires #[trigger] a@ == #[trigger] b@,
    ensures a == b,
{}

// `s.trim_end_matches(c)` for a char pattern: every trailing occurrence of c removed (std documentation restated over the char view)
pub open spec fn strip_trailing(s: Seq<char>, c: char) -> Seq<char>
    decreases s.len()
{ if s.len() > 0 && s[s.len() - 1] == c { strip_trailing(s.subrange(0, s.len() - 1), c) } else { s } }
#[verifier::external_body]
fn shim_trim_end_matches_char<'a>(s: &'a str, c: char) -> (r: &'a str) ensures r@ == strip_trailing(s@, c) { s.trim_end_matches(c) }
