// ---- std::io::Write as a contract: "for every sink that obeys the I/O contract" (C15) ----
#[verifier::external_type_specification]
#[verifier::external_body]
pub struct ExIoError(std::io::Error);

// io::Error / ErrorKind as opaque values (so that code inspecting `e.kind()` can be verified; nothing is assumed about the kind)
#[verifier::external_type_specification]
pub struct ExErrorKind(std::io::ErrorKind);
pub assume_specification [std::io::Error::kind] (e: &std::io::Error) -> (k: std::io::ErrorKind);
pub assume_specification [<std::io::ErrorKind as PartialEq>::eq] (a: &std::io::ErrorKind, b: &std::io::ErrorKind) -> (r: bool) ensures r == (*a == *b);

#[verifier::external_trait_specification]
#[verifier::external_trait_extension(WriteSpec via WriteSpecImpl)]
pub trait ExWrite {
    type ExternalTraitSpecificationFor: std::io::Write;
    // ghost: everything the sink has accepted so far
    spec fn sunk(&self) -> Seq<u8>;
    fn write(&mut self, buf: &[u8]) -> (r: std::io::Result<usize>)
        ensures match r {
            Ok(n) => n <= buf@.len() && final(self).sunk() == old(self).sunk() + buf@.subrange(0, n as int),
            Err(_) => final(self).sunk() == old(self).sunk(),
        };
    fn flush(&mut self) -> std::io::Result<()>;
    // std's provided method: loops over `write`, retries Interrupted, fails on Ok(0) / any other error
    fn write_all(&mut self, buf: &[u8]) -> (r: std::io::Result<()>)
        ensures match r {
            Ok(_) => final(self).sunk() == old(self).sunk() + buf@,
            // only a prefix of buf was accepted (its length is the growth of `sunk`)
            Err(_) => delivered_prefix(old(self).sunk(), final(self).sunk(), buf@),
        };
}
#[verifier::opaque]
pub open spec fn delivered_prefix(old: Seq<u8>, new: Seq<u8>, buf: Seq<u8>) -> bool {
    old.len() <= new.len() <= old.len() + buf.len() && new == old + buf.subrange(0, new.len() - old.len())
}

// ---- byte images of the records (watto Pod::as_bytes; lengths and field order pinned by Kani K1) ----
pub uninterp spec fn hdr_bytes(h: Header) -> Seq<u8>;
pub uninterp spec fn class_bytes(c: Class) -> Seq<u8>;
pub uninterp spec fn members_bytes(ms: Seq<Member>) -> Seq<u8>;

#[verifier::external_body]
pub proof fn axiom_record_sizes()
    ensures
        forall|h: Header| (#[trigger] hdr_bytes(h)).len() == 24,
        forall|c: Class| (#[trigger] class_bytes(c)).len() == 28,
        forall|ms: Seq<Member>| (#[trigger] members_bytes(ms)).len() == 36 * ms.len(),
{}

#[verifier::external_body]
fn shim_header_as_bytes(h: &Header) -> (r: &[u8]) ensures r@ == hdr_bytes(*h) { unimplemented!() /* header.as_bytes() */ }
#[verifier::external_body]
fn shim_class_as_bytes(c: &Class) -> (r: &[u8]) ensures r@ == class_bytes(*c) { unimplemented!() /* c.class.as_bytes() */ }
#[verifier::external_body]
fn shim_members_as_bytes(v: &Vec<Member>) -> (r: &[u8]) ensures r@ == members_bytes(v@) { unimplemented!() /* members.as_bytes() */ }

// ---- the watto string table (dependency; opaque) ----
pub struct StringTable { pub opaque: u8 }
pub uninterp spec fn table_bytes(t: StringTable) -> Seq<u8>;
impl StringTable {
    #[verifier::external_body]
    pub fn into_bytes(self) -> (r: Vec<u8>) ensures r@ == table_bytes(self) { unimplemented!() }
}

// ---- BTreeMap traversal in key order (std; assumed) ----
#[verifier::external_type_specification]
#[verifier::external_body]
#[verifier::reject_recursive_types(K)]
#[verifier::reject_recursive_types(V)]
#[verifier::reject_recursive_types(A)]
pub struct ExIntoValues<K, V, A: std::alloc::Allocator + Clone>(std::collections::btree_map::IntoValues<K, V, A>);

// the values of a BTreeMap in ascending key order
pub uninterp spec fn vals<K, V>(m: BTreeMap<K, V>) -> Seq<V>;
pub open spec fn flat<T>(s: Seq<Vec<T>>) -> Seq<T>
    decreases s.len()
{
    if s.len() == 0 { Seq::empty() } else { flat(s.drop_last()) + s.last()@ }
}

#[verifier::external_body]
fn shim_into_values<K, V>(m: BTreeMap<K, V>) -> (r: std::collections::btree_map::IntoValues<K, V>)
    ensures r.obeys_prophetic_iter_laws(), r.decrease() is Some, r.remaining() == vals(m),
{ m.into_values() }

#[verifier::external_body]
fn shim_extend_flatten<K>(dst: &mut Vec<Member>, m: BTreeMap<K, Vec<Member>>)
    ensures final(dst)@ == old(dst)@ + flat(vals(m)),
{ dst.extend(m.into_values().flat_map(|m| m.into_iter())) }

#[verifier::external_body]
fn shim_btree_len<K, V>(m: &BTreeMap<K, V>) -> (r: usize) ensures r == vals(*m).len() { m.len() }

// `.values().map(|c| c.class.members_len).sum::<u32>()`: Iterator::sum panics on overflow in debug builds, so the shim
// has the precondition that the total fits (representable domain of C09: counts are u32 header fields)
pub open spec fn sum_members_len(s: Seq<ClassInProgress>) -> int
    decreases s.len()
{ if s.len() == 0 { 0 } else { sum_members_len(s.drop_last()) + s.last().class.members_len as int } }
pub open spec fn sum_by_params_len(s: Seq<ClassInProgress>) -> int
    decreases s.len()
{ if s.len() == 0 { 0 } else { sum_by_params_len(s.drop_last()) + s.last().class.members_by_params_len as int } }

#[verifier::external_body]
fn shim_sum_members_len<'d>(classes: &BTreeMap<&'d str, ClassInProgress<'d>>) -> (r: u32)
    requires sum_members_len(vals(*classes)) <= u32::MAX,
    ensures r == sum_members_len(vals(*classes)),
{ classes.values().map(|c| c.class.members_len).sum::<u32>() }
#[verifier::external_body]
fn shim_sum_by_params_len<'d>(classes: &BTreeMap<&'d str, ClassInProgress<'d>>) -> (r: u32)
    requires sum_by_params_len(vals(*classes)) <= u32::MAX,
    ensures r == sum_by_params_len(vals(*classes)),
{ classes.values().map(|c| c.class.members_by_params_len).sum::<u32>() }

// ---- the documented version-1 layout, as a function of what is written (C09 / C10 / C15) ----
pub open spec fn zeros(n: int) -> Seq<u8> { Seq::new(n as nat, |i: int| 0u8) }
pub open spec fn pad_len(n: int) -> int { (8 - n % 8) % 8 }
// `new` is `old` followed by k zero bytes (element-wise form: provable for an inline `&[0u8; 8][..k]` temporary)
#[verifier::opaque]
pub open spec fn ext_by_zeros(old: Seq<u8>, new: Seq<u8>, k: int) -> bool {
    k >= 0 && new.len() == old.len() + k && (forall|i: int| 0 <= i < old.len() ==> #[trigger] new[i] == old[i])
    && (forall|i: int| old.len() <= i < new.len() ==> #[trigger] new[i] == 0u8)
}
pub proof fn lemma_ext_by_zeros(old: Seq<u8>, new: Seq<u8>, k: int)
    requires ext_by_zeros(old, new, k),
    ensures new == old + zeros(k),
{ reveal(ext_by_zeros); assert(new =~= old + zeros(k)); }
pub open spec fn padded(b: Seq<u8>) -> Seq<u8> { b + zeros(pad_len(b.len() as int)) }

// the class record emitted for class number i: its two ranges start where the previous classes' ranges end, each in ITS OWN section
pub open spec fn members_before(cs: Seq<ClassInProgress>, i: int) -> int
    decreases i
{ if i <= 0 { 0 } else { members_before(cs, i - 1) + flat(vals(cs[i - 1].members)).len() } }
pub open spec fn by_params_before(cs: Seq<ClassInProgress>, i: int) -> int
    decreases i
{ if i <= 0 { 0 } else { by_params_before(cs, i - 1) + flat(vals(cs[i - 1].members_by_params)).len() } }

pub open spec fn emitted_class(cs: Seq<ClassInProgress>, i: int) -> Class {
    Class { members_offset: members_before(cs, i) as u32, members_by_params_offset: by_params_before(cs, i) as u32, ..cs[i].class }
}
pub open spec fn classes_bytes(cs: Seq<ClassInProgress>, n: int) -> Seq<u8>
    decreases n
{ if n <= 0 { Seq::empty() } else { classes_bytes(cs, n - 1) + class_bytes(emitted_class(cs, n - 1)) } }
pub open spec fn all_members(cs: Seq<ClassInProgress>, n: int) -> Seq<Member>
    decreases n
{ if n <= 0 { Seq::empty() } else { all_members(cs, n - 1) + flat(vals(cs[n - 1].members)) } }
pub open spec fn all_by_params(cs: Seq<ClassInProgress>, n: int) -> Seq<Member>
    decreases n
{ if n <= 0 { Seq::empty() } else { all_by_params(cs, n - 1) + flat(vals(cs[n - 1].members_by_params)) } }

pub open spec fn header_of(cs: Seq<ClassInProgress>, strings: Seq<u8>) -> Header {
    Header {
        magic: PRGCACHE_MAGIC, version: PRGCACHE_VERSION,
        num_classes: cs.len() as u32,
        num_members: sum_members_len(cs) as u32,
        num_members_by_params: sum_by_params_len(cs) as u32,
        string_bytes: strings.len() as u32,
    }
}
// the canonical serialisation of (classes in key order, string table)
pub open spec fn canonical(cs: Seq<ClassInProgress>, strings: Seq<u8>) -> Seq<u8> {
    padded(hdr_bytes(header_of(cs, strings)))
        + padded(classes_bytes(cs, cs.len() as int))
        + padded(members_bytes(all_members(cs, cs.len() as int)))
        + padded(members_bytes(all_by_params(cs, cs.len() as int)))
        + strings
}
#[verifier::opaque]
pub open spec fn is_prefix_of(p: Seq<u8>, s: Seq<u8>) -> bool { p.len() <= s.len() && s.subrange(0, p.len() as int) == p }

// what the collection loop of `write` maintains for every class it stores (ASSUMED there): the two length fields count the
// records in the class's two maps
pub open spec fn wf_cip(c: ClassInProgress) -> bool {
    c.class.members_len as int == flat(vals(c.members)).len() && c.class.members_by_params_len as int == flat(vals(c.members_by_params)).len()
}
