use vstd::prelude::*;
verus! {
#[derive(Clone, Copy)]
pub struct LineMapping {
    pub startline: usize,
    pub endline: usize,
    pub original_startline: Option<usize>,
    pub original_endline: Option<usize>,
}

#[verifier::allow(undeclared_external_trait)]
pub assume_specification<T, U, F> [std::option::Option::<T>::map_or] (o: std::option::Option<T>, d: U, f: F) -> (r: U)
    where F: std::ops::FnOnce(T,) -> U + std::marker::Destruct, U: std::marker::Destruct,
    requires o is Some ==> call_requires(f, (o->0,)),
    ensures match o { Some(v) => call_ensures(f, (v,), r), None => r == d };

// region mapper.rs:273-285 (verbatim statements)
fn region_mapper(line_mapping: Option<LineMapping>) -> (r: (usize, usize, usize, Option<usize>))
{
                    let (startline, endline) =
                        line_mapping.as_ref().map_or((0, 0), |line_mapping| {
                            (line_mapping.startline, line_mapping.endline)
                        });
                    let (original_startline, original_endline) =
                        line_mapping.map_or((0, None), |line_mapping| {
                            match line_mapping.original_startline {
                                Some(original_startline) => {
                                    (original_startline, line_mapping.original_endline)
                                }
                                None => (line_mapping.startline, Some(line_mapping.endline)),
                            }
                        });
    (startline, endline, original_startline, original_endline)
}

// region raw.rs:239-253 (verbatim statements)
fn region_writer(line_mapping: Option<LineMapping>) -> (r: (u32, u32, u32, u32))
{
                    let (startline, endline) = line_mapping.map_or((0, 0), |line_mapping| {
                        (line_mapping.startline as u32, line_mapping.endline as u32)
                    });
                    let (original_startline, original_endline) =
                        line_mapping.map_or((0, u32::MAX), |line_mapping| {
                            match line_mapping.original_startline {
                                Some(original_startline) => (
                                    original_startline as u32,
                                    line_mapping.original_endline.map_or(u32::MAX, |l| l as u32),
                                ),
                                None => {
                                    (line_mapping.startline as u32, line_mapping.endline as u32)
                                }
                            }
                        });
    (startline, endline, original_startline, original_endline)
}
}
fn main(){}
