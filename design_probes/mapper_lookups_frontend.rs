use vstd::prelude::*;
use vstd::std_specs::iter::IteratorSpec;
use std::collections::HashMap;
verus! {
broadcast use vstd::std_specs::hash::group_hash_axioms;

pub struct StackFrame<'s> {
    pub class: &'s str,
    pub method: &'s str,
    pub line: usize,
    pub file: Option<&'s str>,
    pub parameters: Option<&'s str>,
}
pub struct MemberMapping<'s> {
    pub startline: usize,
    pub endline: usize,
    pub original_class: Option<&'s str>,
    pub original_file: Option<&'s str>,
    pub original: &'s str,
    pub original_startline: usize,
    pub original_endline: Option<usize>,
}
pub struct ClassMembers<'s> {
    pub all_mappings: Vec<MemberMapping<'s>>,
    // method_params -> Vec[MemberMapping]
    pub mappings_by_params: HashMap<&'s str, Vec<MemberMapping<'s>>>,
}
pub struct ClassMapping<'s> {
    pub original: &'s str,
    pub obfuscated: &'s str,
    pub file_name: Option<&'s str>,
    pub members: HashMap<&'s str, ClassMembers<'s>>,
}
pub struct ProguardMapper<'s> {
    pub classes: HashMap<&'s str, ClassMapping<'s>>,
}

#[verifier::allow(undeclared_external_trait)]
pub assume_specification<T> [bool::then_some] (b: bool, v: T) -> (r: std::option::Option<T>)
    where T: std::marker::Destruct,
    ensures r == (if b { Some(v) } else { None::<T> });

impl<'s> ProguardMapper<'s> {
    pub fn remap_class(&'s self, class: &str) -> (r: Option<&'s str>)
        ensures
            self.classes@.contains_key(class) ==> r == Some(self.classes@[class].original),
            !self.classes@.contains_key(class) ==> r is None,
    {
        proof { assume(vstd::std_specs::hash::obeys_key_model::<&str>()); }
        self.classes.get(class).map(|class| class.original)
    }

    pub fn remap_method(&'s self, class: &str, method: &str) -> Option<(&'s str, &'s str)> {
        let class = self.classes.get(class)?;
        let mut members = class.members.get(method)?.all_mappings.iter();
        let first = members.next()?;

        // We conservatively check that all the mappings point to the same method,
        // as we don’t have line numbers to disambiguate.
        // We could potentially skip inlined functions here, but lets rather be conservative.
        let all_matching = members.all(|member| member.original == first.original);

        all_matching.then_some((class.original, first.original))
    }
}
}
fn main(){}
