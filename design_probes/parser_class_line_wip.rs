use vstd::string::StringSliceAdditionalSpecFns;
use vstd::prelude::*;
use vstd::std_specs::iter::IteratorSpec;
use std::str;
verus! {

#[verifier::external_type_specification]
#[verifier::external_body]
pub struct ExUtf8Error(std::str::Utf8Error);

pub uninterp spec fn valid_utf8(b: Seq<u8>) -> bool;
pub open spec fn str_bytes(s: &str) -> Seq<u8> { s.spec_bytes() }

pub assume_specification<'a> [std::str::from_utf8] (v: &'a [u8]) -> (r: Result<&'a str, std::str::Utf8Error>)
    ensures match r { Ok(s) => valid_utf8(v@) && str_bytes(s) == v@, Err(_) => !valid_utf8(v@) };

#[verifier::external_body]
fn shim_strip_prefix<'a>(s: &'a [u8], prefix: &[u8]) -> (r: Option<&'a [u8]>)
    ensures match r { Some(t) => prefix@.len() <= s@.len() && s@.subrange(0, prefix@.len() as int) == prefix@ && t@ == s@.subrange(prefix@.len() as int, s@.len() as int),
                      None => !(prefix@.len() <= s@.len() && s@.subrange(0, prefix@.len() as int) == prefix@) }
{ s.strip_prefix(prefix) }

#[verifier::external_body]
fn shim_empty_u8<'a>() -> (r: &'a [u8]) ensures r@.len() == 0 { &[] as &[u8] }

#[verifier::external_body]
fn shim_slice_position<'a, T, P: FnMut(&'a T) -> bool>(s: &'a [T], p: P) -> (r: Option<usize>)
    requires forall|i: int| 0 <= i < s@.len() ==> #[trigger] call_requires(p, (&s@[i],)),
    ensures match r {
        Some(k) => k < s@.len() && call_ensures(p, (&s@[k as int],), true)
            && forall|j: int| 0 <= j < k ==> call_ensures(p, (& #[trigger] s@[j],), false),
        None => forall|j: int| 0 <= j < s@.len() ==> call_ensures(p, (& #[trigger] s@[j],), false),
    }
{ s.iter().position(p) }

#[derive(Copy, Clone)]
pub struct ParseError<'s> {
    pub line: &'s [u8],
    pub kind: ParseErrorKind,
}

#[derive(Copy, Clone)]
pub enum ParseErrorKind {
    Utf8Error(str::Utf8Error),
    ParseError(&'static str),
}

pub enum ProguardRecord<'s> {
    Class { original: &'s str, obfuscated: &'s str },
    Other,
}

pub open spec fn spec_is_newline(b: u8) -> bool { b == 13u8 || b == 10u8 }

// predicate `p` decides exactly the byte set `set`
pub open spec fn set_of<P: Fn(&u8) -> bool>(p: P) -> spec_fn(u8) -> bool { |b: u8| p.ensures((&b,), true) }
pub open spec fn total<P: Fn(&u8) -> bool>(p: P) -> bool {
    (forall|b: &u8| #[trigger] p.requires((b,)))
    && (forall|b: &u8, r: bool| #[trigger] p.ensures((b,), r) ==> r == p.ensures((b,), true))
}
// index of first byte in `set`, or len
pub open spec fn callable<P: Fn(&u8) -> bool>(p: P) -> bool { forall|b: &u8| #[trigger] p.requires((b,)) }
// positive, relational "first hit" of predicate p in b at k
pub open spec fn first_hit<P: Fn(&u8) -> bool>(b: Seq<u8>, p: P, k: int) -> bool {
    0 <= k <= b.len() && (forall|j: int| 0 <= j < k ==> p.ensures((&#[trigger] b[j],), false)) && (k < b.len() ==> p.ensures((&b[k],), true))
}
pub open spec fn is_first(b: Seq<u8>, set: spec_fn(u8) -> bool, k: int) -> bool {
    0 <= k <= b.len() && (forall|j: int| 0 <= j < k ==> !set(#[trigger] b[j])) && (k < b.len() ==> set(b[k]))
}
pub open spec fn first_in(b: Seq<u8>, set: spec_fn(u8) -> bool) -> int
    decreases b.len()
{
    if b.len() == 0 || set(b[0]) { 0 } else { 1 + first_in(b.subrange(1, b.len() as int), set) }
}
proof fn lemma_first_in(b: Seq<u8>, set: spec_fn(u8) -> bool, k: int)
    requires 0 <= k <= b.len(), forall|j: int| 0 <= j < k ==> !set(#[trigger] b[j]), k < b.len() ==> set(b[k]),
    ensures first_in(b, set) == k,
    decreases b.len()
{
    if b.len() == 0 || set(b[0]) { } else {
        let t = b.subrange(1, b.len() as int);
        assert forall|j: int| 0 <= j < k - 1 implies !set(#[trigger] t[j]) by { assert(t[j] == b[j + 1]); }
        if k < b.len() { assert(t[k - 1] == b[k]); }
        lemma_first_in(t, set, k - 1);
    }
}

fn parse_prefix<'s>(bytes: &'s [u8], prefix: &'s [u8]) -> (ret: Result<&'s [u8], ParseError<'s>>)
    ensures match ret {
        Ok(rest) => prefix@.len() <= bytes@.len() && bytes@.subrange(0, prefix@.len() as int) == prefix@ && rest@ == bytes@.subrange(prefix@.len() as int, bytes@.len() as int),
        Err(_) => !(prefix@.len() <= bytes@.len() && bytes@.subrange(0, prefix@.len() as int) == prefix@),
    }
{
    shim_strip_prefix(bytes, prefix).ok_or(ParseError {
        line: bytes,
        kind: ParseErrorKind::ParseError("line is not a valid proguard record"),
    })
}

pub open spec fn cut_of(ret: Result<(&str, &[u8]), ParseError>) -> int {
    match ret { Ok((s, _)) => str_bytes(s).len() as int, Err(e) => e.line@.len() as int }
}
pub open spec fn split_ok(b: Seq<u8>, k: int, ret: Result<(&str, &[u8]), ParseError>) -> bool {
    match ret {
        Ok((s, rest)) => valid_utf8(b.subrange(0, k)) && str_bytes(s) == b.subrange(0, k) && rest@ == b.subrange(k, b.len() as int),
        Err(_) => !valid_utf8(b.subrange(0, k)),
    }
}
fn parse_until<P>(bytes: &[u8], predicate: P) -> (ret: Result<(&str, &[u8]), ParseError>)
where
    P: Fn(&u8) -> bool,
    requires callable(predicate),
    ensures first_hit(bytes@, predicate, cut_of(ret)) && split_ok(bytes@, cut_of(ret), ret),
{
    let (slice, rest) = match shim_slice_position(bytes, predicate) {
        Some(pos) => bytes.split_at(pos),
        None => (bytes, shim_empty_u8()),
    };
    proof {
        let k = slice@.len() as int;
        assert(slice@ =~= bytes@.subrange(0, k));
        assert(rest@ =~= bytes@.subrange(k, bytes@.len() as int));
        assert(first_hit(bytes@, predicate, k));
    }

    match std::str::from_utf8(slice) {
        Ok(s) => Ok((s, rest)),
        Err(err) => Err(ParseError {
            line: slice,
            kind: ParseErrorKind::Utf8Error(err),
        }),
    }
}


pub open spec fn no_nl(b: Seq<u8>) -> bool { forall|j: int| 0 <= j < b.len() ==> !spec_is_newline(#[trigger] b[j]) }
pub open spec fn or_nl(set: spec_fn(u8) -> bool) -> spec_fn(u8) -> bool { |b: u8| spec_is_newline(b) || set(b) }

proof fn lemma_first_in_bounds(b: Seq<u8>, set: spec_fn(u8) -> bool)
    ensures 0 <= first_in(b, set) <= b.len(),
        forall|j: int| 0 <= j < first_in(b, set) ==> !set(#[trigger] b[j]),
        first_in(b, set) < b.len() ==> set(b[first_in(b, set)]),
    decreases b.len()
{
    if b.len() == 0 || set(b[0]) { } else {
        let t = b.subrange(1, b.len() as int);
        lemma_first_in_bounds(t, set);
        assert forall|j: int| 0 <= j < first_in(b, set) implies !set(#[trigger] b[j]) by {
            if j > 0 { assert(t[j - 1] == b[j]); }
        }
        if first_in(b, set) < b.len() { assert(t[first_in(t, set)] == b[first_in(b, set)]); }
    }
}

fn parse_until_no_newline<P>(bytes: &[u8], predicate: P) -> (ret: Result<(&str, &[u8]), ParseError>)
where
    P: Fn(&u8) -> bool,
    requires callable(predicate),
    ensures ({ let k = cut_of(ret); 0 <= k <= bytes@.len()
        && (forall|j: int| 0 <= j < k ==> !spec_is_newline(#[trigger] bytes@[j]) && predicate.ensures((&bytes@[j],), false))
        && match ret {
            Ok((s, rest)) => valid_utf8(bytes@.subrange(0, k)) && str_bytes(s) == bytes@.subrange(0, k) && rest@ == bytes@.subrange(k, bytes@.len() as int)
                && (k < bytes@.len() ==> !spec_is_newline(bytes@[k]) && predicate.ensures((&bytes@[k],), true)),
            Err(_) => !valid_utf8(bytes@.subrange(0, k)) || (k < bytes@.len() && spec_is_newline(bytes@[k])),
        } }),
{
    let ghost b0 = bytes@;
    match parse_until(bytes, |byte: &u8| -> (r: bool)
            ensures r ==> (spec_is_newline(*byte) || predicate.ensures((byte,), true)),
                    !r ==> (!spec_is_newline(*byte) && predicate.ensures((byte,), false)),
                    r && !spec_is_newline(*byte) ==> predicate.ensures((byte,), true),
            { is_newline(byte) || predicate(byte) }) {
        Ok((slice, bytes)) => {
            proof {
                let k = str_bytes(slice).len() as int;
                if k < b0.len() { assert(bytes@[0] == b0[k]); }
            }
            if !bytes.is_empty() && is_newline(&bytes[0]) {
                Err(ParseError {
                    line: slice.as_bytes(),
                    kind: ParseErrorKind::ParseError("line is not a valid proguard record"),
                })
            } else {
                Ok((slice, bytes))
            }
        }
        Err(err) => Err(err),
    }
}


pub open spec fn skip_nl(b: Seq<u8>) -> Seq<u8>
    decreases b.len()
{
    if b.len() > 0 && spec_is_newline(b[0]) { skip_nl(b.subrange(1, b.len() as int)) } else { b }
}
proof fn lemma_skip_nl(b: Seq<u8>, k: int)
    requires 0 <= k <= b.len(), forall|j: int| 0 <= j < k ==> spec_is_newline(#[trigger] b[j]), k < b.len() ==> !spec_is_newline(b[k]),
    ensures skip_nl(b) == b.subrange(k, b.len() as int),
    decreases b.len()
{
    if b.len() > 0 && spec_is_newline(b[0]) {
        let t = b.subrange(1, b.len() as int);
        assert forall|j: int| 0 <= j < k - 1 implies spec_is_newline(#[trigger] t[j]) by { assert(t[j] == b[j + 1]); }
        if k < b.len() { assert(t[k - 1] == b[k]); }
        lemma_skip_nl(t, k - 1);
        assert(t.subrange(k - 1, t.len() as int) =~= b.subrange(k, b.len() as int));
    } else {
        assert(k == 0);
        assert(b.subrange(0, b.len() as int) =~= b);
    }
}

fn consume_leading_newlines(bytes: &[u8]) -> (ret: &[u8])
    ensures ret@ == skip_nl(bytes@),
{
    match shim_slice_position(bytes, |c: &u8| -> (r: bool) ensures r == !spec_is_newline(*c) { !is_newline(c) }) {
        Some(pos) => { proof { lemma_skip_nl(bytes@, pos as int); } &bytes[pos..] },
        None => { proof { lemma_skip_nl(bytes@, bytes@.len() as int); assert(bytes@.subrange(bytes@.len() as int, bytes@.len() as int) =~= Seq::<u8>::empty()); } b"" },
    }
}

pub open spec fn lit_arrow() -> Seq<u8> { seq![32u8, 45u8, 62u8, 32u8] }
pub open spec fn lit_colon() -> Seq<u8> { seq![58u8] }

/// Parses a single Proguard Class from a Proguard File.
fn parse_proguard_class(bytes: &[u8]) -> (ret: Result<(ProguardRecord, &[u8]), ParseError>)
    ensures match ret {
        Ok((ProguardRecord::Class { original, obfuscated }, rest)) => {
            let o = str_bytes(original); let b = str_bytes(obfuscated);
            &&& exists|tail: Seq<u8>| bytes@ == o + lit_arrow() + b + lit_colon() + tail && rest@ == skip_nl(tail)
            &&& forall|j: int| 0 <= j < o.len() ==> o[j] != 32u8 && !spec_is_newline(#[trigger] o[j])
            &&& forall|j: int| 0 <= j < b.len() ==> b[j] != 58u8 && !spec_is_newline(#[trigger] b[j])
        },
        Ok((_, _)) => false,
        Err(_) => true,
    }
{
    // class line:
    // `originalclassname -> obfuscatedclassname:`
    let (original, bytes1) = parse_until_no_newline(bytes, |c: &u8| -> (r: bool) ensures r == (*c == 32u8) { *c == b' ' })?;

    let bytes2 = parse_prefix(bytes1, b" -> ")?;

    let (obfuscated, bytes3) = parse_until_no_newline(bytes2, |c: &u8| -> (r: bool) ensures r == (*c == 58u8) { *c == b':' })?;

    let bytes4 = parse_prefix(bytes3, b":")?;

    let record = ProguardRecord::Class {
        original,
        obfuscated,
    };

    proof {
        let o = str_bytes(original); let b = str_bytes(obfuscated);
        let tail = bytes4@;
        assert(b" -> "@ =~= lit_arrow());
        assert(b":"@ =~= lit_colon());
        assert(bytes@ =~= o + bytes1@);
        assert(bytes1@ =~= lit_arrow() + bytes2@);
        assert(bytes2@ =~= b + bytes3@);
        assert(bytes3@ =~= lit_colon() + bytes4@);
        assert(bytes@ =~= o + lit_arrow() + b + lit_colon() + tail);
        assert forall|j: int| 0 <= j < o.len() implies o[j] != 32u8 && !spec_is_newline(#[trigger] o[j]) by { assert(o[j] == bytes@[j]); }
        assert forall|j: int| 0 <= j < b.len() implies b[j] != 58u8 && !spec_is_newline(#[trigger] b[j]) by { assert(b[j] == bytes2@[j]); }
    }
    Ok((record, consume_leading_newlines(bytes4)))
}

fn is_newline(byte: &u8) -> (r: bool) ensures r == spec_is_newline(*byte) {
    *byte == b'\r' || *byte == b'\n'
}
}
fn main(){}
