use vstd::prelude::*;
use vstd::std_specs::iter::IteratorSpec;
verus! {

pub struct Member {
    pub obfuscated_name_offset: u32,
    pub startline: u32,
    pub endline: u32,
    pub original_class_offset: u32,
    pub original_file_offset: u32,
    pub original_name_offset: u32,
    pub original_startline: u32,
    pub original_endline: u32,
    pub params_offset: u32,
}

pub struct StackFrame<'s> {
    pub class: &'s str,
    pub method: &'s str,
    pub line: usize,
    pub file: Option<&'s str>,
    pub parameters: Option<&'s str>,
}

pub struct ProguardCache<'data> {
    pub string_bytes: &'data [u8],
}

pub struct ReadStringError;

// abstract string table: offset -> Option<string>
pub uninterp spec fn tbl(bytes: Seq<u8>, offset: u32) -> Option<Seq<char>>;

impl<'data> ProguardCache<'data> {
    #[verifier::external_body]
    pub fn read_string(&self, offset: u32) -> (r: Result<&'data str, ReadStringError>)
        ensures
            match r { Ok(s) => tbl(self.string_bytes@, offset) == Some(s@), Err(_) => tbl(self.string_bytes@, offset) is None },
    {
        unimplemented!()
    }
}

pub assume_specification<T, E> [std::result::Result::<T, E>::unwrap_or] (r: std::result::Result<T, E>, d: T) -> (o: T)
    where E: std::marker::Destruct, T: std::marker::Destruct,
    ensures o == (match r { Ok(v) => v, Err(_) => d });

pub uninterp spec fn spec_extract_class_name(s: Seq<char>) -> Option<Seq<char>>;

#[verifier::external_body]
fn extract_class_name(full_path: &str) -> (r: Option<&str>)
    ensures match r { Some(x) => spec_extract_class_name(full_path@) == Some(x@), None => spec_extract_class_name(full_path@) is None }
{
    unimplemented!()
}

// ---------- spec of the ProGuard rule ----------
pub struct AFrame { pub class: Seq<char>, pub method: Seq<char>, pub line: int, pub file: Option<Seq<char>>, pub parameters: Option<Seq<char>> }

pub open spec fn aframe(f: StackFrame) -> AFrame {
    AFrame { class: f.class@, method: f.method@, line: f.line as int,
        file: match f.file { Some(x) => Some(x@), None => None },
        parameters: match f.parameters { Some(x) => Some(x@), None => None } }
}

pub open spec fn applies(m: Member, line: int) -> bool {
    !(m.endline > 0 && (line < m.startline || line > m.endline))
}

pub open spec fn orig_line(m: Member, line: int) -> int {
    if m.original_endline == u32::MAX || m.original_endline == m.original_startline { m.original_startline as int }
    else { m.original_startline + line - m.startline }
}

pub open spec fn readable(sb: Seq<u8>, m: Member) -> bool {
    (m.original_file_offset != u32::MAX ==> tbl(sb, m.original_file_offset) is Some)
    && tbl(sb, m.original_name_offset) is Some
}

pub open spec fn r8syn() -> Seq<char> { "R8$$SyntheticClass"@ }

pub open spec fn out_frame(sb: Seq<u8>, m: Member, f: AFrame) -> AFrame {
    let class = match tbl(sb, m.original_class_offset) { Some(c) => c, None => f.class };
    let file = if m.original_file_offset != u32::MAX {
        let fname = tbl(sb, m.original_file_offset).unwrap();
        if fname == r8syn() { spec_extract_class_name(class) } else { Some(fname) }
    } else if m.original_class_offset != u32::MAX { None } else { f.file };
    AFrame { class, method: tbl(sb, m.original_name_offset).unwrap(), line: orig_line(m, f.line), file, parameters: f.parameters }
}

pub open spec fn selected(sb: Seq<u8>, m: Member, line: int) -> bool { applies(m, line) && readable(sb, m) }

fn iterate_with_lines<'a>(
    cache: &ProguardCache<'a>,
    frame: &mut StackFrame<'a>,
    members: &mut std::slice::Iter<'_, Member>,
) -> (ret: Option<StackFrame<'a>>)
    requires
        (*old(members)).obeys_prophetic_iter_laws(),
        (*old(members)).decrease() is Some,
    ensures
        *final(frame) == *old(frame),
        match ret {
            Some(f) => exists|k: int| 0 <= k < (*old(members)).remaining().len()
                && (forall|j: int| 0 <= j < k ==> !selected(cache.string_bytes@, *(*old(members)).remaining()[j], old(frame).line as int))
                && selected(cache.string_bytes@, *(*old(members)).remaining()[k], old(frame).line as int)
                && aframe(f) == out_frame(cache.string_bytes@, *(*old(members)).remaining()[k], aframe(*old(frame)))
                && (*final(members)).remaining() == (*old(members)).remaining().skip(k + 1),
            None => forall|j: int| 0 <= j < (*old(members)).remaining().len() ==> !selected(cache.string_bytes@, *(*old(members)).remaining()[j], old(frame).line as int),
        }
{
    let ghost mut n: int = 0;
    let ghost rem0 = members.remaining();
    proof { assert(rem0.skip(0) == rem0); }
    loop
        invariant
            members.obeys_prophetic_iter_laws(),
            members.decrease() is Some,
            *frame == *old(frame),
            rem0 == (*old(members)).remaining(),
            0 <= n <= rem0.len(),
            rem0.skip(n) == members.remaining(),
            forall|j: int| 0 <= j < n ==> !selected(cache.string_bytes@, *rem0[j], frame.line as int),
        ensures n == rem0.len(),
        decreases members.decrease()->0,
    {
        let ghost rem_before = members.remaining();
        let Some(member) = members.next() else { proof { assert(rem_before.len() == 0); } break; };
        proof {
            assert(rem_before.len() > 0);
            assert(member == rem0[n]);
            assert(rem0.skip(n).drop_first() == rem0.skip(n + 1));
            n = n + 1;
        }
        // skip any members which do not match our frames line
        if member.endline > 0
            && (frame.line < member.startline as usize || frame.line > member.endline as usize)
        {
            continue;
        }
        // parents of inlined frames don’t have an `endline`, and
        // the top inlined frame need to be correctly offset.
        let line = if member.original_endline == u32::MAX
            || member.original_endline == member.original_startline
        {
            member.original_startline as usize
        } else {
            member.original_startline as usize + frame.line - member.startline as usize
        };

        let class = cache
            .read_string(member.original_class_offset)
            .unwrap_or(frame.class);

        let file = if member.original_file_offset != u32::MAX {
            let Ok(file_name) = cache.read_string(member.original_file_offset) else {
                continue;
            };

            if file_name == "R8$$SyntheticClass" {
                extract_class_name(class)
            } else {
                Some(file_name)
            }
        } else if member.original_class_offset != u32::MAX {
            // when an inlined function is from a foreign class, we
            // don’t know the file it is defined in.
            None
        } else {
            frame.file
        };

        let Ok(method) = cache.read_string(member.original_name_offset) else {
            continue;
        };

        return Some(StackFrame {
            class,
            method,
            file,
            line,
            parameters: frame.parameters,
        });
    }
    None
}

} // verus!
fn main() {}
