use vstd::prelude::*;
use vstd::std_specs::iter::IteratorSpec;
verus! {

pub struct StackFrame<'s> {
    pub class: &'s str,
    pub method: &'s str,
    pub line: usize,
    pub file: Option<&'s str>,
    pub parameters: Option<&'s str>,
}

struct MemberMapping<'s> {
    startline: usize,
    endline: usize,
    original_class: Option<&'s str>,
    original_file: Option<&'s str>,
    original: &'s str,
    original_startline: usize,
    original_endline: Option<usize>,
}

#[verifier::external_body]
fn extract_class_name(full_path: &str) -> (r: Option<&str>)
{
    unimplemented!()
}

fn iterate_with_lines<'a>(
    frame: &mut StackFrame<'a>,
    members: &mut core::slice::Iter<'_, MemberMapping<'a>>,
) -> Option<StackFrame<'a>> 
    requires (*old(members)).obeys_prophetic_iter_laws(), (*old(members)).decrease() is Some,
{
    loop
       invariant members.obeys_prophetic_iter_laws(), members.decrease() is Some,
       decreases members.decrease()->0,
    {
        let Some(member) = members.next() else { break; };
        // skip any members which do not match our frames line
        if member.endline > 0 && (frame.line < member.startline || frame.line > member.endline) {
            continue;
        }
        // parents of inlined frames don’t have an `endline`, and
        // the top inlined frame need to be correctly offset.
        let line = if member.original_endline.is_none()
            || member.original_endline == Some(member.original_startline)
        {
            member.original_startline
        } else {
            member.original_startline + frame.line - member.startline
        };
        let file = if let Some(file_name) = member.original_file {
            if file_name == "R8$$SyntheticClass" {
                extract_class_name(member.original_class.unwrap_or(frame.class))
            } else {
                member.original_file
            }
        } else if member.original_class.is_some() {
            // when an inlined function is from a foreign class, we
            // don’t know the file it is defined in.
            None
        } else {
            frame.file
        };
        let class = match member.original_class {
            Some(class) => class,
            _ => frame.class,
        };
        return Some(StackFrame {
            class,
            method: member.original,
            file,
            line,
            parameters: frame.parameters,
        });
    }
    None
}
}
fn main(){}
