use vstd::prelude::*;
use vstd::std_specs::iter::IteratorSpec;
verus! {
pub struct StackFrame<'s> {
    pub class: &'s str,
    pub method: &'s str,
    pub line: usize,
    pub file: Option<&'s str>,
    pub parameters: Option<&'s str>,
}
pub struct MemberMapping<'s> {
    pub startline: usize,
    pub endline: usize,
    pub original: &'s str,
}
type MemberIter<'m> = std::slice::Iter<'m, MemberMapping<'m>>;

pub struct RemappedFrameIter<'m> {
    pub inner: Option<(StackFrame<'m>, MemberIter<'m>)>,
}

#[verifier::external_body]
fn iterate_with_lines<'a>(
    frame: &mut StackFrame<'a>,
    members: &mut core::slice::Iter<'_, MemberMapping<'a>>,
) -> Option<StackFrame<'a>> { unimplemented!() }
#[verifier::external_body]
fn iterate_without_lines<'a>(
    frame: &mut StackFrame<'a>,
    members: &mut core::slice::Iter<'_, MemberMapping<'a>>,
) -> Option<StackFrame<'a>> { unimplemented!() }

impl<'m> vstd::std_specs::iter::IteratorSpecImpl for RemappedFrameIter<'m> {
    open spec fn obeys_prophetic_iter_laws(&self) -> bool { false }
    open spec fn remaining(&self) -> Seq<StackFrame<'m>> { Seq::empty() }
    open spec fn will_return_none(&self) -> bool { true }
    open spec fn decrease(&self) -> Option<nat> { None }
    open spec fn peek(&self, i: int) -> Option<StackFrame<'m>> { None }
}

impl<'m> Iterator for RemappedFrameIter<'m> {
    type Item = StackFrame<'m>;
    fn next(&mut self) -> Option<Self::Item> {
        let (frame, ref mut members) = self.inner.as_mut()?;
        if frame.parameters.is_none() {
            iterate_with_lines(frame, members)
        } else {
            iterate_without_lines(frame, members)
        }
    }
}
}
fn main(){}
