use vstd::prelude::*;
use vstd::std_specs::iter::IteratorSpec;
use std::cmp::Ordering;
verus! {

pub struct Member {
    pub obfuscated_name_offset: u32,
    pub startline: u32,
}
pub struct ProguardCache<'data> {
    pub string_bytes: &'data [u8],
}

pub open spec fn deterministic<'a, T: 'a, F: FnOnce(&'a T) -> Ordering>(f: F) -> bool {
    forall|m: &'a T, o1: Ordering, o2: Ordering| #[trigger] call_ensures(f, (m,), o1) && #[trigger] call_ensures(f, (m,), o2) ==> o1 == o2
}
pub open spec fn part_rel<'a, T: 'a, F: FnOnce(&'a T) -> Ordering>(s: Seq<T>, f: F, p: int, q: int) -> bool {
    0 <= p <= q <= s.len()
    && (forall|i: int| 0 <= i < p ==> call_ensures(f, (&#[trigger] s[i],), Ordering::Less))
    && (forall|i: int| p <= i < q ==> call_ensures(f, (&#[trigger] s[i],), Ordering::Equal))
    && (forall|i: int| q <= i < s.len() ==> call_ensures(f, (&#[trigger] s[i],), Ordering::Greater))
}

#[verifier::allow(undeclared_external_trait)]
pub assume_specification<'a, T, F> [<[T]>::binary_search_by] (s: &'a [T], f: F) -> (r: std::result::Result<usize, usize>)
    where F: std::ops::FnMut(&'a T,) -> std::cmp::Ordering,
    requires forall|i: int| 0 <= i < s@.len() ==> #[trigger] call_requires(f, (&s@[i],)),
    ensures
        match r {
            Ok(i) => i < s@.len() && call_ensures(f, (&s@[i as int],), Ordering::Equal),
            Err(i) => i <= s@.len(),
        },
        // documented contract when the slice is sorted w.r.t. the comparator
        forall|p: int, q: int| #[trigger] part_rel(s@, f, p, q) ==> (r is Err ==> p == q);

pub assume_specification [std::cmp::Ordering::is_ne] (o: std::cmp::Ordering) -> (b: bool)
    ensures b == (o != Ordering::Equal);

#[verifier::allow(undeclared_external_trait)]
pub assume_specification<T, U, F> [std::option::Option::<T>::map_or] (o: std::option::Option<T>, d: U, f: F) -> (r: U)
    where F: std::ops::FnOnce(T,) -> U + std::marker::Destruct, U: std::marker::Destruct,
    requires o is Some ==> call_requires(f, (o->0,)),
    ensures match o { Some(v) => call_ensures(f, (v,), r), None => r == d };

#[verifier::external_body]
fn shim_slice_rposition<'a, T, P: FnMut(&'a T) -> bool>(s: &'a [T], p: P) -> (r: Option<usize>)
    requires forall|i: int| 0 <= i < s@.len() ==> #[trigger] call_requires(p, (&s@[i],)),
    ensures match r {
        Some(k) => k < s@.len() && call_ensures(p, (&s@[k as int],), true)
            && forall|j: int| k < j < s@.len() ==> call_ensures(p, (& #[trigger] s@[j],), false),
        None => forall|j: int| 0 <= j < s@.len() ==> call_ensures(p, (& #[trigger] s@[j],), false),
    }
{ s.iter().rposition(p) }

#[verifier::external_body]
fn shim_slice_position<'a, T, P: FnMut(&'a T) -> bool>(s: &'a [T], p: P) -> (r: Option<usize>)
    requires forall|i: int| 0 <= i < s@.len() ==> #[trigger] call_requires(p, (&s@[i],)),
    ensures match r {
        Some(k) => k < s@.len() && call_ensures(p, (&s@[k as int],), true)
            && forall|j: int| 0 <= j < k ==> call_ensures(p, (& #[trigger] s@[j],), false),
        None => forall|j: int| 0 <= j < s@.len() ==> call_ensures(p, (& #[trigger] s@[j],), false),
    }
{ s.iter().position(p) }

impl<'data> ProguardCache<'data> {
    fn find_range_by_binary_search<F>(members: &[Member], f: F) -> (ret: Option<&[Member]>)
    where
        F: Fn(&Member) -> std::cmp::Ordering,
    requires forall|m: &Member| f.requires((m,)), deterministic(&f),
    ensures
        forall|p: int, q: int| #[trigger] part_rel(members@, &f, p, q) ==>
            (if p < q { ret is Some && ret->0@ == members@.subrange(p, q) } else { ret is None }),
    {
        // Find any member fitting the criteria by binary search.
        let mid = members.binary_search_by(&f).ok()?;
        let matches_not = |m: &Member| -> (b: bool) ensures exists|o: Ordering| call_ensures(&f, (m,), o) && b == (o != Ordering::Equal) { f(m).is_ne() };
        // Search backwards from `mid` for a member that doesn't match the
        // criteria. The one after it must be the first one that does.
        let start = shim_slice_rposition(&members[..mid], matches_not)
            .map_or(0, |idx: usize| -> (r: usize) requires idx < usize::MAX ensures r == idx + 1 { idx + 1 });

        // Search forwards from `mid` for a member that doesn't match the
        // criteria. The one before it must be the last one that does.
        let end = shim_slice_position(&members[mid..], matches_not)
            .map_or(members.len(), |idx: usize| -> (r: usize) requires idx + mid <= usize::MAX ensures r == idx + mid { idx + mid });

        proof {
            assert forall|p: int, q: int| #[trigger] part_rel(members@, &f, p, q) implies p < q && start == p && end == q by {
                let s = members@;
                let m = mid as int;
                assert(call_ensures(&f, (&s[m],), Ordering::Equal));
                if m < p { assert(call_ensures(&f, (&s[m],), Ordering::Less)); }
                if m >= q { assert(call_ensures(&f, (&s[m],), Ordering::Greater)); }
                assert(p <= m < q);
                let lo = members@.subrange(0, m);
                let hi = members@.subrange(m, s.len() as int);
                // start
                if start < p {
                    assert(lo[start as int] == s[start as int]);
                    assert(call_ensures(&f, (&s[start as int],), Ordering::Less));
                    assert(call_ensures(matches_not, (&lo[start as int],), false));
                }
                if start > p {
                    assert(lo[start - 1] == s[start - 1]);
                    assert(call_ensures(&f, (&s[start - 1],), Ordering::Equal));
                    assert(call_ensures(matches_not, (&lo[start - 1],), true));
                }
                if end < q {
                    assert(hi[end - m] == s[end as int]);
                    assert(call_ensures(&f, (&s[end as int],), Ordering::Equal));
                    assert(call_ensures(matches_not, (&hi[end - m],), true));
                }
                if end > q {
                    assert(hi[q - m] == s[q]);
                    assert(call_ensures(&f, (&s[q],), Ordering::Greater));
                    assert(call_ensures(matches_not, (&hi[q - m],), false));
                }
            }
        }
        members.get(start..end)
    }
}
}
fn main(){}
