use vstd::prelude::*;
verus! {

#[verifier::external_body]
pub const PRGCACHE_MAGIC: u32 = 0x4347_5250;
#[verifier::external_body]
pub const PRGCACHE_MAGIC_FLIPPED: u32 = 0x5052_4743;
pub const PRGCACHE_VERSION: u32 = 1;

#[repr(C)]
pub struct Header {
    pub magic: u32,
    pub version: u32,
    pub num_classes: u32,
    pub num_members: u32,
    pub num_members_by_params: u32,
    pub string_bytes: u32,
}
#[repr(C)]
pub struct Class { pub a: [u32; 7] }
#[repr(C)]
pub struct Member { pub a: [u32; 9] }

#[derive(Clone, Copy, PartialEq, Eq)]
pub enum CacheErrorKind {
    WrongEndianness,
    WrongFormat,
    WrongVersion,
    InvalidHeader,
    InvalidClasses,
    InvalidMembers,
    UnexpectedStringBytes {
        expected: usize,
        found: usize,
    },
}

pub struct CacheError {
    pub kind: CacheErrorKind,
}

impl vstd::std_specs::convert::FromSpecImpl<CacheErrorKind> for CacheError {
    open spec fn obeys_from_spec() -> bool { true }
    open spec fn from_spec(kind: CacheErrorKind) -> Self { CacheError { kind } }
}
impl From<CacheErrorKind> for CacheError {
    fn from(kind: CacheErrorKind) -> Self {
        Self { kind }
    }
}

pub struct ProguardCache<'data> {
    pub header: &'data Header,
    pub classes: &'data [Class],
    pub members: &'data [Member],
    pub members_by_params: &'data [Member],
    pub string_bytes: &'data [u8],
}

// ---------- assumed model of watto (address-dependent) ----------
pub uninterp spec fn addr(b: &[u8]) -> nat;                 // address of the first byte
pub uninterp spec fn hdr_of(b: Seq<u8>) -> Header;          // 24 bytes -> header (little endian, K1)
pub uninterp spec fn classes_of(b: Seq<u8>) -> Seq<Class>;  // 28*n bytes -> n records
pub uninterp spec fn members_of(b: Seq<u8>) -> Seq<Member>; // 36*n bytes -> n records
pub open spec fn pad8(a: nat) -> nat { ((8 - a % 8) % 8) as nat }

mod watto {
    use super::*;
    #[verifier::external_body]
    pub fn align_to(bytes: &[u8], align: usize) -> (r: Option<(&[u8], &[u8])>)
        requires align == 8,
        ensures match r {
            Some((p, rest)) => pad8(addr(bytes)) <= bytes@.len() && p@ == bytes@.subrange(0, pad8(addr(bytes)) as int)
                && rest@ == bytes@.subrange(pad8(addr(bytes)) as int, bytes@.len() as int) && addr(rest) == addr(bytes) + pad8(addr(bytes)),
            None => pad8(addr(bytes)) > bytes@.len(),
        }
    { unimplemented!() }
}
#[verifier::external_body]
fn shim_header_ref_from_prefix(bytes: &[u8]) -> (r: Option<(&Header, &[u8])>)
    ensures match r {
        Some((h, rest)) => bytes@.len() >= 24 && addr(bytes) % 4 == 0 && *h == hdr_of(bytes@.subrange(0, 24)) && rest@ == bytes@.subrange(24, bytes@.len() as int) && addr(rest) == addr(bytes) + 24,
        None => !(bytes@.len() >= 24 && addr(bytes) % 4 == 0),
    }
{ unimplemented!() }
#[verifier::external_body]
fn shim_class_slice_from_prefix(bytes: &[u8], n: usize) -> (r: Option<(&[Class], &[u8])>)
    ensures match r {
        Some((c, rest)) => bytes@.len() >= 28 * n && addr(bytes) % 4 == 0 && c@ == classes_of(bytes@.subrange(0, 28 * n)) && c@.len() == n && rest@ == bytes@.subrange(28 * n, bytes@.len() as int) && addr(rest) == addr(bytes) + 28 * n,
        None => !(bytes@.len() >= 28 * n && addr(bytes) % 4 == 0),
    }
{ unimplemented!() }
#[verifier::external_body]
fn shim_member_slice_from_prefix(bytes: &[u8], n: usize) -> (r: Option<(&[Member], &[u8])>)
    ensures match r {
        Some((c, rest)) => bytes@.len() >= 36 * n && addr(bytes) % 4 == 0 && c@ == members_of(bytes@.subrange(0, 36 * n)) && c@.len() == n && rest@ == bytes@.subrange(36 * n, bytes@.len() as int) && addr(rest) == addr(bytes) + 36 * n,
        None => !(bytes@.len() >= 36 * n && addr(bytes) % 4 == 0),
    }
{ unimplemented!() }

// ---------- the error-kind table of the property ----------
pub open spec fn header_verdict(h: Header) -> Option<CacheErrorKind> {
    if h.magic == PRGCACHE_MAGIC_FLIPPED { Some(CacheErrorKind::WrongEndianness) }
    else if h.magic != PRGCACHE_MAGIC { Some(CacheErrorKind::WrongFormat) }
    else if h.version != 1 { Some(CacheErrorKind::WrongVersion) }
    else { None }
}

impl<'data> ProguardCache<'data> {
    pub fn parse(buf: &'data [u8]) -> (ret: Result<Self, CacheError>)
        ensures
            buf@.len() < 24 ==> ret is Err && ret->Err_0.kind == CacheErrorKind::InvalidHeader,
            buf@.len() >= 24 && addr(buf) % 4 == 0 && header_verdict(hdr_of(buf@.subrange(0, 24))) is Some ==>
                ret is Err && ret->Err_0.kind == header_verdict(hdr_of(buf@.subrange(0, 24)))->0,
            ret is Ok ==> *ret->Ok_0.header == hdr_of(buf@.subrange(0, 24)) && header_verdict(*ret->Ok_0.header) is None
                && ret->Ok_0.classes@.len() == ret->Ok_0.header.num_classes
                && ret->Ok_0.members@.len() == ret->Ok_0.header.num_members
                && ret->Ok_0.members_by_params@.len() == ret->Ok_0.header.num_members_by_params
                && ret->Ok_0.string_bytes@.len() >= ret->Ok_0.header.string_bytes,
    {
        let (header, rest) = shim_header_ref_from_prefix(buf).ok_or(CacheErrorKind::InvalidHeader)?;
        if header.magic == PRGCACHE_MAGIC_FLIPPED {
            return Err(CacheErrorKind::WrongEndianness.into());
        }
        if header.magic != PRGCACHE_MAGIC {
            return Err(CacheErrorKind::WrongFormat.into());
        }
        if header.version != PRGCACHE_VERSION {
            return Err(CacheErrorKind::WrongVersion.into());
        }

        let (_, rest) = watto::align_to(rest, 8).ok_or(CacheErrorKind::InvalidClasses)?;
        let (classes, rest) = shim_class_slice_from_prefix(rest, header.num_classes as usize)
            .ok_or(CacheErrorKind::InvalidClasses)?;

        let (_, rest) = watto::align_to(rest, 8).ok_or(CacheErrorKind::InvalidMembers)?;
        let (members, rest) = shim_member_slice_from_prefix(rest, header.num_members as usize)
            .ok_or(CacheErrorKind::InvalidMembers)?;

        let (_, rest) = watto::align_to(rest, 8).ok_or(CacheErrorKind::InvalidMembers)?;
        let (members_by_params, rest) =
            shim_member_slice_from_prefix(rest, header.num_members_by_params as usize)
                .ok_or(CacheErrorKind::InvalidMembers)?;

        let (_, string_bytes) =
            watto::align_to(rest, 8).ok_or(CacheErrorKind::UnexpectedStringBytes {
                expected: header.string_bytes as usize,
                found: 0,
            })?;

        if string_bytes.len() < header.string_bytes as usize {
            return Err(CacheErrorKind::UnexpectedStringBytes {
                expected: header.string_bytes as usize,
                found: string_bytes.len(),
            }
            .into());
        }

        Ok(Self {
            header,
            classes,
            members,
            members_by_params,
            string_bytes,
        })
    }
}
}
fn main(){}
